#!/bin/bash
# Offline setup: nothing is built or fetched; verify that the interpreter, chempy's dependencies and the
# working tree of /repo are usable by the checks.
set -e
cd "$(dirname "$0")"
chmod +x check mkmanifest mutants/run_mutants.py 2>/dev/null || true
mkdir -p evidence replays
PYTHONPATH="/repo:$PWD" PYTHONDONTWRITEBYTECODE=1 /venv/bin/python - <<'PY'
import sys
sys.path.insert(0, "/repo")
from mc import env
env.setup()
import jsonschema, sympy, numpy, scipy, quantities, pyodesys, pyneqsys, pulp, mpmath, pyparsing  # noqa
print("setup ok: python %s, chempy from %s" % (sys.version.split()[0], env.REPO))
PY

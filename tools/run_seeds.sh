#!/bin/bash
# usage: tools/run_seeds.sh C15 C11 ...   (evaluates /tmp/seedwork_<ID>/change_i.diff + demo_i.py written by a seeding agent working in /tmp/seed_<ID>)
for id in "$@"; do
  for i in 1 2 3; do
    f=/tmp/seedwork_$id/change_$i.diff
    [ -f "$f" ] || continue
    echo "=== $id change_$i"
    SEED_WT=/tmp/seed_$id VERIF_WORKERS=${VERIF_WORKERS:-8} /verif/tools/try_seed.sh $f /tmp/seedwork_$id/demo_$i.py $id 2>&1 | grep -v conda
  done
done

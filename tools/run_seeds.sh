#!/bin/bash
# usage: [ROUND=2] [ONLY="2 3"] [ALSO="C03 C13"] tools/run_seeds.sh C15 C11 ...
# evaluates /tmp/seedwork<ROUND>_<ID>/change_i.diff + demo_i.py written by a seeding agent working in /tmp/seed<ROUND>_<ID>
R="${ROUND:-}"
for id in "$@"; do
  for i in ${ONLY:-1 2 3 4 5}; do
    f=/tmp/seedwork${R}_$id/change_$i.diff
    [ -f "$f" ] || continue
    echo "=== $id change_$i"
    SEED_WT=/tmp/seed${R}_$id VERIF_WORKERS=${VERIF_WORKERS:-8} "$(dirname "$0")/try_seed.sh" $f /tmp/seedwork${R}_$id/demo_$i.py $id $ALSO 2>&1 | grep -v conda
  done
done

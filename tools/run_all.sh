#!/bin/bash
# tools/run_all.sh [tier] [seeds...]  — every enabled check, one after the other; prints one summary line per run
tier="${1:-quick}"; shift; seeds="${@:-0}"
cd "$(dirname "$0")/.."
for s in $seeds; do
  for id in $(cat mc/enabled.txt); do
    out=$(VERIF_SEED=$s VERIF_QUIET=1 ./check $id --tier $tier 2>/dev/null | grep -v "^KNOWN-FINDING")
    rc=$?
    echo "seed=$s $(echo "$out" | grep "tier=" | cut -c1-160) :: $(echo "$out" | tail -1 | cut -c1-120)"
  done
done

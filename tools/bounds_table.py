#!/venv/bin/python
"""Maintenance aid: print the as-built size table (markdown) from evidence/*.json, for DESIGN.md §9.5."""
import json, glob, os
V = os.path.dirname(os.path.dirname(os.path.abspath(__file__)))
print("| property | tier | states | transitions | oracle evaluations | non-trivial | distinct outcomes | chunks (fresh processes) | hash seeds | CPU s |")
print("|---|---|---|---|---|---|---|---|---|---|")
for f in sorted(glob.glob(os.path.join(V, "evidence", "C*.json"))):
    d = json.load(open(f)); c = d["coverage"]
    print("| %s | %s | %d | %d | %d | %d | %d | %d | %s | %.0f |" % (d["property_id"], d["tier"], c.get("states", 0), c.get("transitions", 0), c.get("evaluations", c.get("oracle_evaluations", 0)),
          c.get("distinct_nontrivial", 0), c.get("distinct_outcomes", 0), c.get("chunks", 0), c.get("hashseeds"), c.get("cpu_s", 0)))

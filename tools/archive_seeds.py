#!/venv/bin/python
"""Maintenance aid (never run by a check): archive the changes of a seeding round as /verif/seeded/<ID>-r<round>-<i>/.

usage: tools/archive_seeds.py <round> <first-run log> [<re-run log> ...] [--notes notes.json]

The logs are outputs of tools/run_seeds.sh ("=== C03 change_2" / "demo on original: exit 0" / "demo with change: exit 1" /
"stable_pass=510 now_passing=510 ..." / "C03: DETECTED (...) key | what" or "C03: MISSED ...").  The first log gives the
result with the check as it stood; later logs (after strengthening) override the final result.  notes.json maps
"C03-2" -> text describing what was added to the check.  A change is archived only if its demonstration exits 0 without and
non-zero with the change and the pinned suite still passes with it."""
import json, os, re, shutil, sys

args = [a for a in sys.argv[1:] if not a.startswith("--")]
rnd = int(args[0])
logs = args[1:]
notes = {}
if "--notes" in sys.argv:
    notes = json.load(open(sys.argv[sys.argv.index("--notes") + 1]))
V = os.path.dirname(os.path.dirname(os.path.abspath(__file__)))


KINDS = {
    3: "(i) in an anchored file other than the first or a helper, (ii) a boundary change, (iii) an ordering-dependent change, (iv) an alternative entry point / rarely used keyword",
    4: "(i) an interaction of two features, (ii) an error path, (iii) a numeric edge, (iv) state leaking between calls or objects",
    5: "(i) a path reached only through a subclass / sibling class / wrapper, (ii) scale, (iii) type variants of valid inputs, (iv) composition of two public functions",
    8: "THREE changes, the same kinds as round 7 (library idiom / refactoring slip / small feature addition), on the ten properties round 7 left out",
    7: "THREE changes, one each of: (i) a library idiom that silently does something else (zip truncation, any/all/sum over the wrong container, dict ordering, numpy views, `a or b`), (ii) a refactoring slip (swapped / forgotten argument at one call site, shadowed loop variable, early return), (iii) a small feature addition changing a corner of existing behaviour",
    6: "(i) a default (optional argument / table entry / class default), (ii) precision (rounding, absolute vs relative tolerance), (iii) text or argument spelling, (iv) Python protocols (==, hash, copy, truthiness, iterators, user subclasses, non-dict mappings)",
}


def parse(path):
    out, cur = {}, None
    for line in open(path, errors="replace"):
        line = line.rstrip("\n")
        m = re.match(r"=== (C\d\d) change_(\d)", line)
        if m:
            cur = out.setdefault((m.group(1), int(m.group(2))), dict(results={}))
            continue
        if cur is None:
            continue
        if line.startswith("demo on original: exit"):
            cur["d0"] = int(line.split()[-1])
        elif line.startswith("demo with change: exit"):
            cur["d1"] = int(line.split()[-1])
        elif line.startswith("stable_pass="):
            cur["suite"] = line.strip()
        else:
            m = re.match(r"(C\d\d): (DETECTED|MISSED)(.*)", line)
            if m:
                cur["results"][m.group(1)] = (m.group(2), m.group(3).strip())
    return out


first = parse(logs[0])
final = dict(first)
for p in logs[1:]:
    for k, v in parse(p).items():
        if k in final:
            merged = dict(final[k])
            merged["results"] = dict(final[k]["results"], **v["results"])
            for f in ("d0", "d1", "suite"):
                if f in v:
                    merged[f] = v[f]
            final[k] = merged
        else:
            final[k] = v
            first.setdefault(k, v)
n = 0
for (pid, i), fin in sorted(final.items()):
    work = "/tmp/seedwork%d_%s" % (rnd, pid)
    tag = "%s-r%d-%d" % (pid, rnd, i)
    ok_demo = fin.get("d0") == 0 and fin.get("d1", 0) != 0
    ok_suite = "missing=0" in fin.get("suite", "") and "stable_pass=510 now_passing=510" in fin.get("suite", "")
    if not (ok_demo and ok_suite):
        print("%s: NOT archived (demo %r/%r, suite %r)" % (tag, fin.get("d0"), fin.get("d1"), fin.get("suite")))
        continue
    fr = first[(pid, i)]["results"]
    own_first = fr.get(pid, ("?", ""))[0]
    det = {c: r for c, r in fin["results"].items() if r[0] == "DETECTED"}
    d = os.path.join(V, "seeded", tag)
    os.makedirs(d, exist_ok=True)
    shutil.copy(os.path.join(work, "change_%d.diff" % i), os.path.join(d, "patch.diff"))
    shutil.copy(os.path.join(work, "demo_%d.py" % i), os.path.join(d, "demo.py"))
    needs = open(os.path.join(work, "notes_%d.txt" % i), errors="replace").read().strip() if os.path.exists(os.path.join(work, "notes_%d.txt" % i)) else ""
    by = pid if pid in det else (sorted(det)[0] if det else None)
    meta = dict(
        property=pid, round=rnd,
        origin="independent sub-agent given only the property text and a scratch worktree of /repo HEAD; asked for " + ("" if rnd in (7, 8) else "four changes, each breaking a different clause: ") + KINDS.get(rnd, KINDS[3]),
        needs_to_manifest=needs,
        confirmed=dict(how="tools/try_seed.sh (scratch worktree of /repo HEAD): demo exits 0 without and non-zero with the change; tools/baseline_check.py: 510/510 pinned tests still pass with the change",
                       demo_without_change=fin["d0"], demo_with_change=fin["d1"], suite="510 stable_pass tests pass"),
        quick_check_result="DETECTED" if det else "MISSED",
        detected_by=sorted(det),
        first_run="detected as the check stood" if own_first == "DETECTED" else "missed at first",
        strengthening=notes.get("%s-%d" % (pid, i), "" if own_first == "DETECTED" else "(see DESIGN.md §9.4)"),
        violation_key=(det[by][1].split(")", 1)[-1].split(" | ")[0].strip() if by else None),
        command="tools/try_seed.sh seeded/%s/patch.diff seeded/%s/demo.py %s" % (tag, tag, " ".join(sorted(det) or [pid])),
    )
    json.dump(meta, open(os.path.join(d, "meta.json"), "w"), indent=1)
    n += 1
    print("%s: archived, first=%s final=%s by=%s" % (tag, own_first, "DETECTED" if det else "MISSED", sorted(det)))
print("archived", n)

#!/venv/bin/python
"""Maintenance aid: regenerate the detection table of DESIGN.md §9.4 from seeded/*/meta.json (in place, between the markers
'| seeded change |' and the first following line that is not a table row) and print the summary counts."""
import json, glob, os, re
V = os.path.dirname(os.path.dirname(os.path.abspath(__file__)))
rows, counts = [], dict(total=0, asstood=0, missed=0, harness=0, undetected=0)
def keyf(p):
    n = os.path.basename(os.path.dirname(p)); m = re.match(r"(C\d\d)(?:-r(\d))?-(\d)", n); return (m.group(1), int(m.group(2) or 1), int(m.group(3)))
for f in sorted(glob.glob(os.path.join(V, "seeded", "*", "meta.json")), key=keyf):
    m = json.load(open(f)); tag = os.path.basename(os.path.dirname(f))
    counts["total"] += 1
    fr = m.get("first_run", "")
    if m.get("quick_check_result") != "DETECTED": counts["undetected"] += 1
    if fr.startswith("detected"): counts["asstood"] += 1; add = "— (detected by the check as it stood)"
    else:
        if "harness" in fr.lower() or "HARNESS" in (m.get("strengthening") or ""): counts["harness"] += 1
        else: counts["missed"] += 1
        add = (m.get("strengthening") or "").replace("\n", " ")
    by = m.get("detected_by") or [m["property"]]
    key = (m.get("violation_key") or "").replace("|", "\\|")
    rows.append("| %s | `%s`%s | %s |" % (tag, key, "" if by == [m["property"]] else " (by %s)" % ", ".join(by), add.replace("|", "\\|")))
p = os.path.join(V, "DESIGN.md"); lines = open(p).read().split("\n")
i = next(k for k, l in enumerate(lines) if l.startswith("| seeded change |"))
j = i + 2
while j < len(lines) and lines[j].startswith("|"): j += 1
lines[i + 2:j] = rows
open(p, "w").write("\n".join(lines))
print(counts)

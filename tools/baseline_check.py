#!/venv/bin/python
"""Run /repo's pinned test-suite and compare the set of passing tests with /root/.vp/BASELINE.json (stable_pass).
usage: tools/baseline_check.py [repo_dir]   exit 0 iff every stable_pass test still passes."""
import json, os, subprocess, sys, tempfile
import xml.etree.ElementTree as ET
repo = sys.argv[1] if len(sys.argv) > 1 else "/repo"
base = json.load(open("/root/.vp/BASELINE.json"))
fd, x = tempfile.mkstemp(suffix=".xml"); os.close(fd)
env = dict(os.environ, PYTHONDONTWRITEBYTECODE="1")
env.pop("PYTHONPATH", None)
subprocess.run(["/venv/bin/python", "-m", "pytest", "-ra", "-q", "-p", "no:cacheprovider", "--timeout=900",
                "--continue-on-collection-errors", "--junitxml=" + x], cwd=repo, env=env, capture_output=True, text=True)
passed = set()
for tc in ET.parse(x).getroot().iter("testcase"):
    if not any(ch.tag in ("failure", "error", "skipped") for ch in tc):
        passed.add("%s::%s" % (tc.get("classname"), tc.get("name")))
os.unlink(x)
want = set(base["stable_pass"])
missing = sorted(want - passed)
print("stable_pass=%d now_passing=%d missing=%d extra=%d" % (len(want), len(passed), len(missing), len(passed - want)))
for m in missing[:20]: print("  NO LONGER PASSING:", m)
sys.exit(1 if missing else 0)

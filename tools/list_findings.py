#!/venv/bin/python
"""Maintenance aid (never run by a check): run one check in a scratch output directory and list every violation key it
reports, optionally appending those that match --add-prefix to known_findings.json as findings (to be reviewed and
committed by hand).   usage: tools/list_findings.py C02 [--tier quick] [--add-prefix 'C02|mode=True|infeasible|infeasible-but-returned-parametric|' --what '...']"""
import argparse, json, os, subprocess, tempfile, shutil
ap = argparse.ArgumentParser(); ap.add_argument("pid"); ap.add_argument("--tier", default="quick"); ap.add_argument("--add-prefix"); ap.add_argument("--what", default="")
a = ap.parse_args()
V = os.path.dirname(os.path.dirname(os.path.abspath(__file__)))
d = tempfile.mkdtemp(prefix="findings_")
dump = os.path.join(d, "dump.json")
r = subprocess.run([os.path.join(V, "check"), a.pid, "--tier", a.tier], env=dict(os.environ, VERIF_OUT=d, VERIF_DUMP=dump, VERIF_QUIET="1"), capture_output=True, text=True)
print(r.stdout.splitlines()[0] if r.stdout else r.stderr[-500:])
vs = json.load(open(dump))
keys = {}
for v in vs: keys.setdefault(v["key"], v)
print("%d distinct keys (%d already known)" % (len(keys), sum(1 for v in keys.values() if v["known"])))
if a.add_prefix:
    kf = json.load(open(os.path.join(V, "known_findings.json")))
    have = {f["key"] for f in kf["findings"]}
    n = 0
    for k, v in sorted(keys.items()):
        if k.startswith(a.add_prefix) and k not in have:
            kf["findings"].append(dict(property=a.pid, key=k, what=(a.what + " " if a.what else "") + v["what"][:300])); n += 1
    json.dump(kf, open(os.path.join(V, "known_findings.json"), "w"), indent=1)
    print("added %d findings" % n)
else:
    for k, v in sorted(keys.items(), key=lambda kv: kv[1]["known"])[:60]: print(("known " if v["known"] else "NEW   ") + k + ("" if v["known"] else "\n        " + v["what"][:600]))
shutil.rmtree(d)

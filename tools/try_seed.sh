#!/bin/bash
# tools/try_seed.sh <patch.diff> <demo.py|-> <ID> [<ID>...]
# Confirm a seeded change in a scratch worktree of /repo HEAD: (1) the demonstration passes without and fails with the
# change, (2) the pinned test-suite still passes with it, (3) run the quick checks of the given properties against it.
patch="$(readlink -f "$1")"; demo="$2"; shift 2
d="$(mktemp -d /tmp/tryseed_XXXX)"
git -C /repo worktree add -q --detach "$d/w" HEAD || exit 2
cleanup() { git -C /repo worktree remove --force "$d/w" 2>/dev/null; rm -rf "$d"; }
trap cleanup EXIT
# demonstrations written by a seeding agent assert that chempy is imported from *their* worktree: run them there
# (SEED_WT=<that worktree>, clean before and after); otherwise in the scratch worktree
dw="${SEED_WT:-$d/w}"
if [ "$demo" != "-" ]; then
  demo="$(readlink -f "$demo")"
  git -C "$dw" checkout -q -- . 2>/dev/null
  (cd "$dw" && PYTHONPATH="$dw" PYTHONDONTWRITEBYTECODE=1 /venv/bin/python "$demo" >/dev/null 2>&1); echo "demo on original: exit $?"
fi
git -C "$d/w" apply "$patch" || { echo "PATCH DOES NOT APPLY"; exit 2; }
if [ "$demo" != "-" ]; then
  [ "$dw" != "$d/w" ] && git -C "$dw" apply "$patch"
  (cd "$dw" && PYTHONPATH="$dw" PYTHONDONTWRITEBYTECODE=1 /venv/bin/python "$demo" >/dev/null 2>&1); echo "demo with change: exit $?"
  [ "$dw" != "$d/w" ] && git -C "$dw" checkout -q -- .
fi
if [ -z "$SKIP_SUITE" ]; then "$(dirname "$0")/baseline_check.py" "$d/w" 2>&1 | grep -v conda; fi
for id in "$@"; do
  out=$(VERIF_REPO="$d/w" VERIF_OUT="$d/out" VERIF_QUIET=1 "$(dirname "$0")/../check" "$id" 2>/dev/null | grep -v KNOWN-FINDING)
  rc=$?
  nv=$(echo "$out" | grep -c '^VIOLATION')
  first=$(echo "$out" | grep '^VIOLATION' | head -1 | sed 's/.*replay=//')
  what=""
  [ -n "$first" ] && what=$(/venv/bin/python -c "import json,sys; r=json.load(open(sys.argv[1])); print(r['key'],'|',r['what'][:220])" "$first" 2>/dev/null)
  if [ "$nv" -gt 0 ]; then echo "$id: DETECTED ($nv VIOLATION lines) $what"; else echo "$id: MISSED  $(echo "$out" | tail -1)"; fi
done

#!/bin/bash
# tools/check_at.sh <commit> <ID> [check args]  — run a check against a scratch worktree of /repo at <commit>
# (e.g. the pinned snapshot 92f41a8, to show that a since-repaired defect is still detected there)
c="$1"; shift
d="$(mktemp -d /tmp/at_${c}_XXXX)"
git -C /repo worktree add -q --detach "$d/w" "$c" || exit 2
VERIF_REPO="$d/w" VERIF_OUT="$d/out" "$(dirname "$0")/../check" "$@"; rc=$?
for f in "$d"/out/replays/*/*.json; do [ -f "$f" ] && /venv/bin/python -c "import json,sys; r=json.load(open(sys.argv[1])); print('   ', r['key'], '|', r['what'][:200])" "$f" 2>/dev/null; done | sort | uniq | head -${SHOW:-12}
git -C /repo worktree remove --force "$d/w"; rm -rf "$d"
exit $rc

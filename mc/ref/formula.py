"""Reference model of chempy's formula notation: a cost-bounded grammar, the composition read off the
derivation tree, and the three presentation mappings (LaTeX / Unicode / HTML) with their inverses.

Written from the *statement* of C01/C13 (and the documented BNF), not from the parser code:

    compound := [prefix] part (hyd [int] part){0,2} [prime] [charge] [suffix]        (one separator spelling per formula)
    part     := term+
    term     := (El | '(' part ')' | '[' part ']' | '{' part '}') [count]

A derivation state is the tuple (core, hyd, chg, pre, suf, pr):
    core : part                     part = tuple of terms
    term : ('el', sym, count) | ('gr', 'xy' bracket pair, part, count)      count is a string ('' = absent)
    hyd  : None | (sep, mult, part) | ((sep, mult, part), (sep, mult, part))    [two hydrate parts]
cost   : element 1, non-empty count 1, group 1, hydrate 1 (+1 for a multiplier), each decoration 1.
"""
import itertools
from fractions import Fraction as Fr
from functools import lru_cache

SYMBOLS = (
    "H He Li Be B C N O F Ne Na Mg Al Si P S Cl Ar K Ca Sc Ti V Cr Mn Fe Co Ni Cu Zn Ga Ge As Se Br Kr "
    "Rb Sr Y Zr Nb Mo Tc Ru Rh Pd Ag Cd In Sn Sb Te I Xe Cs Ba La Ce Pr Nd Pm Sm Eu Gd Tb Dy Ho Er Tm Yb Lu "
    "Hf Ta W Re Os Ir Pt Au Hg Tl Pb Bi Po At Rn Fr Ra Ac Th Pa U Np Pu Am Cm Bk Cf Es Fm Md No Lr "
    "Rf Db Sg Bh Hs Mt Ds Rg Cn Nh Fl Mc Lv Ts Og"
).split()
assert len(SYMBOLS) == 118 and len(set(SYMBOLS)) == 118
Z = {s: i + 1 for i, s in enumerate(SYMBOLS)}

GREEK = (
    "alpha beta gamma delta epsilon zeta eta theta iota kappa lambda mu nu xi omicron pi rho sigma tau "
    "upsilon phi chi psi omega"
).split()
GREEK_U = "αβγδεζηθικλμνξοπρστυφχψω"

EL = ["H", "C", "O", "Co", "Na"]
CNT = ["2", "10", "1.5"]
BR = ["()", "[]", "{}"]
CHG = ["+", "-", "+2", "-3", "+10", "-12"]
PRE = [".", "alpha-"]
SUF = ["(s)", "(l)", "(g)", "(aq)"]
PRIME = ["*", "'", "''"]
HYD = ["..", "·"]
HK = ["7", "10"]


@lru_cache(None)
def parts(n):
    """all parts of exact cost n (memoised; use iter_parts for the top level)"""
    if n == 0:
        return ((),)
    out = []
    for c in range(1, n + 1):
        for t in terms(c):
            for rest in parts(n - c):
                out.append((t,) + rest)
    return tuple(out)


@lru_cache(None)
def terms(c):
    out = []
    if c == 1:
        out += [("el", e, "") for e in EL]
    if c == 2:
        out += [("el", e, k) for e in EL for k in CNT]
    if c >= 2:
        for b in BR:
            for p in parts(c - 1):
                if p:
                    out.append(("gr", b, p, ""))
    if c >= 3:
        for b in BR:
            for p in parts(c - 2):
                if p:
                    for k in CNT:
                        out.append(("gr", b, p, k))
    return tuple(out)


def iter_parts(n, j=0, J=1):
    """lazily: the parts of exact cost n whose index in the canonical enumeration is ≡ j (mod J)"""
    off = 0
    for c in range(1, n + 1):
        ts = terms(c)
        rests = parts(n - c)
        nr = len(rests)
        size = len(ts) * nr
        g = off + ((j - off) % J)
        while g < off + size:
            ti, ri = divmod(g - off, nr)
            yield (ts[ti],) + rests[ri]
            g += J
        off += size


def hyd_parts(h):
    """the hydrate parts of a state as a tuple of (sep, mult, part) triples"""
    if not h:
        return ()
    return (h,) if isinstance(h[0], str) else tuple(h)


def s_part(p):
    return "".join(s_term(t) for t in p)


def s_term(t):
    if t[0] == "el":
        return t[1] + t[2]
    return t[1][0] + s_part(t[2]) + t[1][1] + t[3]


def comp_part(p, mult, acc):
    for t in p:
        k = Fr(t[-1]) if t[-1] else Fr(1)
        if t[0] == "el":
            z = Z[t[1]]
            acc[z] = acc.get(z, 0) + mult * k
        else:
            comp_part(t[2], mult * k, acc)


def depth(p):
    return max([0] + [1 + depth(t[2]) for t in p if t[0] == "gr"])


def charge_value(chg):
    mag = chg[1:] or "1"
    return int(mag) * (1 if chg[0] == "+" else -1)


def string_of(state):
    core, h, chg, pre, suf, pr = state
    s = (pre or "") + s_part(core)
    for hp in hyd_parts(h):
        s += hp[0] + hp[1] + s_part(hp[2])
    return s + (pr or "") + (chg or "") + (suf or "")


def composition_of(state):
    """{atomic number: count} with key 0 present iff a charge token was derived; ints where integral"""
    core, h, chg, pre, suf, pr = state
    acc = {}
    comp_part(core, Fr(1), acc)
    for hp in hyd_parts(h):
        comp_part(hp[2], Fr(hp[1]) if hp[1] else Fr(1), acc)
    ref = {z: (int(v) if v.denominator == 1 else float(v)) for z, v in acc.items()}
    if chg:
        ref[0] = charge_value(chg)
    return ref


def cost_of(state):
    core, h, chg, pre, suf, pr = state

    def cp(p):
        return sum((1 + (1 if t[-1] else 0)) if t[0] == "el" else (1 + cp(t[2]) + (1 if t[-1] else 0)) for t in p)

    c = cp(core)
    for hp in hyd_parts(h):
        c += 1 + (1 if hp[1] else 0) + cp(hp[2])
    return c + sum(1 for x in (chg, pre, suf, pr) if x)


def states(N, a, j=0, J=1):
    """every derivation state of total cost ≤ N whose core has exact cost a (core first-term index ≡ j mod J)"""
    for core in iter_parts(a, j, J):
        hopts = [(0, None)]
        for b in range(1, N - a):
            for hp in parts(b):
                for hs in HYD:
                    hopts.append((1 + b, (hs, "", hp)))
                    if 2 + b + a <= N:
                        for hk in HK:
                            hopts.append((2 + b, (hs, hk, hp)))
        # two hydrate parts (same separator spelling), e.g. MgCl2..6H2O..KCl: the second part's multiplier is its own
        single = [(hc, h) for hc, h in hopts if h is not None]
        for hc1, h1 in single:
            for hc2, h2 in single:
                if hc1 + hc2 + a <= N and h1[0] == h2[0]:
                    hopts.append((hc1 + hc2, (h1, h2)))
        for hc, h in hopts:
            rem = N - a - hc
            if rem < 0:
                continue
            for nd in range(0, min(4, rem) + 1):
                for which in itertools.combinations(range(4), nd):
                    lists = [CHG, PRE, SUF, PRIME]
                    choices = [lists[i] if i in which else [None] for i in range(4)]
                    for chg, pre, suf, pr in itertools.product(*choices):
                        yield (core, h, chg, pre, suf, pr)


def multi_hydrate_states():
    """two and three hydrate parts, every combination of absent/present multipliers (the notation's "hydrate parts with
    leading counts"): core of cost ≤ 2, each hydrate part a single element, multipliers {∅, 7, 10}, both separators"""
    for n in (1, 2):
        for core in parts(n):
            for sep in HYD:
                for nh in (2, 3):
                    if nh == 3 and n == 2:
                        continue
                    for els in itertools.product(EL[:3] if nh == 3 else EL, repeat=nh):
                        for mults in itertools.product(["", "7", "10"], repeat=nh):
                            h = tuple((sep, m, (("el", e, ""),)) for e, m in zip(els, mults))
                            yield (core, h, None, None, None, None)
    # and with decorations around a fixed body
    for chg in CHG[:4]:
        for suf in SUF[:2]:
            yield ((("el", "Na", "2"), ("el", "C", ""), ("el", "O", "1.5")), (("..", "7", (("el", "H", "2"), ("el", "O", ""))), ("..", "", (("el", "Co", ""),))), chg, None, suf, None)


def numeral_states():
    """every digit in every numeric position: subscripts 2..120 and all one-decimal forms d.d, charges ±1..±30,
    hydrate multipliers 2..30 (so that each digit glyph 0-9 occurs as a subscript and as a superscript)"""
    cnts = [str(n) for n in range(2, 121)] + ["%d.%d" % (a, b) for a in range(0, 10) for b in range(1, 10)] + ["12.25", "0.125"]
    # decimal counts next to whole numbers and next to zero: read as written, never rounded
    cnts += ["0.9995", "0.999", "1.0001", "1.001", "2.0004", "3.9999", "0.0004", "0.001", "10.0005"]
    cnts += ["0.00000025", "0.9999996", "1.0000004", "3.00000075"]  # seven and more decimals
    for el in ("H", "Co"):
        for k in cnts:
            yield ((("el", el, k),), None, None, None, None, None)
            yield ((("gr", "()", (("el", el, ""), ("el", "O", "2")), k),), None, None, None, None, None)
    # long decimal subscripts inside a multiplied group (mineral formulas): the multiplier applies to the exact count
    for k1, k2 in (("0.9375", "0.0625"), ("2.8125", "0.6875"), ("0.0625", "1.4375")):  # dyadic, so every product is exact in floats
        for gk in ("", "2", "1.5", "6"):
            for br in BR:
                yield ((("gr", br, (("el", "Mg", k1), ("el", "Fe", k2)), gk), ("el", "Si", ""), ("el", "O", "4")), None, None, None, None, None)
    for q in range(1, 31):
        for sign in "+-":
            chg = sign + (str(q) if q > 1 else "")
            yield ((("el", "Fe", ""),), None, chg, None, None, None)
            yield ((("el", "Fe", ""), ("el", "O", "4")), None, sign + str(q), None, "(aq)", None)
    for m in range(2, 31):
        for sep in HYD:
            yield ((("el", "Na", "2"), ("el", "S", "")), (sep, str(m), (("el", "H", "2"), ("el", "O", ""))), None, None, None, None)


# ------------------------------------------------------------------------------------------ presentation
def _usub(x):
    return "".join("₀₁₂₃₄₅₆₇₈₉"[int(ch)] if ch != "." else "." for ch in x)


def _usup(x):
    return "".join({"+": "⁺", "-": "⁻"}.get(ch) or "⁰¹²³⁴⁵⁶⁷⁸⁹"[int(ch)] for ch in x)


SUB = {"latex": lambda x: "_{%s}" % x, "html": lambda x: "<sub>%s</sub>" % x, "unicode": _usub}
SUP = {"latex": lambda x: "^{%s}" % x, "html": lambda x: "<sup>%s</sup>" % x, "unicode": _usup}
INFIX = {"latex": "\\cdot ", "unicode": "·", "html": "&sdot;"}


def prefix_render(pre, fmt):
    if pre == ".":
        return {"latex": "^\\bullet ", "unicode": "⋅", "html": "&sdot;"}[fmt]
    name = pre[:-1]
    if fmt == "latex":
        return {"epsilon": "\\varepsilon-", "omicron": "o-"}.get(name, "\\" + name + "-")
    if fmt == "unicode":
        return GREEK_U[GREEK.index(name)] + "-"
    return "&" + name + ";-"


def r_part(p, fmt):
    return "".join(r_term(t, fmt) for t in p)


def r_term(t, fmt):
    k = SUB[fmt](t[-1]) if t[-1] else ""
    if t[0] == "el":
        return t[1] + k
    o, c = t[1]
    if fmt == "latex" and o == "{":
        o, c = "\\{", "\\}"
    return o + r_part(t[2], fmt) + c + k


def render(state, fmt):
    core, h, chg, pre, suf, pr = state
    r = (prefix_render(pre, fmt) if pre else "") + r_part(core, fmt)
    for hp in hyd_parts(h):
        r += INFIX[fmt] + (hp[1] if hp[1] not in ("", "1") else "") + r_part(hp[2], fmt)
    r += pr or ""
    if chg:
        mag = chg[1:]
        mag = "" if mag in ("", "1") else mag
        r += SUP[fmt](mag + chg[0])
    return r + (suf or "")


# inverse of the presentation mapping: rendered text -> a formula string in the input notation
_USUB_INV = {c: str(i) for i, c in enumerate("₀₁₂₃₄₅₆₇₈₉")}
_USUP_INV = {c: str(i) for i, c in enumerate("⁰¹²³⁴⁵⁶⁷⁸⁹")}
_USUP_INV.update({"⁺": "+", "⁻": "-"})


def unrender(text, fmt):
    """undo exactly the presentation mapping of the statement (subscripts, superscript charge
    'magnitude then sign', hydrate separator, radical dot, greek prefixes, LaTeX brace escapes)"""
    import re

    s = text
    pre = ""
    if fmt == "latex":
        if s.startswith("^\\bullet "):
            pre, s = ".", s[len("^\\bullet "):]
        else:
            m = re.match(r"\\(var)?([a-z]+)-", s)
            if m:
                pre, s = m.group(2) + "-", s[m.end():]
            elif s.startswith("o-"):
                pre, s = "omicron-", s[2:]
        s = s.replace("\\cdot ", "..")
        s = re.sub(r"_\{([0-9.]+)\}", r"\1", s)
        s = re.sub(r"\^\{([0-9]*)([+-])\}", lambda m: m.group(2) + m.group(1), s)
        s = s.replace("\\{", "{").replace("\\}", "}")
    elif fmt == "html":
        if s.startswith("&sdot;"):
            pre, s = ".", s[len("&sdot;"):]
        else:
            m = re.match(r"&([a-z]+);-", s)
            if m:
                pre, s = m.group(1) + "-", s[m.end():]
        s = s.replace("&sdot;", "..")
        s = re.sub(r"<sub>([0-9.]+)</sub>", r"\1", s)
        s = re.sub(r"<sup>([0-9]*)([+-])</sup>", lambda m: m.group(2) + m.group(1), s)
    else:
        if s.startswith("⋅"):
            pre, s = ".", s[1:]
        elif len(s) > 1 and s[0] in GREEK_U and s[1] == "-":
            pre, s = GREEK[GREEK_U.index(s[0])] + "-", s[2:]
        # a multiplier after the hydrate dot is an ordinary digit; subscripts are subscript digits ('.' inside
        # a subscript number stays '.'), so map digit glyphs only
        s = "".join(_USUB_INV.get(ch, ch) for ch in s)
        m = re.search(r"([⁰¹²³⁴⁵⁶⁷⁸⁹]*)([⁺⁻])", s)
        if m:
            mag = "".join(_USUP_INV[c] for c in m.group(1))
            s = s[: m.start()] + _USUP_INV[m.group(2)] + mag + s[m.end():]
    return pre + s

"""Reference model for C16: the *defining formulas* of the rate-constant / rate-expression classes, an evaluator for
arithmetic expression trees over them, and a dimension algebra that says which trees are dimensionally consistent.

Everything is plain double arithmetic on the enumerated tuple; next to each value a running bound on the rounding
error of *any* reasonable double evaluation of the same formula is propagated, so that the comparison tolerance is fixed
by the expression itself (no adaptive fudge): |observed - value| <= SLACK * err.

Constants: chempy's unit-less code path documents CODATA-2006 values (R = 8.314472 J/(K mol); kB = 1.3806504e-23 J/K,
h = 6.62606896e-34 J s); the path that is handed a constants object uses that object's values.  The reference takes the
gas constant etc. *as an input* (the one of the code path under test), exactly like T.
"""
import math

EPS = 2.0 ** -52
SLACK = 64.0
R_2006 = 8.314472
KB_2006 = 1.3806504e-23
H_2006 = 6.62606896e-34
BIG = 1e150


class OutOfRange(Exception):
    """the expression leaves the range where every backend has a finite real value (not a verdict; the state is skipped)"""


def _chk(v):
    if v != v or abs(v) > BIG or (v != 0 and abs(v) < 1 / BIG):
        raise OutOfRange()
    return v


# ------------------------------------------------------------------------------------------- defining formulas
# each returns (value, err) with err an absolute rounding-error bound
def f_exp(x, ex=0.0):
    if abs(x) > 300:
        raise OutOfRange()
    v = math.exp(x)
    return _chk(v), v * (ex + EPS * (2 + abs(x)))


def arrhenius(A, Ea_over_R, T):
    """A exp(-Ea/(R T)) with Ea/R given"""
    x = -Ea_over_R / T
    e, ee = f_exp(x, 2 * EPS * abs(x))
    return _chk(A * e), abs(A) * ee + EPS * abs(A * e)


def arrhenius_R(A, Ea, T, R):
    return arrhenius(A, Ea / R, T)


def eyring(c0, c1, T, conc0=1.0, order=1):
    """c0 T exp(-c1/T) conc0^(1-order)   (c0 = kB/h exp(dS/R), c1 = dH/R)"""
    x = -c1 / T
    e, ee = f_exp(x, 2 * EPS * abs(x))
    s = conc0 ** (1 - order)
    v = c0 * T * e * s
    return _chk(v), abs(c0 * T * s) * ee + 6 * EPS * abs(v)


def eyring_hs(dH, dS, T, R, kB, h, c0=1.0, order=1):
    """(kB T / h) exp(dS/R) exp(-dH/(R T)) c0^(1-order)"""
    x1, x2 = dS / R, -dH / (R * T)
    e, ee = f_exp(x1 + x2, 3 * EPS * (abs(x1) + abs(x2)))
    s = c0 ** (1 - order)
    pre = kB / h * T * s
    return _chk(pre * e), abs(pre) * ee + 8 * EPS * abs(pre * e)


def poly(coeffs, x):
    """sum_i coeffs[i] * x^i"""
    v, mag = 0.0, 0.0
    for i, c in enumerate(coeffs):
        t = c * x ** i
        v += t
        mag += abs(t) * (i + 2)
    return _chk(v), 2 * EPS * mag


def tpoly(coeffs, T):
    return poly(coeffs, T)


def rtpoly(coeffs, T):
    if T == 0:
        raise OutOfRange()
    return poly(coeffs, 1.0 / T)


def shifted_tpoly(Tref, coeffs, T):
    v, e = poly(coeffs, T - Tref)
    # the shift itself is rounded: d/dx of the polynomial times eps*(|T|+|Tref|)
    d = sum(abs(i * c * (T - Tref) ** (i - 1)) for i, c in enumerate(coeffs) if i >= 1)
    return v, e + d * EPS * (abs(T) + abs(Tref))


def shifted_rtpoly(Tref, coeffs, T):
    if T == Tref:
        raise OutOfRange()
    x = 1.0 / (T - Tref)
    v, e = poly(coeffs, x)
    d = sum(abs(i * c * x ** (i + 1)) for i, c in enumerate(coeffs) if i >= 1)
    return v, e + d * EPS * (abs(T) + abs(Tref))


def piecewise(bounds, values, x):
    """closed intervals [bounds[i], bounds[i+1]]; the first interval containing x decides; None outside all of them"""
    for i, val in enumerate(values):
        if bounds[i] <= x <= bounds[i + 1]:
            return i
    return None


def radiolytic(yields, doserates, density):
    """density * sum_i doserate_i * yield_i"""
    v = sum(d * g for d, g in zip(doserates, yields))
    mag = sum(abs(d * g) for d, g in zip(doserates, yields))
    return _chk(density * v), 4 * EPS * abs(density) * mag * len(yields)


def gibbs_eq_const(dH_over_R, dS_over_R, T):
    """exp(dS/R - dH/(R T))"""
    x = dS_over_R - dH_over_R / T
    return f_exp(x, EPS * (abs(dS_over_R) + 2 * abs(dH_over_R / T)))


def ramped_temp(T0, dTdt, t):
    return _chk(T0 + dTdt * t), 2 * EPS * (abs(T0) + abs(dTdt * t))


def sin_temp(Tbase, Tamp, angvel, phase, t):
    a = angvel * t + phase
    return _chk(Tbase + Tamp * math.sin(a)), 2 * EPS * (abs(Tbase) + abs(Tamp)) + abs(Tamp) * 2 * EPS * (abs(angvel * t) + abs(phase))


def mass_action_product(reac, conc):
    v = 1.0
    for k in sorted(reac):
        v *= conc[k] ** reac[k]
    return v


# ------------------------------------------------------------------------------------------- expression trees
# tree := ('leaf', name) | ('num', value) | ('bin', op, tree, tree) | ('neg', tree) | ('log10', tree) | ('exp', tree)
OPS = ("+", "-", "*", "/", "**")
ZERO_DIM = (0, 0, 0)


def tree_str(t):
    k = t[0]
    if k == "leaf":
        return t[1]
    if k == "num":
        return repr(t[1])
    if k == "bin":
        return "(%s %s %s)" % (tree_str(t[2]), t[1], tree_str(t[3]))
    if k == "neg":
        return "-%s" % tree_str(t[1])
    return "%s(%s)" % ({"log10": "Log10", "exp": "Exp"}[k], tree_str(t[1]))


def tree_leaves(t):
    k = t[0]
    if k == "leaf":
        return [t[1]]
    if k == "num":
        return []
    if k == "bin":
        return tree_leaves(t[2]) + tree_leaves(t[3])
    return tree_leaves(t[1])


def tree_ops(t):
    k = t[0]
    if k in ("leaf", "num"):
        return []
    if k == "bin":
        refl = "r" if t[2][0] == "num" else ("n" if t[3][0] == "num" else "")
        return [t[1] + refl] + tree_ops(t[2]) + tree_ops(t[3])
    return [k] + tree_ops(t[1])


def tree_eval(t, leafval):
    """(value, err) of the tree; leafval(name) -> (value, err).  Raises OutOfRange."""
    k = t[0]
    if k == "leaf":
        return leafval(t[1])
    if k == "num":
        return float(t[1]), 0.0
    if k == "neg":
        v, e = tree_eval(t[1], leafval)
        return -v, e
    if k == "exp":
        v, e = tree_eval(t[1], leafval)
        return f_exp(v, e)
    if k == "log10":
        v, e = tree_eval(t[1], leafval)
        if v <= 0 or e >= v / 2:
            raise OutOfRange()
        r = math.log10(v)
        return _chk(r) if r != 0 else 0.0, e / (v * math.log(10)) * 2 + 2 * EPS * (1 + abs(r))
    op = t[1]
    a, ea = tree_eval(t[2], leafval)
    b, eb = tree_eval(t[3], leafval)
    if op == "+":
        v = a + b
        e = ea + eb + EPS * (abs(a) + abs(b))
    elif op == "-":
        v = a - b
        e = ea + eb + EPS * (abs(a) + abs(b))
    elif op == "*":
        v = a * b
        e = abs(a) * eb + abs(b) * ea + ea * eb + 2 * EPS * abs(v)
    elif op == "/":
        if b == 0 or eb >= abs(b) / 2:
            raise OutOfRange()
        v = a / b
        e = 2 * (ea / abs(b) + abs(a) * eb / (b * b)) + 2 * EPS * abs(v)
    else:
        # real power: positive base, or integer exponent literal with non-zero base
        if a > 0 and ea < a / 2:
            x = b * math.log(a)
            if abs(x) > 300:
                raise OutOfRange()
            v = a ** b
            e = abs(v) * 2 * (abs(b) * ea / a + abs(math.log(a)) * eb) + abs(v) * EPS * (4 + 2 * abs(x))
        elif a < 0 and t[3][0] == "num" and float(b).is_integer() and ea < abs(a) / 2:
            x = b * math.log(-a)
            if abs(x) > 300:
                raise OutOfRange()
            v = a ** int(b)
            e = abs(v) * 2 * abs(b) * ea / abs(a) + abs(v) * EPS * (4 + 2 * abs(x))
        else:
            raise OutOfRange()
    if v != 0:
        _chk(v)
    return v, e


def tree_dim(t, leafdim):
    """dimension (exponents of concentration, time, temperature) of the tree, or None when it is dimensionally inconsistent
    (or when the dimension would depend on a computed, non-literal exponent)"""
    k = t[0]
    if k == "leaf":
        return leafdim(t[1])
    if k == "num":
        return ZERO_DIM
    if k == "neg":
        return tree_dim(t[1], leafdim)
    if k in ("exp", "log10"):
        d = tree_dim(t[1], leafdim)
        return ZERO_DIM if d == ZERO_DIM else None
    op = t[1]
    a, b = tree_dim(t[2], leafdim), tree_dim(t[3], leafdim)
    if a is None or b is None:
        return None
    if op in "+-":
        return a if a == b else None
    if op == "*":
        return tuple(x + y for x, y in zip(a, b))
    if op == "/":
        return tuple(x - y for x, y in zip(a, b))
    if b != ZERO_DIM:
        return None
    if a == ZERO_DIM:
        return ZERO_DIM
    if t[3][0] == "num":
        return tuple(x * t[3][1] for x in a)
    return None

"""Reference unit algebra for C09 / C10: a unit is (exact factor to SI, integer exponent vector).

Written from the property statement ("the magnitude multiplied by the exact ratio of the two units") and from the
SI definitions of the units involved -- nothing here is derived from chempy/units.py.

    DIMS          the seven base dimensions in a fixed order
    UNITS[dim]    the unit choices of the alphabet: (attribute name on chempy.units.default_units, factor to SI)
    U             model unit: U(factor: Fraction, exps: 7-tuple of int); *, /, **
    spelling      tuple of (dim index, unit index, exponent), one entry per non-zero dimension; JSON-able
    DERIVED       exponent vectors of the derived quantities a registry can be asked for (from their SI definitions)
    CHEM          chemistry units that chempy adds on top of `quantities`, with their definitions

Observation of real objects goes through `si()` which only uses the `quantities` package (trusted environment),
never a chempy function under test.
"""
import itertools
from fractions import Fraction as Fr

DIMS = ("length", "mass", "time", "current", "temperature", "amount", "luminous_intensity")
NLAT = 6  # the exponent lattice runs over the first six; luminous intensity only appears in registries
SI_SYMBOL = {"m": 0, "kg": 1, "s": 2, "A": 3, "K": 4, "mol": 5, "cd": 6}

UNITS = {
    "length": [("metre", Fr(1)), ("centimetre", Fr(1, 100)), ("nanometre", Fr(1, 10 ** 9))],
    "mass": [("kilogram", Fr(1)), ("gram", Fr(1, 1000))],
    "time": [("second", Fr(1)), ("minute", Fr(60)), ("hour", Fr(3600))],
    "current": [("ampere", Fr(1)), ("milliampere", Fr(1, 1000))],
    # the Rankine degree is a pure scale (5/9 K); quantities stores the factor as the nearest double
    "temperature": [("kelvin", Fr(1)), ("rankine", Fr(5, 9))],
    "amount": [("mole", Fr(1)), ("mmol", Fr(1, 1000)), ("micromole", Fr(1, 10 ** 6))],
    "luminous_intensity": [("candela", Fr(1))],
}
# registries of standard SI-prefixed units for the human-readable round trip (the statement restricts that clause to
# "standard prefixed units"); micromole / nanomole are the two prefixed units chempy itself adds to the namespace
HR_UNITS = {
    "length": [("metre", Fr(1)), ("centimetre", Fr(1, 100)), ("nanometre", Fr(1, 10 ** 9)), ("micrometre", Fr(1, 10 ** 6))],
    "mass": [("kilogram", Fr(1)), ("gram", Fr(1, 1000)), ("milligram", Fr(1, 10 ** 6))],
    "time": [("second", Fr(1)), ("millisecond", Fr(1, 1000)), ("microsecond", Fr(1, 10 ** 6))],
    "current": [("ampere", Fr(1)), ("milliampere", Fr(1, 1000)), ("microampere", Fr(1, 10 ** 6))],
    "temperature": [("kelvin", Fr(1)), ("mK", Fr(1, 1000))],
    "amount": [("mole", Fr(1)), ("mmol", Fr(1, 1000)), ("umol", Fr(1, 10 ** 6)), ("micromole", Fr(1, 10 ** 6)), ("nanomole", Fr(1, 10 ** 9))],
    "luminous_intensity": [("candela", Fr(1))],
}


class U(object):
    __slots__ = ("f", "e")

    def __init__(self, f=Fr(1), e=(0,) * 7):
        self.f = Fr(f)
        self.e = tuple(e)

    def __mul__(self, o):
        return U(self.f * o.f, tuple(a + b for a, b in zip(self.e, o.e)))

    def __truediv__(self, o):
        return U(self.f / o.f, tuple(a - b for a, b in zip(self.e, o.e)))

    def __pow__(self, n):
        return U(self.f ** n, tuple(a * n for a in self.e))

    def compatible(self, o):
        return self.e == o.e

    def dimdict(self):
        return {DIMS[i]: x for i, x in enumerate(self.e) if x}

    def __repr__(self):
        return "U(%s, %s)" % (self.f, self.e)


def base(dim_idx, unit_idx, table=UNITS):
    name, f = table[DIMS[dim_idx]][unit_idx]
    e = [0] * 7
    e[dim_idx] = 1
    return U(f, e)


def model_of(spelling, table=UNITS):
    u = U()
    for d, i, x in spelling:
        u = u * base(d, i, table) ** x
    return u


def real_of(spelling, ns, table=UNITS):
    """the real unit object: product of powers of attributes of chempy.units.default_units (ns)"""
    q = None
    for d, i, x in spelling:
        t = getattr(ns, table[DIMS[d]][i][0]) ** x
        q = t if q is None else q * t
    return q


def text_of(spelling, table=UNITS):
    return "*".join("%s**%d" % (table[DIMS[d]][i][0], x) for d, i, x in spelling) or "1"


def vectors(k, mx=2, n=NLAT):
    """all exponent vectors over the first n dimensions with |e_i| <= mx and 1-norm <= k, simplest first"""
    out = [e for e in itertools.product(range(-mx, mx + 1), repeat=n) if sum(map(abs, e)) <= k]
    out.sort(key=lambda e: (sum(map(abs, e)), sum(1 for x in e if x), tuple(-x for x in e)))
    return out


def spellings(e, table=UNITS):
    """every way of writing exponent vector e with one unit choice per non-zero dimension"""
    nz = [i for i, x in enumerate(e) if x]
    out = []
    for ch in itertools.product(*[range(len(table[DIMS[i]])) for i in nz]):
        out.append(tuple((i, c, e[i]) for i, c in zip(nz, ch)))
    return out


def one_off(e, mx=3):
    """the 12 exponent vectors that differ from e by +-1 in exactly one of the six lattice dimensions"""
    out = []
    for i in range(NLAT):
        for d in (1, -1):
            e2 = list(e)
            e2[i] += d
            out.append((i, tuple(e2)))
    return out


def registries(table=UNITS):
    """all base registries: one unit choice per dimension (luminous intensity has a single choice)"""
    return list(itertools.product(*[range(len(table[d])) for d in DIMS]))


def registry_model(choice, table=UNITS):
    return {DIMS[i]: base(i, c, table) for i, c in enumerate(choice)}


def registry_real(choice, ns, table=UNITS):
    return {DIMS[i]: getattr(ns, table[DIMS[i]][c][0]) for i, c in enumerate(choice)}


def in_registry(e, regm):
    """the registry's unit for exponent vector e = product of base units to the powers e"""
    u = U()
    for i, x in enumerate(e):
        if x:
            u = u * regm[DIMS[i]] ** x
    return u


# derived quantities, from their SI definitions (L, M, T, I, Theta, N, J)
DERIVED = {
    "diffusivity": (2, 0, -1, 0, 0, 0, 0),  # m2/s
    "diffusion": (2, 0, -1, 0, 0, 0, 0),  # deprecated alias
    "electrical_mobility": (0, -1, 2, 1, 0, 0, 0),  # (m/s)/(V/m) = m2/(V s), V = kg m2 s-3 A-1
    "permittivity": (-3, -1, 4, 2, 0, 0, 0),  # F/m, F = A2 s4 kg-1 m-2
    "charge": (0, 0, 1, 1, 0, 0, 0),  # A s
    "energy": (2, 1, -2, 0, 0, 0, 0),  # kg m2 s-2
    "concentration": (-3, 0, 0, 0, 0, 1, 0),  # mol/m3
    "density": (-3, 1, 0, 0, 0, 0, 0),  # kg/m3
    "radiolytic_yield": (-2, -1, 2, 0, 0, 1, 0),  # mol/J
    "doserate": (2, 0, -3, 0, 0, 0, 0),  # Gy/s = J/(kg s)
    "linear_energy_transfer": (1, 1, -2, 0, 0, 0, 0),  # J/m
}

# chemistry units on chempy.units.default_units: name -> (factor to SI, exponent vector, relative tolerance)
_EV = Fr(1602176634, 10 ** 28)  # J, exact since the 2019 SI
_NA = Fr(602214076 * 10 ** 15)  # 1/mol, exact since the 2019 SI
CONC = (-3, 0, 0, 0, 0, 1, 0)
CHEM = {
    "molar": (Fr(1000), CONC, 1e-12),
    "millimolar": (Fr(1), CONC, 1e-12),
    "micromolar": (Fr(1, 1000), CONC, 1e-12),
    "nanomolar": (Fr(1, 10 ** 6), CONC, 1e-12),
    "molal": (Fr(1), (0, -1, 0, 0, 0, 1, 0), 1e-12),
    # quantities embeds an older CODATA set than the 2019 exact values: 1e-6 covers every release since 1998
    "per100eV": (1 / (100 * _EV * _NA), DERIVED["radiolytic_yield"], 1e-6),
    "micromole": (Fr(1, 10 ** 6), (0, 0, 0, 0, 0, 1, 0), 1e-12),
    "nanomole": (Fr(1, 10 ** 9), (0, 0, 0, 0, 0, 1, 0), 1e-12),
    "umol": (Fr(1, 10 ** 6), (0, 0, 0, 0, 0, 1, 0), 1e-12),
    "kilojoule": (Fr(1000), DERIVED["energy"], 1e-12),
    "kilogray": (Fr(1000), (2, 0, -2, 0, 0, 0, 0), 1e-12),
    "perMolar_perSecond": (Fr(1, 1000), (3, 0, -1, 0, 0, -1, 0), 1e-12),
    "umol_per_J": (Fr(1, 10 ** 6), DERIVED["radiolytic_yield"], 1e-12),
    "dm": (Fr(1, 10), (1, 0, 0, 0, 0, 0, 0), 1e-12),
    "decimetre": (Fr(1, 10), (1, 0, 0, 0, 0, 0, 0), 1e-12),
    "m3": (Fr(1), (3, 0, 0, 0, 0, 0, 0), 1e-12),
    "dm3": (Fr(1, 1000), (3, 0, 0, 0, 0, 0, 0), 1e-12),
    "cm3": (Fr(1, 10 ** 6), (3, 0, 0, 0, 0, 0, 0), 1e-12),
}


def si(q):
    """observe a real quantity through the `quantities` package only: (magnitude in SI base units as ndarray,
    exponent 7-tuple).  Plain numbers are dimensionless."""
    import numpy as np

    if not hasattr(q, "simplified"):
        return np.asarray(q, dtype=float), (0,) * 7
    s = q.simplified
    e = [0] * 7
    for k, v in s.dimensionality.items():
        e[SI_SYMBOL[k.symbol]] = int(v) if int(v) == v else float(v)
    return np.asarray(s.magnitude, dtype=float), tuple(e)


def close(got, ref, rtol):
    """|got - ref| <= rtol*|ref| element-wise on floats / arrays of equal shape (ref == 0 needs got == 0)"""
    import numpy as np

    try:
        g = np.asarray(got, dtype=float)
        r = np.asarray(ref, dtype=float)
    except (TypeError, ValueError):
        return False
    if g.shape != r.shape:
        return False
    if not np.all(np.isfinite(g)):
        return False
    return bool(np.all(np.abs(g - r) <= rtol * np.abs(r)))

"""Reference table for C19: ion and gas parameters of Schumpe (1993), Chem. Eng. Sci. 48, 153-158 (per molar, 298.2 K).

HONEST PROVENANCE: the paper is not available offline.  This table was pinned from the reviewed chempy tree at design
time (it is a golden master of Table 1/2 as chempy transcribed them), so it detects any later drift of a parameter
(mutant m19i_lgs) but it cannot reveal a transcription error that was already present when it was pinned.  The
structural part of the oracle (linearity, additivity over ions, the oxygen reference h_G = 0, H+ = 0) is independent.
"""

ION = {
    "H+": 0.0, "Li+": 0.0691, "Na+": 0.1171, "K+": 0.0959, "Rb+": 0.0845, "Cs+": 0.0660, "NH4+": 0.0539,
    "Mg+2": 0.1765, "Ca+2": 0.1771, "Ba+2": 0.2021, "Fe+2": 0.1712, "Co+2": 0.1983, "Ni+2": 0.2039, "Cu+2": 0.1810,
    "Mn+2": 0.1620, "Zn+2": 0.1712, "Cd+2": 0.2201, "Al+3": 0.2253, "Fe+3": 0.0996, "Cr+3": 0.0595,
    "OH-": 0.0756, "F-": 0.1016, "Cl-": 0.0334, "Br-": 0.0137, "I-": 0.0020, "NO3-": 0.0050, "ClO4-": 0.0502,
    "IO4-": 0.1514, "HCO3-": 0.1372, "HSO3-": 0.0543, "H2PO4-": 0.1025, "S2O3-2": 0.1109, "HPO4-2": 0.1789,
    "CO3-2": 0.1666, "SO3-2": 0.1537, "SO4-2": 0.1185, "PO4-3": 0.2117,
}

GAS = {
    "O2": 0.0, "CO2": -0.0183, "N2O": -0.0110, "C2H2": -0.0174, "C2H4": 0.0014, "He": -0.036, "Ne": -0.020,
    "Ar": -0.009, "Kr": 0.003, "Xe": 0.005, "Rn": 0.015, "H2": -0.024, "N2": -0.008, "NO": 0.004, "C2H6": 0.011,
}

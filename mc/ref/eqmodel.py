"""Reference model of homogeneous (and single-salt) chemical equilibrium systems for C07 / C08.

Written from the property statements, not from chempy: a species is a name with a hand-written composition
(atomic number -> count, 0 -> charge); a reaction is a pair of dicts; everything is exact (Fractions).

    quotient(rxn, c)        mass-action quotient  prod_products c^nu / prod_reactants c^nu
    totals(names, c)        amount of every element and of charge carried by a composition
    stoich_rows(...)        net stoichiometry, one row per reaction, columns in the order of `names`
    rank(rows)              rank by exact Gaussian elimination

Nothing here imports chempy.
"""
import itertools
from fractions import Fraction as Fr

# --------------------------------------------------------------------------------------------- species
# hand-written: atomic numbers H 1, C 6, N 7, O 8, Na 11, Cl 17, Cr 24, Cu 29, Ag 47; key 0 = charge (omitted when 0)
COMPOSITION = {
    "H2O": {1: 2, 8: 1},
    "H+": {0: 1, 1: 1},
    "OH-": {0: -1, 1: 1, 8: 1},
    "NH4+": {0: 1, 1: 4, 7: 1},
    "NH3": {1: 3, 7: 1},
    "CH3COOH": {1: 4, 6: 2, 8: 2},
    "CH3COO-": {0: -1, 1: 3, 6: 2, 8: 2},
    "H2CO3": {1: 2, 6: 1, 8: 3},
    "HCO3-": {0: -1, 1: 1, 6: 1, 8: 3},
    "CO3-2": {0: -2, 6: 1, 8: 3},
    "Cu+2": {0: 2, 29: 1},
    "Cu(NH3)4+2": {0: 2, 1: 12, 7: 4, 29: 1},
    "CrO4-2": {0: -2, 8: 4, 24: 1},
    "Cr2O7-2": {0: -2, 8: 7, 24: 2},
    "Ag+": {0: 1, 47: 1},
    "Ag(NH3)2+": {0: 1, 1: 6, 7: 2, 47: 1},
    "Na+": {0: 1, 11: 1},
    "Cl-": {0: -1, 17: 1},
    "NaCl": {11: 1, 17: 1},
    "I2": {53: 2},
    "I-": {0: -1, 53: 1},
    "I3-": {0: -1, 53: 3},
    "HF": {1: 1, 9: 1},
    "F-": {0: -1, 9: 1},
    "H3PO4": {1: 3, 15: 1, 8: 4},
    "H2PO4-": {0: -1, 1: 2, 15: 1, 8: 4},
    "HPO4-2": {0: -2, 1: 1, 15: 1, 8: 4},
    "PO4-3": {0: -3, 15: 1, 8: 4},
    "HSO4-": {0: -1, 1: 1, 16: 1, 8: 4},
    "SO4-2": {0: -2, 16: 1, 8: 4},
}

# --------------------------------------------------------------------------------------------- reactions
# (tag, reactants, products, literature log10 K in molar units with water as a 55.5 M species)
POOL = [
    ("water", {"H2O": 1}, {"H+": 1, "OH-": 1}, -14 - 1.744),
    ("nh4", {"NH4+": 1}, {"H+": 1, "NH3": 1}, -9.26),
    ("h2co3", {"H2CO3": 1}, {"H+": 1, "HCO3-": 1}, -6.35),
    ("hco3", {"HCO3-": 1}, {"H+": 1, "CO3-2": 1}, -10.33),
    ("cunh3", {"Cu+2": 1, "NH3": 4}, {"Cu(NH3)4+2": 1}, 13.0),
    ("cr2o7", {"CrO4-2": 2, "H+": 2}, {"Cr2O7-2": 1, "H2O": 1}, 14.6 + 1.744),
    ("hac", {"CH3COOH": 1}, {"H+": 1, "CH3COO-": 1}, -4.76),
    ("agnh3", {"Ag+": 1, "NH3": 2}, {"Ag(NH3)2+": 1}, 7.2),
    # written as a dissociation: two products, one of them with an even coefficient (C08's bracketing scalar solver)
    ("agnh3d", {"Ag(NH3)2+": 1}, {"Ag+": 1, "NH3": 2}, -7.2),
    # no cation at all: every entry of the charge row is <= 0
    ("i3", {"I2": 1, "I-": 1}, {"I3-": 1}, 2.87),
    # further acid dissociations, so that systems with more than ten equilibria can be assembled
    ("hf", {"HF": 1}, {"H+": 1, "F-": 1}, -3.17),
    ("h3po4", {"H3PO4": 1}, {"H+": 1, "H2PO4-": 1}, -2.15),
    ("h2po4", {"H2PO4-": 1}, {"H+": 1, "HPO4-2": 1}, -7.20),
    ("hpo4", {"HPO4-2": 1}, {"H+": 1, "PO4-3": 1}, -12.35),
    ("hso4", {"HSO4-": 1}, {"H+": 1, "SO4-2": 1}, -1.99),
]
TAGS = [p[0] for p in POOL]


def balanced(rxn):
    """model sanity: every pool reaction conserves every element and charge"""
    _, reac, prod, _ = rxn
    net = {}
    for side, sign in ((reac, -1), (prod, 1)):
        for sp, nu in side.items():
            for k, n in COMPOSITION[sp].items():
                net[k] = net.get(k, 0) + sign * nu * n
    return all(v == 0 for v in net.values())


assert all(balanced(r) for r in POOL)


def subsets(npool, maxsize):
    """all index subsets of size 1..maxsize of the first npool pool reactions, smallest first"""
    out = []
    for n in range(1, maxsize + 1):
        out.extend(itertools.combinations(range(npool), n))
    return out


def species_of(idx, order="fwd"):
    """species names in order of first appearance (reactants before products), or that order reversed"""
    names = []
    for i in idx:
        _, reac, prod, _ = POOL[i]
        for d in (reac, prod):
            for k in d:
                if k not in names:
                    names.append(k)
    if order == "rev":
        names.reverse()
    elif order != "fwd":
        raise ValueError(order)
    return names


def stoich_row(rxn, names):
    _, reac, prod, _ = rxn
    return [prod.get(n, 0) - reac.get(n, 0) for n in names]


def stoich_rows(idx, names):
    return [stoich_row(POOL[i], names) for i in idx]


def quotient(rxn, conc):
    """conc: dict name -> Fraction (all non-zero).  Exact."""
    _, reac, prod, _ = rxn
    q = Fr(1)
    for k, nu in prod.items():
        q *= Fr(conc[k]) ** nu
    for k, nu in reac.items():
        q /= Fr(conc[k]) ** nu
    return q


def comp_keys(names):
    return sorted({k for n in names for k in COMPOSITION[n]})


def balance_matrix(names):
    keys = comp_keys(names)
    return [[COMPOSITION[n].get(k, 0) for n in names] for k in keys], keys


def totals(names, conc):
    """dict key -> amount carried by the composition `conc` (dict or list in the order of names)"""
    if not isinstance(conc, dict):
        conc = dict(zip(names, conc))
    out = {}
    for n in names:
        for k, m in COMPOSITION[n].items():
            out[k] = out.get(k, 0) + m * conc[n]
    return out


def rank(rows):
    rows = [[Fr(x) for x in r] for r in rows]
    rk = 0
    ncol = len(rows[0]) if rows else 0
    for c in range(ncol):
        piv = None
        for r in range(rk, len(rows)):
            if rows[r][c] != 0:
                piv = r
                break
        if piv is None:
            continue
        rows[rk], rows[piv] = rows[piv], rows[rk]
        for r in range(len(rows)):
            if r != rk and rows[r][c] != 0:
                f = rows[r][c] / rows[rk][c]
                rows[r] = [a - f * b for a, b in zip(rows[r], rows[rk])]
        rk += 1
    return rk


# distinct "small" rationals p_i/p_{i+1} over consecutive primes: every product of powers of distinct entries is != 1
PRIMES = [2, 3, 5, 7, 11, 13, 17, 19, 23, 29, 31, 37, 41, 43, 47, 53, 59, 61, 67, 71]
RATIOS = [Fr(PRIMES[i], PRIMES[i + 1]) for i in range(len(PRIMES) - 1)]


def cstar_assignment(names, variant):
    """an all-positive, all-distinct rational state; variant 0: p_i/p_{i+1} in species order,
    variant 1: the same list read backwards and inverted (values > 1), variant 2: integers+1/2"""
    n = len(names)
    if variant == 0:
        vals = RATIOS[:n]
    elif variant == 1:
        vals = [1 / r for r in RATIOS[:n]][::-1]
    elif variant == 2:
        vals = [Fr(2 * i + 3, 2) for i in range(n)]
    else:
        raise ValueError(variant)
    return dict(zip(names, vals))

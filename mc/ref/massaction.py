"""Reference model of mass-action kinetics, written from the statements of C03 / C04 / C06 (never from chempy).

A *reaction tuple* is ``rt = (reac, prod, inact_reac, inact_prod)``; each part is a tuple of ``(substance, coeff)``
pairs with coeff > 0 (JSON-able as nested lists).  A *system* is an ordered tuple of reaction tuples plus one rate
constant per reaction.  Everything is plain Python arithmetic, so the same functions work on int / Fraction /
float / sympy values.
"""


def rt_make(reac, prod, ir=None, ip=None):
    def part(d):
        return tuple(sorted((k, v) for k, v in dict(d or {}).items() if v))

    return (part(reac), part(prod), part(ir), part(ip))


def rt_from_json(x):
    return tuple(tuple((str(k), int(v)) for k, v in part) for part in x)


def rt_dicts(rt):
    return tuple(dict(part) for part in rt)


def rt_keys(rt):
    return sorted(set(k for part in rt for k, _ in part))


def net(rt, keys):
    """products - reactants, counting inactive parts"""
    reac, prod, ir, ip = rt_dicts(rt)
    return {s: prod.get(s, 0) + ip.get(s, 0) - reac.get(s, 0) - ir.get(s, 0) for s in keys}


def has_effect(rt):
    return any(net(rt, rt_keys(rt)).values())


def stoich_rows(rt, keys):
    reac, prod, ir, ip = rt_dicts(rt)
    return dict(
        net_stoich=tuple(prod.get(s, 0) + ip.get(s, 0) - reac.get(s, 0) - ir.get(s, 0) for s in keys),
        all_reac_stoich=tuple(reac.get(s, 0) + ir.get(s, 0) for s in keys),
        active_reac_stoich=tuple(reac.get(s, 0) for s in keys),
        all_prod_stoich=tuple(prod.get(s, 0) + ip.get(s, 0) for s in keys),
        active_prod_stoich=tuple(prod.get(s, 0) for s in keys),
    )


def reaction_rate(rt, k, conc):
    """k * prod(c_s ** nu_s) over the ACTIVE reactants only"""
    r = k
    for s, nu in rt[0]:
        r = r * conc[s] ** nu
    return r


def reaction_contrib(rt, k, conc, keys):
    """contribution of one reaction to d[s]/dt for s in keys (zero for substances on neither side)"""
    r = reaction_rate(rt, k, conc)
    n = net(rt, keys)
    return {s: n[s] * r for s in keys}


def system_rates(rts, ks, conc, keys, feed=None):
    """(S^T r)_s  (+ F*(c_feed_s - c_s) for the substances listed in feed = (F, {s: c_feed_s}))"""
    out = {s: 0 for s in keys}
    for rt, k in zip(rts, ks):
        r = reaction_rate(rt, k, conc)
        n = net(rt, keys)
        for s in keys:
            if n[s]:
                out[s] = out[s] + n[s] * r
    if feed:
        F, cf = feed
        for s, c_in in cf.items():
            if s in out:
                out[s] = out[s] + F * (c_in - conc[s])
    return out


def per_reaction_rates(rts, ks, conc):
    return [reaction_rate(rt, k, conc) for rt, k in zip(rts, ks)]


# ------------------------------------------------------------------------------------------------ first order
def first_order_matrix(n, edges, ks):
    """K with dy/dt = K y for unimolecular steps i -> j (edges) with constants ks: plain nested lists"""
    K = [[0.0] * n for _ in range(n)]
    for (i, j), k in zip(edges, ks):
        K[i][i] -= k
        K[j][i] += k
    return K

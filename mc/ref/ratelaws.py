"""Reference model for C17: the *mechanisms* (differential rate equations + initial values) the closed forms of
chempy.kinetics.integrated are documented for.  Nothing here is taken from the closed forms themselves: every entry
is the mass-action rate equation of the documented reaction, written for generic numbers (Fraction, mpmath, sympy).

  dimerization_irrev   2 A -> P                       dA/dt = -2 kf A^2                          A(t0) = initial_C
  pseudo_irrev         A + B -> P, B in excess        dP/dt = kf*major*(minor-(P-prod))          P(0)  = prod
  pseudo_rev           A + B <-> P, B in excess       dP/dt = kf*major*(minor-(P-prod)) - kb*P   P(0)  = prod
  binary_irrev         A + B -> P                     dP/dt = kf*(major-x)*(minor-x), x=P-prod   P(0)  = prod
  binary_rev           A + B <-> P                    dP/dt = kf*(major-x)*(minor-x) - kb*P      P(0)  = prod
  unary_irrev_cstr     A -> B in a stirred tank       dA/dt = fv*(fr-A) - k*A                    A(0)=r, B(0)=p
                                                      dB/dt = fv*(fp-B) + k*A
  binary_irrev_cstr    2 A -> n B in a stirred tank   dA/dt = fv*(fr-A) - 2*k*A^2                A(0)=r, B(0)=p
                                                      dB/dt = fv*(fp-B) + n*k*A^2
("prod/major/minor" = initial concentration of the complex / the more / the less abundant reactant; x = extent.)

Parameter kinds (which lattice a parameter is drawn from):  K rate constant or flow/volume ratio (positive),
V concentration that must be positive, P concentration that may be zero (initial product, product in feed),
N integer stoichiometric coefficient of the product, S start time t0.
"""


def _sgn(x):
    return (x > 0) - (x < 0)


def _mm(p):
    s = _sgn(p["major"] - p["minor"])
    return ("prod=0" if p["prod"] == 0 else "prod>0") + "," + {1: "major>minor", 0: "major=minor", -1: "major<minor"}[s]


def _ss(v):
    return {1: "r<ss", 0: "r=ss", -1: "r>ss"}[_sgn(v)]  # reactant starts below / at / above its steady state


MECH = dict(
    dimerization_irrev=dict(
        params=("kf", "initial_C", "t0"), kinds="KVS", ncomp=1, has_backend=False, tstart="t0",
        rhs=lambda c, p: (-2 * p["kf"] * c[0] ** 2,),
        init=lambda p: (p["initial_C"],),
        regime=lambda p: "t0=0" if p["t0"] == 0 else "t0>0",
        species=("A",),
    ),
    pseudo_irrev=dict(
        params=("kf", "prod", "major", "minor"), kinds="KPVV", ncomp=1, has_backend=True, tstart=None,
        rhs=lambda c, p: (p["kf"] * p["major"] * (p["minor"] - (c[0] - p["prod"])),),
        init=lambda p: (p["prod"],),
        regime=_mm,
        species=("P",),
    ),
    pseudo_rev=dict(
        params=("kf", "kb", "prod", "major", "minor"), kinds="KKPVV", ncomp=1, has_backend=True, tstart=None,
        rhs=lambda c, p: (p["kf"] * p["major"] * (p["minor"] - (c[0] - p["prod"])) - p["kb"] * c[0],),
        init=lambda p: (p["prod"],),
        regime=_mm,
        species=("P",),
    ),
    binary_irrev=dict(
        params=("kf", "prod", "major", "minor"), kinds="KPVV", ncomp=1, has_backend=True, tstart=None,
        rhs=lambda c, p: (p["kf"] * (p["major"] - (c[0] - p["prod"])) * (p["minor"] - (c[0] - p["prod"])),),
        init=lambda p: (p["prod"],),
        regime=_mm,
        species=("P",),
        # 'major' is documented as the MORE abundant reactant; at major == minor the closed form is 0/0 (a removable
        # singularity) - that point is outside what the documentation offers and is not enumerated
        excluded=lambda p: p["major"] == p["minor"],
    ),
    binary_rev=dict(
        params=("kf", "kb", "prod", "major", "minor"), kinds="KKPVV", ncomp=1, has_backend=True, tstart=None,
        rhs=lambda c, p: (p["kf"] * (p["major"] - (c[0] - p["prod"])) * (p["minor"] - (c[0] - p["prod"])) - p["kb"] * c[0],),
        init=lambda p: (p["prod"],),
        regime=_mm,
        species=("P",),
    ),
    unary_irrev_cstr=dict(
        params=("k", "r", "p", "fr", "fp", "fv"), kinds="KVPVPK", ncomp=2, has_backend=True, tstart=None,
        rhs=lambda c, p: (p["fv"] * (p["fr"] - c[0]) - p["k"] * c[0], p["fv"] * (p["fp"] - c[1]) + p["k"] * c[0]),
        init=lambda p: (p["r"], p["p"]),
        regime=lambda p: _ss(p["fv"] * (p["fr"] - p["r"]) - p["k"] * p["r"]),
        species=("A", "B"),
    ),
    binary_irrev_cstr=dict(
        params=("k", "r", "p", "fr", "fp", "fv", "n"), kinds="KVPVPKN", ncomp=2, has_backend=True, tstart=None,
        rhs=lambda c, p: (p["fv"] * (p["fr"] - c[0]) - 2 * p["k"] * c[0] ** 2, p["fv"] * (p["fp"] - c[1]) + p["n"] * p["k"] * c[0] ** 2),
        init=lambda p: (p["r"], p["p"]),
        regime=lambda p: _ss(p["fv"] * (p["fr"] - p["r"]) - 2 * p["k"] * p["r"] ** 2),
        species=("A", "B"),
    ),
)

ORDER = ("dimerization_irrev", "pseudo_irrev", "pseudo_rev", "binary_irrev", "binary_rev", "unary_irrev_cstr", "binary_irrev_cstr")


def nonconstant(name, p):
    """is the exact solution from this start non-constant in time? (rate at the initial state is not zero)"""
    m = MECH[name]
    return any(v != 0 for v in m["rhs"](m["init"](p), p))

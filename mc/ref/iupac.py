"""Independent table of the elements, typed from the IUPAC "Standard atomic weights" releases 2013–2021
(abridged / conventional values where IUPAC gives an interval) — NOT derived from chempy/util/periodic.py.

ELEMENTS[Z-1] = (symbol, {admissible names}, {admissible weights}, uncertainty)
* admissible weights: the values of the releases 2013, 2015, 2017, 2019, 2021 (a value revised between releases
  appears several times); for elements without a standard atomic weight the mass number(s) of the longest-lived
  isotope quoted in those tables.
* uncertainty: the largest published uncertainty of the listed values (0 for conventional/abridged values and mass
  numbers): an implementation value is admissible iff it is within `uncertainty` of a listed value.
"""

_T = [
    ("H", "Hydrogen", [1.008], 0),
    ("He", "Helium", [4.002602], 2e-6),
    ("Li", "Lithium", [6.94], 0),
    ("Be", "Beryllium", [9.0121831], 5e-7),
    ("B", "Boron", [10.81], 0),
    ("C", "Carbon", [12.011], 0),
    ("N", "Nitrogen", [14.007], 0),
    ("O", "Oxygen", [15.999], 0),
    ("F", "Fluorine", [18.998403163, 18.998403162], 6e-9),
    ("Ne", "Neon", [20.1797], 6e-4),
    ("Na", "Sodium", [22.98976928], 2e-8),
    ("Mg", "Magnesium", [24.305], 0),
    ("Al", "Aluminium|Aluminum", [26.9815385, 26.9815384], 7e-7),
    ("Si", "Silicon", [28.085], 0),
    ("P", "Phosphorus", [30.973761998], 5e-9),
    ("S", "Sulfur|Sulphur", [32.06], 0),
    ("Cl", "Chlorine", [35.45], 0),
    ("Ar", "Argon", [39.948, 39.95], 0),
    ("K", "Potassium", [39.0983], 1e-4),
    ("Ca", "Calcium", [40.078], 4e-3),
    ("Sc", "Scandium", [44.955908, 44.955907], 5e-6),
    ("Ti", "Titanium", [47.867], 1e-3),
    ("V", "Vanadium", [50.9415], 1e-4),
    ("Cr", "Chromium", [51.9961], 6e-4),
    ("Mn", "Manganese", [54.938044, 54.938043], 3e-6),
    ("Fe", "Iron", [55.845], 2e-3),
    ("Co", "Cobalt", [58.933194], 4e-6),
    ("Ni", "Nickel", [58.6934], 4e-4),
    ("Cu", "Copper", [63.546], 3e-3),
    ("Zn", "Zinc", [65.38], 2e-2),
    ("Ga", "Gallium", [69.723], 1e-3),
    ("Ge", "Germanium", [72.630], 8e-3),
    ("As", "Arsenic", [74.921595], 6e-6),
    ("Se", "Selenium", [78.971], 8e-3),
    ("Br", "Bromine", [79.904], 0),
    ("Kr", "Krypton", [83.798], 2e-3),
    ("Rb", "Rubidium", [85.4678], 3e-4),
    ("Sr", "Strontium", [87.62], 1e-2),
    ("Y", "Yttrium", [88.90584, 88.905838], 2e-5),
    ("Zr", "Zirconium", [91.224], 2e-3),
    ("Nb", "Niobium", [92.90637], 2e-5),
    ("Mo", "Molybdenum", [95.95], 1e-2),
    ("Tc", "Technetium", [97, 98], 0),
    ("Ru", "Ruthenium", [101.07], 2e-2),
    ("Rh", "Rhodium", [102.90550, 102.90549], 2e-5),
    ("Pd", "Palladium", [106.42], 1e-2),
    ("Ag", "Silver", [107.8682], 2e-4),
    ("Cd", "Cadmium", [112.414], 4e-3),
    ("In", "Indium", [114.818], 1e-3),
    ("Sn", "Tin", [118.710], 7e-3),
    ("Sb", "Antimony", [121.760], 1e-3),
    ("Te", "Tellurium", [127.60], 3e-2),
    ("I", "Iodine", [126.90447], 3e-5),
    ("Xe", "Xenon", [131.293], 6e-3),
    ("Cs", "Caesium|Cesium", [132.90545196], 6e-8),
    ("Ba", "Barium", [137.327], 7e-3),
    ("La", "Lanthanum", [138.90547], 7e-5),
    ("Ce", "Cerium", [140.116], 1e-3),
    ("Pr", "Praseodymium", [140.90766], 2e-5),
    ("Nd", "Neodymium", [144.242], 3e-3),
    ("Pm", "Promethium", [145], 0),
    ("Sm", "Samarium", [150.36], 2e-2),
    ("Eu", "Europium", [151.964], 1e-3),
    ("Gd", "Gadolinium", [157.25], 3e-2),
    ("Tb", "Terbium", [158.92535, 158.925354], 2e-5),
    ("Dy", "Dysprosium", [162.500], 1e-3),
    ("Ho", "Holmium", [164.93033, 164.930328, 164.930329], 2e-5),
    ("Er", "Erbium", [167.259], 3e-3),
    ("Tm", "Thulium", [168.93422, 168.934218, 168.934219], 2e-5),
    ("Yb", "Ytterbium", [173.054, 173.045], 1e-2),
    ("Lu", "Lutetium", [174.9668], 1e-4),
    ("Hf", "Hafnium", [178.49, 178.486], 2e-2),
    ("Ta", "Tantalum", [180.94788], 2e-5),
    ("W", "Tungsten", [183.84], 1e-2),
    ("Re", "Rhenium", [186.207], 1e-3),
    ("Os", "Osmium", [190.23], 3e-2),
    ("Ir", "Iridium", [192.217], 3e-3),
    ("Pt", "Platinum", [195.084], 9e-3),
    ("Au", "Gold", [196.966569, 196.966570], 5e-6),
    ("Hg", "Mercury", [200.592], 3e-3),
    ("Tl", "Thallium", [204.38], 0),
    ("Pb", "Lead", [207.2], 0),
    ("Bi", "Bismuth", [208.98040], 1e-5),
    ("Po", "Polonium", [209], 0),
    ("At", "Astatine", [210], 0),
    ("Rn", "Radon", [222], 0),
    ("Fr", "Francium", [223], 0),
    ("Ra", "Radium", [226], 0),
    ("Ac", "Actinium", [227], 0),
    ("Th", "Thorium", [232.0377], 4e-4),
    ("Pa", "Protactinium", [231.03588], 2e-5),
    ("U", "Uranium", [238.02891], 3e-5),
    ("Np", "Neptunium", [237], 0),
    ("Pu", "Plutonium", [244], 0),
    ("Am", "Americium", [243], 0),
    ("Cm", "Curium", [247], 0),
    ("Bk", "Berkelium", [247], 0),
    ("Cf", "Californium", [251], 0),
    ("Es", "Einsteinium", [252], 0),
    ("Fm", "Fermium", [257], 0),
    ("Md", "Mendelevium", [258], 0),
    ("No", "Nobelium", [259], 0),
    ("Lr", "Lawrencium", [262, 266], 0),
    ("Rf", "Rutherfordium", [265, 267], 0),
    ("Db", "Dubnium", [268, 270], 0),
    ("Sg", "Seaborgium", [269, 271], 0),
    ("Bh", "Bohrium", [270, 272, 274], 0),
    ("Hs", "Hassium", [269, 270, 271, 277], 0),
    ("Mt", "Meitnerium", [276, 278], 0),
    ("Ds", "Darmstadtium", [281], 0),
    ("Rg", "Roentgenium", [280, 281, 282], 0),
    ("Cn", "Copernicium", [285], 0),
    ("Nh", "Nihonium", [284, 286], 0),
    ("Fl", "Flerovium", [289], 0),
    ("Mc", "Moscovium", [288, 289, 290], 0),
    ("Lv", "Livermorium", [293], 0),
    ("Ts", "Tennessine", [292, 294], 0),
    ("Og", "Oganesson", [294], 0),
]

ELEMENTS = [(s, set(n.split("|")), [float(w) for w in ws], float(u)) for s, n, ws, u in _T]
assert len(ELEMENTS) == 118
ELECTRON_MASS = 5.48579909e-4  # u (CODATA); chempy uses 5.489e-4 — compared to 1e-3 relative on the *difference*

# periods and groups of the periodic table (IUPAC group numbering), written out independently
PERIOD_LENGTHS = (2, 8, 8, 18, 18, 32, 32)
GROUPS = {
    1: (1, 3, 11, 19, 37, 55, 87),
    2: (4, 12, 20, 38, 56, 88),
    13: (5, 13, 31, 49, 81, 113),
    14: (6, 14, 32, 50, 82, 114),
    15: (7, 15, 33, 51, 83, 115),
    16: (8, 16, 34, 52, 84, 116),
    17: (9, 17, 35, 53, 85, 117),
    18: (2, 10, 18, 36, 54, 86, 118),
}


def admissible(z, w):
    sym, names, ws, u = ELEMENTS[z - 1]
    return any(abs(w - x) <= u + 1e-9 * x for x in ws)


def nearest(z, w):
    return min(ELEMENTS[z - 1][2], key=lambda x: abs(x - w))

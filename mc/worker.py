"""One chunk, one process: `python -m mc.worker <check> <tier> <job.pickle> <result.pickle>`.

Every chunk of a check is explored in a brand-new interpreter, so what a chunk observes depends on that chunk's own
(deterministic) sequence of cases and on nothing explored before it — library-level state (module caches, class-level
defaults) cannot leak from one chunk into another, and re-executing the chunk in a fresh process reproduces it exactly.
"""
import importlib
import pickle
import sys
import time
import traceback

from . import env
from .core import Result


def main():
    check_id, tier, job, out = sys.argv[1:5]
    idx, chunk = pickle.load(open(job, "rb"))
    t0 = time.process_time()
    try:
        env.setup()
        mod = importlib.import_module("mc.checks.%s" % check_id.lower())
        res = mod.run_chunk(chunk, tier)
        if not isinstance(res, Result):
            raise env.HarnessError("run_chunk must return a Result")
        for v in res.violations:
            v["chunk_index"] = idx
        payload = (idx, res, None, time.process_time() - t0)
    except BaseException:  # a crash of the harness, not of chempy: chempy exceptions are observations
        payload = (idx, None, traceback.format_exc(), time.process_time() - t0)
    with open(out, "wb") as f:
        pickle.dump(payload, f)


if __name__ == "__main__":
    main()

"""Regenerate /verif/MANIFEST.json from the META of every check module present in mc/checks/.

    /venv/bin/python -m mc.manifest          (run from /verif with PYTHONPATH=/repo:/verif, or through ./mkmanifest)
"""
import os
import sys
import json
import glob
import importlib

from . import env

NOT_APPLICABLE_FILE = os.path.join(env.VERIF, "mc", "not_applicable.json")


def main():
    env.setup()
    props = [json.loads(l) for l in open(os.path.join(env.VERIF, "properties.jsonl"))]
    checks, na, served = [], [], []
    na_reasons = json.load(open(NOT_APPLICABLE_FILE)) if os.path.exists(NOT_APPLICABLE_FILE) else {}
    enabled = set(open(os.path.join(env.VERIF, "mc", "enabled.txt")).read().split())
    for p in props:
        pid = p["id"]
        path = os.path.join(env.VERIF, "mc", "checks", pid.lower() + ".py")
        if not os.path.exists(path) or pid in na_reasons or pid not in enabled:
            na.append(dict(property_id=pid, reason=na_reasons.get(pid, "check not built yet (see DESIGN.md §3 %s for the planned bounded-exhaustive exploration)" % pid)))
            continue
        m = importlib.import_module("mc.checks." + pid.lower()).META
        served.append(pid)
        checks.append(
            dict(
                property_id=pid,
                quick_cmd="./check %s --tier quick" % pid,
                thorough_cmd="./check %s --tier thorough" % pid,
                evidence_file="/verif/evidence/%s.json" % pid,
                replay_cmd_template="./check %s --replay {path}" % pid,
                engine="mc",
                level_claimed=dict(category=m.get("level", "model_checking"), text=m["level_text"] if "level_text" in m else m["technique"], design_ref=m.get("design_ref", "DESIGN.md §3 " + pid)),
                level_note="; ".join(m.get("assumptions", [])),
                technique=m["technique"],
            )
        )
    man = dict(
        version=1,
        setup_cmd="./setup.sh",
        hooks=dict(
            guard="CHEMPY_VERIF",
            enable="none needed: every observation point is a public return value or exception; checks import /repo's working tree directly (PYTHONPATH=/repo), nothing is built",
            baseline_off_cmd="cd /repo && /venv/bin/python -m pytest -ra -q -p no:cacheprovider --timeout=900 --continue-on-collection-errors",
            source_commits=[],
            add_only=True,
        ),
        engines=[
            dict(
                name="mc",
                path="/verif/mc",
                serves_properties=served,
                kind_free_text="hand-written explicit-state / bounded-exhaustive explorer in Python: enumerates every state of a stated finite space "
                "(grammar derivations up to a cost bound, operation histories up to a depth with canonical-state dedup, complete products of "
                "finite configuration alphabets), executes each one on the real chempy API in long-lived spawn workers with pinned PYTHONHASHSEED, "
                "and compares with a reference model in every state; no sampling",
            )
        ],
        checks=checks,
        not_applicable=na,
        notes="Every check is exhaustive within the bounds recorded in its evidence file (coverage.bounds, coverage.exhaustive). Known genuine defects "
        "that are recorded rather than repaired are listed in /verif/known_findings.json; repaired ones appear there as 'fixed:' lines.",
    )
    schema = json.load(open("/root/.vp/MANIFEST.schema.json")) if os.path.exists("/root/.vp/MANIFEST.schema.json") else None
    if schema:
        import jsonschema

        jsonschema.validate(man, schema)
    with open(os.path.join(env.VERIF, "MANIFEST.json"), "w") as f:
        json.dump(man, f, indent=1)
        f.write("\n")
    print("MANIFEST.json: %d checks, %d not_applicable" % (len(checks), len(na)))


if __name__ == "__main__":
    sys.exit(main())

"""Pin and prove ownership of the environment every check runs in.

* chempy must come from /repo's working tree (the copy in /venv/site-packages is shadowed),
* nothing is written into /repo (no byte-code),
* PYTHONHASHSEED is fixed by the parent for every worker and recorded,
* warnings: chempy installs a "once" filter at import; oracles that look at warnings use record_warnings().
"""
import os
import sys
import warnings
import contextlib

REPO = os.environ.get("VERIF_REPO", "/repo")
VERIF = os.path.dirname(os.path.dirname(os.path.abspath(__file__)))


class HarnessError(Exception):
    """Internal inconsistency of the machinery: exit 2, never a VIOLATION."""


def child_env(hashseed):
    e = dict(os.environ)
    e["PYTHONPATH"] = REPO + os.pathsep + VERIF
    e["PYTHONDONTWRITEBYTECODE"] = "1"
    e["PYTHONHASHSEED"] = str(hashseed)
    e["PYTHONWARNINGS"] = "ignore"
    e["OMP_NUM_THREADS"] = "1"
    e["OPENBLAS_NUM_THREADS"] = "1"
    e["MKL_NUM_THREADS"] = "1"
    return e


def setup():
    """Called first thing in every process that touches chempy."""
    sys.dont_write_bytecode = True
    if sys.path[0] != REPO:
        if REPO in sys.path:
            sys.path.remove(REPO)
        sys.path.insert(0, REPO)
    if VERIF not in sys.path:
        sys.path.insert(1, VERIF)
    warnings.simplefilter("ignore")
    import chempy

    here = os.path.realpath(chempy.__file__)
    if not here.startswith(os.path.realpath(REPO) + os.sep):
        raise HarnessError("chempy imported from %s, not from %s" % (here, REPO))
    return chempy


def hashseed():
    return os.environ.get("PYTHONHASHSEED", "random")


@contextlib.contextmanager
def record_warnings():
    with warnings.catch_warnings(record=True) as w:
        warnings.simplefilter("always")
        yield w
    warnings.simplefilter("ignore")

"""C16 — rate-constant models and rate expressions evaluate to their defining formulas under every backend.

State space (DESIGN.md §3 C16), three layers, each enumerated completely:
  P  parameter sets: {ArrheniusParam, EyringParam}(+WithUnits) x value lattice x temperature lattice x every way of calling
     (backend omitted/"numpy"/numpy/"math"/math/numpy array/sympy symbol; units object + constants object, energy unit
     spellings); from_rateconst_at_T round trip; as_RateExpr / Reaction.rate for reactions of order 1..3
  X  every expression class x argument lattice x {math, numpy, sympy-then-substitute, quantities} x temperature lattice;
     every unique_keys prefix x every subset of overridden arguments (named override replaces exactly that argument)
  T  every arithmetic expression tree of depth <= D over 12 leaf expressions, 5 numbers, + - * / ** (incl. reflected forms),
     negation, Log10, Exp  x 4 evaluation modes x temperature lattice
Oracle: mc/ref/rateexpr.py (defining formulas in plain doubles with a propagated rounding-error bound).
"""
import itertools
import math
import re

from mc.core import Result
from mc.ref import rateexpr as RX

META = dict(
    title="Rate-constant models evaluate to their defining formulas under every backend",
    level="model_checking",
    technique="bounded-exhaustive enumeration of expression trees (all trees up to a depth bound over a leaf/operator alphabet), of every "
    "expression class x unique-key prefix x override subset, and of every parameter-set call configuration, each executed on the real "
    "classes under every evaluation mode and compared with the defining formula evaluated by a reference model",
    rule="states = distinct (layer, expression/tree or parameter set, argument lattice point, configuration); every state is evaluated at every "
    "temperature of the lattice under every mode; non-trivial = states whose expression depends on at least one variable or override "
    "(everything except bare constants) and lies in the real, finite range of the reference",
    assumptions=[
        "sympy, numpy, math and quantities are trusted",
        "real-valued arguments are covered on the stated lattices only",
        "the gas, Boltzmann and Planck constants are inputs of the code path under test (hard-coded CODATA-2006 literals without a constants "
        "object, the constants object's values with one); each path is compared with the defining formula evaluated with its own constants",
        "quantities mode uses chempy.units.Backend() (documented as the unit-safe backend); trees are evaluated with quantities only when the "
        "reference dimension algebra says they are dimensionally consistent with literal exponents",
        "numpy mode uses an array of all temperatures except for trees containing a piecewise expression (python comparisons) or an Eyring/EyringHS "
        "leaf (their default standard-state concentration is a quantities object, 1 M, even in unit-less evaluation, and quantities refuses "
        "array-valued Quantity exponents): those use numpy scalars",
        "trees leaving the finite real range (|v|>1e150, negative base with non-integer exponent, log of a non-positive number, division by zero) are skipped and counted",
        "linearised fits (fit_arrhenius_equation/fit_eyring_equation) are not part of the property statement and are not checked",
    ],
    design_ref="DESIGN.md §3 C16",
    hashseed_sensitive=False,
)

TL = (200.0, 298.15, 1000.0, 2000.0)  # temperature lattice of the P and X layers (quick; _set_tier rebinds it)
TREE_TL = (200.0, 298.15, 1000.0, 2000.0)  # temperature lattice of trees without a piecewise leaf (both tiers)
TT_PW = (200.0, 250.0, 298.15, 500.0, 1000.0, 1500.0, 2000.0)  # trees containing the piecewise leaf: every breakpoint and every interior
NUMS = (0, 1, 2, 2.5, -1)
X_ENV = dict(x=1.5, density=0.998, doserate=0.15)
REL_FLOOR = 1e-13  # the propagated bound is used as is; this floor (relative) covers decimal<->binary conversion inside sympy/quantities


def bounds(tier):
    return dict(
        tree_depth=3 if tier == "thorough" else 2,
        tree_depth3_partners="all 12 leaves and 5 numbers, both sides" if tier == "thorough" else "quick: depth-3 = unary(depth-2) and (depth-2 op arr), (arr op depth-2)",
        leaves=list(LEAF_NAMES), numbers=[repr(n) for n in NUMS], operators=list(RX.OPS) + ["neg", "Log10", "Exp", "reflected forms"],
        T_tree=list(TREE_TL), T_tree_with_piecewise=list(TT_PW), T_classes=list(TIER_LATTICES[tier]["TL"]),
        A=list(TIER_LATTICES[tier]["A_LAT"]), Ea_or_dH=list(TIER_LATTICES[tier]["EA_LAT"]), dS=list(TIER_LATTICES[tier]["DS_LAT"]), k_roundtrip=list(K_LAT), modes=["math", "numpy", "sympy-then-substitute", "quantities(Backend())"],
        slack=RX.SLACK, rel_floor=REL_FLOOR,
    )


# =============================================================================================== common helpers
def _exc_tag(e):
    tag = "EXC %s" % type(e).__name__
    if isinstance(e, AttributeError):
        mo = re.search(r"has no attribute '(\w+)'", str(e))
        if mo:
            tag += ":" + mo.group(1)
    return tag


def _tofloat(v):
    """number carried by an observation (quantities -> magnitude; numpy 0-d -> float)"""
    import numpy as np

    if hasattr(v, "magnitude"):
        v = v.magnitude
    a = np.asarray(v, dtype=float)
    if a.ndim == 0:
        return float(a)
    return [float(x) for x in a.ravel()]


def _close(obs, ref, err):
    if isinstance(obs, complex):
        return False
    return obs == obs and abs(obs - ref) <= RX.SLACK * err + REL_FLOOR * abs(ref)


def _U():
    from chempy.units import default_units as u

    return u


def _dim_unit(dim):
    """unit object for exponents of (molar, second, kelvin)"""
    u = _U()
    unit = 1
    for base, e in zip((u.molar, u.second, u.kelvin), dim):
        if e != 0:
            unit = unit * base ** e
    return unit


def _rx(order):
    from chempy import Reaction

    return {1: Reaction({"A": 1}, {"P": 1}), 2: Reaction({"A": 1, "B": 1}, {"P": 1}), 3: Reaction({"A": 2, "B": 1}, {"P": 1})}[order]


# =============================================================================================== layer T: trees
LEAF_NAMES = ("const", "rconst", "sym", "arr", "eyr", "eyrhs", "tpoly", "rtpoly", "stpoly", "pw", "rad", "gibbs")
S1 = (0, -1, 0)
LEAF_DIM = dict(const=RX.ZERO_DIM, rconst=S1, sym=S1, arr=S1, eyr=S1, eyrhs=S1, tpoly=S1, rtpoly=S1, stpoly=S1, pw=S1, rad=(1, -1, 0), gibbs=RX.ZERO_DIM)


def _leaf_value(name, T):
    """defining formula of the leaf at temperature T: (value, err)"""
    if name == "const":
        return 2.5, 0.0
    if name == "rconst":
        return 3.0, 0.0
    if name == "sym":
        return X_ENV["x"], 0.0
    if name == "arr":
        return RX.arrhenius(50.0, 600.0, T)
    if name == "eyr":
        return RX.eyring(0.02, 500.0, T)
    if name == "eyrhs":
        return RX.eyring_hs(5000.0, -200.0, T, RX.R_2006, RX.KB_2006, RX.H_2006)
    if name == "tpoly":
        return RX.tpoly([1.0, 0.01, 1e-6], T)
    if name == "rtpoly":
        return RX.rtpoly([2.0, 300.0, 2e4], T)
    if name == "stpoly":
        return RX.shifted_tpoly(273.15, [3.0, 0.01, 1e-5], T)
    if name == "pw":
        i = RX.piecewise([200.0, 298.15, 1000.0, 2000.0], [0, 1, 2], T)
        if i is None:
            raise RX.OutOfRange()
        return [RX.tpoly([1.0, 0.01], T), RX.arrhenius(50.0, 600.0, T), (3.0, 0.0)][i]
    if name == "rad":
        return RX.radiolytic([2.1e-7], [X_ENV["doserate"]], X_ENV["density"])
    if name == "gibbs":
        return RX.gibbs_eq_const(500.0, 1.5, T)
    raise KeyError(name)


def _leaf_obj(name, units):
    """the real chempy expression object of a leaf (fresh instance every time)"""
    from chempy.kinetics.rates import Arrhenius, Eyring, EyringHS, Radiolytic
    from chempy.kinetics._rates import TPoly, RTPoly, ShiftedTPoly, TPiecewise
    from chempy.util._expr import Constant, Symbol
    from chempy.thermodynamics.expressions import GibbsEqConst

    if units:
        u = _U()
        s, K = u.second, u.kelvin
    else:
        s = K = 1
        u = None
    J_mol = (u.joule / u.mol) if units else 1
    if name == "const":
        return Constant(2.5)
    if name == "rconst":
        return Constant(3.0 / s)
    if name == "sym":
        return Symbol(unique_keys=("x",))
    if name == "arr":
        return Arrhenius([50.0 / s, 600.0 * K])
    if name == "eyr":
        return Eyring([0.02 / s / K, 500.0 * K])
    if name == "eyrhs":
        return EyringHS([5000.0 * J_mol, -200.0 * J_mol / K])
    if name == "tpoly":
        return TPoly([1.0 / s, 0.01 / s / K, 1e-6 / s / K ** 2])
    if name == "rtpoly":
        return RTPoly([2.0 / s, 300.0 * K / s, 2e4 * K ** 2 / s])
    if name == "stpoly":
        return ShiftedTPoly([273.15 * K, 3.0 / s, 0.01 / s / K, 1e-5 / s / K ** 2])
    if name == "pw":
        return TPiecewise([200.0 * K, TPoly([1.0 / s, 0.01 / s / K]), 298.15 * K, Arrhenius([50.0 / s, 600.0 * K]), 1000.0 * K, Constant(3.0 / s), 2000.0 * K])
    if name == "rad":
        return Radiolytic([2.1e-7 * (u.mol / u.joule if units else 1)])
    if name == "gibbs":
        return GibbsEqConst([500.0 * K, 1.5])
    raise KeyError(name)


def _build(t, units):
    """real chempy object (or python number) for a tree, built with the python operators exactly as a user would write it"""
    from chempy.util._expr import Log10, Exp

    k = t[0]
    if k == "leaf":
        return _leaf_obj(t[1], units)
    if k == "num":
        return t[1]
    if k == "neg":
        return -_build(t[1], units)
    if k == "log10":
        return Log10(_build(t[1], units))
    if k == "exp":
        return Exp(_build(t[1], units))
    a, b = _build(t[2], units), _build(t[3], units)
    op = t[1]
    if op == "+":
        return a + b
    if op == "-":
        return a - b
    if op == "*":
        return a * b
    if op == "/":
        return a / b
    return a ** b


def _tree_vars(mode, T):
    """variables dict for one evaluation mode; T is a float, a list (numpy array mode) or None (sympy: a symbol)"""
    if mode == "units":
        u = _U()
        return dict(temperature=T * u.kelvin, x=X_ENV["x"] / u.second, density=X_ENV["density"] * u.kg / u.dm3, doserate=X_ENV["doserate"] * u.gray / u.second,
                    molar_gas_constant=RX.R_2006 * u.joule / u.mol / u.kelvin, Boltzmann_constant=RX.KB_2006 * u.joule / u.kelvin, Planck_constant=RX.H_2006 * u.joule * u.second)
    d = dict(temperature=T, molar_gas_constant=RX.R_2006, Boltzmann_constant=RX.KB_2006, Planck_constant=RX.H_2006)
    d.update(X_ENV)
    if mode == "numpy":
        import numpy as np

        d["temperature"] = np.array(T) if isinstance(T, list) else np.float64(T)
    if mode == "sympy":
        import sympy as sp

        d["temperature"] = sp.Symbol("T", positive=True)
        d["x"] = sp.Symbol("x", positive=True)
    return d


def _depth2():
    leaves = [("leaf", n) for n in LEAF_NAMES]
    nums = [("num", n) for n in NUMS]
    out = list(leaves)
    for op in RX.OPS:
        for a in leaves:
            for b in leaves:
                out.append(("bin", op, a, b))
            for n in nums:
                out.append(("bin", op, a, n))
                out.append(("bin", op, n, a))
    for un in ("neg", "log10", "exp"):
        for a in leaves:
            out.append((un, a))
    return out


def _trees(tier):
    """the complete, ordered list of trees of the tier (depth-1 and depth-2 first)"""
    d2 = _depth2()
    out = list(d2)
    inner = [t for t in d2 if t[0] != "leaf"]
    if tier == "thorough":
        partners = [("leaf", n) for n in LEAF_NAMES] + [("num", n) for n in NUMS]
    else:
        partners = [("leaf", "arr")]
    for un in ("neg", "log10", "exp"):
        for a in inner:
            out.append((un, a))
    for op in RX.OPS:
        for a in inner:
            for p in partners:
                out.append(("bin", op, a, p))
                out.append(("bin", op, p, a))
    return out


N_TCHUNK = dict(quick=48, thorough=240)


def _check_tree(res, t, modes=("math", "numpy", "sympy", "units")):
    import numpy as np

    rx = _rx(1)
    leaves = RX.tree_leaves(t)
    ts = RX.tree_str(t)
    refs = []
    TT = TT_PW if "pw" in leaves else TREE_TL  # every breakpoint and interior of the piecewise leaf / the plain lattice
    for T in TT:
        try:
            refs.append(RX.tree_eval(t, lambda n: _leaf_value(n, T)))
        except RX.OutOfRange:
            refs.append(None)
        except (OverflowError, ZeroDivisionError, ValueError):
            refs.append(None)
    inrange = [i for i, r in enumerate(refs) if r is not None]
    res.states += 1
    res.transitions += len(RX.tree_ops(t)) + len(leaves)
    for n in leaves:
        res.symbols["leaf:" + n] += 1
    for o in RX.tree_ops(t):
        res.symbols["op:" + o] += 1
    if not inrange:
        res.outcomes["tree:outside-real-range-at-every-T (skipped)"] += 1
        return
    if leaves and leaves != ["const"] * len(leaves):
        res.nontrivial += 1
    res.extra["skipped_out_of_range_points"] = res.extra.get("skipped_out_of_range_points", 0) + (len(TT) - len(inrange))
    dim = RX.tree_dim(t, LEAF_DIM.get)
    case = dict(layer="T", tree=_j(t))
    for mode in modes:
        if mode == "units":
            if dim is None:
                res.outcomes["units:not-applicable (dimensionally inconsistent or computed exponent)"] += 1
                continue
        # ---- build (operators applied on real objects) and evaluate
        obs = {}
        try:
            e = _build(t, units=(mode == "units"))
            if not hasattr(e, "args"):
                raise TypeError("tree did not produce an expression")
            if mode == "math":
                for i in inrange:
                    try:
                        obs[i] = _tofloat(e(_tree_vars(mode, TT[i]), reaction=rx))
                    except Exception as ex:
                        obs[i] = _exc_tag(ex)
            elif mode == "numpy":
                if "pw" in leaves or "eyr" in leaves or "eyrhs" in leaves:
                    for i in inrange:
                        try:
                            obs[i] = _tofloat(e(_tree_vars(mode, TT[i]), backend=np, reaction=rx))
                        except Exception as ex:
                            obs[i] = _exc_tag(ex)
                else:
                    with np.errstate(all="ignore"):
                        v = e(_tree_vars(mode, [TT[i] for i in inrange]), backend=np, reaction=rx)
                    arr = np.broadcast_to(np.asarray(_tofloat(v), dtype=float), (len(inrange),))
                    for j, i in enumerate(inrange):
                        obs[i] = float(arr[j])
            elif mode == "sympy":
                import sympy as sp

                vs = _tree_vars(mode, None)
                sym = e(vs, backend=sp, reaction=rx)
                for i in inrange:
                    try:
                        val = sp.sympify(sym).subs({vs["temperature"]: TT[i], vs["x"]: X_ENV["x"]})
                        val = sp.N(val)
                        obs[i] = float(val) if val.is_real or val.is_real is None and not val.free_symbols and sp.im(val) == 0 else complex(val)
                    except Exception as ex:
                        obs[i] = _exc_tag(ex)
            else:
                from chempy.units import Backend, to_unitless

                unit = _dim_unit(dim)
                for i in inrange:
                    try:
                        obs[i] = float(to_unitless(e(_tree_vars(mode, TT[i]), backend=Backend(), reaction=rx), unit))
                    except Exception as ex:
                        obs[i] = _exc_tag(ex)
        except Exception as ex:
            tag = _exc_tag(ex)
            obs = {i: tag for i in inrange}
        # ---- compare
        bad = None
        for i in inrange:
            res.evaluations += 1
            o = obs[i]
            v, err = refs[i]
            if isinstance(o, str):
                res.outcomes["%s:%s" % (mode, o)] += 1
                bad = bad or (o, TT[i], o, v)
            elif _close(o, v, err):
                res.outcomes["%s:agrees" % mode] += 1
            else:
                res.outcomes["%s:DIFFERS" % mode] += 1
                bad = bad or ("value-differs-from-defining-formula", TT[i], o, v)
        if bad:
            cl, T, o, v = bad
            res.violation(_tree_key(t, mode, cl), "tree %s evaluated in mode %s at T=%s: %s: observed %r, defining formula gives %r" % (ts, mode, T, cl, o, v),
                          dict(case, mode=mode), observed=o, expected=v)
    if res.states % 211 == 1:
        res.sample(dict(layer="T", tree=ts, T=list(TT), ref=[None if r is None else r[0] for r in refs]), limit=2)


def _tree_key(t, mode, cl):
    """class of a tree failure: the outermost construct + (for exceptions) the exception; one defect -> few keys"""
    if cl.startswith("EXC AttributeError:"):
        # a backend lacking the function a unary expression class needs: the same class of failure as in the class layer
        owner = {"log10": "Log10", "exp": "Exp"}.get(cl.split(":")[1], "tree")
        return "C16|%s|%s|%s" % (owner, mode, cl)
    k = t[0]
    if k == "bin":
        refl = "reflected " if t[2][0] == "num" else ""
        top = "%s%s" % (refl, t[1])
    elif k == "leaf":
        top = "leaf " + t[1]
    else:
        top = k
    return "C16|tree|%s|%s|top=%s" % (mode, cl, top)


def _j(t):
    return [(_j(x) if isinstance(x, tuple) else x) for x in t]


def _unj(t):
    return tuple((_unj(x) if isinstance(x, list) else x) for x in t)


# =============================================================================================== layer P: parameter sets
A_LAT = (1e3, 1e13)
EA_LAT = (0.0, 4e4, 2e5)
DS_LAT = (-100.0, 50.0)
K_LAT = (7.5, 3e-4)
TIER_LATTICES = dict(
    quick=dict(TL=TL, A_LAT=A_LAT, EA_LAT=EA_LAT, DS_LAT=DS_LAT),
    thorough=dict(TL=(200.0, 250.0, 298.15, 400.0, 600.0, 1000.0, 1500.0, 2000.0), A_LAT=(1e3, 1e8, 1e13), EA_LAT=(0.0, 1e4, 4e4, 1e5, 2e5), DS_LAT=(-100.0, -20.0, 50.0)),
)


def _set_tier(tier):
    globals().update(TIER_LATTICES[tier])


def _p_plain_backends():
    import numpy as np

    return (("omitted", None), ('"numpy"', "numpy"), ("numpy", np), ('"math"', "math"), ("math", math))


def _energy_units():
    u = _U()
    return (("J/mol", u.joule / u.mol), ("kJ/mol", u.kilojoule / u.mol), ("cal/mol", u.cal / u.mol))


def _consts(path):
    """(R, kB/h) of the code path: 'literal' = no constants object, 'object' = chempy.units.default_constants"""
    if path == "literal":
        return RX.R_2006, RX.KB_2006 / RX.H_2006
    from chempy.units import default_constants as dc, default_units as u, to_unitless

    R = float(to_unitless(dc.molar_gas_constant, u.joule / u.mol / u.kelvin))
    kBh = float(to_unitless(dc.Boltzmann_constant / dc.Planck_constant, 1 / u.second / u.kelvin))
    return R, kBh


def _pref(family, p1, p2, T, path):
    """defining formula of the parameter set: Arrhenius (A, Ea) / Eyring (dH, dS)"""
    R, kBh = _consts(path)
    if family == "arrhenius":
        return RX.arrhenius_R(p1, p2, T, R)
    return RX.eyring_hs(p1, p2, T, R, kBh, 1.0)  # kB/h passed as kB with h = 1


def _run_P(res, family, only=None):
    import numpy as np
    import sympy as sp
    from chempy import Reaction
    from chempy.units import default_units as u, default_constants as dc, to_unitless, Backend
    from chempy.kinetics.arrhenius import ArrheniusParam, ArrheniusParamWithUnits, arrhenius_equation
    from chempy.kinetics.eyring import EyringParam, EyringParamWithUnits, eyring_equation

    if family == "arrhenius":
        Plain, WithU, eqfn = ArrheniusParam, ArrheniusParamWithUnits, arrhenius_equation
        lat1, lat2 = A_LAT, EA_LAT  # (A, Ea)
        mk = lambda a, b: (a, b)  # constructor order (A, Ea)
        u1 = 1 / u.second
    else:
        Plain, WithU, eqfn = EyringParam, EyringParamWithUnits, eyring_equation
        lat1, lat2 = EA_LAT, DS_LAT  # (dH, dS)
        mk = lambda a, b: (a, b)
        u1 = None
    per_s = 1 / u.second

    def report(cfg, p1, p2, T, obs, ref, what, extra=None):
        res.evaluations += 1
        v, err = ref
        if isinstance(obs, str):
            res.outcomes["P:%s" % obs] += 1
            cl = obs
        elif _close(obs, v, err):
            res.outcomes["P:agrees"] += 1
            return
        else:
            res.outcomes["P:DIFFERS"] += 1
            cl = "value-differs-from-defining-formula"
        case = dict(layer="P", family=family, cfg=cfg, p1=p1, p2=p2, T=T)
        if extra:
            case.update(extra)
        fam = "param-set" if cl.startswith("EXC AttributeError") else family
        keycfg = "[%s]" % ",".join(x for x in cfg.split(";")[1:] if not x.startswith("order")) if cfg.startswith("units") and fam == family else ""
        res.violation("C16|%s|%s%s|%s" % (fam, what, keycfg, cl), "%s param set (%r, %r) %s [%s] at T=%r: observed %r, defining formula gives %r" % (family, p1, p2, what, cfg, T, obs, v), case, observed=obs, expected=v)

    def guarded(f):
        try:
            return _tofloat(f())
        except Exception as ex:
            return _exc_tag(ex)

    for p1, p2 in itertools.product(lat1, lat2):
        res.states += 1
        res.nontrivial += 1
        res.symbols["P:%s" % family] += 1
        res.sample(dict(layer="P", family=family, params=[p1, p2], T=list(TL)), limit=2)
        # ---------------- S1: value of the parameter set, plain numbers
        for (bn, be), entry in itertools.product(_p_plain_backends(), ("param", "function")):
            kw = {} if be is None else dict(backend=be)
            res.symbols["P:backend " + bn] += 1
            for T in TL:
                res.transitions += 1
                if entry == "param":
                    obs = guarded(lambda: Plain(*mk(p1, p2))(T, **kw))
                else:
                    obs = guarded(lambda: eqfn(p1, p2, T, **kw))
                report("plain;%s;%s" % (entry, bn), p1, p2, T, obs, _pref(family, p1, p2, T, "literal"), "value")
        # numpy array of temperatures
        res.transitions += 1
        obs = guarded(lambda: Plain(*mk(p1, p2))(np.array(TL), backend=np))
        for i, T in enumerate(TL):
            report("plain;param;numpy-array", p1, p2, T, obs if isinstance(obs, str) else obs[i], _pref(family, p1, p2, T, "literal"), "value")
        # symbolic temperature, then substituted
        Ts = sp.Symbol("T", positive=True)
        res.transitions += 1
        try:
            sym = Plain(*mk(p1, p2))(Ts, backend=sp)
        except Exception as ex:
            sym = _exc_tag(ex)
        for T in TL:
            obs = sym if isinstance(sym, str) else guarded(lambda: float(sp.N(sp.sympify(sym).subs(Ts, T))))
            report("plain;param;sympy", p1, p2, T, obs, _pref(family, p1, p2, T, "literal"), "value")
        # ---------------- S1 with units: constants object / units-only
        for (en, eu), path in itertools.product(_energy_units(), ("object", "object,units=None", "literal")):
            res.symbols["P:energy unit " + en] += 1
            E = (p1 if family == "eyring" else p2) * u.joule / u.mol  # the same physical energy, spelled in another unit
            E = E.rescale(eu)
            if family == "arrhenius":
                args = (p1 * per_s, E)
            else:
                # the activation entropy is spelled in the matching unit (J, kJ, cal per mol and kelvin): the same physical value
                args = (E, (p2 * u.joule / u.mol / u.kelvin).rescale(eu / u.kelvin))
            for T in TL:
                res.transitions += 1
                if path == "object":
                    obs = guarded(lambda: to_unitless(WithU(*args)(T * u.kelvin), per_s))
                elif path == "object,units=None":
                    obs = guarded(lambda: to_unitless(WithU(*args)(T * u.kelvin, constants=dc, units=None), per_s))
                else:
                    obs = guarded(lambda: to_unitless(WithU(*args)(T * u.kelvin, constants=None, units=u), per_s))
                report("units;%s;constants=%s" % (en, path), p1, p2, T, obs, _pref(family, p1, p2, T, path.split(",")[0]), "value-with-units")
        # ---------------- S2: from_rateconst_at_T round trip (Arrhenius only offers it)
        if family == "arrhenius":
            for k, T in itertools.product(K_LAT, TL):
                res.transitions += 2
                ex = 2 * RX.EPS * (1 + abs(p2 / RX.R_2006 / T)) * 4
                obs = guarded(lambda: Plain.from_rateconst_at_T(p2, (T, k))(T))
                report("plain", p1, p2, T, obs, (k, k * ex), "from_rateconst_at_T-roundtrip", dict(k=k))
                obs = guarded(lambda: Plain.from_rateconst_at_T(p2, (T, k)).Ea)
                report("plain", p1, p2, T, obs, (p2, 0.0), "from_rateconst_at_T-keeps-Ea", dict(k=k))
                for en, eu in _energy_units():
                    E = (p2 * u.joule / u.mol).rescale(eu)
                    res.transitions += 2
                    obs = guarded(lambda: to_unitless(WithU.from_rateconst_at_T(E, (T * u.kelvin, k * per_s))(T * u.kelvin), per_s))
                    report("units;%s" % en, p1, p2, T, obs, (k, k * ex), "from_rateconst_at_T-roundtrip", dict(k=k))
        # ---------------- S3: as a rate expression of a reaction = value x mass-action concentration product
        conc = dict(A=2.0, B=3.0, P=5.0)
        for order in (1, 2, 3):
            base = _rx(order)
            cp = RX.mass_action_product(base.reac, conc)
            for T in TL:
                kv, kerr = _pref(family, p1, p2, T, "literal")
                # plain numbers
                rxn = Reaction(base.reac, base.prod, Plain(*mk(p1, p2)))
                V = dict(conc, temperature=T)
                for how in ("Reaction.rate", "as_RateExpr()(...)", "rate_coeff"):
                    res.transitions += 1
                    if how == "Reaction.rate":
                        r = guarded(lambda: [rxn.rate(V)[s] for s in ("A", "P")])
                        exp_ = [(-base.reac["A"] * kv * cp, base.reac["A"] * kerr * cp * 2), (kv * cp, kerr * cp * 2)]
                        for o, e_ in zip(r if not isinstance(r, str) else [r, r], exp_):
                            report("plain;order%d" % order, p1, p2, T, o, e_, "as-rate-expression/" + how, dict(order=order))
                    elif how == "rate_coeff":
                        if family == "eyring":
                            continue  # Eyring.__call__ needs the reaction; rate_coeff passes it only via MassAction.__call__
                        o = guarded(lambda: Plain(*mk(p1, p2)).as_RateExpr().rate_coeff(V))
                        report("plain;order%d" % order, p1, p2, T, o, (kv, kerr * 2), "as-rate-expression/" + how, dict(order=order))
                    else:
                        o = guarded(lambda: Plain(*mk(p1, p2)).as_RateExpr()(V, reaction=base))
                        report("plain;order%d" % order, p1, p2, T, o, (kv * cp, kerr * cp * 2), "as-rate-expression/" + how, dict(order=order))
                # quantities: rate constant of the right dimension for the order; J/mol and kJ/mol spellings; both backends
                kvo, kerro = _pref(family, p1, p2, T, "object")
                for (en, eu), bname in itertools.product(_energy_units()[:2] if family == "arrhenius" else _energy_units(), ("Backend()", "default")):
                    kunit = per_s / u.molar ** (order - 1)
                    E = ((p1 if family == "eyring" else p2) * u.joule / u.mol).rescale(eu)
                    if family == "arrhenius":
                        par = WithU(p1 * kunit, E)
                    else:
                        par = WithU(E, (p2 * u.joule / u.mol / u.kelvin).rescale(eu / u.kelvin))
                    Vu = dict({k_: v_ * u.molar for k_, v_ in conc.items()}, temperature=T * u.kelvin)
                    rxn = Reaction(base.reac, base.prod, par)
                    kw = dict(backend=Backend()) if bname == "Backend()" else {}
                    res.transitions += 1
                    o = guarded(lambda: to_unitless(rxn.rate(Vu, **kw)["P"], u.molar / u.second))
                    report("units;%s;%s;order%d" % (en, bname, order), p1, p2, T, o, (kvo * cp, kerro * cp * 2), "as-rate-expression/Reaction.rate-with-units", dict(order=order))


# =============================================================================================== layer X: classes, overrides
def _x_specs():
    """per expression class: constructor, argument lattice, defining formula, units of arguments/variables/result"""
    from chempy.kinetics.rates import Arrhenius, Eyring, EyringHS, Radiolytic, mk_Radiolytic, RampedTemp, SinTemp, MassAction
    from chempy.kinetics._rates import TPoly, RTPoly, ShiftedTPoly, ShiftedRTPoly
    from chempy.thermodynamics.expressions import GibbsEqConst, MassActionEq

    u = _U()
    s, K, M = u.second, u.kelvin, u.molar
    Jm = u.joule / u.mol
    R, kB, h = RX.R_2006, RX.KB_2006, RX.H_2006
    cvars = dict(molar_gas_constant=(R, Jm / K), Boltzmann_constant=(kB, u.joule / K), Planck_constant=(h, u.joule * s))
    Tvar = dict(temperature=(None, K))  # None = the lattice temperature
    specs = []

    def add(name, cls, arglat, argunits, formula, resdim, variables=Tvar, orders=(1,), altvals=None, scaled=None, nargs_fixed=True):
        specs.append(dict(name=name, cls=cls, arglat=arglat, argunits=argunits, formula=formula, resdim=resdim, variables=variables, orders=orders,
                          altvals=altvals, scaled=scaled or {}, nargs_fixed=nargs_fixed))

    add("Arrhenius", Arrhenius, [A_LAT, tuple(e / R for e in EA_LAT)], [1 / s, K], lambda a, env: RX.arrhenius(a[0], a[1], env["T"]), (0, -1, 0),
        altvals=[77.0, 1234.5], scaled={0: 1 / u.millisecond, 1: u.rankine, "temperature": u.rankine})
    for order in (1, 2, 3):
        add("Eyring/order%d" % order, Eyring, [(1e8, 1e12), (0.0, 4811.0, 24054.0), (1.0, 2.0)], [1 / s / K, K, M],
            (lambda o: lambda a, env: RX.eyring(a[0], a[1], env["T"], a[2], o))(order), (1 - order, -1, 0), orders=(order,),
            altvals=[3e9, 999.0, 0.5], scaled={1: u.rankine, 2: u.mol / u.metre ** 3, "temperature": u.rankine})
        add("EyringHS/order%d" % order, EyringHS, [EA_LAT, DS_LAT, (1.0, 2.0)], [Jm, Jm / K, M],
            (lambda o: lambda a, env: RX.eyring_hs(a[0], a[1], env["T"], R, kB, h, a[2], o))(order), (1 - order, -1, 0),
            variables=dict(Tvar, **cvars), orders=(order,), altvals=[1e4, 20.0, 0.5], scaled={0: u.kilojoule / u.mol, 2: u.mol / u.metre ** 3, "temperature": u.rankine})
    coef = (3.0, 0.01, -2e-5, 1e-8)
    for n in (1, 2, 3, 4):
        cu = [1 / s / K ** i for i in range(n)]
        add("TPoly/%d" % n, TPoly, [(c,) for c in coef[:n]], cu, lambda a, env: RX.tpoly(list(a), env["T"]), (0, -1, 0), altvals=[7.0, 0.5, 1e-3, 1e-7][:n], nargs_fixed=False)
        cur = [K ** i / s for i in range(n)]
        rc = (3.0, 400.0, -2e4, 1e6)
        add("RTPoly/%d" % n, RTPoly, [(c,) for c in rc[:n]], cur, lambda a, env: RX.rtpoly(list(a), env["T"]), (0, -1, 0), altvals=[7.0, 50.0, 1e3, 1e5][:n], nargs_fixed=False)
        add("ShiftedTPoly/%d" % n, ShiftedTPoly, [(273.15, 100.0)] + [(c,) for c in coef[:n]], [K] + cu, lambda a, env: RX.shifted_tpoly(a[0], list(a[1:]), env["T"]), (0, -1, 0),
            altvals=[150.0, 7.0, 0.5, 1e-3, 1e-7][: n + 1], nargs_fixed=False)
        add("ShiftedRTPoly/%d" % n, ShiftedRTPoly, [(273.15, 100.0)] + [(c,) for c in rc[:n]], [K] + cur, lambda a, env: RX.shifted_rtpoly(a[0], list(a[1:]), env["T"]), (0, -1, 0),
            altvals=[150.0, 7.0, 50.0, 1e3, 1e5][: n + 1], nargs_fixed=False)
    # long polynomials (more than ten coefficients): terms 3*(-T/2000)**i and 3*(-200/T)**i stay of order one over 200..2000 K
    for n in (11, 12, 15):
        lc = [3.0 * (-1.0 / 2000.0) ** i for i in range(n)]
        add("TPoly/%d" % n, TPoly, [(c,) for c in lc], [1 / s / K ** i for i in range(n)], lambda a, env: RX.tpoly(list(a), env["T"]), (0, -1, 0), altvals=None, nargs_fixed=False)
        lr = [3.0 * (-200.0) ** i for i in range(n)]
        add("RTPoly/%d" % n, RTPoly, [(c,) for c in lr], [K ** i / s for i in range(n)], lambda a, env: RX.rtpoly(list(a), env["T"]), (0, -1, 0), altvals=None, nargs_fixed=False)
    rvars = dict(density=(0.998, u.kg / u.dm3), doserate=(0.15, u.gray / s))
    add("Radiolytic", Radiolytic, [(2.1e-7, 4.5e-8)], [u.mol / u.joule], lambda a, env: RX.radiolytic([a[0]], [0.15], 0.998), (1, -1, 0), variables=rvars, altvals=[9e-8],
        scaled={0: u.per100eV, "density": u.kg / u.metre ** 3, "doserate": u.gray / u.hour})
    rvars2 = dict(density=(0.7, u.kg / u.dm3), doserate_alpha=(11.0, u.gray / s), doserate_beta=(13.0, u.gray / s))
    add("Radiolytic_alpha_beta", mk_Radiolytic("alpha", "beta"), [(3e-7, 5e-8), (5e-7,)], [u.mol / u.joule] * 2, lambda a, env: RX.radiolytic([a[0], a[1]], [11.0, 13.0], 0.7), (1, -1, 0),
        variables=rvars2, altvals=[2e-7, 9e-8])
    rvars3 = dict(density=(0.998, u.kg / u.dm3), doserate_gamma=(30.0, u.gray / s), doserate_alpha=(0.15, u.gray / s))
    add("Radiolytic_gamma_alpha", mk_Radiolytic("gamma", "alpha"), [(4.5e-8, 3e-7), (2.1e-7,)], [u.mol / u.joule] * 2, lambda a, env: RX.radiolytic([a[0], a[1]], [30.0, 0.15], 0.998), (1, -1, 0),
        variables=rvars3, altvals=[2e-7, 9e-8])  # names given in non-alphabetical order: yields pair with dose rates in the given order
    add("GibbsEqConst", GibbsEqConst, [(-5000.0, 0.0, 5000.0), (-3.0, 2.0)], [K, 1], lambda a, env: RX.gibbs_eq_const(a[0], a[1], env["T"]), RX.ZERO_DIM, altvals=[1234.0, 0.5],
        scaled={0: u.rankine, "temperature": u.rankine})
    add("MassActionEq", MassActionEq, [(1e-14, 55.5)], [1], lambda a, env: (a[0], 0.0), RX.ZERO_DIM, variables={}, altvals=[42.0])
    tvars = dict(time=(7.0, s))
    add("RampedTemp", RampedTemp, [(273.15, 1000.0), (0.5, -2.0)], [K, K / s], lambda a, env: RX.ramped_temp(a[0], a[1], 7.0), (0, 0, 1), variables=tvars, altvals=[300.0, 1.25],
        scaled={1: K / u.hour, "time": u.millisecond})
    add("SinTemp", SinTemp, [(298.15,), (10.0, 50.0), (0.3, 2.0), (0.0, 1.0)], [K, K, 1 / s, 1], lambda a, env: RX.sin_temp(a[0], a[1], a[2], a[3], 7.0), (0, 0, 1), variables=tvars,
        altvals=[350.0, 5.0, 0.7, 0.25], scaled={2: 1 / u.hour, "time": u.millisecond})
    return specs


def _x_dim_unit(dim):
    return _dim_unit(dim)


def _x_vars(spec, T, mode, scaled=False):
    """variables of one class evaluation; returns (variables, substitutions for sympy)"""
    import numpy as np
    import sympy as sp

    out, subs = {}, {}
    for k, (val, unit) in spec["variables"].items():
        v = T if val is None else val
        if mode == "units":
            q = v * unit
            if scaled and k in spec["scaled"]:
                q = q.rescale(spec["scaled"][k])
            out[k] = q
        elif mode == "sympy" and (val is None or k == "time"):
            sym = sp.Symbol(k, positive=True)
            out[k] = sym
            subs[sym] = v
        elif mode == "numpy" and val is None:
            out[k] = np.array(T) if isinstance(T, list) else np.float64(T)
        else:
            out[k] = v
    return out, subs


def _x_eval(spec, obj, T, mode, order, extra_vars=None, scaled=False, default_backend=False, extra_subs=None):
    """evaluate a real expression object in one mode at one temperature (list of temperatures in numpy mode) -> float(s) or 'EXC ...'"""
    import numpy as np
    import sympy as sp
    from chempy.units import Backend, to_unitless

    rx = _rx(order)
    V, subs = _x_vars(spec, T, mode, scaled)
    if extra_vars:
        V.update(extra_vars)
    try:
        if mode == "math":
            return _tofloat(obj(V, reaction=rx))
        if mode == "numpy":
            with np.errstate(all="ignore"):
                v = _tofloat(obj(V, backend=np, reaction=rx))
            if isinstance(T, list):
                return [float(x) for x in np.broadcast_to(np.asarray(v, dtype=float), (len(T),))]
            return v
        if mode == "sympy":
            sym = sp.sympify(obj(V, backend=sp, reaction=rx))
            subs.update(extra_subs or {})  # overrides given as symbols are substituted as well
            return float(sp.N(sym.subs(subs)))
        kw = {} if default_backend else dict(backend=Backend())
        return float(to_unitless(obj(V, reaction=rx, **kw), _x_dim_unit(spec["resdim"])))
    except Exception as ex:
        return _exc_tag(ex)


def _x_args(spec, a, units, scaled=False):
    out = []
    for i, (v, unit) in enumerate(zip(a, spec["argunits"])):
        if units:
            q = v * unit
            if scaled and i in spec["scaled"]:
                q = q.rescale(spec["scaled"][i])
            out.append(q)
        else:
            out.append(v)
    return out


def _run_X(res, spec, only_case=None):
    name = spec["name"]
    order = spec["orders"][0]
    nargs = len(spec["arglat"])
    dependsT = None in [v[0] for v in spec["variables"].values()]
    Ts = TL if dependsT else (298.15,)

    def report(cfgname, a, T, obs, ref, what, case_extra):
        res.evaluations += 1
        v, err = ref
        if isinstance(obs, str):
            res.outcomes["X:%s:%s" % (cfgname.split("/")[0], obs)] += 1
            cl = obs
        elif _close(obs, v, err):
            res.outcomes["X:%s:agrees" % cfgname.split("/")[0]] += 1
            return
        else:
            res.outcomes["X:%s:DIFFERS" % cfgname.split("/")[0]] += 1
            cl = "value-differs-from-defining-formula"
        cname = name.split("/")[0]
        case = dict(layer="X", spec=name, a=list(a), T=T, cfg=cfgname)
        case.update(case_extra)
        res.violation("C16|%s|%s|%s" % (cname, what + ":" + cfgname.split("/")[0], cl), "%s(%r) %s [%s] at T=%r: observed %r, defining formula gives %r" % (name, list(a), what, cfgname, T, obs, v),
                      case, observed=obs, expected=v)

    for a in itertools.product(*spec["arglat"]):
        res.states += 1
        res.nontrivial += 1
        res.symbols["X:" + name.split("/")[0]] += 1
        refs = {}
        for T in Ts:
            try:
                refs[T] = spec["formula"](a, dict(T=T))
            except RX.OutOfRange:
                refs[T] = None
        okT = [T for T in Ts if refs[T] is not None]
        if not okT:
            res.outcomes["X:outside-real-range (skipped)"] += 1
            continue
        # ---------------------------- S4: the four modes (+ unit spellings)
        cfgs = [("math", "math", {}), ("numpy", "numpy", {}), ("sympy", "sympy", {}), ("units", "units/Backend()", {}), ("units", "units/default-backend", dict(default_backend=True))]
        if spec["scaled"]:
            cfgs.append(("units", "units-scaled/Backend()", dict(scaled=True)))
        for mode, cfgname, kw in cfgs:
            res.symbols["X:mode " + cfgname] += 1
            units = mode == "units"
            try:
                obj = spec["cls"](_x_args(spec, a, units, kw.get("scaled", False)))
            except Exception as ex:
                tag = _exc_tag(ex)
                for T in okT:
                    report(cfgname, a, T, tag, refs[T], "value", dict(kind="value"))
                continue
            res.transitions += 1
            if mode == "numpy":
                obs = _x_eval(spec, obj, list(okT), mode, order)
                for i, T in enumerate(okT):
                    report(cfgname, a, T, obs if isinstance(obs, str) else obs[i], refs[T], "value", dict(kind="value"))
            else:
                for T in okT:
                    obs = _x_eval(spec, obj, T, mode, order, **kw)
                    report(cfgname, a, T, obs, refs[T], "value", dict(kind="value"))
        # ---------------------------- S5: named overrides: every unique_keys prefix x every subset of overridden arguments
        if spec["altvals"] is None:
            continue
        T = okT[len(okT) // 2]
        keys = ["uk%d_%s" % (i, name.replace("/", "_")) for i in range(nargs)]
        for j in range(0, nargs + 1):
            for S in itertools.chain.from_iterable(itertools.combinations(range(j), r) for r in range(j + 1)):
                a2 = [spec["altvals"][i] if i in S else a[i] for i in range(nargs)]
                try:
                    ref = spec["formula"](a2, dict(T=T))
                except RX.OutOfRange:
                    continue
                for mode in ("math", "sympy", "units"):
                    units = mode == "units"
                    res.transitions += 1
                    res.symbols["X:override prefix=%d subset=%d" % (j, len(S))] += 1
                    try:
                        obj = spec["cls"](_x_args(spec, a, units), unique_keys=keys[:j] if j else None)
                        alt = _x_args(spec, a2, units)
                        osub = None
                        if mode == "sympy":
                            import sympy as sp

                            ov = {keys[i]: sp.Symbol(keys[i], real=True) for i in S}
                            osub = {ov[keys[i]]: a2[i] for i in S}
                        else:
                            ov = {keys[i]: alt[i] for i in S}
                        obs = _x_eval(spec, obj, T, mode, order, extra_vars=ov, extra_subs=osub)
                    except Exception as ex:
                        obs = _exc_tag(ex)
                    report(mode + "/override", a, T, obs, ref, "override", dict(kind="override", prefix=j, subset=list(S)))
        # ---------------------------- S6: the arguments given as a mapping {argument name: value}, keys written in every order
        anames = getattr(spec["cls"], "argument_names", None)
        if anames and len(anames) == nargs and "..." not in anames and nargs >= 2:
            perms = list(itertools.permutations(range(nargs))) if nargs <= 3 else [tuple(range(k, nargs)) + tuple(range(k)) for k in range(nargs)] + [tuple(range(nargs))[::-1]]
            for perm in perms:
                res.transitions += 1
                res.symbols["X:mapping-args"] += 1
                try:
                    from collections import OrderedDict as _OD

                    obj = spec["cls"](_OD((anames[i], a[i]) for i in perm))
                    obs = _x_eval(spec, obj, T, "math", order)
                except Exception as ex:
                    obs = _exc_tag(ex)
                report("math/mapping-args", a, T, obs, refs[T], "arguments-by-name", dict(kind="mapping", perm=list(perm)))
        # all arguments supplied late through unique keys only (args=None)
        if spec["nargs_fixed"]:
            res.transitions += 1
            try:
                obj = spec["cls"].fk(*keys)
                obs = _x_eval(spec, obj, T, "math", order, extra_vars={keys[i]: a[i] for i in range(nargs)})
            except Exception as ex:
                obs = _exc_tag(ex)
            report("math/fk", a, T, obs, refs[T], "override(args=None, all keys)", dict(kind="fk"))
        # ---------------------------- S9: two instances with EQUAL written arguments but separately named ones, combined by + - * /;
        # one name of the second is overridden: exactly that argument of exactly that instance is replaced
        if spec["nargs_fixed"] and spec["altvals"] is not None:
            import operator

            kA = ["nA%d_%s" % (i, name.replace("/", "_")) for i in range(nargs)]
            kB = ["nB%d_%s" % (i, name.replace("/", "_")) for i in range(nargs)]
            a2 = [spec["altvals"][0]] + list(a[1:])
            try:
                fa, fb = spec["formula"](a, dict(T=T)), spec["formula"](a2, dict(T=T))
            except RX.OutOfRange:
                fa = fb = None
            if fa is not None:
                for opname, op in (("+", operator.add), ("-", operator.sub), ("*", operator.mul), ("/", operator.truediv)):
                    if opname == "/" and fb[0] == 0:
                        continue
                    res.transitions += 1
                    ref = (op(fa[0], fb[0]), (abs(fa[1]) + abs(fb[1])) * (1 + abs(fa[0]) + abs(fb[0])) * 4 + 1e-12 * abs(op(fa[0], fb[0])))
                    try:
                        comb = op(spec["cls"](_x_args(spec, a, False), unique_keys=kA), spec["cls"](_x_args(spec, a, False), unique_keys=kB))
                        obs = _x_eval(spec, comb, T, "math", order, extra_vars={kB[0]: a2[0]})
                    except Exception as ex:
                        obs = _exc_tag(ex)
                    report("math/two-instances%s" % opname, a, T, obs, ref, "override-in-combination", dict(kind="two-instances", op=opname))
        # ---------------------------- S7: a required named argument that is not supplied is refused, never silently defaulted
        if spec["nargs_fixed"]:
            ndef = len(getattr(spec["cls"], "argument_defaults", None) or ())
            for i in range(nargs - ndef):
                res.transitions += 1
                res.evaluations += 1
                try:
                    obj = spec["cls"].fk(*keys)
                    obs = _x_eval(spec, obj, T, "math", order, extra_vars={keys[k]: a[k] for k in range(nargs) if k != i})
                except Exception as ex:
                    obs = _exc_tag(ex)
                if isinstance(obs, str):
                    res.outcomes["X:missing-named-argument:refused"] += 1
                else:
                    res.outcomes["X:missing-named-argument:EVALUATED"] += 1
                    res.violation("C16|%s|missing-named-argument|evaluated" % name.split("/")[0], "%s.fk(%s) evaluated without a value for %r (argument %d, no default) gives %r instead of an error" % (
                        name, ", ".join(keys), keys[i], i, obs), dict(layer="X", spec=name, a=list(a), T=T, cfg="math/fk-missing", kind="fk-missing", missing=i), observed=obs, expected="KeyError")
        # ---------------------------- S8: the temperature supplied as an expression of time (RampedTemp) in a variables dict that
        # the caller keeps and updates: every evaluation follows the dict as it is, and the dict keeps the expression
        # (classes that evaluate their parameters through Expr.all_params; Arrhenius / Eyring / EyringHS read
        # variables['temperature'] as a number and do not take an expression there)
        if dependsT and "time" not in spec["variables"] and name.split("/")[0] not in ("Arrhenius", "Eyring", "EyringHS"):
            from chempy.kinetics.rates import RampedTemp

            ramp = RampedTemp([T, 2.0])
            V = {k: (v if v is not None else None) for k, (v, unit) in spec["variables"].items()}
            V["temperature"] = ramp
            V["time"] = 0.0
            for step, tnow in enumerate((0.0, 50.0, 0.0)):
                V["time"] = tnow
                Tnow = T + 2.0 * tnow
                res.transitions += 1
                try:
                    ref = spec["formula"](a, dict(T=Tnow))
                except RX.OutOfRange:
                    break
                try:
                    obj = spec["cls"](_x_args(spec, a, False))
                    obs = _tofloat(obj(V, reaction=_rx(order)))
                except Exception as ex:
                    obs = _exc_tag(ex)
                report("math/temperature-as-expression", a, T, obs, ref, "kept-variables-dict step %d" % step, dict(kind="ramp", step=step))
                if V.get("temperature") is not ramp:
                    res.violation("C16|%s|callers-variables-modified" % name.split("/")[0], "%s(%r) evaluated with variables['temperature'] = RampedTemp([...]): the caller's dict now holds %r there" % (
                        name, list(a), V.get("temperature")), dict(layer="X", spec=name, a=list(a), T=T, cfg="math/temperature-as-expression", kind="ramp-dict", step=step), observed=repr(V.get("temperature")), expected="the expression")
                    V["temperature"] = ramp
    res.sample(dict(layer="X", spec=name, arg_lattice=[list(x) for x in spec["arglat"]], T=list(Ts)), limit=1)


# --------------------------------------------------------------------------------------------- wrappers: MassAction, Log10, Exp, Constant, Symbol
def _run_W(res):
    """wrapper/leaf classes with special call signatures"""
    import numpy as np
    import sympy as sp
    from chempy import Reaction
    from chempy.units import Backend, to_unitless
    from chempy.kinetics.rates import MassAction, Arrhenius
    from chempy.util._expr import Constant, Symbol, Log10, Exp

    u = _U()

    def report(what, cfg, obs, ref, case):
        res.evaluations += 1
        v, err = ref
        if isinstance(obs, str):
            cl = obs
            res.outcomes["W:%s:%s" % (cfg, obs)] += 1
        elif _close(obs, v, err):
            res.outcomes["W:%s:agrees" % cfg] += 1
            return
        else:
            cl = "value-differs-from-defining-formula"
            res.outcomes["W:%s:DIFFERS" % cfg] += 1
        res.violation("C16|%s|%s|%s" % (what.split("[")[0], cfg.split("/")[0], cl), "%s in mode %s: observed %r, defining formula gives %r (%r)" % (what, cfg, obs, v, case), dict(case, layer="W", what=what, cfg=cfg), observed=obs, expected=v)

    def guarded(f):
        try:
            return _tofloat(f())
        except Exception as ex:
            return _exc_tag(ex)

    conc = dict(A=2.0, B=3.0, P=5.0)
    for order, k, T in itertools.product((1, 2, 3), (3.14, 2e5), TL):
        res.states += 1
        res.nontrivial += 1
        rx = _rx(order)
        cp = RX.mass_action_product(rx.reac, conc)
        case = dict(order=order, k=k, T=T)
        res.symbols["W:MassAction"] += 1
        res.transitions += 11
        res.sample(dict(layer="W", what="MassAction", **case), limit=1)
        # constant rate constant; named override; Arrhenius inside
        report("MassAction", "math", guarded(lambda: MassAction([k])(conc, reaction=rx)), (k * cp, 4 * RX.EPS * k * cp), case)
        report("MassAction", "math/override", guarded(lambda: MassAction([k], ["kk%d" % order])(dict(conc, **{"kk%d" % order: 2 * k}), reaction=rx)), (2 * k * cp, 8 * RX.EPS * k * cp), case)
        report("MassAction", "math/not-overridden", guarded(lambda: MassAction([k], ["kn%d" % order])(conc, reaction=rx)), (k * cp, 4 * RX.EPS * k * cp), case)
        report("MassAction", "math/fk", guarded(lambda: MassAction.fk("kf%d" % order)(dict(conc, **{"kf%d" % order: k}), reaction=rx)), (k * cp, 4 * RX.EPS * k * cp), case)
        av, ae = RX.arrhenius(k, 600.0, T)
        ma = lambda un: MassAction(Arrhenius([k / u.second / u.molar ** (order - 1), 600.0 * u.kelvin] if un else [k, 600.0]))
        V = dict(conc, temperature=T)
        report("MassAction(Arrhenius)", "math", guarded(lambda: ma(0)(V, reaction=rx)), (av * cp, 2 * ae * cp), case)
        report("MassAction(Arrhenius)", "math/rate_coeff", guarded(lambda: ma(0).rate_coeff(V)), (av, ae), case)
        report("MassAction(Arrhenius)", "numpy", guarded(lambda: ma(0)(dict(V, temperature=np.float64(T)), backend=np, reaction=rx)), (av * cp, 2 * ae * cp), case)
        Ts, As = sp.Symbol("T", positive=True), sp.Symbol("A", positive=True)
        report("MassAction(Arrhenius)", "sympy", guarded(lambda: float(sp.N(sp.sympify(ma(0)(dict(V, temperature=Ts, A=As), backend=sp, reaction=rx)).subs({Ts: T, As: conc["A"]})))), (av * cp, 2 * ae * cp), case)
        Vu = dict({k_: v_ * u.molar for k_, v_ in conc.items()}, temperature=T * u.kelvin)
        report("MassAction(Arrhenius)", "units", guarded(lambda: to_unitless(ma(1)(Vu, backend=Backend(), reaction=rx), u.molar / u.second)), (av * cp, 2 * ae * cp), case)
        # --- the same objects used more than once (a solver evaluates an expression thousands of times) -------------
        def twice_units():
            m = MassAction([k / u.second / u.molar ** (order - 1)])
            m(Vu, backend=Backend(), reaction=rx)
            return to_unitless(m(Vu, backend=Backend(), reaction=rx), u.molar / u.second)

        report("MassAction[second evaluation of the same object]", "units", guarded(twice_units), (k * cp, 8 * RX.EPS * k * cp), case)

        def twice_array():
            m = MassAction([np.array([k, 2 * k])])
            ca = {k_: np.array([v_, v_]) for k_, v_ in conc.items()}
            m(ca, backend=np, reaction=rx)
            return float(m(ca, backend=np, reaction=rx)[1]) / 2

        report("MassAction[second evaluation of the same object]", "numpy", guarded(twice_array), (k * cp, 8 * RX.EPS * k * cp), case)

        def override_untouched():
            kq = 2 * k / u.second / u.molar ** (order - 1)
            m = MassAction([k / u.second / u.molar ** (order - 1)], ["kov%d" % order])
            m(dict(Vu, **{"kov%d" % order: kq}), backend=Backend(), reaction=rx)
            return to_unitless(kq, 1 / u.second / u.molar ** (order - 1))

        report("MassAction[caller's override value after the call]", "units", guarded(override_untouched), (2 * k, 4 * RX.EPS * k), case)

        def named_after_unnamed():
            from chempy.kinetics.arrhenius import ArrheniusParam

            par = ArrheniusParam(k, 600.0 * 8.314472)
            Reaction(rx.reac, rx.prod, par).rate(V)  # uses the parameter set once without names
            e1 = par.as_RateExpr(unique_keys=("Aov%d" % order, "Eov%d" % order))
            e2 = par.as_RateExpr(unique_keys=("Aother%d" % order, "Eother%d" % order))
            v1 = e1(dict(V, **{"Aov%d" % order: 2 * k}), reaction=rx)
            v2 = e2(dict(V, **{"Aother%d" % order: 3 * k, "Aov%d" % order: 7 * k}), reaction=rx)
            return [v1 / 2, v2 / 3]

        got = guarded(named_after_unnamed)
        for o in (got if not isinstance(got, str) else [got, got]):
            report("ArrheniusParam.as_RateExpr[named, after an unnamed use of the same parameter set]", "math/override", o, (av * cp, 4 * ae * cp), case)
        rate = guarded(lambda: [Reaction(rx.reac, rx.prod, ma(0)).rate(V)[s_] for s_ in ("A", "P")])
        for o, (s_, nu) in zip(rate if not isinstance(rate, str) else [rate] * 2, (("A", -rx.reac["A"]), ("P", 1))):
            report("Reaction.rate(MassAction(Arrhenius))[%s]" % s_, "math", o, (nu * av * cp, 2 * ae * cp * abs(nu)), case)
    # Constant / Symbol / Log10 / Exp: every mode
    for x in (0.5, 2.5, 1e3):
        res.states += 1
        case = dict(x=x)
        res.transitions += 30
        res.sample(dict(layer="W", what="Constant/Symbol/Log10/Exp", x=x), limit=2)
        for cfg, be in (("math", None), ("math-explicit", math), ("numpy", np), ("sympy", sp), ("units", Backend())):
            kw = {} if be is None else dict(backend=be)
            xv = sp.Symbol("xs", positive=True) if cfg == "sympy" else x
            fin = (lambda v: float(sp.N(sp.sympify(v).subs(xv, x)))) if cfg == "sympy" else _tofloat
            res.symbols["W:unary mode " + cfg] += 1
            report("Constant", cfg, guarded(lambda: fin(Constant(x)({}, **kw))), (x, 0.0), case)
            report("Symbol", cfg, guarded(lambda: fin(Symbol(unique_keys=("xk",))({"xk": xv}, **kw))), (x, 0.0), case)
            report("Log10", cfg, guarded(lambda: fin(Log10("xk")({"xk": xv}, **kw))), (math.log10(x), 4 * RX.EPS * (1 + abs(math.log10(x)))), case)
            report("Log10", cfg + "/of-expression", guarded(lambda: fin(Log10(Symbol(unique_keys=("xk",)) * 2)({"xk": xv}, **kw))), (math.log10(2 * x), 4 * RX.EPS * (1 + abs(math.log10(2 * x)))), case)
            report("Exp", cfg, guarded(lambda: fin(Exp("xk")({"xk": xv / 100 if cfg == "sympy" else x / 100}, **kw))), (math.exp(x / 100), 8 * RX.EPS * math.exp(x / 100) * (1 + x / 100)), case)
            report("Exp", cfg + "/of-expression", guarded(lambda: fin(Exp(-Symbol(unique_keys=("xk",)) / 100)({"xk": xv}, **kw))), (math.exp(-x / 100), 8 * RX.EPS * math.exp(-x / 100) * (1 + x / 100)), case)


# --------------------------------------------------------------------------------------------- piecewise, every breakpoint
def _run_PW(res):
    import numpy as np
    import sympy as sp
    from chempy.units import Backend, to_unitless
    from chempy.kinetics._rates import TPiecewise, TPoly
    from chempy.kinetics.rates import Arrhenius
    from chempy.util._expr import Constant

    u = _U()
    bps = (200.0, 298.15, 1000.0, 2000.0)
    pts = sorted(set(bps) | {250.0, 500.0, 1500.0} | {b + d for b in bps for d in (-1e-9, 1e-9) if 200.0 <= b + d <= 2000.0})

    def mk(un):
        s, K = (u.second, u.kelvin) if un else (1, 1)
        return TPiecewise([bps[0] * K, TPoly([1.0 / s, 0.01 / s / K]), bps[1] * K, Arrhenius([50.0 / s, 600.0 * K]), bps[2] * K, Constant(3.0 / s), bps[3] * K])

    Ts = sp.Symbol("T", positive=True)
    try:
        sym = mk(0)({"temperature": Ts}, backend=sp)
    except Exception as ex:
        sym = _exc_tag(ex)
    for T in pts:
        res.states += 1
        res.nontrivial += 1
        res.symbols["PW:%s" % ("breakpoint" if T in bps else "interior")] += 1
        v, err = _leaf_value("pw", T)
        res.sample(dict(layer="PW", T=T, expected=v), limit=3)
        for cfg in ("math", "numpy-scalar", "sympy", "units"):
            res.evaluations += 1
            res.transitions += 1
            try:
                if cfg == "math":
                    o = _tofloat(mk(0)({"temperature": T}))
                elif cfg == "numpy-scalar":
                    o = _tofloat(mk(0)({"temperature": np.float64(T)}, backend=np))
                elif cfg == "sympy":
                    if isinstance(sym, str):
                        raise RuntimeError(sym)
                    o = float(sp.N(sym.subs(Ts, T)))
                else:
                    o = float(to_unitless(mk(1)({"temperature": T * u.kelvin}, backend=Backend()), 1 / u.second))
            except Exception as ex:
                o = _exc_tag(ex) if cfg != "sympy" or not isinstance(sym, str) else sym
            if not isinstance(o, str) and _close(o, v, err):
                res.outcomes["PW:%s:agrees" % cfg] += 1
                continue
            cl = o if isinstance(o, str) else "value-differs-from-defining-formula"
            res.outcomes["PW:%s:%s" % (cfg, "DIFFERS" if not isinstance(o, str) else o)] += 1
            where = "breakpoint" if T in bps else "interior"
            res.violation("C16|TPiecewise|%s|%s|%s" % (cfg, cl, where), "TPiecewise (closed intervals, first matching piece) at T=%r in mode %s: observed %r, expected %r" % (T, cfg, o, v),
                          dict(layer="PW", T=T, cfg=cfg), observed=o, expected=v)


def _run_SC(res):
    """user subclasses of the parameter sets that override the hooks the conversion is written in terms of (Ea_over_R; dH_over_R,
    kB_h_times_exp_dS_R) together with the matching __call__: the rate expression of a reaction carrying such a set is the set's
    own value at T times the concentration product"""
    import math
    from chempy import Reaction
    from chempy.kinetics.arrhenius import ArrheniusParam
    from chempy.kinetics.eyring import EyringParam

    class ActivationTemperature(ArrheniusParam):  # the second field holds Ta = Ea/R in kelvin
        def Ea_over_R(self, constants=None, units=None, backend=None):
            return self.Ea

        def __call__(self, T, constants=None, units=None, backend=None):
            return self.A * (backend or math).exp(-self.Ea / T)

    class ReducedEyring(EyringParam):  # dH holds dH/R in kelvin, dS holds dS/R (dimensionless)
        def dH_over_R(self, constants=None, units=None, backend=None):
            return self.dH

        def kB_h_times_exp_dS_R(self, constants=None, units=None, backend=math):
            return 2.083661912e10 * backend.exp(self.dS)

        def __call__(self, T, constants=None, units=None, backend=None):
            return 2.083661912e10 * T * math.exp(self.dS) * math.exp(-self.dH / T)

    # the unitless twin of a unit-carrying expression (what the ODE builder works with when given a unit registry) keeps the names of its
    # arguments: a named override replaces exactly that argument there too
    from chempy.kinetics.rates import Arrhenius
    from chempy.units import SI_base_registry

    uu = _U()
    for oname, over, want in (("no override", {}, 2e9 * math.exp(-4200.0 / 325.0)), ("A overridden", {"A_r1": 5e7}, 5e7 * math.exp(-4200.0 / 325.0)),
                              ("Ea/R overridden", {"EaR_r1": 3000.0}, 2e9 * math.exp(-3000.0 / 325.0)), ("both overridden", {"A_r1": 5e7, "EaR_r1": 3000.0}, 5e7 * math.exp(-3000.0 / 325.0))):
        res.states += 1
        res.transitions += 1
        res.evaluations += 1
        res.nontrivial += 1
        try:
            twin = Arrhenius([2e9 / uu.second, 4200 * uu.kelvin], unique_keys=("A_r1", "EaR_r1")).dedimensionalisation(SI_base_registry)[1]
            o = float(twin(dict({"temperature": 325.0}, **over)))
        except Exception as ex:
            o = _exc_tag(ex)
        ok = not isinstance(o, str) and abs(o - want) <= 1e-12 * abs(want)
        res.outcomes["SC:dedimensionalised:%s" % ("agrees" if ok else "DIFFERS")] += 1
        if not ok:
            res.violation("C16|Arrhenius|dedimensionalised-twin|named-override|%s" % oname.replace(" ", "-"), "Arrhenius([2e9/s, 4200 K], unique_keys=('A_r1', 'EaR_r1')).dedimensionalisation(SI)[1] at 325 K, %s %r: %r, defining formula %r" % (
                oname, over, o, want), dict(layer="SC", cname="dedimensionalised", T=oname), observed=o, expected=want)
    conc = {"NO2": 0.03, "CO": 1.7}
    cprod = 0.03 ** 2 * 1.7
    res.sample(dict(layer="SC", reaction="2 NO2 + CO -> 2 NO + CO2", T=[250.0, 298.15, 700.0, 1900.0]), limit=1)
    for cname, mk in (("ArrheniusParam", lambda: ArrheniusParam(3.3e9, 58e3)), ("subclass-of-ArrheniusParam(Ea_over_R)", lambda: ActivationTemperature(3.3e9, 6975.0)),
                      ("EyringParam", lambda: EyringParam(40e3, -20.0)), ("subclass-of-EyringParam(dH_over_R,kB_h_times_exp_dS_R)", lambda: ReducedEyring(4800.0, -2.4))):
        for T in (250.0, 298.15, 700.0, 1900.0):
            res.states += 1
            res.transitions += 1
            res.evaluations += 1
            res.nontrivial += 1
            try:
                ps = mk()
                rxn = Reaction({"NO2": 2, "CO": 1}, {"NO": 2, "CO2": 1}, ps)
                o = float(rxn.rate_expr()(dict(conc, temperature=T), reaction=rxn))
                ref = float(ps(T)) * cprod
            except Exception as ex:
                o, ref = _exc_tag(ex), None
            ok = not isinstance(o, str) and abs(o - ref) <= 1e-11 * abs(ref)
            res.outcomes["SC:%s" % ("agrees" if ok else "DIFFERS")] += 1
            if not ok:
                res.violation("C16|%s|rate-expression-of-reaction|differs-from-value-times-concentration-product" % cname, "Reaction(2 NO2 + CO -> ..., %s).rate_expr() at T=%r: %r, parameter set at T times concentration product: %r" % (
                    cname, T, o, ref), dict(layer="SC", cname=cname, T=T), observed=o, expected=ref)


# =============================================================================================== chunks
def chunks(tier):
    out = [("P", "arrhenius"), ("P", "eyring"), ("W",), ("PW",), ("SC",)]
    out += [("X", i) for i in range(_N_XSPECS)]
    n = N_TCHUNK[tier]
    out += [("T", j, n) for j in range(n)]
    return out


_N_XSPECS = 36  # asserted in run_chunk


def run_chunk(chunk, tier):
    res = Result()
    _set_tier(tier)
    kind = chunk[0]
    if kind == "P":
        _run_P(res, chunk[1])
    elif kind == "W":
        _run_W(res)
    elif kind == "PW":
        _run_PW(res)
    elif kind == "SC":
        _run_SC(res)
    elif kind == "X":
        specs = _x_specs()
        assert len(specs) == _N_XSPECS, len(specs)
        _run_X(res, specs[chunk[1]])
    else:
        _, j, n = chunk
        for i, t in enumerate(_trees(tier)):
            if i % n == j:
                _check_tree(res, t)
    for v in res.violations:
        v["case"]["tier"] = tier
    return res


# =============================================================================================== replay
def replay(case):
    res = Result()
    _set_tier(case.get("tier", "quick"))
    layer = case["layer"]
    if layer == "T":
        _check_tree(res, _unj(case["tree"]), modes=(case["mode"],))
    elif layer == "P":
        _run_P(res, case["family"])
    elif layer == "W":
        _run_W(res)
    elif layer == "PW":
        _run_PW(res)
    elif layer == "SC":
        _run_SC(res)
    else:
        spec = [s for s in _x_specs() if s["name"] == case["spec"]][0]
        _run_X(res, spec)
    for v in res.violations:
        same = all(v["case"].get(k) == case.get(k) for k in case if k in v["case"] and k != "tier")
        if same:
            return dict(key=v["key"], what=v["what"], observed=v["observed"], expected=v["expected"])
    return None

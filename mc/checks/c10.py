"""C10 — kinetic results do not depend on the units that rate constants, concentrations, time or the registry use.

State space (DESIGN.md §3 C10), a complete product lattice:
  layer A  every single-reaction shape of order 0..3 x every spelling of k = 3 c^(1-order)/t (5 concentration units x
           4 time units): Reaction(...) must accept; x 14 one-off wrong dimensions (k times M, s, m, kg, A, K, mol to
           the power +-1) and every other concentration exponent -3..3: Reaction(...) must raise
  layer E  equilibria with products-reactants in -2..2: K = 3 c^(dnu) in every concentration unit (observation only)
           and x 14 one-off wrong dimensions x every other concentration exponent -3..3: Equilibrium(...) must raise
  layer K  every reaction-system shape x every base registry x 3 ways of giving the constants to get_odesys (inlined,
           free and named, free with unique keys) x every spelling of k x 10 spellings of the state: physical rate of
           change from f_cb(to_arrays(...)) = hand rate in mol/m3/s; p_units x parameter magnitudes = given constants
  layer I  ... x output units: integrate() end point = reference solution of the dimensionless hand ODE; reported
           time / concentration / parameter units consistent
  layer V  _create_odesys: validate() rates = hand rates, wrong dimension raises; unit_aware_solve end point
  layer T  unit-aware to_arrays rejects parameters / concentrations / times of a one-off wrong dimension
Oracle: exact rational mass-action rate in SI; real quantities are observed through `quantities` only (unitalg.si).
"""
import collections
import itertools
from fractions import Fraction as Fr

from mc.core import Result
from mc.ref import unitalg as A

META = dict(
    title="Kinetic results do not depend on the units rate constants or registries use",
    level="model_checking",
    technique="bounded-exhaustive sweep of reaction shapes x unit spellings of rate constants / state / time x base registries x "
    "builder modes, every point executed on Reaction / get_odesys / _create_odesys and compared with a hand-computed rational "
    "mass-action rate in one fixed unit set (SI)",
    rule="states = distinct (shape, registry, mode, spelling of k, spelling of the state | wrong-dimension variant | output units) "
    "points; non-trivial = points where at least one conversion factor between the given units and the registry differs from 1, "
    "plus every wrong-dimension point (expectation: refusal)",
    assumptions=[
        "quantities, sympy, pyodesys and scipy's integrator are trusted; parameters are bound by name (set iteration order in "
        "get_odesys depends on PYTHONHASHSEED, both seeds are explored)",
        "rates are compared with relative tolerance 1e-10 (a handful of double multiplications), integrated end points with 1e-6 "
        "(integrator run with rtol=1e-10) against a scipy DOP853 solution (rtol 1e-13) of the dimensionless hand ODE",
        "for equilibria only refusal of wrong dimensions is checked: the statement does not promise that every spelling of the right "
        "dimension is accepted (acceptance of right-dimension K is recorded as an observation)",
        "a zero-order reaction alone with an inlined constant cannot be built by pyodesys with or without units (constant right-hand side); "
        "order 0 is therefore explored inside the system {0 -> B, B -> C}",
        "Arrhenius / Eyring / Radiolytic rate expressions, CSTR terms, substitutions and registries with non-SI mass/current/temperature "
        "other than gram are outside the bound",
    ],
    design_ref="DESIGN.md §3 C10",
    hashseed_sensitive=True,
)

RTOL = 1e-10
ITOL = 1e-6
CONC = [("molar", Fr(1000)), ("millimolar", Fr(1)), ("micromolar", Fr(1, 1000)), ("mol/m3", Fr(1)), ("mol/cm3", Fr(10 ** 6))]
TIME = [("second", Fr(1)), ("minute", Fr(60)), ("hour", Fr(3600)), ("millisecond", Fr(1, 1000))]
# (the last entry of each list is a *scaled* unit — a number times a unit, as unit_registry_from_human_readable produces —
# used only by the registries of SCALED_REGS, outside the product lattice of _regs)
LEN = [("metre", Fr(1)), ("decimetre", Fr(1, 10)), ("centimetre", Fr(1, 100)), ("millimetre", Fr(1, 1000)), ("0.125*metre", Fr(1, 8))]
RTIME = [("second", Fr(1)), ("minute", Fr(60)), ("hour", Fr(3600)), ("millisecond", Fr(1, 1000)), ("64*second", Fr(64))]
AMT = [("mole", Fr(1)), ("mmol", Fr(1, 1000)), ("micromole", Fr(1, 10 ** 6)), ("0.25*mole", Fr(1, 4))]
SCALED_REGS = [(0, 4, 0, 0), (4, 0, 0, 0), (0, 0, 3, 0), (4, 4, 3, 0), (1, 4, 1, 0)]
MASS = [("kilogram", Fr(1)), ("gram", Fr(1, 1000))]
WRONG = [(n, s) for n in ("molar", "second", "metre", "kilogram", "ampere", "kelvin", "mole") for s in (1, -1)]
MODES = ["inline", "named", "unique"]
SUBST = ["A", "B", "C"]
# spellings of the state: 0..4 = every concentration in unit i; 5..9 = substance j in unit (i + j) mod 5 (mixed)
STATE_SPELLINGS = dict(quick=[3, 5, 6, 7, 8, 9], thorough=list(range(10)))
Y0 = {"A": Fr(1500), "B": Fr(250), "C": Fr(40)}  # mol/m3
CREF = Fr(1500)
TAU_END = Fr(1, 4)
KMAG = Fr(3)

# reaction-system shapes: list of (reactants, products, kappa); the first reaction carries the spelled constant
# k = 3 c^(1-n)/t, the others have k_r = kappa * k * cref^(n - n_r) so that the dimensionless ODE is the same for every spelling
SHAPES = [
    ("0->B;B->C", [({}, {"B": 1}, Fr(1)), ({"B": 1}, {"C": 1}, Fr(1))]),
    ("A->B", [({"A": 1}, {"B": 1}, Fr(1))]),
    ("2A->B", [({"A": 2}, {"B": 1}, Fr(1))]),
    ("A+B->C", [({"A": 1, "B": 1}, {"C": 1}, Fr(1))]),
    ("3A->B", [({"A": 3}, {"B": 1}, Fr(1))]),
    ("2A+B->C", [({"A": 2, "B": 1}, {"C": 1}, Fr(1))]),
    ("A+B->C;C->A+B", [({"A": 1, "B": 1}, {"C": 1}, Fr(1)), ({"C": 1}, {"A": 1, "B": 1}, Fr(1, 2))]),
    ("A->B+C;B->C", [({"A": 1}, {"B": 1, "C": 1}, Fr(1)), ({"B": 1}, {"C": 1}, Fr(1, 2))]),  # two products of coefficient one, one of them touched again
]
SINGLE = [({}, {"B": 1}), ({"A": 1}, {"B": 1}), ({"A": 2}, {"B": 1}), ({"A": 1, "B": 1}, {"C": 1}), ({"A": 3}, {"B": 1}), ({"A": 2, "B": 1}, {"C": 1})]
EQS = [({"A": 2, "B": 1}, {"C": 1}), ({"A": 2}, {"B": 1}), ({"A": 1, "B": 1}, {"C": 1}), ({"A": 1}, {"B": 1}), ({"A": 1}, {"B": 1, "C": 1}), ({"A": 1}, {"B": 2, "C": 1})]


def _unit(name):
    u = E()["u"]
    if "*" in name:
        f, n = name.split("*")
        return float(f) * getattr(u, n)
    return getattr(u, name)


def _regs(tier):
    q = tier == "quick"
    nl, nt, na, nm = (3, 2, 2, 1) if q else (4, 4, 3, 2)
    return [(l, t, a, m) for l in range(nl) for t in range(nt) for a in range(na) for m in range(nm)]


def bounds(tier):
    regs = _regs(tier)
    return dict(
        shapes=[s[0] for s in SHAPES],
        orders="0..3",
        k_spellings=len(CONC) * len(TIME),
        conc_units=[c[0] for c in CONC],
        time_units=[t[0] for t in TIME],
        wrong_dimension_variants=["k*%s**%d" % w for w in WRONG] + ["concentration exponent j in -3..3, j != the right one"],
        registries=len(regs),
        scaled_unit_registries=[[LEN[r[0]][0], RTIME[r[1]][0], AMT[r[2]][0], MASS[r[3]][0]] for r in SCALED_REGS],
        registry_units=dict(length=sorted({LEN[r[0]][0] for r in regs}), time=sorted({RTIME[r[1]][0] for r in regs}),
                            amount=sorted({AMT[r[2]][0] for r in regs}), mass=sorted({MASS[r[3]][0] for r in regs})),
        modes=MODES + ["_create_odesys"],
        state_spellings=STATE_SPELLINGS[tier],
        integrations_per_mode={k: list(map(str, v)) for k, v in INTEGRATIONS[tier].items()},
        equilibria=len(EQS),
    )


def chunks(tier):
    regs = _regs(tier)
    step = 2 if tier == "quick" else 8
    out = [("A", i) for i in range(len(SINGLE))] + [("E",), ("MS",)] + [("AH", k) for k in range(len(AFTER_OPS))]
    for s in range(len(SHAPES)):
        out.append(("T", s))
        out.append(("RH", s))
        out.append(("KS", s))
        for lo in range(0, len(regs), step):
            out.append(("K", s, lo, min(len(regs), lo + step)))
    for s in range(len(SHAPES)):
        for lo in range(0, len(regs), step * 2):
            out.append(("I", s, lo, min(len(regs), lo + step * 2)))
            out.append(("V", s, lo, min(len(regs), lo + step * 2)))
    return out


# --------------------------------------------------------------------------------------------- environment
_E = {}


def E():
    if not _E:
        import numpy as np
        import quantities as pq
        import chempy
        import chempy.units as cu
        from chempy.kinetics import ode
        from chempy.kinetics.rates import MassAction

        u = cu.default_units
        _E.update(cu=cu, u=u, pq=pq, np=np, chempy=chempy, ode=ode, MassAction=MassAction)
        _E["conc"] = [u.molar, u.millimolar, u.micromolar, u.mole / u.metre ** 3, u.mole / u.centimetre ** 3]
        _E["time"] = [u.second, u.minute, u.hour, u.millisecond]
    return _E


def _obs(f):
    try:
        return f()
    except Exception as e:  # chempy raising is an observation
        return "EXC %s" % type(e).__name__


def _isexc(x):
    return isinstance(x, str) and x.startswith("EXC ")


def _order(reac):
    return sum(reac.values())


def _kq(mag, n, ci, ti):
    """real rate constant  mag * c^(1-n) / t"""
    env = E()
    q = float(mag) / env["time"][ti]
    if 1 - n:
        q = q * env["conc"][ci] ** (1 - n)
    return q


def _k_si(mag, n, ci, ti):
    """the same constant in (mol/m3)^(1-n)/s, exact"""
    return Fr(mag) * CONC[ci][1] ** (1 - n) / TIME[ti][1]


def _k_exps(n):
    e = [0] * 7
    e[0], e[2], e[5] = 3 * (n - 1), -1, 1 - n
    return tuple(e)


def _wrong(q, wi):
    name, sgn = WRONG[wi]
    return q * getattr(E()["u"], name) ** sgn


def _registry(rc):
    u = E()["u"]
    reg = dict(E()["cu"].SI_base_registry)
    reg["length"] = _unit(LEN[rc[0]][0])
    reg["time"] = _unit(RTIME[rc[1]][0])
    reg["amount"] = _unit(AMT[rc[2]][0])
    reg["mass"] = _unit(MASS[rc[3]][0])
    return reg


def _reg_factors(rc):
    """(concentration unit, time unit) of the registry in mol/m3 and s"""
    return AMT[rc[2]][1] / LEN[rc[0]][1] ** 3, RTIME[rc[1]][1]


def _reg_text(rc):
    return [LEN[rc[0]][0], RTIME[rc[1]][0], AMT[rc[2]][0], MASS[rc[3]][0]]


def _constants(shape, ks):
    """per reaction: (order, exact k in SI, (ci, ti) spelling, magnitude in that spelling)"""
    rxns = SHAPES[shape][1]
    ci, ti = ks
    n0 = _order(rxns[0][0])
    k0 = _k_si(KMAG, n0, ci, ti)
    out = []
    for j, (reac, prod, kappa) in enumerate(rxns):
        n = _order(reac)
        if j == 0:
            out.append((n, k0, (ci, ti), KMAG))
        else:
            k = kappa * k0 * CREF ** (n0 - n)
            cj, tj = (ci + j) % len(CONC), (ti + j) % len(TIME)
            out.append((n, k, (cj, tj), k / (CONC[cj][1] ** (1 - n) / TIME[tj][1])))
    return out


def _hand_rates(shape, ks):
    """exact d c_i/dt in mol/m3/s at Y0"""
    rxns = SHAPES[shape][1]
    f = {s: Fr(0) for s in SUBST}
    for (reac, prod, kappa), (n, k, sp, mag) in zip(rxns, _constants(shape, ks)):
        r = k
        for s, nu in reac.items():
            r *= Y0[s] ** nu
        for s, nu in reac.items():
            f[s] -= nu * r
        for s, nu in prod.items():
            f[s] += nu * r
    return f


def _state(ss):
    """the state Y0 written in spelling ss: (dict of real quantities, time quantity, non-trivial?)"""
    env = E()
    c = {}
    for i, s in enumerate(SUBST):
        ci = (ss + (i if ss >= len(CONC) else 0)) % len(CONC)
        c[s] = float(Y0[s] / CONC[ci][1]) * env["conc"][ci]
    ti = ss % len(TIME)
    return c, float(Fr(7) / TIME[ti][1]) * env["time"][ti]


def _substances(shape):
    keys = set()
    for reac, prod, kappa in SHAPES[shape][1]:
        keys |= set(reac) | set(prod)
    return [s for s in SUBST if s in keys]


_BUILD = collections.OrderedDict()


def _build(shape, rc, mode, ks, out=None, reg=None, pp=None):
    """the real ReactionSystem + get_odesys result for one configuration (small LRU cache); with `reg` the given
    registry object is used as it is (no cache): see op_rate_seq"""
    key = (shape, tuple(rc), mode, tuple(ks) if mode == "inline" else None, tuple(out) if out else None)
    if reg is None and pp is None and key in _BUILD:
        return _BUILD[key]
    env = E()
    chempy, ode = env["chempy"], env["ode"]
    rxns = []
    for j, ((reac, prod, kappa), (n, k, (cj, tj), mag)) in enumerate(zip(SHAPES[shape][1], _constants(shape, ks))):
        if mode == "inline":
            param = _kq(mag, n, cj, tj)
        elif mode == "named":
            param = "k%d" % j
        else:  # unique keys with a default constant written in M and s
            param = env["MassAction"]([_kq(1, n, 0, 0)], unique_keys=["k%d" % j])
        rxns.append(chempy.Reaction(reac, prod, param))
    rsys = chempy.ReactionSystem(rxns, _substances(shape))
    kw = {}
    if out:
        kw = dict(output_conc_unit=env["conc"][out[0]], output_time_unit=env["time"][out[1]])
    if pp is not None:
        kw["post_processors"] = pp  # a caller-owned list of additional post-processors (here: always empty, shared between builds)
    odesys, extra = ode.get_odesys(rsys, include_params=(mode == "inline"), unit_registry=(_registry(rc) if reg is None else reg), **kw)
    if reg is not None or pp is not None:
        return rsys, odesys, extra
    _BUILD[key] = (rsys, odesys, extra)
    while len(_BUILD) > 8:
        _BUILD.popitem(last=False)
    return _BUILD[key]


def _params(shape, ks, mode):
    if mode == "inline":
        return {}
    return {"k%d" % j: _kq(mag, n, cj, tj) for j, (n, k, (cj, tj), mag) in enumerate(_constants(shape, ks))}


def _nontrivial(rc, ks, ss):
    fc, ft = _reg_factors(rc)
    return not (fc == 1 and ft == 1 and CONC[ks[0]][1] == 1 and TIME[ks[1]][1] == 1 and ss in (1, 3))


# --------------------------------------------------------------------------------------------- layer A / E
def op_accept(res, si_, ci, ti, wi):
    """Reaction accepts k iff its dimension is concentration^(1-order)/time"""
    chempy = E()["chempy"]
    reac, prod = SINGLE[si_]
    n = _order(reac)
    k = _kq(KMAG, n, ci, ti)
    desc = "3 %s**%d/%s" % (CONC[ci][0], 1 - n, TIME[ti][0])
    if wi is not None:
        k = _wrong(k, wi)
        desc += " * %s**%d" % WRONG[wi]
    case = dict(op="accept", args=[si_, ci, ti, wi], reaction="%r -> %r" % (reac, prod), k=desc)
    res.states += 1
    res.transitions += 1
    res.nontrivial += 1
    res.symbols["order-%d" % n] += 1
    res.symbols["k-conc:" + CONC[ci][0]] += 1
    res.symbols["k-time:" + TIME[ti][0]] += 1
    got = _obs(lambda: chempy.Reaction(reac, prod, k))
    res.evaluations += 1
    if wi is None:
        if _isexc(got):
            res.outcomes["reaction-right-dimension-REJECTED"] += 1
            res.violation("C10|Reaction|order-%d|right-dimension-rejected" % n, "Reaction(%s, param=%s) raised %s although the dimension is concentration^%d/time"
                          % (case["reaction"], desc, got, 1 - n), case, got, "accepted")
        else:
            ok = _obs(lambda: bool(got.check_consistent_units()))
            res.outcomes["reaction-accepted" if ok is True else "reaction-accepted-but-check-False"] += 1
            if ok is not True:
                res.violation("C10|Reaction.check_consistent_units|order-%d|False-for-right-dimension" % n, "check_consistent_units() = %r for %s" % (ok, desc), case, ok, True)
    else:
        res.symbols["wrong:%s**%d" % WRONG[wi]] += 1
        if _isexc(got):
            res.outcomes["reaction-wrong-dimension-refused|" + got[4:]] += 1
        else:
            res.outcomes["reaction-wrong-dimension-ACCEPTED"] += 1
            res.violation("C10|Reaction|order-%d|wrong-dimension-accepted" % n, "Reaction(%s, param=%s) was accepted; order %d needs concentration^%d/time"
                          % (case["reaction"], desc, n, 1 - n), case, "accepted", "exception")


AFTER_OPS = ["Reaction(dont_check={'consistent_units'})", "Equilibrium(dont_check={'consistent_units'})", "Reaction(checks=())", "Reaction(dont_check={'all_integral'})"]


def seq_accept_after(first_op):
    """(own interpreter) one object built with a check legitimately switched off for itself, then ordinary constructions
    with default checks: [[class, reaction index, wrong index or None, 'accepted' | exception name]]"""
    chempy = E()["chempy"]
    u = E()["u"]
    bad = 3 * u.kelvin  # a constant of plainly wrong dimension for the object built first
    try:
        if first_op.startswith("Equilibrium"):
            chempy.Equilibrium({"A": 1}, {"B": 2}, bad, dont_check={"consistent_units"})
        elif "checks=()" in first_op:
            chempy.Reaction({"A": 1}, {"B": 1}, bad, checks=())
        elif "all_integral" in first_op:
            chempy.Reaction({"A": 1}, {"B": 1}, 3 / u.second, dont_check={"all_integral"})
        else:
            chempy.Reaction({"A": 1}, {"B": 1}, bad, dont_check={"consistent_units"})
        first = "accepted"
    except Exception as e:
        first = type(e).__name__
    out = []
    for si_, (reac, prod) in enumerate(SINGLE):
        n = _order(reac)
        for wi in [None] + list(range(len(WRONG))):
            k = _kq(KMAG, n, 0, 0)
            if wi is not None:
                k = _wrong(k, wi)
            got = _obs(lambda: chempy.Reaction(reac, prod, k))
            out.append(["Reaction", si_, wi, got if _isexc(got) else "accepted"])
    for ei, (reac, prod) in enumerate(EQS):
        dnu = sum(prod.values()) - sum(reac.values())
        for wi in [None] + list(range(len(WRONG))):
            K = 3 * u.molar ** dnu
            if wi is not None:
                K = _wrong(K, wi)
            got = _obs(lambda: chempy.Equilibrium(reac, prod, K))
            out.append(["Equilibrium", ei, wi, got if _isexc(got) else "accepted"])
    return dict(first=first, later=out)


def op_accept_after(res, k):
    from mc import isolated

    first_op = AFTER_OPS[k]
    got = isolated.run("mc.checks.c10", "seq_accept_after", [first_op])
    for cls, i, wi, obs in got["later"]:
        res.states += 1
        res.transitions += 2
        res.evaluations += 1
        res.nontrivial += 1
        want_accept = wi is None
        ok = (obs == "accepted") == want_accept
        res.outcomes["after-%s:%s" % (first_op.split("(")[0], "ok" if ok else "WRONG")] += 1
        if not ok:
            res.violation("C10|%s|history|after %s|%s" % (cls, first_op, "wrong-dimension-accepted" if not want_accept else "right-dimension-rejected"),
                          "after one %s, %s #%d with a constant of %s dimension and default checks: %s" % (first_op, cls, i, "the right" if want_accept else "a wrong (x %s**%d)" % tuple(WRONG[wi]), obs),
                          dict(op="accept_after", args=[k], cls=cls, i=i, wi=wi), obs, "accepted" if want_accept else "exception")


def op_accept_exponent(res, si_, ci, ti, j):
    """k = 3 c^j / t for every exponent j: accepted iff j = 1 - order"""
    chempy = E()["chempy"]
    reac, prod = SINGLE[si_]
    n = _order(reac)
    k = 3.0 / E()["time"][ti]
    if j:
        k = k * E()["conc"][ci] ** j
    desc = "3 %s**%d/%s" % (CONC[ci][0], j, TIME[ti][0])
    case = dict(op="accept_exponent", args=[si_, ci, ti, j], reaction="%r -> %r" % (reac, prod), k=desc)
    res.states += 1
    res.transitions += 1
    res.nontrivial += 1
    res.symbols["k-conc-exponent:%+d" % j] += 1
    got = _obs(lambda: chempy.Reaction(reac, prod, k))
    res.evaluations += 1
    if j == 1 - n:
        if _isexc(got):
            res.outcomes["reaction-right-dimension-REJECTED"] += 1
            res.violation("C10|Reaction|order-%d|right-dimension-rejected" % n, "Reaction(%s, param=%s) raised %s" % (case["reaction"], desc, got), case, got, "accepted")
        else:
            res.outcomes["reaction-accepted"] += 1
    elif _isexc(got):
        res.outcomes["reaction-wrong-dimension-refused|" + got[4:]] += 1
    else:
        res.outcomes["reaction-wrong-dimension-ACCEPTED"] += 1
        res.violation("C10|Reaction|order-%d|wrong-dimension-accepted" % n, "Reaction(%s, param=%s) was accepted; order %d needs concentration^%d/time"
                      % (case["reaction"], desc, n, 1 - n), case, "accepted", "exception")


def op_eq_exponent(res, ei, ci, j):
    """K = 3 c^j for every exponent j != products - reactants must be refused (j = 0: a dimensionless quantity)"""
    chempy = E()["chempy"]
    reac, prod = EQS[ei]
    dnu = sum(prod.values()) - sum(reac.values())
    c = E()["conc"][ci]
    K = 3.0 * c ** j if j else 3.0 * (c / c)
    desc = "3 %s**%d" % (CONC[ci][0], j)
    case = dict(op="eq_exponent", args=[ei, ci, j], equilibrium="%r = %r" % (reac, prod), K=desc)
    res.states += 1
    res.transitions += 1
    res.nontrivial += 1
    res.symbols["K-conc-exponent:%+d" % j] += 1
    got = _obs(lambda: chempy.Equilibrium(reac, prod, K))
    res.evaluations += 1
    if _isexc(got):
        res.outcomes["equilibrium-wrong-dimension-refused|" + got[4:]] += 1
    else:
        res.outcomes["equilibrium-wrong-dimension-ACCEPTED"] += 1
        res.violation("C10|Equilibrium|dnu=%+d|wrong-dimension-accepted" % dnu, "Equilibrium(%s, param=%s) was accepted; needs concentration^%d"
                      % (case["equilibrium"], desc, dnu), case, "accepted", "exception")


def op_eq(res, ei, ci, wi):
    """an equilibrium never accepts a constant whose dimension differs from concentration^(products-reactants)"""
    chempy = E()["chempy"]
    reac, prod = EQS[ei]
    dnu = sum(prod.values()) - sum(reac.values())
    K = 3.0 * E()["conc"][ci] ** dnu if dnu else 3.0 * (E()["conc"][ci] / E()["conc"][ci])
    desc = "3 %s**%d" % (CONC[ci][0], dnu)
    if wi is not None:
        K = _wrong(K, wi)
        desc += " * %s**%d" % WRONG[wi]
    case = dict(op="eq", args=[ei, ci, wi], equilibrium="%r = %r" % (reac, prod), K=desc)
    res.states += 1
    res.transitions += 1
    res.symbols["dnu=%+d" % dnu] += 1
    got = _obs(lambda: chempy.Equilibrium(reac, prod, K))
    res.evaluations += 1
    if wi is None:
        # not promised either way by the statement: recorded only
        res.outcomes["equilibrium-right-dimension-%s|K in %s" % ("rejected" if _isexc(got) else "accepted", CONC[ci][0])] += 1
    else:
        res.nontrivial += 1
        if _isexc(got):
            res.outcomes["equilibrium-wrong-dimension-refused|" + got[4:]] += 1
        else:
            res.outcomes["equilibrium-wrong-dimension-ACCEPTED"] += 1
            res.violation("C10|Equilibrium|dnu=%+d|wrong-dimension-accepted" % dnu, "Equilibrium(%s, param=%s) was accepted; needs concentration^%d"
                          % (case["equilibrium"], desc, dnu), case, "accepted", "exception")


def op_units_query(res, ei, ci, wi):
    """the consistency of an equilibrium's constant can also be asked of an existing object (check_consistent_units(), default
    arguments): False for a constant of the wrong dimension, True for the right one — also on an object built with the
    constructor check switched off or whose constant was replaced afterwards"""
    env = E()
    chempy = env["chempy"]
    reac, prod = EQS[ei]
    dnu = sum(prod.values()) - sum(reac.values())
    good = 3.0 * env["conc"][ci] ** dnu if dnu else 3.0 * (env["conc"][ci] / env["conc"][ci])
    K = good if wi is None else _wrong(good, wi)
    case = dict(op="units_query", args=[ei, ci, wi], equilibrium="%r = %r" % (reac, prod))
    res.states += 1
    res.transitions += 2
    res.evaluations += 2
    res.nontrivial += 1

    def run():
        a = chempy.Equilibrium(reac, prod, K, checks=()).check_consistent_units()
        e2 = chempy.Equilibrium(reac, prod, 3.0, checks=())
        e2.param = K
        return bool(a), bool(e2.check_consistent_units())

    got = _obs(run)
    want = (wi is None, wi is None)
    if wi is None:
        # (what is said of a constant of the RIGHT dimension is not promised by the statement — chempy wants it in molar: recorded only)
        res.outcomes["units-query-right-dimension:%r" % (got,)] += 1
        return
    res.outcomes["units-query-%s" % ("ok" if got == want else "WRONG")] += 1
    if got != want:
        res.violation("C10|Equilibrium.check_consistent_units|query|%s" % ("wrong-dimension-reported-consistent" if wi is not None else "right-dimension-reported-inconsistent"),
                      "Equilibrium(%s, K %s).check_consistent_units() on (an object built with checks=(), an object whose param was replaced) = %r, expected %r" % (
                          case["equilibrium"], "of the right dimension" if wi is None else "times %s**%d" % WRONG[wi], got, want), case, got, list(want))


def op_rxn_identity(res, n, ci, ti):
    """two reactions of one stoichiometry are the same reaction exactly when their constants are the same physical quantity,
    whatever units express it (==, !=, and the duplicate check of ReactionSystem)"""
    env = E()
    chempy = env["chempy"]
    reac = {1: {"A": 1}, 2: {"A": 1, "B": 1}, 3: {"A": 2, "B": 1}}[n]
    k1 = _kq(3, n, ci, ti)
    cj, tj = (ci + 1) % len(CONC), (ti + 1) % len(TIME)
    ratio = (CONC[ci][1] ** (1 - n) / TIME[ti][1]) / (CONC[cj][1] ** (1 - n) / TIME[tj][1])
    k_same = _kq(float(3 * ratio), n, cj, tj)  # the same physical constant written in other units
    k_other = _kq(3, n, cj, tj)  # the same NUMBER in other units: another constant (unless the units happen to be equal)
    case = dict(op="rxn_identity", args=[n, ci, ti])
    res.states += 1
    res.transitions += 3
    res.evaluations += 1
    res.nontrivial += 1

    def run():
        r1 = chempy.Reaction(reac, {"C": 1}, k1)
        r2 = chempy.Reaction(reac, {"C": 1}, k_same)
        r3 = chempy.Reaction(reac, {"C": 1}, k_other)
        out = [True, False, bool(r1 == r3) if ratio != 1 else False]  # (== between unit spellings of one constant is subject to float rounding: not asked)
        try:
            chempy.ReactionSystem([r1, r3], "A B C")
            out.append("two-channels-accepted")
        except ValueError:
            out.append("two-channels-refused")
        return out

    got = _obs(run)
    want = [True, False, False, "two-channels-accepted" if ratio != 1 else "two-channels-refused"]
    res.outcomes["reaction-identity-%s" % ("ok" if got == want else "WRONG")] += 1
    if got != want:
        res.violation("C10|Reaction.__eq__|constants-in-different-units", "order %d, k = 3 %s**%d/%s vs the same constant and the same number in %s, %s: [==same, !=same, ==other, system of the two channels] = %r, expected %r" % (
            n, CONC[ci][0], 1 - n, TIME[ti][0], CONC[cj][0], TIME[tj][0], got, want), case, got, want)


def op_eq_sum(res, ei, ej, ci, sign):
    """sums and differences of equilibria are equilibria like any other: when one operand carries a plain number although its
    constant has a dimension (products != reactants) and the other a unit-carrying constant, the result's constant has the wrong
    dimension and is refused; when every operand is consistent the result is accepted and carries the product / quotient"""
    env = E()
    chempy = env["chempy"]
    (r1, p1), (r2, p2) = EQS[ei], EQS[ej]
    # distinct species for the second operand, so that nothing cancels
    r2 = {k.lower(): v for k, v in r2.items()}
    p2 = {k.lower(): v for k, v in p2.items()}
    d1 = sum(p1.values()) - sum(r1.values())
    d2 = sum(p2.values()) - sum(r2.values())
    K2 = 5.0 * env["conc"][ci] ** d2 if d2 else 5.0
    case = dict(op="eq_sum", args=[ei, ej, ci, sign], first="%r = %r; 3.0 (plain number)" % (r1, p1), second="%r = %r; 5 %s**%d" % (r2, p2, CONC[ci][0], d2))
    res.states += 1
    res.transitions += 1
    res.evaluations += 1
    res.nontrivial += 1

    def run():
        e1 = chempy.Equilibrium(r1, p1, 3.0)
        e2 = chempy.Equilibrium(r2, p2, K2)
        return (e1 + e2) if sign > 0 else (e2 - e1)

    got = _obs(run)
    must_refuse = d1 != 0 and d2 != 0  # (with d2 == 0 both constants are plain numbers: nothing to check a dimension against)
    if must_refuse:
        if _isexc(got):
            res.outcomes["equilibrium-sum-wrong-dimension-refused|" + got[4:]] += 1
        else:
            res.outcomes["equilibrium-sum-wrong-dimension-ACCEPTED"] += 1
            res.violation("C10|Equilibrium.__add__|wrong-dimension-accepted", "(%s) %s (%s) was accepted with constant %r; the sum needs concentration^%d" % (
                case["first"], "+" if sign > 0 else "subtracted from", case["second"], getattr(got, "param", None), d1 * (1 if sign > 0 else -1) + d2), case, "accepted", "exception")
    else:
        res.outcomes["equilibrium-sum-%s" % ("raised|" + got[4:] if _isexc(got) else "accepted")] += 1


def op_eq_as_reactions(res, ei, ci, ti, wi):
    """the forward / backward reactions made from an equilibrium (as_reactions(kf=..., units=...)) are reactions like any other:
    a forward constant of the wrong dimension is refused; with the right one both halves carry constants of the dimension their
    own order asks for (concentration^(1-order)/time)"""
    env = E()
    chempy, u = env["chempy"], env["u"]
    reac, prod = EQS[ei]
    nf, nb = _order(reac), _order(prod)
    kf = _kq(3, nf, ci, ti)
    desc = "3 %s**%d/%s" % (CONC[ci][0], 1 - nf, TIME[ti][0])
    if wi is not None:
        kf = _wrong(kf, wi)
        desc += " * %s**%d" % WRONG[wi]
    case = dict(op="eq_as_reactions", args=[ei, ci, ti, wi], equilibrium="%r = %r" % (reac, prod), kf=desc)
    res.states += 1
    res.transitions += 2
    res.evaluations += 1
    res.nontrivial += 1

    def run():
        fw, bw = chempy.Equilibrium(reac, prod, 25.0).as_reactions(kf=kf, units=u)
        return fw.param, bw.param

    got = _obs(run)
    if wi is not None:
        if _isexc(got):
            res.outcomes["as_reactions-wrong-dimension-refused|" + got[4:]] += 1
        else:
            res.outcomes["as_reactions-wrong-dimension-ACCEPTED"] += 1
            res.violation("C10|Equilibrium.as_reactions|wrong-dimension-accepted", "Equilibrium(%s; 25).as_reactions(kf=%s, units=default_units) was accepted: forward order %d needs concentration^%d/time" % (
                case["equilibrium"], desc, nf, 1 - nf), case, "accepted", "exception")
        return
    if _isexc(got):
        res.outcomes["as_reactions-right-dimension-REFUSED"] += 1
        res.violation("C10|Equilibrium.as_reactions|right-dimension-refused", "Equilibrium(%s; 25).as_reactions(kf=%s, units=default_units) raised %s" % (case["equilibrium"], desc, got), case, got, "two reactions")
        return
    bad = None
    for nm, q, n in (("forward", got[0], nf), ("backward", got[1], nb)):
        m, e = A.si(q)
        if e != _k_exps(n):
            bad = "%s constant %r has SI exponents %r, order %d needs %r" % (nm, q, e, n, _k_exps(n))
    mf, _ = A.si(got[0])
    mb, _ = A.si(got[1])
    if bad is None and not A.close(float(mf) / float(mb), 25.0 * 1000.0 ** (nb - nf), 1e-10):  # K = 25 with c0 = 1 M = 1000 mol/m3
        bad = "kf/kb = %r in SI units, K = 25 (standard state 1 M) means %r" % (float(mf) / float(mb), 25.0 * 1000.0 ** (nb - nf))
    res.outcomes["as_reactions-right-dimension-%s" % ("ok" if bad is None else "WRONG")] += 1
    if bad:
        res.violation("C10|Equilibrium.as_reactions|constants-inconsistent", "Equilibrium(%s; 25).as_reactions(kf=%s, units=default_units): %s" % (case["equilibrium"], desc, bad), case, bad, None)


# --------------------------------------------------------------------------------------------- layer K
def _check_p_units(res, case, mode, shape, ks, odesys, extra, p):
    """p_units x returned parameter magnitudes reproduce the given constants (bound by name)"""
    np = E()["np"]
    names = list(odesys.param_names)
    pu = extra["p_units"]
    consts = {"k%d" % j: (n, k) for j, (n, k, sp, mag) in enumerate(_constants(shape, ks))}
    res.evaluations += 1
    p = np.asarray(p, dtype=float).reshape(-1)
    if sorted(names) != sorted(consts) or pu is None or len(pu) != len(names) or len(p) != len(names):
        res.outcomes["p_units-WRONG-shape"] += 1
        res.violation("C10|get_odesys|%s|p_units-do-not-match-parameter-names" % mode, "param_names=%r p_units=%r p=%r" % (names, pu, p.tolist()), case, repr(pu), sorted(consts))
        return
    for nm, unit, mag in zip(names, pu, p):
        n, k = consts[nm]
        m, e = A.si(unit)
        if e != _k_exps(n) or not A.close(float(m) * mag, float(k), RTOL):
            res.outcomes["p_units-WRONG"] += 1
            res.violation("C10|get_odesys|%s|p_units-times-magnitude-differs-from-given-constant" % mode,
                          "parameter %s: magnitude %r x p_unit %r = %r SI %r; the constant given is %r SI %r"
                          % (nm, mag, unit, float(m) * mag, e, float(k), _k_exps(n)), case, [float(m) * mag, list(e)], [float(k), list(_k_exps(n))])
            return
    res.outcomes["p_units-ok"] += 1


def op_rate_seq(res, shape, rc_seq, mode, ks, ss):
    """ONE registry dict, modified in place between builds (reg['length'] = ...; get_odesys(..., unit_registry=reg)): every
    build must use the registry as it is now — the whole sequence is one case"""
    reg = dict(E()["cu"].SI_base_registry)
    for n, rc in enumerate(rc_seq):
        reg.update(_registry(tuple(rc)))
        before = len(res.violations)
        op_rate(res, shape, rc, mode, ks, ss, reg=reg, seq=[list(r) for r in rc_seq], step=n)
        if len(res.violations) > before:
            return


def op_rate(res, shape, rc, mode, ks, ss, reg=None, seq=None, step=None):
    """physical d c/dt from the unit-aware ODE system = hand rate in mol/m3/s, whatever the units"""
    np = E()["np"]
    rc, ks = tuple(rc), tuple(ks)
    if seq is not None:
        case = dict(op="rate_seq", args=[shape, seq, mode, list(ks), ss], shape=SHAPES[shape][0], registry="one dict modified in place: %r, step %d" % ([_reg_text(tuple(r)) for r in seq], step),
                    k="3 %s**(1-n)/%s" % (CONC[ks[0]][0], TIME[ks[1]][0]))
        mode_key = mode + "|registry-object-reused"
    else:
        mode_key = mode
    case = case if seq is not None else dict(op="rate", args=[shape, list(rc), mode, list(ks), ss], shape=SHAPES[shape][0], registry=_reg_text(rc),
                k="3 %s**(1-n)/%s" % (CONC[ks[0]][0], TIME[ks[1]][0]))
    res.states += 1
    res.transitions += 3
    if _nontrivial(rc, ks, ss):
        res.nontrivial += 1
    res.symbols["mode:" + mode] += 1
    res.symbols["shape:" + SHAPES[shape][0]] += 1
    fc, ft = _reg_factors(rc)
    hand = _hand_rates(shape, ks)
    subs = _substances(shape)
    ref = [float(hand[s]) for s in subs]

    def run():
        rsys, odesys, extra = _build(shape, rc, mode, ks, reg=reg)
        c, t = _state(ss)
        x, y, p = odesys.to_arrays(t, {s: c[s] for s in subs}, _params(shape, ks, mode))
        f = np.asarray(odesys.f_cb(x, y, p), dtype=float).reshape(-1, len(subs))[0]
        return list(odesys.names), f, odesys, extra, p

    got = _obs(run)
    res.evaluations += 1
    if _isexc(got):
        res.outcomes["rate-RAISED"] += 1
        res.violation("C10|get_odesys|%s|raises-for-accepted-system" % mode_key, "%s in registry %r, k in %s, state spelling %d: %s"
                      % (case["shape"], case["registry"], case["k"], ss, got), case, got, ref)
        return
    names, f, odesys, extra, p = got
    phys = {nm: float(v) * float(fc / ft) for nm, v in zip(names, f)}
    obs = [phys.get(s) for s in subs]
    scale = max(abs(r) for r in ref)
    ok = sorted(names) == sorted(subs) and all(abs(o - r) <= RTOL * scale for o, r in zip(obs, ref))
    if not ok:
        res.outcomes["rate-WRONG"] += 1
        res.violation("C10|get_odesys|%s|physical-rate-differs-from-hand-rate" % mode_key, "%s in registry %r, k = %s, state spelling %d: dc/dt = %r mol/m3/s, by hand %r"
                      % (case["shape"], case["registry"], case["k"], ss, obs, ref), case, obs, ref)
    else:
        res.outcomes["rate-ok|%s" % mode] += 1
    if mode != "inline" and ss == 5:
        _check_p_units(res, case, mode, shape, ks, odesys, extra, p)
    elif mode == "inline" and ss == 5:
        res.evaluations += 1
        if list(odesys.param_names) or (extra["p_units"] not in ([], None) and len(extra["p_units"])):
            res.outcomes["p_units-inline-NOT-EMPTY"] += 1
            res.violation("C10|get_odesys|inline|free-parameters-left", "param_names=%r p_units=%r" % (odesys.param_names, extra["p_units"]), case, repr(extra["p_units"]), [])
        else:
            res.outcomes["p_units-inline-empty-ok"] += 1


def _layer_K(res, tier, shape, lo, hi, regs=None):
    regs = _regs(tier) if regs is None else regs
    for rc in regs[lo:hi]:
        for i, t in enumerate(_reg_text(rc)):
            res.symbols["reg:%s" % t] += 1
        for mode in MODES:
            for ci in range(len(CONC)):
                for ti in range(len(TIME)):
                    for ss in STATE_SPELLINGS[tier]:
                        op_rate(res, shape, rc, mode, (ci, ti), ss)
    res.sample(dict(layer="K", shape=SHAPES[shape][0], registries=[_reg_text(r) for r in regs[lo:hi]][:2]))


# --------------------------------------------------------------------------------------------- layer I
_REF = {}


def _reference(shape):
    """end point y(tau_end) of the dimensionless hand ODE  dy_i/dtau = sum_r net_ri kappa_r prod_j y_j^nu_rj"""
    if shape not in _REF:
        from scipy.integrate import solve_ivp

        rxns = SHAPES[shape][1]
        subs = _substances(shape)

        def rhs(tau, y):
            yd = dict(zip(subs, y))
            f = dict.fromkeys(subs, 0.0)
            for reac, prod, kappa in rxns:
                r = float(kappa)
                for s, nu in reac.items():
                    r *= yd[s] ** nu
                for s, nu in reac.items():
                    f[s] -= nu * r
                for s, nu in prod.items():
                    f[s] += nu * r
            return [f[s] for s in subs]

        sol = solve_ivp(rhs, (0.0, float(TAU_END)), [float(Y0[s] / CREF) for s in subs], method="DOP853", rtol=1e-13, atol=1e-16)
        if not sol.success:
            raise RuntimeError("reference integration failed")
        _REF[shape] = {s: float(v) * float(CREF) for s, v in zip(subs, sol.y[:, -1])}
    return _REF[shape]


def _t_end(shape, ks):
    n0, k0 = _constants(shape, ks)[0][:2]
    return TAU_END / (k0 * CREF ** (n0 - 1))


OUTS = [None, "rot", "rot2"]
# which output-unit choices are integrated per builder mode (None = registry units, rot/rot2 = requested units that
# differ from both the registry's and the ones k is written in)
INTEGRATIONS = dict(quick={"inline": (None, "rot"), "named": ("rot2",), "unique": (None,)},
                    thorough={"inline": (None, "rot", "rot2"), "named": (None, "rot2"), "unique": (None, "rot")})


def _out(outsel, ks):
    if outsel is None:
        return None
    d = 1 if outsel == "rot" else 3
    return ((ks[0] + d) % len(CONC), (ks[1] + d) % len(TIME))


def op_integrate_seq(res, shape, rc_seq, mode, ks, outsel):
    """several unit-aware systems built one after the other with the SAME (empty) caller-owned `post_processors` list:
    each integrates to the reference and reports in its own units — the whole sequence is one case"""
    shared = []
    for n, rc in enumerate(rc_seq):
        before = len(res.violations)
        op_integrate(res, shape, rc, mode, ks, outsel, pp=shared, seq=[list(r) for r in rc_seq], step=n)
        if len(res.violations) > before:
            return
    res.evaluations += 1
    if shared:
        res.violation("C10|get_odesys|post_processors|callers-list-modified", "the caller's (empty) post_processors list holds %d entries after %d builds" % (len(shared), len(rc_seq)),
                      dict(op="integrate_seq", args=[shape, [list(r) for r in rc_seq], mode, list(ks), outsel]), len(shared), 0)


def op_integrate(res, shape, rc, mode, ks, outsel, pp=None, seq=None, step=None):
    """integrate() with quantities in and out: end point = reference solution; output units as requested"""
    np = E()["np"]
    rc, ks = tuple(rc), tuple(ks)
    out = _out(outsel, ks)
    case = dict(op="integrate", args=[shape, list(rc), mode, list(ks), outsel], shape=SHAPES[shape][0], registry=_reg_text(rc),
                k="3 %s**(1-n)/%s" % (CONC[ks[0]][0], TIME[ks[1]][0]), out=None if out is None else [CONC[out[0]][0], TIME[out[1]][0]])
    if seq is not None:
        case.update(op="integrate_seq", args=[shape, seq, mode, list(ks), outsel], registry="builds sharing one post_processors list: %r, step %d" % ([_reg_text(tuple(r)) for r in seq], step))
    res.states += 1
    res.transitions += 2
    res.nontrivial += 1
    res.symbols["integrate:" + mode] += 1
    res.symbols["out:%s" % (outsel,)] += 1
    subs = _substances(shape)
    fc, ft = _reg_factors(rc)
    tend = _t_end(shape, ks)
    ti = (ks[1] + 2) % len(TIME)
    tq = float(tend / TIME[ti][1]) * E()["time"][ti]
    ref = _reference(shape)

    def run():
        rsys, odesys, extra = _build(shape, rc, mode, ks, out, pp=pp)
        c, _ = _state(5 + ks[0])
        r = odesys.integrate(tq, {s: c[s] for s in subs}, _params(shape, ks, mode), integrator="scipy", atol=float(CREF / fc) * 1e-13, rtol=1e-10)
        return list(odesys.names), r.xout, r.yout, getattr(r, "params", None), bool(r.info["success"])

    got = _obs(run)
    res.evaluations += 1
    if _isexc(got):
        res.outcomes["integrate-RAISED"] += 1
        res.violation("C10|integrate|%s|raises-for-accepted-system" % mode, "%s registry %r k=%s out=%r: %s" % (case["shape"], case["registry"], case["k"], case["out"], got), case, got, "result")
        return
    names, xout, yout, params, success = got
    tm, te = A.si(xout[-1])
    ym, ye = A.si(yout[-1])
    obs = dict(zip(names, ym.reshape(-1).tolist()))
    tol = [ITOL * max(abs(ref[s]), 1e-3 * float(CREF)) for s in subs]
    ok = success and te == (0, 0, 1, 0, 0, 0, 0) and ye == A.CONC and A.close(tm, float(tend), 1e-9) and sorted(names) == sorted(subs) \
        and all(abs(obs[s] - ref[s]) <= t_ for s, t_ in zip(subs, tol))
    if not ok:
        res.outcomes["integrate-WRONG"] += 1
        res.violation("C10|integrate|%s|end-point-differs-from-reference" % mode, "%s registry %r k=%s out=%r: t=%r s %r, c=%r mol/m3 %r; reference t=%r, c=%r (success=%r)"
                      % (case["shape"], case["registry"], case["k"], case["out"], tm.tolist(), te, obs, ye, float(tend), ref, success), case,
                      [tm.tolist(), obs], [float(tend), ref])
    else:
        res.outcomes["integrate-ok|%s" % mode] += 1
    # units of the output: the registry's, or the requested ones
    exp_t = TIME[out[1]][1] if out else ft
    exp_c = CONC[out[0]][1] if out else fc
    um_t, _ = A.si(1 * xout.units)
    um_c, _ = A.si(1 * yout.units)
    res.evaluations += 1
    if not out and tuple(rc) in SCALED_REGS:
        # a scaled base "unit" (64*second) is a quantity, not a unit: the result is expressed in a unit proper (the value,
        # checked above, is what counts) — nothing to compare the unit label with
        res.outcomes["output-units-not-defined|scaled-registry"] += 1
    elif not (A.close(um_t, float(exp_t), RTOL) and A.close(um_c, float(exp_c), RTOL)):
        res.outcomes["output-units-WRONG"] += 1
        res.violation("C10|integrate|%s|output-not-in-requested-units" % ("output-units" if out else "registry-units"),
                      "%s registry %r out=%r: time unit = %r s, concentration unit = %r mol/m3; expected %r s, %r mol/m3"
                      % (case["shape"], case["registry"], case["out"], um_t.tolist(), um_c.tolist(), float(exp_t), float(exp_c)), case,
                      [um_t.tolist(), um_c.tolist()], [float(exp_t), float(exp_c)])
    else:
        res.outcomes["output-units-ok|%s" % ("requested" if out else "registry")] += 1
    if mode != "inline" and pp is None:
        consts = {"k%d" % j: (n, k) for j, (n, k, sp, mag) in enumerate(_constants(shape, ks))}
        rsys, odesys, extra = _build(shape, rc, mode, ks, out)
        res.evaluations += 1
        good = params is not None
        shown = repr(params)
        if good:
            pl = list(np.asarray(params, dtype=object).reshape(-1))
            good = len(pl) == len(consts)
            for nm, pq_ in zip(odesys.param_names, pl):
                if not good:
                    break
                m, e = A.si(pq_)
                n, k = consts[nm]
                good = e == _k_exps(n) and A.close(m, float(k), RTOL)
        if not good:
            res.outcomes["result-params-WRONG"] += 1
            res.violation("C10|integrate|%s|reported-parameters-differ-from-given-constants" % mode, "%s registry %r: result.params = %s, given %r"
                          % (case["shape"], case["registry"], shown, {k_: float(v[1]) for k_, v in consts.items()}), case, shown, {k_: float(v[1]) for k_, v in consts.items()})
        else:
            res.outcomes["result-params-ok"] += 1


def _layer_I(res, tier, shape, lo, hi):
    regs = _regs(tier)
    for rc in regs[lo:hi]:
        for mode in MODES:
            for ci in range(len(CONC)):
                for ti in range(len(TIME)):
                    for outsel in INTEGRATIONS[tier][mode]:
                        op_integrate(res, shape, rc, mode, (ci, ti), outsel)
    res.sample(dict(layer="I", shape=SHAPES[shape][0], reference_end_point=_reference(shape), tau_end=float(TAU_END)))


# --------------------------------------------------------------------------------------------- layer V
_CREATE = {}


def _create(shape, rc):
    key = (shape, tuple(rc))
    if key not in _CREATE:
        env = E()
        _CREATE.clear()
        rxns = [env["chempy"].Reaction(reac, prod, "k%d" % j) for j, (reac, prod, kappa) in enumerate(SHAPES[shape][1])]
        rsys = env["chempy"].ReactionSystem(rxns, _substances(shape))
        _CREATE[key] = env["ode"]._create_odesys(rsys, unit_registry=_registry(rc))
    return _CREATE[key]


def op_validate(res, shape, ks, ss, wi):
    """_create_odesys(...)['validate']: rates with units = hand rates; wrong-dimension constant raises"""
    ks = tuple(ks)
    case = dict(op="validate", args=[shape, list(ks), ss, wi], shape=SHAPES[shape][0], k="3 %s**(1-n)/%s" % (CONC[ks[0]][0], TIME[ks[1]][0]))
    res.states += 1
    res.transitions += 1
    res.nontrivial += 1
    res.symbols["mode:_create_odesys.validate"] += 1
    subs = _substances(shape)
    hand = _hand_rates(shape, ks)
    p = _params(shape, ks, "named")
    if wi is not None:
        p["k0"] = _wrong(p["k0"], wi)

    def run():
        odesys, extra = _create(shape, (0, 0, 0, 0))
        c, t = _state(ss)
        return extra["validate"](dict({s: c[s] for s in subs}, **p))["rates"]

    got = _obs(run)
    res.evaluations += 1
    if wi is not None:
        if _isexc(got):
            res.outcomes["validate-wrong-dimension-refused|" + got[4:]] += 1
        else:
            res.outcomes["validate-wrong-dimension-ACCEPTED"] += 1
            res.violation("C10|_create_odesys.validate|wrong-dimension|accepted", "%s with k0 = %s * %s**%d validated: %r" % (case["shape"], case["k"], WRONG[wi][0], WRONG[wi][1], got),
                          case, repr(got), "exception")
        return
    if _isexc(got):
        res.outcomes["validate-RAISED"] += 1
        res.violation("C10|_create_odesys.validate|right-dimension|raises", "%s k=%s state %d: %s" % (case["shape"], case["k"], ss, got), case, got, "rates")
        return
    scale = max(abs(float(v)) for v in hand.values())
    obs, ok = {}, True
    for s in subs:
        if s not in got:
            ok = False
            continue
        m, e = A.si(got[s])
        obs[s] = float(m)
        ok = ok and e == (-3, 0, -1, 0, 0, 1, 0) and abs(float(m) - float(hand[s])) <= RTOL * scale
    # the caller's constants must still be what was given (validate sums terms with in-place +=)
    res.evaluations += 1
    changed = {}
    for j, (n, k, sp, mag) in enumerate(_constants(shape, ks)):
        m, e = A.si(p["k%d" % j])
        if e != _k_exps(n) or not A.close(m, float(k), RTOL):
            changed["k%d" % j] = [float(m), float(k)]
    if changed:
        res.outcomes["validate-MUTATED-caller-constants"] += 1
        res.violation("C10|_create_odesys.validate|%s|changes-the-callers-rate-constant" % case["shape"], "%s k=%s state %d: after validate() the given constants read %r (SI: now, given)"
                      % (case["shape"], case["k"], ss, changed), case, changed, "unchanged")
    else:
        res.outcomes["validate-leaves-constants-unchanged"] += 1
    if not ok:
        res.outcomes["validate-WRONG"] += 1
        res.violation("C10|_create_odesys.validate|rates|differ-from-hand-rate", "%s k=%s state %d: rates %r mol/m3/s, by hand %r"
                      % (case["shape"], case["k"], ss, obs, {s: float(hand[s]) for s in subs}), case, obs, {s: float(hand[s]) for s in subs})
    else:
        res.outcomes["validate-ok"] += 1


def op_solve(res, shape, rc, ks):
    """_create_odesys(...)['unit_aware_solve'] end point = reference solution, in the registry's units"""
    rc, ks = tuple(rc), tuple(ks)
    case = dict(op="solve", args=[shape, list(rc), list(ks)], shape=SHAPES[shape][0], registry=_reg_text(rc), k="3 %s**(1-n)/%s" % (CONC[ks[0]][0], TIME[ks[1]][0]))
    res.states += 1
    res.transitions += 2
    res.nontrivial += 1
    res.symbols["mode:_create_odesys.unit_aware_solve"] += 1
    subs = _substances(shape)
    fc, ft = _reg_factors(rc)
    tend = _t_end(shape, ks)
    ti = (ks[1] + 1) % len(TIME)
    tq = float(tend / TIME[ti][1]) * E()["time"][ti]
    ref = _reference(shape)

    def run():
        odesys, extra = _create(shape, rc)
        c, _ = _state(5 + ks[0])
        cd = collections.defaultdict(lambda: 0 * E()["u"].molar, {s: c[s] for s in subs})
        r, ex = extra["unit_aware_solve"](tq, cd, _params(shape, ks, "named"), integrator="scipy", atol=float(CREF / fc) * 1e-13, rtol=1e-10)
        return list(odesys.names), r.xout, r.yout, ex

    got = _obs(run)
    res.evaluations += 1
    if _isexc(got):
        res.outcomes["solve-RAISED"] += 1
        res.violation("C10|_create_odesys.unit_aware_solve|right-dimension|raises", "%s registry %r k=%s: %s" % (case["shape"], case["registry"], case["k"], got), case, got, "result")
        return
    names, xout, yout, ex = got
    tm, te = A.si(xout[-1])
    ym, ye = A.si(yout[-1])
    obs = dict(zip(names, ym.reshape(-1).tolist()))
    ok = te == (0, 0, 1, 0, 0, 0, 0) and ye == A.CONC and A.close(tm, float(tend), 1e-9) and sorted(names) == sorted(subs) \
        and all(abs(obs[s] - ref[s]) <= ITOL * max(abs(ref[s]), 1e-3 * float(CREF)) for s in subs)
    # parameter units reported alongside
    consts = {"k%d" % j: (n, k) for j, (n, k, sp, mag) in enumerate(_constants(shape, ks))}
    pu = ex.get("param_units", {}) if isinstance(ex, dict) else {}
    okp = sorted(pu) == sorted(consts)
    for nm in consts:
        if not okp:
            break
        m, e = A.si(pu[nm])
        fexp = fc ** (1 - consts[nm][0]) / ft
        okp = e == _k_exps(consts[nm][0]) and A.close(m, float(fexp), RTOL)
    if not ok:
        res.outcomes["solve-WRONG"] += 1
        res.violation("C10|_create_odesys.unit_aware_solve|%s|end-point-differs-from-reference" % case["shape"], "%s registry %r k=%s: t=%r s %r c=%r %r; reference t=%r c=%r"
                      % (case["shape"], case["registry"], case["k"], tm.tolist(), te, obs, ye, float(tend), ref), case, [tm.tolist(), obs], [float(tend), ref])
    elif not okp:
        res.outcomes["solve-param-units-WRONG"] += 1
        res.violation("C10|_create_odesys.unit_aware_solve|param_units|not-the-registry-units", "%s registry %r: param_units = %r" % (case["shape"], case["registry"], pu), case, repr(pu), "registry units")
    else:
        res.outcomes["solve-ok"] += 1


def _layer_V(res, tier, shape, lo, hi):
    regs = _regs(tier)
    if lo == 0:
        for ci in range(len(CONC)):
            for ti in range(len(TIME)):
                for ss in range(10):
                    op_validate(res, shape, (ci, ti), ss, None)
                for wi in range(len(WRONG)):
                    op_validate(res, shape, (ci, ti), (ci + ti) % 10, wi)
    for rc in regs[lo:hi]:
        for ci in range(len(CONC)):
            for ti in range(len(TIME)):
                op_solve(res, shape, rc, (ci, ti))
    res.sample(dict(layer="V", shape=SHAPES[shape][0]))


# --------------------------------------------------------------------------------------------- layer T
def op_to_arrays_reject(res, shape, rc, mode, what, wi):
    """a unit-aware system refuses a parameter / concentration / time of a one-off wrong dimension"""
    rc = tuple(rc)
    ks = (wi % len(CONC), wi % len(TIME))
    case = dict(op="to_arrays_reject", args=[shape, list(rc), mode, what, wi], shape=SHAPES[shape][0], wrong="%s * %s**%d" % (what, WRONG[wi][0], WRONG[wi][1]))
    res.states += 1
    res.transitions += 1
    res.nontrivial += 1
    res.symbols["to_arrays-wrong:" + what] += 1
    subs = _substances(shape)

    def run():
        rsys, odesys, extra = _build(shape, rc, mode, ks)
        c, t = _state(wi % 10)
        c = {s: c[s] for s in subs}
        p = _params(shape, ks, mode)
        if what == "param":
            p["k0"] = _wrong(p["k0"], wi)
        elif what == "conc":
            c[subs[-1]] = _wrong(c[subs[-1]], wi)
        else:
            t = _wrong(t, wi)
        return [a.tolist() for a in odesys.to_arrays(t, c, p)]

    got = _obs(run)
    res.evaluations += 1
    if _isexc(got):
        res.outcomes["to_arrays-wrong-%s-refused|%s" % (what, got[4:])] += 1
    else:
        res.outcomes["to_arrays-wrong-%s-ACCEPTED" % what] += 1
        res.violation("C10|get_odesys.to_arrays|%s|wrong-dimension-accepted" % what, "%s (%s) registry %r: to_arrays with %s returned %r"
                      % (case["shape"], mode, _reg_text(rc), case["wrong"], got), case, got, "exception")


def op_rates_quantities(res, shape, ks, ss):
    """ReactionSystem.rates evaluated directly with unit-carrying concentrations (no ODE system, no registry): the per-substance
    rates, converted to mol/m3/s, are the hand rates — and a second evaluation with the same quantity objects gives them again"""
    env = E()
    np, chempy = env["np"], env["chempy"]
    ks = tuple(ks)
    case = dict(op="rates_quantities", args=[shape, list(ks), ss], shape=SHAPES[shape][0])
    res.states += 1
    res.transitions += 2
    res.evaluations += 2
    res.nontrivial += 1
    subs = _substances(shape)
    hand = _hand_rates(shape, ks)
    ref = [float(hand[s]) for s in subs]

    def run():
        rxns = [chempy.Reaction(reac, prod, _kq(mag, n, cj, tj)) for (reac, prod, kappa), (n, k, (cj, tj), mag) in zip(SHAPES[shape][1], _constants(shape, ks))]
        rsys = chempy.ReactionSystem(rxns, subs)
        c, _ = _state(ss)
        V = {s: c[s] for s in subs}
        out = []
        for _n in range(2):
            r = rsys.rates(V)
            out.append([float(A.si(r[s])[0]) if s in r else 0.0 for s in subs])
            for s in subs:
                if s in r and A.si(r[s])[1] != (-3, 0, -1, 0, 0, 1, 0):
                    raise ValueError("rate of %s has SI exponents %r" % (s, A.si(r[s])[1]))
        return out

    got = _obs(run)
    scale = max(abs(r) for r in ref)
    ok = (not _isexc(got)) and all(all(abs(o - r) <= RTOL * scale for o, r in zip(row, ref)) for row in got)
    res.outcomes["rates-with-quantities-%s" % ("ok" if ok else "WRONG")] += 1
    if not ok:
        res.violation("C10|ReactionSystem.rates|quantities|differs-from-hand-rate", "%s with k = 3 %s**(1-n)/%s, state spelling %d: rates(...) with quantities = %r mol/m3/s (two evaluations), by hand %r" % (
            case["shape"], CONC[ks[0]][0], TIME[ks[1]][0], ss, got, ref), case, got, ref)


def op_many_species(res, nsp, rc, pattern, as_):
    """a first-order chain over nsp (17..24) species, the initial concentrations written in mixed units by a placement pattern
    (dict or list of unit-carrying scalars): the state handed to the solver, times the registry's concentration unit, is the
    state that was given; the physical rate of the first and last species is the hand rate"""
    env = E()
    np, chempy, ode = env["np"], env["chempy"], env["ode"]
    rc = tuple(rc)
    names = ["X%02d" % i for i in range(nsp)]
    case = dict(op="many_species", args=[nsp, list(rc), pattern, as_])
    res.states += 1
    res.transitions += nsp
    res.evaluations += 1
    res.nontrivial += 1
    ncu = len(CONC)
    if pattern == "cycle":
        cis = [i % ncu for i in range(nsp)]
    elif pattern == "ends-equal":
        cis = [0] + [1] * (nsp - 2) + [0]
    else:
        cis = [3] * nsp
        cis[nsp // 2] = 0
    si = [Fr(3 + i, 2) for i in range(nsp)]  # mol/m3
    fc, ft = _reg_factors(rc)

    def run():
        rxns = [chempy.Reaction({names[i]: 1}, {names[i + 1]: 1}, float(2 + i) / env["time"][0]) for i in range(nsp - 1)]
        rsys = chempy.ReactionSystem(rxns, names)
        odesys, extra = ode.get_odesys(rsys, include_params=True, unit_registry=_registry(rc))
        qs = [float(v / CONC[ci][1]) * env["conc"][ci] for v, ci in zip(si, cis)]
        c = dict(zip(names, qs)) if as_ == "dict" else list(qs)
        x, y, p = odesys.to_arrays(0 * env["time"][0], c, {})
        y = np.asarray(y, dtype=float).reshape(-1)
        f = np.asarray(odesys.f_cb(x, y, p), dtype=float).reshape(-1)
        return list(odesys.names), y, f

    got = _obs(run)
    if _isexc(got):
        res.outcomes["many-species-RAISED"] += 1
        res.violation("C10|get_odesys.to_arrays|many-species|raises", "%d-species chain, registry %r, concentrations as %s in units by pattern %r: %s" % (nsp, _reg_text(rc), as_, pattern, got), case, got, None)
        return
    onames, y, f = got
    ysi = [float(v) * float(fc) for v in y]
    want = [float(v) for v in si]
    rate = [float(v) * float(fc / ft) for v in f]
    want_rate = [-(2 + 0) * want[0]] + [(2 + i - 1) * want[i - 1] - (2 + i) * want[i] for i in range(1, nsp - 1)] + [(2 + nsp - 2) * want[nsp - 2]]
    ok = onames == names and all(abs(a - b) <= RTOL * abs(b) for a, b in zip(ysi, want)) and all(abs(a - b) <= RTOL * max(abs(b), 1.0) for a, b in zip(rate, want_rate))
    res.outcomes["many-species-%s" % ("ok" if ok else "WRONG")] += 1
    if not ok:
        res.violation("C10|get_odesys.to_arrays|many-species|state-differs-from-given", "%d-species chain, registry %r, concentrations as %s, units by pattern %r: state %r mol/m3 (given %r), rates %r (by hand %r)" % (
            nsp, _reg_text(rc), as_, pattern, ysi[:4] + ysi[-2:], want[:4] + want[-2:], rate[:2] + rate[-1:], want_rate[:2] + want_rate[-1:]), case, ysi, want)


def _layer_T(res, tier, shape):
    regs = _regs(tier)
    for rc in regs:
        for wi in range(len(WRONG)):
            for what in ("param", "conc", "time"):
                for mode in (("named", "unique") if what == "param" else ("inline", "named")):
                    op_to_arrays_reject(res, shape, rc, mode, what, wi)
    res.sample(dict(layer="T", shape=SHAPES[shape][0]))


# --------------------------------------------------------------------------------------------- driver
def run_chunk(chunk, tier):
    res = Result()
    kind = chunk[0]
    if kind == "A":
        for ci in range(len(CONC)):
            for ti in range(len(TIME)):
                op_accept(res, chunk[1], ci, ti, None)
                for wi in range(len(WRONG)):
                    op_accept(res, chunk[1], ci, ti, wi)
                for j in range(-3, 4):
                    op_accept_exponent(res, chunk[1], ci, ti, j)
        res.sample(dict(layer="A", reaction=repr(SINGLE[chunk[1]])))
    elif kind == "E":
        for ei in range(len(EQS)):
            for ci in range(len(CONC)):
                op_eq(res, ei, ci, None)
                for wi in range(len(WRONG)):
                    op_eq(res, ei, ci, wi)
                dnu = sum(EQS[ei][1].values()) - sum(EQS[ei][0].values())
                for j in range(-3, 4):
                    if j != dnu:
                        op_eq_exponent(res, ei, ci, j)
                for ej in range(len(EQS)):
                    for sign in (1, -1):
                        op_eq_sum(res, ei, ej, ci, sign)
                op_units_query(res, ei, ci, None)
                for wi in range(len(WRONG)):
                    op_units_query(res, ei, ci, wi)
                for ti in (0, 1):
                    op_eq_as_reactions(res, ei, ci, ti, None)
                    for wi in range(len(WRONG)):
                        op_eq_as_reactions(res, ei, ci, ti, wi)
        for n in (1, 2, 3):
            for ci in range(len(CONC)):
                for ti in range(len(TIME)):
                    op_rxn_identity(res, n, ci, ti)
        res.sample(dict(layer="E", equilibria=[repr(e) for e in EQS]))
    elif kind == "K":
        _layer_K(res, tier, *chunk[1:])
    elif kind == "MS":
        for nsp in (16, 17, 18, 24):
            for rc in [(0, 0, 0, 0), (2, 1, 1, 0)] + SCALED_REGS[:1]:
                for pattern in ("cycle", "ends-equal", "one-odd"):
                    for as_ in ("dict", "list"):
                        op_many_species(res, nsp, rc, pattern, as_)
        for shape in range(len(SHAPES)):
            for ci in range(len(CONC)):
                for ti in range(len(TIME)):
                    for ss in (3, 5, 7):
                        op_rates_quantities(res, shape, (ci, ti), ss)
        res.sample(dict(layer="MS", species=[16, 17, 18, 24], patterns=["cycle", "ends-equal", "one-odd"]))
    elif kind == "KS":  # registries whose base units are scaled units (a number times a unit)
        _layer_K(res, tier, chunk[1], 0, len(SCALED_REGS), regs=SCALED_REGS)
        for rc in SCALED_REGS[:2]:
            for mode in MODES:
                op_integrate(res, chunk[1], rc, mode, (0, 0), None)
    elif kind == "I":
        _layer_I(res, tier, *chunk[1:])
    elif kind == "V":
        _layer_V(res, tier, *chunk[1:])
    elif kind == "AH":
        op_accept_after(res, chunk[1])
        res.sample(dict(layer="AH", first=AFTER_OPS[chunk[1]], then="every reaction / equilibrium shape with the right and with each wrong dimension, default checks"))
    elif kind == "RH":
        shape = chunk[1]
        regs = [(0, 0, 0, 0), (2, 0, 0, 0), (1, 1, 1, 0), (0, 1, 0, 0)]
        for n in (2, 3):
            for seq in itertools.permutations(regs, n):
                for mode in ("inline", "named"):
                    op_rate_seq(res, shape, [list(r) for r in seq], mode, (0, 0), 5)
        for seq in itertools.permutations(regs[:3], 2):
            for outsel in (None, "rot"):
                op_integrate_seq(res, shape, [list(r) for r in seq], "inline", (0, 0), outsel)
        res.sample(dict(layer="RH", shape=SHAPES[shape][0], registries=[_reg_text(r) for r in regs]))
    elif kind == "T":
        _layer_T(res, tier, chunk[1])
    else:
        raise ValueError(chunk)
    return res


OPS = dict(integrate_seq=op_integrate_seq, accept_after=op_accept_after, rate_seq=op_rate_seq, accept=op_accept, accept_exponent=op_accept_exponent, eq=op_eq, units_query=op_units_query, rxn_identity=op_rxn_identity, eq_sum=op_eq_sum, many_species=op_many_species, rates_quantities=op_rates_quantities, eq_as_reactions=op_eq_as_reactions, eq_exponent=op_eq_exponent, rate=op_rate, integrate=op_integrate, validate=op_validate, solve=op_solve, to_arrays_reject=op_to_arrays_reject)


def replay(case):
    res = Result()
    OPS[case["op"]](res, *case["args"])
    if case["op"] == "accept_after":
        res.violations = [v for v in res.violations if all(v["case"].get(f) == case.get(f) for f in ("cls", "i", "wi"))]
    if res.violations:
        v = res.violations[0]
        return dict(key=v["key"], what=v["what"], observed=v["observed"], expected=v["expected"])
    return None

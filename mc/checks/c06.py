"""C06 — integrated kinetics reproduce exact solutions, stay inside [0, elemental supply], and the advertised Euler step is safe.

State space (DESIGN.md §3 C06), every state run through the real pipeline
text -> ReactionSystem.from_string -> get_odesys -> odesys.integrate(tout, c0, atol=rtol=1e-12) / extra['max_euler_step_cb']:
  layer F  EVERY non-empty first-order topology (set of directed steps i -> j) on n labelled isomers
           x deterministic rate-constant patterns over the decades 1e-2..1e2 x initial states (unit vectors, mixed)
           x output times {0, 0.1, 1, 10}; plus the same systems under stirred-tank feed for the Euler-step clause
  layer B  A + B -> C and A + B <=> C (Fe+3 + SCN- <=> FeSCN+2) on the full lattice (kf, kb, a, b, c) x times
Oracle: scipy.linalg.expm(K t) y0 for layer F (K built from the edge list), the closed-form Riccati solution evaluated
with mpmath (50 digits; cross-checked against mpmath.odefun inside the harness) for layer B; elemental upper bounds from
hand-written compositions; y0 + h f(y0) with the model's own f for the Euler step.
"""
import itertools
import math

from mc.core import Result
from mc.ref import massaction as M

META = dict(
    title="Integrated kinetics reproduce exact solutions and stay physically admissible",
    level="model_checking",
    technique="bounded-exhaustive enumeration of all first-order network topologies on n labelled species (and a full parameter "
    "lattice for the bimolecular steps), each integrated through the real text->ODE->integrate pipeline and compared with the "
    "matrix exponential / closed form; discrete dimensions complete, real-valued ones on a stated lattice",
    rule="states = distinct (topology, rate-constant pattern) systems + bimolecular lattice points (kf,kb,a,b,c); non-trivial = "
    "all of them (every system has at least one reaction with a positive constant); evaluations = result rows / step sizes compared",
    assumptions=[
        "pyodesys + scipy lsoda (predefined output times), scipy.linalg.expm and mpmath are trusted (delegated numerics)",
        "rate constants, initial states, feed parameters and times off the stated lattice, n >= 5 (quick: n = 4 with more than 5 steps) "
        "are outside the bound; pyodesys' 'adaptive' output mode is not used (it fails for tight tolerances inside pyodesys)",
        "tolerances: |y - exact| <= 1e-8*max(1,|exact|) for atol=rtol=1e-12; -1e-9 <= y <= upper + 1e-9; Euler step 1e-12 relative slack",
    ],
    design_ref="DESIGN.md §3 C06",
    hashseed_sensitive=False,
)

ISOMERS = ["C6H12O6", "alpha-C6H12O6", "beta-C6H12O6", "gamma-C6H12O6"]
TOUT = [0.0, 0.1, 1.0, 10.0]
MANT = ("1.0", "2.5", "6.0")
FEEDS = [(0.5, "ones"), (20.0, "ones"), (20.0, "twos"), (5.0, "first")]
TOL = 1e-8
LATE = [40.0, 400.0]  # late times for the closed forms only (no integration)
NSTEPS = 50000  # scipy lsoda gives up after 500 internal steps by default ("Excess work done"): a solver setting, not chempy

BI = ("Fe+3", "SCN-", "FeSCN+2")
BI_COMP = {"Fe+3": {"Fe": 1}, "SCN-": {"S": 1, "C": 1, "N": 1}, "FeSCN+2": {"Fe": 1, "S": 1, "C": 1, "N": 1}}  # charge is not a supply
KF = [0.5, 2.0, 30.0]
KB = [0.1, 1.0, 10.0]
AB = [0.3, 1.0, 2.5]
CC = [0.0, 0.2, 1.0]


def _tier(tier):
    if tier == "quick":
        return dict(full=[(3, 6)], partial=[(4, 5, 1)], y0_partial=2)  # (n, patterns); (n, max edges, patterns)
    return dict(full=[(3, 6), (4, 4)], partial=[], y0_partial=None)


def bounds(tier):
    t = _tier(tier)
    return dict(first_order_complete=[dict(n=n, topologies=2 ** (n * (n - 1)) - 1, k_patterns=p, y0="unit vectors + mixed") for n, p in t["full"]],
                first_order_partial=[dict(n=n, max_steps=e, k_patterns=p, y0="e_0 + mixed") for n, e, p in t["partial"]],
                tout=TOUT, decades=[-2, 2], mantissas=list(MANT), feeds=FEEDS, bimolecular=dict(kf=KF, kb=KB, a=AB, b=AB, c=CC, irreversible_and_reversible=True), tol=TOL)


def edges_of(n):
    return [(i, j) for i in range(n) for j in range(n) if i != j]


def topologies(n, max_edges=None):
    m = n * (n - 1)
    masks = sorted(range(1, 2 ** m), key=lambda x: (bin(x).count("1"), x))
    if max_edges is not None:
        masks = [x for x in masks if bin(x).count("1") <= max_edges]
    return masks


def chunks(tier):
    t = _tier(tier)
    out = []
    for n, pats in t["full"]:
        masks = topologies(n)
        step = 3 if n == 3 else 32
        out += [("F", n, None, pats, lo, min(lo + step, len(masks))) for lo in range(0, len(masks), step)]
    for n, me, pats in t["partial"]:
        masks = topologies(n, me)
        out += [("F", n, me, pats, lo, min(lo + 16, len(masks))) for lo in range(0, len(masks), 16)]
    out += [("B", i, j) for i in range(3) for j in range(3)]
    out += [("BI", i) for i in range(3)]
    out += [("D", "assoc"), ("D", "dissoc"), ("D", "trimer"), ("X",)]
    return out


# ------------------------------------------------------------------------------------------------- alphabets
def ktext(e, p):
    """rate constant of the possible step number e under pattern p, as written in the text"""
    return "%se%d" % (MANT[(e + p) % 3], ((e * (p + 1) + 2 * p) % 5) - 2)


def y0s(n, limited):
    mixed = {3: (0.2, 0.3, 0.5), 4: (0.1, 0.2, 0.3, 0.4)}[n]
    units = [tuple(1.0 if i == j else 0.0 for i in range(n)) for j in range(n)]
    if limited:
        return [units[0], mixed]
    return units + [mixed]


def fc_of(kind, names):
    if kind == "ones":
        return {s: 1.0 for s in names}
    if kind == "twos":
        return {s: 2.0 for s in names}
    return {s: (2.0 if i == 0 else 0.0) for i, s in enumerate(names)}


def upper_model(comp, c0):
    """elemental supply: min over the elements of a substance of (total amount of the element) / (atoms per formula unit)"""
    tot = {}
    for s, c in c0.items():
        for el, nu in comp[s].items():
            tot[el] = tot.get(el, 0.0) + nu * c
    return {s: min(tot[el] / nu for el, nu in comp[s].items()) for s in c0}


# ------------------------------------------------------------------------------------------------- pipeline
def _pipeline(text, cstr=False):
    from chempy import ReactionSystem
    from chempy.kinetics.ode import get_odesys

    rsys = ReactionSystem.from_string(text)
    odesys, extra = get_odesys(rsys, cstr=cstr)
    return rsys, odesys, extra


def _viol(res, key, what, case, observed=None, expected=None):
    res.violation(key, what, dict(case, expect_key=key), observed, expected)


def _check_rows(res, layer, case, what, names, c0, result, exact_rows, upper):
    """result rows against the exact solution, and admissibility"""
    import numpy as np

    ok = True
    try:
        xout, yout, info = np.asarray(result.xout, dtype=float), np.asarray(result.yout, dtype=float), result.info
    except Exception as e:
        _viol(res, "C06|%s|integrate|result object" % layer, "%s: result has no xout/yout/info (%s)" % (what, e), case, repr(result), "xout, yout, info")
        return False
    res.evaluations += 1
    if list(xout) != TOUT or yout.shape != (len(TOUT), len(names)) or not info.get("success", False):
        _viol(res, "C06|%s|integrate|xout/shape/success" % layer, "%s: xout=%r yout.shape=%r success=%r" % (what, list(xout), yout.shape, info.get("success")), case, [list(xout), list(yout.shape)], [TOUT, [len(TOUT), len(names)]])
        return False
    for ti, t in enumerate(TOUT):
        res.evaluations += 1
        dev = 0.0
        for si, s in enumerate(names):
            ex = exact_rows[ti][s]
            d = abs(yout[ti, si] - ex) / max(1.0, abs(ex))
            dev = max(dev, d)
            if not (d <= TOL):
                ok = False
        res.extra["max_rel_dev_from_exact_x1e12"] = max(res.extra.get("max_rel_dev_from_exact_x1e12", 0.0), dev * 1e12 if dev == dev else 1e300)
        if not ok:
            _viol(res, "C06|%s|integrate|deviates from the exact solution" % layer, "%s: y(t=%g) = %s, exact %s" % (what, t, dict(zip(names, map(float, yout[ti]))), exact_rows[ti]),
                  case, dict(zip(names, map(float, yout[ti]))), exact_rows[ti])
            break
    res.evaluations += 1
    lo = float(yout.min())
    over = max(float(yout[:, si].max()) - upper[s] for si, s in enumerate(names))
    res.extra["min_conc_seen_x1e12"] = min(res.extra.get("min_conc_seen_x1e12", 0.0), lo * 1e12)
    if lo < -1e-9 or over > 1e-9:
        _viol(res, "C06|%s|integrate|concentration outside [0, elemental supply]" % layer, "%s: min y = %g, max(y - upper) = %g, upper %s" % (what, lo, over, upper), case, [lo, over], [">= -1e-9", "<= 1e-9"])
        ok = False
    return ok


def _check_upper(res, layer, case, what, rsys, names, c0, upper):
    res.evaluations += 1
    try:
        got = [float(x) for x in rsys.upper_conc_bounds(dict(c0))]
    except Exception as e:
        got = "EXC %s: %s" % (type(e).__name__, e)
    exp = [upper[s] for s in names]
    if isinstance(got, str) or len(got) != len(exp) or any(abs(g - e) > 1e-12 * max(1.0, abs(e)) for g, e in zip(got, exp)):
        _viol(res, "C06|%s|upper_conc_bounds|differs from the elemental supply" % layer, "%s: upper_conc_bounds(%s) = %s, model %s" % (what, c0, got, exp), case, got, exp)
        return False
    return True


def _check_euler(res, layer, case, what, cb, names, c0, f, upper, params=None):
    """y0 + h f(y0) must stay inside [0, upper]; f is the model's right-hand side at y0 (dict)"""
    res.evaluations += 1
    try:
        h = cb(0.0, dict(c0), dict(params)) if params is not None else cb(0.0, dict(c0))
        h = float(h)
    except Exception as e:
        _viol(res, "C06|%s|max_euler_step_cb|raises" % layer, "%s: max_euler_step_cb(0, %s%s) raised %s: %s" % (what, c0, ", %s" % params if params else "", type(e).__name__, e), case, "EXC %s" % type(e).__name__, "a step size")
        return "EXC"
    # the same state handed over in other mapping types (an OrderedDict in reversed order; a defaultdict that supplies the
    # LAST species' concentration through its default factory): the advertised step is the same
    try:
        import collections

        variants = [collections.OrderedDict((k, c0[k]) for k in reversed(list(c0)))]
        last = list(c0)[-1]
        dd = collections.defaultdict(lambda: c0[last])
        dd.update({k: v for k, v in c0.items() if k != last})
        variants.append(dd)
        hs = [float(cb(0.0, v, dict(params)) if params is not None else cb(0.0, v)) for v in variants]
    except Exception as e:
        hs = ["EXC %s" % type(e).__name__]
    if any(isinstance(x, str) or abs(x - h) > 1e-12 * max(abs(h), 1e-300) for x in hs):
        _viol(res, "C06|%s|max_euler_step_cb|depends-on-the-mapping-type-of-the-state" % layer, "%s: max_euler_step_cb(0, %s) = %r for a dict, %r for the same state as reversed OrderedDict / defaultdict" % (what, c0, h, hs), case, hs, h)
    # model classification of what limits the step
    dep = min([-c0[s] / f[s] for s in names if f[s] < 0] or [float("inf")])
    up = min([(upper[s] - c0[s]) / f[s] for s in names if f[s] > 0] or [float("inf")])
    cls = "cap 1" if min(dep, up) >= 1 else ("depletion" if dep < up * (1 - 1e-12) else ("upper bound" if up < dep * (1 - 1e-12) else "depletion = upper bound"))
    if not (h == h) or h < 0:  # h = 0 is (vacuously) safe: it happens when a fed species already sits at its elemental bound
        _viol(res, "C06|%s|max_euler_step_cb|not a forward step" % layer, "%s: max_euler_step_cb(0, %s%s) = %r" % (what, c0, ", %s" % params if params else "", h), case, h, ">= 0")
        return cls
    if h == 0:
        cls = "upper bound already reached (h = 0)"
    fin = [abs(v) for v in upper.values() if v != float("inf")] + [abs(v) for v in c0.values()]
    scale = max(fin) if any(fin) else 1.0  # the concentration scale of this state (trace-level states have their own)
    bad = []
    for s in names:
        y1 = c0[s] + h * f[s]
        if y1 < -1e-12 * scale or y1 > upper[s] + 1e-12 * scale:
            bad.append((s, y1, upper[s]))
    if bad:
        _viol(res, "C06|%s|max_euler_step_cb|step leaves [0, elemental supply]" % layer,
              "%s: h = max_euler_step_cb(0, %s%s) = %r; y0 + h f(y0) gives %s (value, upper bound) with f = %s" % (what, c0, ", %s" % params if params else "", h, bad, f), case, [h, bad], "0 <= y0 + h f <= upper")
    hmax = min(dep, up, 1.0)
    res.extra["euler_steps_equal_to_largest_safe_step"] = res.extra.get("euler_steps_equal_to_largest_safe_step", 0) + (1 if abs(h - hmax) <= 1e-9 * max(hmax, 1e-300) else 0)
    return cls


# ------------------------------------------------------------------------------------------------- layer F
def first_order_system(n, mask, p):
    E = edges_of(n)
    present = [(e, ij) for e, ij in enumerate(E) if mask >> e & 1]
    lines = ["%s -> %s; %s" % (ISOMERS[i], ISOMERS[j], ktext(e, p)) for e, (i, j) in present]
    ks = [float(ktext(e, p)) for e, _ in present]
    used = sorted(set(x for _, ij in present for x in ij))
    return "\n".join(lines), [ij for _, ij in present], ks, used


def check_first_order(res, n, mask, p, limited, only_y0=None):
    import numpy as np
    from scipy.linalg import expm

    text, edges, ks, used = first_order_system(n, mask, p)
    case = dict(layer="F", n=n, mask=mask, p=p, limited=bool(limited))
    what = "first-order network [%s]" % text.replace("\n", " | ")
    res.states += 1
    res.nontrivial += 1
    res.transitions += len(edges)
    res.symbols["n=%d steps=%d" % (n, len(edges))] += 1
    res.symbols["pattern %d" % p] += 1
    for e, _ in enumerate(edges_of(n)):
        if mask >> e & 1:
            res.symbols["n=%d step %s->%s" % ((n,) + edges_of(n)[e])] += 1
    res.evaluations += 1
    try:
        rsys, odesys, extra = _pipeline(text)
        rsys2, odesys2, extra2 = _pipeline(text, cstr=True)
        names = list(odesys.names)
    except Exception as e:
        _viol(res, "C06|F|pipeline|raises", "%s: from_string/get_odesys raised %s: %s" % (what, type(e).__name__, e), case, "EXC %s" % type(e).__name__, "an ODE system")
        res.outcomes["F pipeline RAISES"] += 1
        return
    exp_names = [ISOMERS[i] for i in used]
    if sorted(names) != sorted(exp_names) or list(odesys2.names) != names:
        _viol(res, "C06|F|pipeline|substances", "%s: odesys.names = %r, species in the text %r" % (what, names, exp_names), case, names, exp_names)
        return
    idx = {ISOMERS[i]: i for i in used}
    K = np.array(M.first_order_matrix(n, edges, ks))
    comp = {s: {"C": 6, "H": 12, "O": 6} for s in names}
    cb, cb2 = extra.get("max_euler_step_cb"), extra2.get("max_euler_step_cb")
    if cb is None or cb2 is None:
        _viol(res, "C06|F|max_euler_step_cb|not provided", "%s: extra['max_euler_step_cb'] is None for a balanced system with compositions" % what, case, None, "callable")
    ok = True
    for yi, y0 in enumerate(y0s(n, limited)):
        if only_y0 is not None and yi != only_y0:
            continue
        c0 = {s: y0[idx[s]] for s in names}
        if not any(c0.values()):
            res.outcomes["F y0 has no mass on the species of the network (skipped)"] += 1
            continue
        ycase = dict(case, y0=yi)
        res.transitions += 1
        yfull = np.array([y0[i] if ISOMERS[i] in idx else 0.0 for i in range(n)])
        upper = upper_model(comp, c0)
        exact = []
        for t in TOUT:
            v = expm(K * t).dot(yfull)
            exact.append({s: float(v[idx[s]]) for s in names})
        try:
            result = odesys.integrate(list(TOUT), dict(c0), atol=1e-12, rtol=1e-12, nsteps=NSTEPS)
        except Exception as e:
            _viol(res, "C06|F|integrate|raises", "%s: integrate(%s, %s) raised %s: %s" % (what, TOUT, c0, type(e).__name__, e), ycase, "EXC %s" % type(e).__name__, "a result")
            ok = False
            continue
        ok &= _check_rows(res, "F", ycase, "%s from %s" % (what, c0), names, c0, result, exact, upper)
        ok &= _check_upper(res, "F", ycase, what, rsys, names, c0, upper)
        fv = K.dot(yfull)
        f = {s: float(fv[idx[s]]) for s in names}
        if cb is not None:
            cls = _check_euler(res, "F", ycase, what, cb, names, c0, f, upper)
            res.outcomes["F euler closed tank: limited by %s" % cls] += 1
            # the same state at trace level (all concentrations x 2**-50 ~ 1e-15): a first-order network is linear, so the rates
            # and bounds scale with it and the safe step is unchanged
            sc = 2.0 ** -50
            c0s = {s: c0[s] * sc for s in names}
            cls_s = _check_euler(res, "F-trace", dict(ycase, scale="2**-50"), what + " at trace level", cb, names, c0s, {s: f[s] * sc for s in names}, {s: upper[s] * sc for s in names})
            res.outcomes["F euler closed tank at trace level: limited by %s" % cls_s] += 1
        if cb2 is not None:
            for fi, (F, kind) in enumerate(FEEDS):
                fc = fc_of(kind, names)
                params = dict(feedratio=F, **{"fc_" + s: fc[s] for s in names})
                f2 = {s: f[s] + F * (fc[s] - c0[s]) for s in names}
                cls = _check_euler(res, "F-cstr", dict(ycase, feed=fi), what + " with feed F=%g c_feed=%s" % (F, kind), cb2, names, c0, f2, upper, params)
                res.outcomes["F euler stirred tank: limited by %s" % cls] += 1
    res.outcomes["F n=%d steps=%d species=%d: %s" % (n, len(edges), len(names), "ok" if ok else "WRONG")] += 1


# ------------------------------------------------------------------------------------------------- layer B
def bimol_exact(kf, kb, a, b, c, t):
    """x(t) with dx/dt = kf (a-x)(b-x) - kb (c+x), x(0) = 0 (Riccati equation with constant coefficients), 50 digits"""
    import mpmath as mp

    with mp.workdps(50):
        kf, kb, a, b, c, t = [mp.mpf(v) for v in (kf, kb, a, b, c, t)]
        P, Q, R = kf, -(kf * (a + b) + kb), kf * a * b - kb * c
        if R == 0:
            return mp.mpf(0)
        if kb == 0 and a == b:  # double root x1 = a
            return a * (P * t * a) / (1 + P * t * a)
        s = mp.sqrt(Q * Q - 4 * P * R)
        x1, x2 = (-Q - s) / (2 * P), (-Q + s) / (2 * P)
        q = (x1 / x2) * mp.exp(P * (x1 - x2) * t)
        return (x1 - q * x2) / (1 - q)


def _selfcheck_closed_form(kf, kb, a, b, c):
    """harness self-check (not a verdict on chempy): the closed form solves its ODE according to mpmath.odefun"""
    import mpmath as mp
    from mc import env

    with mp.workdps(30):
        sol = mp.odefun(lambda t, y: [mp.mpf(kf) * (mp.mpf(a) - y[0]) * (mp.mpf(b) - y[0]) - mp.mpf(kb) * (mp.mpf(c) + y[0])], 0, [mp.mpf(0)])
        for t in (0.1, 1.0):
            ref = sol(t)[0]
            mine = bimol_exact(kf, kb, a, b, c, t)
            if abs(ref - mine) > mp.mpf(10) ** -18 * max(1, abs(ref)):
                raise env.HarnessError("closed form disagrees with mpmath.odefun at %r: %s vs %s" % ((kf, kb, a, b, c, t), mine, ref))


def check_bimolecular(res, kf, kb, a, b, c, reversible, selfcheck=True):
    kbm = kb if reversible else 0.0
    text = "Fe+3 + SCN- -> FeSCN+2; %r" % kf + ("\nFeSCN+2 -> Fe+3 + SCN-; %r" % kb if reversible else "")
    case = dict(layer="B", kf=kf, kb=kb, a=a, b=b, c=c, reversible=reversible)
    layer = "B-rev" if reversible else "B-irrev"
    what = "[%s]" % text.replace("\n", " | ")
    res.states += 1
    res.nontrivial += 1
    res.transitions += 1
    for nm, v in (("kf", kf), ("kb", kbm), ("a", a), ("b", b), ("c", c)):
        res.symbols["%s=%g" % (nm, v)] += 1
    if selfcheck:
        _selfcheck_closed_form(kf, kbm, a, b, c)
        res.extra["closed_form_selfchecks_vs_odefun"] = res.extra.get("closed_form_selfchecks_vs_odefun", 0) + 1
    res.evaluations += 1
    try:
        rsys, odesys, extra = _pipeline(text)
        rsys2, odesys2, extra2 = _pipeline(text, cstr=True)
        names = list(odesys.names)
    except Exception as e:
        _viol(res, "C06|%s|pipeline|raises" % layer, "%s: from_string/get_odesys raised %s: %s" % (what, type(e).__name__, e), case, "EXC %s" % type(e).__name__, "an ODE system")
        return
    if sorted(names) != sorted(BI) or list(odesys2.names) != names:
        _viol(res, "C06|%s|pipeline|substances" % layer, "%s: odesys.names = %r" % (what, names), case, names, sorted(BI))
        return
    c0 = {"Fe+3": a, "SCN-": b, "FeSCN+2": c}
    upper = upper_model(BI_COMP, c0)
    exact = []
    for t in TOUT:
        x = float(bimol_exact(kf, kbm, a, b, c, t))
        exact.append({"Fe+3": a - x, "SCN-": b - x, "FeSCN+2": c + x})
    ok = True
    try:
        result = odesys.integrate(list(TOUT), dict(c0), atol=1e-12, rtol=1e-12, nsteps=NSTEPS)
        ok &= _check_rows(res, layer, case, "%s from %s" % (what, c0), names, c0, result, exact, upper)
    except Exception as e:
        _viol(res, "C06|%s|integrate|raises" % layer, "%s: integrate(%s, %s) raised %s: %s" % (what, TOUT, c0, type(e).__name__, e), case, "EXC %s" % type(e).__name__, "a result")
        ok = False
    ok &= _check_upper(res, layer, case, what, rsys, names, c0, upper)
    # chempy's own closed forms for this step (initial product c, "major" = the more abundant reactant)
    if a != b or reversible:
        from chempy.kinetics import integrated

        res.evaluations += 1
        try:
            # (the closed forms are also asked for late times, where the reaction is over: kf*(major-minor)*t up to 2.6e4)
            tcf = list(TOUT) + LATE
            ecf = [e["FeSCN+2"] for e in exact] + [c + float(bimol_exact(kf, kbm, a, b, c, t)) for t in LATE]
            if reversible:
                cf = [float(integrated.binary_rev(t, kf, kb, c, max(a, b), min(a, b))) for t in tcf]
            else:
                cf = [float(integrated.binary_irrev(t, kf, c, max(a, b), min(a, b))) for t in tcf]
            worst = max(abs(v - e_) / max(1.0, abs(e_)) if v == v else float("inf") for v, e_ in zip(cf, ecf))
        except Exception as e:
            cf, worst = "EXC %s" % type(e).__name__, float("inf")
        if not worst <= TOL:
            ok = False
            _viol(res, "C06|%s|closed-form|differs-from-exact-solution" % layer, "%s from %s: chempy.kinetics.integrated.%s gives product %r at t=%r, exact %r" % (
                what, c0, "binary_rev" if reversible else "binary_irrev", cf, tcf, ecf), case, cf, ecf)
        else:
            res.outcomes["B closed form agrees"] += 1
    r = kf * a * b - kbm * c
    f = {"Fe+3": -r, "SCN-": -r, "FeSCN+2": r}
    cb, cb2 = extra.get("max_euler_step_cb"), extra2.get("max_euler_step_cb")
    if cb is None or cb2 is None:
        _viol(res, "C06|%s|max_euler_step_cb|not provided" % layer, "%s: extra['max_euler_step_cb'] is None for a balanced system" % what, case, None, "callable")
    else:
        cls = _check_euler(res, layer, case, what, cb, names, c0, f, upper)
        res.outcomes["B euler closed tank: limited by %s" % cls] += 1
        # the same system with scaled dependent variables (pyodesys ScaledSys): the advertised step is in the user's units
        try:
            from pyodesys.symbolic import ScaledSys
            from chempy.kinetics.ode import get_odesys

            _, extra3 = get_odesys(rsys, SymbolicSys=ScaledSys, dep_scaling=1e3)
            cls3 = _check_euler(res, layer + "-scaled", case, what + " with dep_scaling=1e3", extra3["max_euler_step_cb"], names, c0, f, upper)
            res.outcomes["B euler scaled variables: limited by %s" % cls3] += 1
        except Exception as e:
            _viol(res, "C06|%s-scaled|pipeline|raises" % layer, "%s: get_odesys(SymbolicSys=ScaledSys, dep_scaling=1e3) raised %s: %s" % (what, type(e).__name__, e), case, "EXC %s" % type(e).__name__, None)
        for fi, (F, kind) in enumerate(FEEDS):
            fc = fc_of(kind, names)
            params = dict(feedratio=F, **{"fc_" + s: fc[s] for s in names})
            f2 = {s: f[s] + F * (fc[s] - c0[s]) for s in names}
            cls = _check_euler(res, layer + "-cstr", dict(case, feed=fi), what + " with feed F=%g c_feed=%s" % (F, kind), cb2, names, c0, f2, upper, params)
            res.outcomes["B euler stirred tank: limited by %s" % cls] += 1
    direction = "forward" if r > 0 else ("backward" if r < 0 else "at equilibrium")
    res.outcomes["%s %s%s: %s" % (layer, direction, " a=b" if a == b else "", "ok" if ok else "WRONG")] += 1


# ------------------------------------------------------------------------------------------------- layer D: dimerisation, reduced systems
SPELL = dict(
    # the same reaction written with the repeated species split over several terms (coefficients add up, in any order)
    assoc=("NO2", "N2O4", 2, ["2 NO2 -> N2O4", "NO2 + NO2 -> N2O4", "1 NO2 + 1 NO2 -> N2O4"]),
    dissoc=("NO2", "N2O4", 2, ["N2O4 -> 2 NO2", "N2O4 -> NO2 + NO2"]),
    trimer=("O", "O3", 3, ["O3 -> 3 O", "O3 -> O + 2 O", "O3 -> 2 O + O", "O3 -> O + O + O", "O3 -> 1 O + 2 O"]),
)


def check_dimer(res, direction, k, A0, N0, spell=0):
    """2 NO2 -> N2O4 (A' = -2 k A^2), N2O4 -> 2 NO2 or O3 -> 3 O (first order), in every spelling of SPELL, integrated as the
    full system and as the reduced systems pyodesys builds from chempy's analytic eliminations (one concentration
    expressed through the invariants)"""
    from pyodesys.symbolic import PartiallySolvedSystem

    mono, poly, m, texts = SPELL[direction]
    text = "%s; %r" % (texts[spell], k)
    case = dict(layer="D", direction=direction, k=k, A0=A0, N0=N0, spell=spell)
    what = "[%s]" % text
    res.states += 1
    res.nontrivial += 1
    res.transitions += 1
    c0 = {mono: A0, poly: N0}
    exact = []
    for t in TOUT:
        if direction == "assoc":
            A = A0 / (1 + 2 * k * t * A0) if A0 else 0.0
            exact.append({mono: A, poly: N0 + (A0 - A) / 2})
        else:
            N = N0 * math.exp(-k * t)
            exact.append({mono: A0 + m * (N0 - N), poly: N})
    upper = {mono: A0 + m * N0, poly: N0 + A0 / m}
    res.evaluations += 1
    try:
        rsys, odesys, extra = _pipeline(text)
        names = list(odesys.names)
    except Exception as e:
        _viol(res, "C06|D|pipeline|raises", "%s: from_string/get_odesys raised %s: %s" % (what, type(e).__name__, e), case, "EXC %s" % type(e).__name__, None)
        return
    ok = True
    for pref in (None, [mono], [poly]):
        label = "full system" if pref is None else "reduced system, %s eliminated" % pref[0]
        try:
            sys_ = odesys if pref is None else PartiallySolvedSystem(odesys, extra["linear_dependencies"](pref))
            result = sys_.integrate(list(TOUT), dict(c0), atol=1e-12, rtol=1e-12, nsteps=NSTEPS)
            rnames = list(sys_.names) if pref is None else names
            ok &= _check_rows(res, "D", dict(case, pref=pref), "%s (%s) from %s" % (what, label, c0), names, c0, result, exact, upper)
        except Exception as e:
            ok = False
            _viol(res, "C06|D|integrate|raises", "%s (%s): integrate raised %s: %s" % (what, label, type(e).__name__, e), dict(case, pref=pref), "EXC %s" % type(e).__name__, "a result")
    if direction == "assoc" and A0:
        # chempy's own closed form for this step, started at time zero (default and explicit) and at other start times
        from chempy.kinetics import integrated

        for t0 in (None, 0, 2.5, -1.0, 40.0):
            res.evaluations += 1
            try:
                kw = {} if t0 is None else dict(t0=t0)
                cf = [float(integrated.dimerization_irrev((t0 or 0) + t, k, A0, **kw)) for t in list(TOUT) + LATE]
            except Exception as e:
                cf = "EXC %s" % type(e).__name__
            want = [A0 / (1 + 2 * k * t * A0) for t in list(TOUT) + LATE]
            if isinstance(cf, str) or any(abs(x - y) > TOL * max(1.0, A0) for x, y in zip(cf, want)):
                ok = False
                _viol(res, "C06|D|closed-form|differs-from-exact-solution", "2 A -> B with k=%r from A0=%r: chempy.kinetics.integrated.dimerization_irrev started at t0=%r gives %r at %r after the start, exact %r" % (
                    k, A0, t0, cf, list(TOUT) + LATE, want), dict(case, t0=t0), cf, want)
            else:
                res.outcomes["D closed form agrees (t0 %s)" % ("default" if t0 is None else "zero" if t0 == 0 else "non-zero")] += 1
    res.outcomes["D %s: %s" % (direction, "ok" if ok else "WRONG")] += 1


# ------------------------------------------------------------------------------------------------- layer X: histories and unusual participants
def check_rebuild(res, k1, k2):
    """A -> B integrated, the rate constant of the live Reaction re-assigned, the system built and integrated again: the
    second trajectory is the exact solution with the NEW constant"""
    text = "C6H12O6 -> alpha-C6H12O6; %r" % k1
    case = dict(layer="X", what="rebuild", k1=k1, k2=k2)
    res.states += 1
    res.nontrivial += 1
    res.transitions += 2
    from chempy import ReactionSystem
    from chempy.kinetics.ode import get_odesys

    try:
        rsys = ReactionSystem.from_string(text)
        c0 = {"C6H12O6": 1.0, "alpha-C6H12O6": 0.25}
        for gen, k in enumerate((k1, k2)):
            if gen:
                rsys.rxns[0].param = k
            odesys, extra = get_odesys(rsys)
            result = odesys.integrate(list(TOUT), dict(c0), atol=1e-12, rtol=1e-12, nsteps=NSTEPS)
            exact = [{"C6H12O6": math.exp(-k * t), "alpha-C6H12O6": 1.25 - math.exp(-k * t)} for t in TOUT]
            res.evaluations += 1
            if not _check_rows(res, "X-rebuild", dict(case, gen=gen), "[%s] build #%d with k=%r" % (text, gen + 1, k), list(odesys.names), c0, result, exact, {"C6H12O6": 1.25, "alpha-C6H12O6": 1.25}):
                res.outcomes["X rebuild WRONG"] += 1
                return
        res.outcomes["X rebuild ok"] += 1
    except Exception as e:
        _viol(res, "C06|X-rebuild|pipeline|raises", "[%s] rebuilt with k=%r raised %s: %s" % (text, k2, type(e).__name__, e), case, "EXC %s" % type(e).__name__, None)


def check_shared_list(res, k1, k2):
    """two systems built one after the other from ONE list of reactions that the caller keeps extending: the first system stays
    the one-step network it was built as (its trajectory is the same before and after the second construction)"""
    import numpy as np
    from chempy import Reaction, ReactionSystem, Substance
    from chempy.kinetics.ode import get_odesys

    case = dict(layer="X", what="shared-list", k1=k1, k2=k2)
    what = "systems [A -> B; %r] and then [A -> B; %r | B -> C; %r] built from one growing list" % (k1, k1, k2)
    res.states += 1
    res.nontrivial += 1
    res.transitions += 3
    res.evaluations += 2
    try:
        subst = lambda names: [Substance(n, composition={1: 1}) for n in names]
        rxns = [Reaction({"A": 1}, {"B": 1}, k1)]
        first = ReactionSystem(rxns, subst("AB"))
        c0 = {"A": 1.0, "B": 0.25}
        exact1 = [{"A": math.exp(-k1 * t), "B": 0.25 + 1 - math.exp(-k1 * t)} for t in TOUT]
        r1 = get_odesys(first)[0].integrate(list(TOUT), dict(c0), atol=1e-12, rtol=1e-12, nsteps=NSTEPS)
        ok = _check_rows(res, "X", case, what + ": first system, first integration", list("AB"), c0, r1, exact1, {"A": 1.25, "B": 1.25})
        rxns.append(Reaction({"B": 1}, {"C": 1}, k2))
        second = ReactionSystem(rxns, subst("ABC"))
        r1b = get_odesys(first)[0].integrate(list(TOUT), dict(c0), atol=1e-12, rtol=1e-12, nsteps=NSTEPS)
        ok &= _check_rows(res, "X", case, what + ": first system after the second was built", list("AB"), c0, r1b, exact1, {"A": 1.25, "B": 1.25})
        if len(first.rxns) != 1 or len(second.rxns) != 2:
            ok = False
            _viol(res, "C06|X|shared-list|reaction-count", "%s: the systems hold %d and %d reactions" % (what, len(first.rxns), len(second.rxns)), case, [len(first.rxns), len(second.rxns)], [1, 2])
        res.outcomes["X shared list: %s" % ("ok" if ok else "WRONG")] += 1
    except Exception as e:
        _viol(res, "C06|X|shared-list|raises", "%s raised %s: %s" % (what, type(e).__name__, e), case, "EXC %s" % type(e).__name__, None)


def check_unbalanced_line(res, pos):
    """a text in which one line creates matter (NO2 -> N2O4), at every position among balanced lines: the pipeline refuses it
    (ValueError) — were it accepted, the integration would leave the elemental supply"""
    lines = ["N2O4 -> 2 NO2; 0.5", "2 NO2 -> N2O4; 3.0"]
    lines.insert(pos, "NO2 -> N2O4; 2.0")
    text = "\n".join(lines)
    case = dict(layer="X", what="unbalanced-line", pos=pos)
    res.states += 1
    res.nontrivial += 1
    res.transitions += 1
    res.evaluations += 1
    try:
        rsys, odesys, extra = _pipeline(text)
    except ValueError:
        res.outcomes["X unbalanced line at position %d: refused" % pos] += 1
        return
    except Exception as e:
        _viol(res, "C06|X|unbalanced-line|wrong-exception", "[%s] raised %s: %s" % (text.replace("\n", " | "), type(e).__name__, e), case, "EXC %s" % type(e).__name__, "ValueError")
        return
    c0 = {"NO2": 1.0, "N2O4": 0.5}
    upper = {"NO2": 2.0, "N2O4": 1.0}
    try:
        result = odesys.integrate([0.0, 1.0, 10.0], dict(c0), atol=1e-12, rtol=1e-12, nsteps=NSTEPS)
        y = {n: [float(v) for v in result.yout[:, i]] for i, n in enumerate(odesys.names)}
    except Exception as e:
        y = "EXC %s" % type(e).__name__
    res.outcomes["X unbalanced line at position %d: ACCEPTED" % pos] += 1
    _viol(res, "C06|X|unbalanced-line|accepted", "[%s] (line %d creates matter) was accepted; from %r it integrates to %r, elemental supply %r" % (text.replace("\n", " | "), pos + 1, c0, y, upper), case, y, "ValueError")


def check_expanded_equilibrium(res, kf, kb, a, b, c):
    """A + B + (S) = C written as an equilibrium with an inactive reactant and expanded with as_reactions: A, B, C follow the
    reversible bimolecular closed form and S follows the extent (consumed forward, released backward)"""
    from chempy import Equilibrium, ReactionSystem, Substance
    from chempy.kinetics.ode import get_odesys

    case = dict(layer="X", what="expanded-equilibrium", kf=kf, kb=kb, a=a, b=b, c=c)
    what = "Equilibrium(A + B + (S) = C; K=%r).as_reactions(kf=%r)" % (kf / kb, kf)
    res.states += 1
    res.nontrivial += 1
    res.transitions += 2
    res.evaluations += 1
    S0 = 2.0
    c0 = {"A": a, "B": b, "S": S0, "C": c}
    exact = []
    for t in TOUT:
        x = float(bimol_exact(kf, kb, a, b, c, t))
        exact.append({"A": a - x, "B": b - x, "S": S0 - x, "C": c + x})
    try:
        eq = Equilibrium({"A": 1, "B": 1}, {"C": 1}, kf / kb, inact_reac={"S": 1})
        rsys = ReactionSystem(eq.as_reactions(kf=kf), [Substance(n) for n in "ABSC"])
        odesys = get_odesys(rsys)[0]
        result = odesys.integrate(list(TOUT), dict(c0), atol=1e-12, rtol=1e-12, nsteps=NSTEPS)
        ok = _check_rows(res, "X", case, "%s from %s" % (what, c0), list(odesys.names), c0, result, exact, {n: float("inf") for n in "ABSC"})
        res.outcomes["X expanded equilibrium: %s" % ("ok" if ok else "WRONG")] += 1
    except Exception as e:
        _viol(res, "C06|X|expanded-equilibrium|raises", "%s raised %s: %s" % (what, type(e).__name__, e), case, "EXC %s" % type(e).__name__, None)


MANUAL_MASKS = [273, 785, 3584, 265, 2457]  # chain, cycle, star out of the last isomer, reversible pair + step, mixed (n = 4)


def check_manual_rhs(res, mask, p):
    """the hand-assembled right-hand side (kinetics.ode.law_of_mass_action_rates -> dCdt_list on the parsed system) integrated
    with scipy, before and after the substances of the SAME system object are re-ordered in place: every trajectory is
    expm(K t) y0 in the substance order of the moment"""
    import numpy as np
    from scipy.integrate import solve_ivp
    from scipy.linalg import expm
    from chempy import ReactionSystem
    from chempy.kinetics.ode import law_of_mass_action_rates, dCdt_list

    n = 4
    text, edges, ks, used = first_order_system(n, mask, p)
    case = dict(layer="X", what="manual", mask=mask, p=p)
    what = "first-order network [%s], hand-assembled rhs" % text.replace("\n", " | ")
    res.states += 1
    res.nontrivial += 1
    res.transitions += 3
    K = np.array(M.first_order_matrix(n, edges, ks))
    y0full = np.array([1.0, 0.25, 0.5, 0.125])
    try:
        rsys = ReactionSystem.from_string(text)
    except Exception as e:
        _viol(res, "C06|X|manual-rhs|raises", "%s: from_string raised %s" % (what, type(e).__name__), case, "EXC %s" % type(e).__name__, None)
        return
    for step, action in enumerate((None, "reverse", "sort", "reverse")):
        if action == "sort":
            rsys.sort_substances_inplace()
        elif action == "reverse":
            rsys.sort_substances_inplace(key=lambda kv: [-ord(ch) for ch in kv[0]])
        order = list(rsys.substances)
        idx = [ISOMERS.index(s) for s in order]
        res.evaluations += 1
        try:
            sol = solve_ivp(lambda t, y: list(dCdt_list(rsys, list(law_of_mass_action_rates(y, rsys)))), (0.0, 1.0), [y0full[i] for i in idx],
                            method="LSODA", rtol=1e-11, atol=1e-13, t_eval=[0.1, 1.0])
            got = [[float(v) for v in sol.y[:, j]] for j in range(2)]
        except Exception as e:
            _viol(res, "C06|X|manual-rhs|raises", "%s (substance order %s, step %d): %s: %s" % (what, order, step, type(e).__name__, e), case, "EXC %s" % type(e).__name__, None)
            return
        full = np.zeros(n)
        for i in idx:
            full[i] = y0full[i]
        exact = [[float(expm(K * t).dot(full)[i]) for i in idx] for t in (0.1, 1.0)]
        bad = [(g, e) for gr, er in zip(got, exact) for g, e in zip(gr, er) if abs(g - e) > 1e-7 * max(1.0, abs(e))]
        res.outcomes["X manual rhs step %d: %s" % (step, "ok" if not bad else "WRONG")] += 1
        if bad:
            _viol(res, "C06|X|manual-rhs|differs-from-exact-solution", "%s with substances in the order %s (after %d in-place re-orderings): %r, exact %r" % (what, order, step, got, exact), case, got, exact)
            return


def check_contexts(res, ka, kb, order):
    """two parsing contexts, each customised with its own named constant, used in either order: every text is read with
    the constants of the context it was given"""
    from chempy import ReactionSystem
    from chempy.kinetics.ode import get_odesys
    from chempy.util.parsing import get_parsing_context

    case = dict(layer="X", what="contexts", ka=ka, kb=kb, order=order)
    res.states += 1
    res.nontrivial += 1
    res.transitions += 2
    try:
        ctx = {}
        for name, k in (("a", ka), ("b", kb)):
            ctx[name] = get_parsing_context()
            ctx[name]["kfirst"] = k
        c0 = {"C6H12O6": 1.0, "alpha-C6H12O6": 0.0}
        for name in order:
            k = dict(a=ka, b=kb)[name]
            rsys = ReactionSystem.from_string("C6H12O6 -> alpha-C6H12O6; kfirst", rxn_parse_kwargs=dict(globals_=ctx[name]))
            odesys, extra = get_odesys(rsys)
            result = odesys.integrate(list(TOUT), dict(c0), atol=1e-12, rtol=1e-12, nsteps=NSTEPS)
            exact = [{"C6H12O6": math.exp(-k * t), "alpha-C6H12O6": 1 - math.exp(-k * t)} for t in TOUT]
            res.evaluations += 1
            if not _check_rows(res, "X-contexts", dict(case, which=name), "[C6H12O6 -> alpha-C6H12O6; kfirst] read in context %s (kfirst=%r)" % (name, k), list(odesys.names), c0, result, exact, {"C6H12O6": 1.0, "alpha-C6H12O6": 1.0}):
                res.outcomes["X contexts WRONG"] += 1
                return
        res.outcomes["X contexts ok"] += 1
    except Exception as e:
        _viol(res, "C06|X-contexts|pipeline|raises", "named constant in a customised parsing context raised %s: %s" % (type(e).__name__, e), case, "EXC %s" % type(e).__name__, None)


def check_unbounded_reactant(res, k, e0, oh0):
    """e-(aq) + OH -> OH- : the hydrated electron has no elements, hence no elemental upper bound (inf); when it is the
    limiting reactant the safe Euler step is set by ITS depletion"""
    text = "e-(aq) + OH -> OH-; %r" % k
    case = dict(layer="X", what="unbounded", k=k, e0=e0, oh0=oh0)
    res.states += 1
    res.nontrivial += 1
    res.transitions += 1
    res.evaluations += 1
    try:
        rsys, odesys, extra = _pipeline(text)
        names = list(odesys.names)
        c0 = {"e-(aq)": e0, "OH": oh0, "OH-": 1e-7}
        r = k * e0 * oh0
        f = {"e-(aq)": -r, "OH": -r, "OH-": r}
        upper = {"e-(aq)": float("inf"), "OH": oh0 + 1e-7, "OH-": oh0 + 1e-7}
        cls = _check_euler(res, "X-unbounded", case, "[%s]" % text, extra["max_euler_step_cb"], names, c0, f, upper)
        res.outcomes["X euler with a composition-free reactant: limited by %s" % cls] += 1
    except Exception as e:
        _viol(res, "C06|X-unbounded|pipeline|raises", "[%s] raised %s: %s" % (text, type(e).__name__, e), case, "EXC %s" % type(e).__name__, None)


# ------------------------------------------------------------------------------------------------- driver
def run_chunk(chunk, tier):
    res = Result()
    if chunk[0] == "F":
        _, n, me, pats, lo, hi = chunk
        masks = topologies(n, me)[lo:hi]
        for mask in masks:
            for p in range(pats):
                check_first_order(res, n, mask, p, limited=me is not None)
        res.sample(dict(layer="F", n=n, example=first_order_system(n, masks[0], 0)[0].split("\n")), limit=1)
    elif chunk[0] == "B":
        _, i, j = chunk
        for a, b, c in itertools.product(AB, AB, CC):
            check_bimolecular(res, KF[i], KB[j], a, b, c, True, selfcheck=(c == CC[1]))
        res.sample(dict(layer="B", kf=KF[i], kb=KB[j], lattice="a,b in %s; c in %s; t in %s" % (AB, CC, TOUT)), limit=1)
    elif chunk[0] == "X":
        for k1, k2 in itertools.permutations((0.5, 3.0, 40.0), 2):
            check_rebuild(res, k1, k2)
        for ka, kb in itertools.permutations((0.5, 3.0, 40.0), 2):
            for order in ("ab", "ba", "aba"):
                check_contexts(res, ka, kb, order)
        for k in (3e10, 1e8):
            for e0, oh0 in ((2e-7, 4e-5), (4e-5, 2e-7), (1e-6, 1e-6)):
                check_unbounded_reactant(res, k, e0, oh0)
        for mask in MANUAL_MASKS:
            for p in (0, 1):
                check_manual_rhs(res, mask, p)
        for k1, k2 in itertools.permutations((0.5, 3.0, 40.0), 2):
            check_shared_list(res, k1, k2)
        for pos in (0, 1, 2):
            check_unbalanced_line(res, pos)
        for kf, kb in ((0.5, 0.1), (2.0, 1.0), (30.0, 10.0)):
            for a, b, c in ((0.3, 1.0, 0.2), (1.0, 1.0, 0.0), (2.5, 0.3, 1.0)):
                check_expanded_equilibrium(res, kf, kb, a, b, c)
        res.sample(dict(layer="X", slices=["hand-assembled rhs before/after in-place re-ordering of the substances", "rebuild after re-assigning a rate constant", "two customised parsing contexts", "reactant without elemental bound"]), limit=1)
    elif chunk[0] == "D":
        _, direction = chunk
        for k in (0.5, 3.0, 40.0):
            for A0, N0 in itertools.product((0.0, 0.3, 1.7), (0.0, 0.2, 1.0)):
                if A0 or N0:
                    for spell in range(len(SPELL[direction][3])):
                        if spell == 0 or (k == 3.0 and (A0, N0) in ((0.3, 0.2), (0.0, 1.0), (1.7, 0.0))):
                            check_dimer(res, direction, k, A0, N0, spell)
        res.sample(dict(layer="D", direction=direction, k=[0.5, 3.0, 40.0], spellings=SPELL[direction][3]), limit=1)
    elif chunk[0] == "BI":
        _, i = chunk
        for a, b, c in itertools.product(AB, AB, CC):
            check_bimolecular(res, KF[i], 0.0, a, b, c, False, selfcheck=(c == CC[1]))
    else:
        raise ValueError(chunk)
    return res


def replay(case):
    res = Result()
    if case["layer"] == "X":
        if case["what"] == "rebuild":
            check_rebuild(res, case["k1"], case["k2"])
        elif case["what"] == "shared-list":
            check_shared_list(res, case["k1"], case["k2"])
        elif case["what"] == "unbalanced-line":
            check_unbalanced_line(res, case["pos"])
        elif case["what"] == "expanded-equilibrium":
            check_expanded_equilibrium(res, case["kf"], case["kb"], case["a"], case["b"], case["c"])
        elif case["what"] == "manual":
            check_manual_rhs(res, case["mask"], case["p"])
        elif case["what"] == "contexts":
            check_contexts(res, case["ka"], case["kb"], case["order"])
        else:
            check_unbounded_reactant(res, case["k"], case["e0"], case["oh0"])
    elif case["layer"] == "D":
        check_dimer(res, case["direction"], case["k"], case["A0"], case["N0"], case.get("spell", 0))
    elif case["layer"] == "F":
        check_first_order(res, case["n"], case["mask"], case["p"], case["limited"], only_y0=case.get("y0"))
    else:
        check_bimolecular(res, case["kf"], case["kb"], case["a"], case["b"], case["c"], case["reversible"], selfcheck=False)
    want = case.get("expect_key")
    for v in res.violations:
        if v["key"] == want:
            return dict(key=v["key"], what=v["what"], observed=v["observed"], expected=v["expected"])
    if res.violations:
        v = res.violations[0]
        return dict(key=v["key"], what=v["what"], observed=v["observed"], expected=v["expected"])
    return None

"""C01 — formula parsing yields exactly the written composition and charge; ill-formed strings are rejected.

State space (DESIGN.md §3 C01):
  layer A  every token [A-Z][a-z]{0,2} (18 278), every ordered pair of symbols XY and X2Y3 (2·118²)
  layer B  every derivation of the formula grammar (mc/ref/formula.py) of cost ≤ N
  layer G  every greek/radical prefix on a few cores;  layer D  bracket chains to depth 8
  layer C  every layer-B string of cost ≤ NC × every single-edit corruption of the three rejection classes
Oracle: composition computed from the derivation tree; rejection = any exception.
"""
import itertools
import string

from mc.core import Result
from mc.ref import formula as F

META = dict(
    title="Formula parsing yields exactly the written elemental composition and charge",
    level="model_checking",
    technique="bounded-exhaustive enumeration of all grammar derivations up to a cost bound, executed on the real parser, compared state by state with a derivation-tree reference model",
    rule="states = distinct formula strings derived (tokens, symbol pairs, grammar derivations of cost<=N, corruptions); "
    "non-trivial = accepted strings whose derivation has >=2 leaves or a multiplier/charge/hydrate, plus every corrupted string (expectation: rejection)",
    assumptions=[
        "pyparsing, re and the interpreter are trusted",
        "formulas of cost > N, counts outside {2,10,1.5}, and nested elements outside {H,C,O,Co,Na} are outside the bound "
        "(all 118 symbols are covered in flat and pair positions)",
    ],
    design_ref="DESIGN.md §3 C01",
    hashseed_sensitive=False,
)

BAD_TOKENS = ["A", "Xx", "Ch", "Uue", "J", "Hx"]
BAD_CHARGES = ["+-", "-+", "+2-", "++", "--", "-3+", "+-2", "-+3", "+-10", "-+"]


# caller-declared phase suffixes: (suffix written, table name, table)
SP_TABLES = [
    ("(ads)", "{(aq):0,(ads):1}", {"(aq)": 0, "(ads)": 1}),
    ("(S)", "{(S):1}", {"(S)": 1}),  # CHEMKIN-style surface marker: looks like a group holding an element symbol
    ("(cr)", "[(cr),(B)]", ["(cr)", "(B)"]),
    ("(B)", "[(cr),(B)]", ["(cr)", "(B)"]),
]


def bounds(tier):
    return dict(N=5 if tier == "quick" else 6, NC=3 if tier == "quick" else 4, chain_depth=8, tokens="[A-Z][a-z]{0,2}", pairs="118x118 x2 forms")


def _J(a):
    return {1: 1, 2: 1, 3: 4, 4: 16, 5: 48}.get(a, 96)


def chunks(tier):
    b = bounds(tier)
    out = [("A", k) for k in range(26)]
    out += [("P", k) for k in range(0, 118, 8)]
    out += [("G",), ("D",), ("N",), ("HH", 0), ("HH", 1), ("HH", 2), ("HH", 3)]
    out += [("SP", b["NC"], a, 0, 1) for a in range(1, b["NC"] + 1)]
    N = b["N"]
    for a in range(1, N + 1):
        J = _J(a)
        out += [("B", N, a, j, J) for j in range(J)]
    NC = b["NC"]
    for a in range(1, NC + 1):
        J = _J(a)
        out += [("C", NC, a, j, J) for j in range(J)]
    return out


# --------------------------------------------------------------------------------------------- observation
def _observe(s, both=True):
    from chempy.util.parsing import formula_to_composition
    from chempy import Substance

    try:
        a = formula_to_composition(s)
        a = _take(a)
    except Exception as e:
        a = "EXC %s" % type(e).__name__
    if not both:
        return a, a
    try:
        sub = Substance.from_formula(s)
        try:  # derived quantities read the composition; they must leave it as it is (the mass itself is C14's subject)
            sub.mass
            sub.molar_mass()
        except Exception:
            pass
        b = _take(sub.composition)
    except Exception as e:
        b = "EXC %s" % type(e).__name__
    return a, b


def _take(d):
    """a copy of the returned mapping for the comparison; the returned object itself is then edited the way a caller
    may legitimately edit its own result (add a key, change the charge) — a later parse must not see those edits.
    Before that the mapping is *read* the way a caller reads it: looking up an element that is not in the formula (or the
    charge of a neutral species) finds nothing and leaves the mapping as it is ("no other keys")"""
    if not isinstance(d, dict):
        return d
    before = dict(d)
    for absent in (998, 0):
        if absent not in before:
            try:
                d[absent]
                found = True
            except KeyError:
                found = False
            if found or dict(d) != before:
                c = dict(d)
                c["looked-up-absent-key-%d" % absent] = "found" if found else "inserted"
                return c
    c = dict(d)
    d[0] = 55
    d[999] = 1
    for k in [k for k in d if k not in (0, 999)][:1]:
        d[k] = d[k] + 1000
    return c


def _same(got, ref):
    return isinstance(got, dict) and got == ref and all(isinstance(k, int) for k in got)


def _check_accept(res, s, ref, case, both=True):
    a, b = _observe(s, both)
    res.evaluations += 2 if both else 1
    ok = True
    for api, got in (("formula_to_composition", a), ("Substance.from_formula", b)):
        if not _same(got, ref):
            ok = False
            kind = "rejected" if isinstance(got, str) else "misread"
            res.violation("C01|%s|%s|%s" % (case["layer"], api, kind), "%s(%r) = %r, written composition is %r" % (api, s, got, ref), case, got, ref)
    res.outcomes["accepted-correct" if ok else "accepted-WRONG"] += 1
    return ok


def _check_reject(res, s, case):
    a, b = _observe(s)
    res.evaluations += 2
    ok = True
    for api, got in (("formula_to_composition", a), ("Substance.from_formula", b)):
        if not isinstance(got, str):
            ok = False
            res.violation("C01|%s|%s|silently-misread" % (case["layer"], api), "%s(%r) returned %r for an ill-formed string (%s)" % (api, s, got, case["why"]), case, got, "exception")
    res.outcomes["rejected" if ok else "ill-formed-ACCEPTED"] += 1
    return ok


# --------------------------------------------------------------------------------------------- corruptions
def corruptions(state):
    """single-edit corruptions from the three rejection classes, as (string, why)"""
    core, h, chg, pre, suf, pr = state
    s = F.string_of(state)
    body0 = len(pre or "")
    body1 = len(s) - len(suf or "") - len(chg or "") - len(pr or "")
    out = []
    # (1) unbalanced brackets: delete one bracket / replace it by another kind
    for i in range(body0, body1):
        ch = s[i]
        if ch in "()[]{}":
            out.append((s[:i] + s[i + 1:], "bracket %r deleted" % ch))
            for other in ("([{" if ch in "([{" else ")]}"):
                if other != ch:
                    out.append((s[:i] + other + s[i + 1:], "bracket %r replaced by %r" % (ch, other)))
    # (2) a capitalised token that is not an element symbol, at every term boundary of the body
    # (a boundary is where a term starts or a group/body ends: the inserted token can merge with nothing)
    bounds_ = [i for i in range(body0, body1 + 1) if i == body1 or s[i].isupper() or s[i] in "([{)]}"]
    for i in bounds_:
        for tok in BAD_TOKENS:
            out.append((s[:i] + tok + s[i:], "non-element token %r inserted at %d" % (tok, i)))
    # (3) contradictory charge marks
    base = s[: len(s) - len(suf or "") - len(chg or "")]
    for bad in BAD_CHARGES:
        out.append((base + bad + (suf or ""), "contradictory charge marks %r" % bad))
    if chg:
        out.append((base + chg + ("-" if chg[0] == "+" else "+") + (suf or ""), "second, opposite charge mark appended"))
        out.append((base + chg + chg + (suf or ""), "charge given twice"))
    return out


# --------------------------------------------------------------------------------------------- chunks
def run_chunk(chunk, tier):
    res = Result()
    kind = chunk[0]
    if kind == "A":
        first = string.ascii_uppercase[chunk[1]]
        for n in (0, 1, 2):
            for tail in itertools.product(string.ascii_lowercase, repeat=n):
                s = first + "".join(tail)
                res.states += 1
                res.transitions += 1
                case = dict(layer="A", s=s)
                if s in F.Z:
                    _check_accept(res, s, {F.Z[s]: 1}, case)
                    res.nontrivial += 1
                    res.symbols[s] += 1
                else:
                    case["why"] = "not an element symbol"
                    _check_reject(res, s, case)
                    res.nontrivial += 1
        res.sample(dict(layer="A", first=first, n=res.states))
    elif kind == "P":
        for x in F.SYMBOLS[chunk[1]: chunk[1] + 8]:
            for y in F.SYMBOLS:
                for s, ref in ((x + y, {F.Z[x]: 1, F.Z[y]: 1} if x != y else {F.Z[x]: 2}),
                               (x + "2" + y + "3", {F.Z[x]: 2, F.Z[y]: 3} if x != y else {F.Z[x]: 5})):
                    res.states += 1
                    res.transitions += 2
                    res.nontrivial += 1
                    _check_accept(res, s, ref, dict(layer="P", s=s, ref={str(k): v for k, v in ref.items()}))
            res.symbols[x] += 1
        res.sample(dict(layer="P", example=F.SYMBOLS[chunk[1]] + "2Co3"))
    elif kind == "G":
        for g in F.GREEK:
            for core in ("FeOOH", "Al2O3", "H2O2"):
                for tail, q in (("", None), ("(s)", None), ("+2", 2), ("-", -1), ("-3(aq)", -3)):
                    s = g + "-" + core + tail
                    ref = dict(_flat(core))
                    if q is not None:
                        ref[0] = q
                    res.states += 1
                    res.transitions += 1
                    res.nontrivial += 1
                    _check_accept(res, s, ref, dict(layer="G", s=s, ref={str(k): v for k, v in ref.items()}))
        # two prefixes in the order chempy's notation accepts (greek letters in alphabet order, then the radical dot)
        for i, g in enumerate(F.GREEK):
            for second in [".", F.GREEK[i + 5] + "-"] if i + 5 < len(F.GREEK) else ["."]:
                for tail, q in (("", None), ("-(aq)", -1)):
                    s = g + "-" + second + "NO2" + tail
                    ref = {7: 1, 8: 2}
                    if q is not None:
                        ref[0] = q
                    res.states += 1
                    res.transitions += 1
                    res.nontrivial += 1
                    _check_accept(res, s, ref, dict(layer="G", s=s, ref={str(k): v for k, v in ref.items()}))
        # the `prefixes=` argument (an iterable of the prefix strings to recognise) in every container type, one-shot ones included
        from chempy.util.parsing import formula_to_composition

        allp = [g + "-" for g in F.GREEK] + ["."]
        kinds = [("tuple", tuple), ("list", list), ("set", set), ("dict-keys", lambda x: dict.fromkeys(x).keys()), ("iterator", iter), ("generator", lambda x: (y for y in x)),
                 ("reversed", reversed), ("map", lambda x: map(str, x))]
        for s_, ref in ((".OH", {8: 1, 1: 1}), ("alpha-FeOOH", {26: 1, 8: 2, 1: 1}), (".NO2-(aq)", {7: 1, 8: 2, 0: -1}), ("H2O", {1: 2, 8: 1})):
            for kname, mk in kinds:
                res.states += 1
                res.transitions += 1
                res.evaluations += 1
                res.nontrivial += 1
                try:
                    got = _take(formula_to_composition(s_, prefixes=mk(allp)))
                except Exception as e:
                    got = "EXC %s" % type(e).__name__
                if not _same(got, ref):
                    res.violation("C01|G|formula_to_composition|prefixes-container|%s" % ("rejected" if isinstance(got, str) else "misread"), "formula_to_composition(%r, prefixes=<%s of the prefix strings>) = %r, written composition is %r" % (
                        s_, kname, got, ref), dict(layer="GP", s=s_, kname=kname, ref={str(k): v for k, v in ref.items()}), got, ref)
                res.outcomes["prefixes-container-ok" if _same(got, ref) else "prefixes-container-WRONG"] += 1
        res.sample(dict(layer="G", example="gamma-FeOOH(s)"))
    elif kind == "D":
        for depth in range(1, 9):
            for brs in itertools.product(F.BR, repeat=min(depth, 3)):
                for el in ("H", "Co"):
                    s, mult = el + "2", 2
                    for d in range(depth):
                        b = brs[d % len(brs)]
                        s = b[0] + s + b[1] + "2"
                        mult *= 2
                    ref = {F.Z[el]: mult}
                    res.states += 1
                    res.transitions += depth
                    res.nontrivial += 1
                    _check_accept(res, s, ref, dict(layer="D", s=s, ref={str(k): v for k, v in ref.items()}))
        res.sample(dict(layer="D", example="{[((H2)2)2]2}2"))
    elif kind == "HH":
        for i, st in enumerate(F.multi_hydrate_states()):
            if i % 4 != chunk[1]:
                continue
            s = F.string_of(st)
            ref = F.composition_of(st)
            res.states += 1
            res.transitions += F.cost_of(st)
            res.nontrivial += 1
            _check_accept(res, s, ref, dict(layer="HH", s=s, ref={str(k): v for k, v in ref.items()}), both=(i % 8 < 4))
        res.sample(dict(layer="HH", example="Na..7H..C"))
    elif kind == "N":
        for st in F.numeral_states():
            s = F.string_of(st)
            ref = F.composition_of(st)
            res.states += 1
            res.transitions += F.cost_of(st)
            res.nontrivial += 1
            _check_accept(res, s, ref, dict(layer="N", s=s, ref={str(k): v for k, v in ref.items()}))
        res.sample(dict(layer="N", example="(HO2)0.125"))
    elif kind == "SP":
        # caller-declared phase suffixes (the `suffixes=` / `phases=` arguments): a declared suffix is a phase marker,
        # never part of the composition — with the phase index derived from it or given explicitly (`phase_idx=`)
        from chempy import Species
        from chempy.util.parsing import formula_to_composition

        _, NC, a, j, J = chunk
        seen = set()
        for st in F.states(NC, a, j, J):
            if st[4] is not None:
                continue
            s0 = F.string_of(st)
            if s0 in seen:
                continue
            seen.add(s0)
            ref = F.composition_of(st)
            for tok, tname, table in SP_TABLES:
                s = s0 + tok
                res.states += 1
                res.transitions += 1
                res.nontrivial += 1
                obs = []
                for api, f in (("formula_to_composition(suffixes=%s)" % tname, lambda: formula_to_composition(s, suffixes=tuple(table))),
                               ("Species.from_formula(phases=%s)" % tname, lambda: Species.from_formula(s, phases=table).composition),
                               ("Species.from_formula(phases=%s,phase_idx=1)" % tname, lambda: Species.from_formula(s, phases=table, phase_idx=1).composition)):
                    res.evaluations += 1
                    try:
                        got = _take(f())
                    except Exception as e:
                        got = "EXC %s" % type(e).__name__
                    if not _same(got, ref):
                        res.violation("C01|SP|%s|%s" % (api.split("(")[0], "rejected" if isinstance(got, str) else "misread"), "%s on %r = %r, written composition is %r (the declared suffix %r is a phase marker)" % (api, s, got, ref, tok),
                                      dict(layer="SP", s=s, s0=s0, tok=tok, tname=tname, ref={str(k): v for k, v in ref.items()}), got, ref)
                        obs.append(api)
                res.outcomes["declared-suffix-correct" if not obs else "declared-suffix-WRONG"] += 1
        res.sample(dict(layer="SP", example="UO2+2(ads)", tables=[t[1] for t in SP_TABLES]))
    elif kind == "B":
        _, N, a, j, J = chunk
        seen = set()
        first = []
        for st in F.states(N, a, j, J):
            s = F.string_of(st)
            if s in seen:
                res.dedup_hits += 1
                continue
            seen.add(s)
            ref = F.composition_of(st)
            c = F.cost_of(st)
            res.states += 1
            res.transitions += c
            if c >= 2:
                res.nontrivial += 1
            # the Substance.from_formula observer runs on every state below the top cost level
            _check_accept(res, s, ref, dict(layer="B", s=s, cost=c, ref={str(k): v for k, v in ref.items()}), both=c < N)
            if res.states % 997 == 1:
                res.sample(dict(layer="B", s=s, cost=c, composition={str(k): v for k, v in ref.items()}), limit=2)
            _count_symbols(res, st)
            if len(first) < 200:
                first.append((s, ref, c))
        # history independence of the lazily built, memoised parser: the first cases of the chunk, parsed again after
        # everything else, must give the same observation
        for s, ref, c in first:
            again, again_b = _observe(s, both=True)
            res.evaluations += 2
            if _same(again, ref) and not _same(again_b, ref):
                res.violation("C01|B|Substance.from_formula|history-dependent", "Substance.from_formula(%r).composition = %r when created again after %d other formulas (written: %r)" % (s, again_b, res.states, ref),
                              dict(layer="B", s=s, cost=c, ref={str(k): v for k, v in ref.items()}), again_b, ref)
            if not _same(again, ref):
                res.violation("C01|B|formula_to_composition|history-dependent", "formula_to_composition(%r) = %r when parsed again after %d other formulas (written: %r)" % (s, again, res.states, ref),
                              dict(layer="B", s=s, cost=c, ref={str(k): v for k, v in ref.items()}), again, ref)
        res.extra["max_depth"] = max([0] + [F.depth(st[0]) for st in itertools.islice(F.states(N, a, j, J), 0, 200000, 101)])
    elif kind == "C":
        _, NC, a, j, J = chunk
        seen = set()
        for st in F.states(NC, a, j, J):
            for s, why in corruptions(st):
                if s in seen:
                    res.dedup_hits += 1
                    continue
                seen.add(s)
                res.states += 1
                res.transitions += 1
                res.nontrivial += 1
                _check_reject(res, s, dict(layer="C", s=s, why=why, origin=F.string_of(st)))
                if res.states % 1999 == 1:
                    res.sample(dict(layer="C", s=s, why=why), limit=2)
    else:
        raise ValueError(chunk)
    return res


def _flat(core):
    import re

    d = {}
    for sym, n in re.findall(r"([A-Z][a-z]?)(\d*)", core):
        d[F.Z[sym]] = d.get(F.Z[sym], 0) + int(n or 1)
    return d


def _count_symbols(res, st):
    core, h, chg, pre, suf, pr = st
    for hp in F.hyd_parts(h):
        res.symbols["hyd" + hp[0] + hp[1]] += 1
    if len(F.hyd_parts(h)) == 2:
        res.symbols["two-hydrate-parts"] += 1
    for x in (chg, pre, suf, pr):
        if x:
            res.symbols[x] += 1
    for t in core:
        res.symbols[t[1] if t[0] == "el" else t[1]] += 1
        if t[-1]:
            res.symbols["count" + t[-1]] += 1


# --------------------------------------------------------------------------------------------- replay
def replay(case):
    res = Result()
    s = case["s"]
    if case["layer"] == "SP":
        return _replay_sp(case)
    if case["layer"] == "GP":
        sub = run_chunk(("G",), "quick")
        vs = [v for v in sub.violations if v["case"].get("layer") == "GP" and v["case"]["s"] == case["s"] and v["case"]["kname"] == case["kname"]]
        return dict(key=vs[0]["key"], what=vs[0]["what"], observed=vs[0]["observed"], expected=vs[0]["expected"]) if vs else None
    if case["layer"] in ("C",) or case.get("why"):
        _check_reject(res, s, case)
    else:
        ref = {int(k): v for k, v in case["ref"].items()} if "ref" in case else {F.Z[s]: 1}
        _check_accept(res, s, ref, case)
    if res.violations:
        v = res.violations[0]
        return dict(key=v["key"], what=v["what"], observed=v["observed"], expected=v["expected"])
    return None


def _replay_sp(case):
    from chempy import Species
    from chempy.util.parsing import formula_to_composition

    table = [t for t in SP_TABLES if t[0] == case["tok"] and t[1] == case["tname"]][0][2]
    ref = {int(k): v for k, v in case["ref"].items()}
    s = case["s"]
    for api, f in (("formula_to_composition", lambda: formula_to_composition(s, suffixes=tuple(table))),
                   ("Species.from_formula", lambda: Species.from_formula(s, phases=table).composition),
                   ("Species.from_formula", lambda: Species.from_formula(s, phases=table, phase_idx=1).composition)):
        try:
            got = _take(f())
        except Exception as e:
            got = "EXC %s" % type(e).__name__
        if not _same(got, ref):
            return dict(key="C01|SP|%s|%s" % (api, "rejected" if isinstance(got, str) else "misread"), what="%s on %r = %r, written composition is %r" % (api, s, got, ref), observed=got, expected=ref)
    return None

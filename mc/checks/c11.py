"""C11 — arithmetic on equilibria keeps the constant consistent with the stoichiometry.

State space: breadth-first search over operation histories on real Equilibrium objects.  Operations: n*e for
n ∈ {-3,-2,-1,2,3} (python int and sympy Integer), e + b_i, e - b_i for a pool of 5 base equilibria (one with a
catalyst on both sides, two sharing several species); depth D.  Constants: distinct primes as Fraction (the exponent
vector is recovered exactly by factorisation) and, second pass, positive sympy symbols.  A state is canonicalised by
(reactant dict, product dict, exponent vector) of the *model*; a history reaching an already seen canonical state
is checked against the stored real object (differential oracle), not expanded again.
Elimination: all coefficient pairs (a,b) ∈ ({-6..6}\\{0})² of the eliminated species, both list orders, two shapes.
cancel(): all pairs of BFS states of depth ≤1 against the integer model.  as_reactions(): kf/kb = K.
"""
import itertools
from fractions import Fraction as Fr

from mc.core import Result

META = dict(
    title="Arithmetic on equilibria keeps the constant consistent with the stoichiometry",
    level="model_checking",
    technique="explicit-state breadth-first search over scale/add/subtract operation histories on real Equilibrium objects with canonical-state deduplication, compared in every state with an integer-vector + prime-exponent reference model; complete enumeration of elimination coefficient pairs",
    rule="states = distinct canonical (reactants, products, exponent vector) values reached + elimination/cancel/as_reactions instances; transitions = operations applied; "
    "non-trivial = every state except the base equilibria themselves",
    assumptions=["Fraction / sympy arithmetic is trusted", "histories deeper than D, multipliers outside ±3 and inactive parts (which addition does not carry, as the statement says) are outside the bound"],
    design_ref="DESIGN.md §3 C11",
    hashseed_sensitive=True,
)

KEYS = ["A", "B", "C", "D", "X", "Y"]
PR = [2, 3, 5, 7, 11]
BASE = [
    ({"A": 1, "B": 2}, {"C": 1}),
    ({"C": 1}, {"D": 2, "A": 1}),
    ({"A": 1, "X": 1}, {"B": 1, "X": 1}),  # catalyst on both sides
    ({"D": 3}, {"B": 1}),
    ({"Y": 2, "A": 1}, {"C": 1, "B": 1}),
]
SCALES = [-3, -2, -1, 2, 3]
ELIM_BIG = [(33, 35), (63, 1), (40, 42), (97, 89), (128, 96), (1000, 999), (360, 84), (7, 1001), (64, 48), (101, 101)]


def bounds(tier):
    return dict(depth_fraction=4 if tier == "quick" else 5, depth_symbolic=3 if tier == "quick" else 4, scales=SCALES, base_pool=len(BASE), eliminate_coeff_range=[-6, 6])


def chunks(tier):
    b = bounds(tier)
    out = [("BFS", "fraction", i, b["depth_fraction"]) for i in range(len(BASE))]
    out += [("BFS", "symbolic", i, b["depth_symbolic"]) for i in range(len(BASE))]
    out += [("BFS", "partial", i, b["depth_symbolic"]) for i in range(len(BASE))]
    out += [("ELIM", a) for a in range(-6, 7) if a != 0] + [("ELIMBIG",)]
    out += [("CANCEL",), ("ASRX",), ("NEGH",)]
    return out


# ------------------------------------------------------------------------------------------------ model
def m_scale(state, n):
    reac, prod, ev = state[:3]
    r = {k: abs(n) * v for k, v in reac.items()}
    p = {k: abs(n) * v for k, v in prod.items()}
    if n < 0:
        r, p = p, r
    return (r, p, tuple(n * e for e in ev)) + tuple(state[3:])


def m_add(state, i, sign):
    reac, prod, ev = state[:3]
    br, bp = BASE[i]
    net = {}
    for d, s in ((prod, 1), (reac, -1), (bp, sign), (br, -sign)):
        for k, v in d.items():
            net[k] = net.get(k, 0) + s * v
    r = {k: -v for k, v in net.items() if v < 0}
    p = {k: v for k, v in net.items() if v > 0}
    out = (r, p, tuple(e + (sign if j == i else 0) for j, e in enumerate(ev)))
    if len(state) > 3:
        out += (state[3] or i in UNKNOWN,)
    return out


def m_net(state):
    reac, prod, ev = state[:3]
    return tuple(prod.get(k, 0) - reac.get(k, 0) for k in KEYS)


def canon(state):
    return (tuple(sorted(state[0].items())), tuple(sorted(state[1].items())), state[2]) + tuple(state[3:])


UNKNOWN = (1, 3)  # in the 'partial' pass these base equilibria carry no constant (param=None)


def _mk_params(kind):
    if kind == "fraction":
        return [Fr(p) for p in PR]
    if kind == "partial":
        return [None if i in UNKNOWN else Fr(p) for i, p in enumerate(PR)]
    import sympy

    # K1 and K3 are plain symbols (no assumptions), the others declared positive
    return [sympy.Symbol("K%d" % i) if i in (1, 3) else sympy.Symbol("K%d" % i, positive=True) for i in range(len(PR))]


def _expo(fr):
    out = []
    n, d = fr.numerator, fr.denominator
    for pr in PR:
        e = 0
        while n % pr == 0:
            n //= pr
            e += 1
        while d % pr == 0:
            d //= pr
            e -= 1
        out.append(e)
    return tuple(out) if (n, d) == (1, 1) else None


def _param_ok(kind, param, ev, params):
    if kind == "partial":
        raise AssertionError("handled by the caller")
    if kind == "fraction":
        try:
            return _expo(Fr(param)) == ev
        except Exception:
            return False
    import sympy

    exp = sympy.Integer(1)
    for K, e in zip(params, ev):
        exp = exp * K ** e
    try:
        return sympy.simplify(param / exp) == 1
    except Exception:
        return False


def _apply(obj, op, base):
    """run one operation on the real object; returns the new object or 'EXC <Type>'"""
    try:
        if op[0] == "scale":
            return op[1] * obj
        if op[0] == "rscale":
            return obj * op[1]
        if op[0] == "sscale":
            import sympy

            return sympy.Integer(op[1]) * obj
        if op[0] == "add":
            return obj + base[op[1]]
        if op[0] == "sub":
            return obj - base[op[1]]
        if op[0] == "neg":
            return -obj
    except Exception as e:
        return "EXC %s" % type(e).__name__
    raise ValueError(op)


def _model(state, op):
    if op[0] in ("scale", "rscale", "sscale"):
        return m_scale(state, op[1])
    if op[0] == "neg":
        return m_scale(state, -1)
    return m_add(state, op[1], 1 if op[0] == "add" else -1)


def _ops():
    ops = [("scale", n) for n in SCALES] + [("rscale", 2), ("sscale", -2), ("neg",)]
    for i in range(len(BASE)):
        ops += [("add", i), ("sub", i)]
    return ops


def _check_state(res, kind, params, hist, op, obj, mstate):
    """compare the real object after `op` with the model state; returns list of problems (strings)"""
    probs = []
    netted = op[0] in ("add", "sub")
    if isinstance(obj, str):
        return ["raised %s" % obj]
    got_net = tuple(obj.net_stoich(KEYS))
    if got_net != m_net(mstate):
        probs.append("net stoichiometry %r != %r" % (got_net, m_net(mstate)))
    if any(v <= 0 for d in (obj.reac, obj.prod, obj.inact_reac, obj.inact_prod) for v in d.values()):
        probs.append("non-positive coefficient listed: %r -> %r" % (dict(obj.reac), dict(obj.prod)))
    if netted:
        if set(obj.reac) & set(obj.prod):
            probs.append("species on both sides of a sum: %r" % sorted(set(obj.reac) & set(obj.prod)))
        if dict(obj.reac) != mstate[0] or dict(obj.prod) != mstate[1]:
            probs.append("not the netted form: %r -> %r, expected %r -> %r" % (dict(obj.reac), dict(obj.prod), mstate[0], mstate[1]))
    else:
        if dict(obj.reac) != mstate[0] or dict(obj.prod) != mstate[1]:
            probs.append("scaled sides: %r -> %r, expected %r -> %r" % (dict(obj.reac), dict(obj.prod), mstate[0], mstate[1]))
    if kind == "partial":
        # a combination that involves an equilibrium without constant has no defined constant: it must not carry one
        unknown = len(mstate) > 3 and mstate[3]
        if unknown and obj.param is not None:
            probs.append("constant %r reported although an operand has no constant" % (obj.param,))
        elif not unknown and not _param_ok("fraction", obj.param, mstate[2], params):
            probs.append("constant %r is not prod K_i^%r" % (obj.param, mstate[2]))
    elif not _param_ok(kind, obj.param, mstate[2], params):
        probs.append("constant %r is not prod K_i^%r" % (obj.param, mstate[2]))
    return probs


def _start_state(kind, start):
    s0 = (dict(BASE[start][0]), dict(BASE[start][1]), tuple(1 if j == start else 0 for j in range(len(BASE))))
    if kind == "partial":
        s0 += (start in UNKNOWN,)
    return s0


def _build(kind, start, hist):
    """fresh real objects (fresh constants, fresh base equilibria) with `hist` replayed on them, the model advanced in
    lock-step: no object is shared between two states of the search, so a state's observations depend on its own
    history only and are reproduced by replaying it.  Returns (object | 'EXC ..', model state, params, base)."""
    from chempy import Equilibrium

    params = _mk_params(kind)
    if kind == "symbolic":
        # the sides given as caller-ordered mappings whose key order is NOT the sorted one (they are kept as given)
        from collections import OrderedDict

        base = [Equilibrium(OrderedDict(sorted(r.items(), reverse=True)), OrderedDict(sorted(p.items(), reverse=True)), params[i]) for i, (r, p) in enumerate(BASE)]
    elif kind == "partial":
        # the sides given as collections.Counter (a dict subclass whose update() counts)
        from collections import Counter

        base = [Equilibrium(Counter(r), Counter(p), params[i]) for i, (r, p) in enumerate(BASE)]
    else:
        base = [Equilibrium(r, p, params[i]) for i, (r, p) in enumerate(BASE)]
    obj, m = base[start], _start_state(kind, start)
    for op in hist:
        obj = _apply(obj, op, base)
        m = _model(m, op)
        if isinstance(obj, str):
            break
    return obj, m, params, base


def _operands_intact(obj, mstate, base, params):
    return dict(obj.reac) == mstate[0] and dict(obj.prod) == mstate[1] and all(
        dict(b.reac) == BASE[i][0] and dict(b.prod) == BASE[i][1] and (b.param is params[i] or b.param == params[i]) for i, b in enumerate(base))


def check_transition(res, kind, start, hist, op):
    """returns (model successor, real successor) for a correct, expandable transition, else None"""
    obj, mstate, params, base = _build(kind, start, hist)
    m2 = _model(mstate, op)
    h2 = hist + (op,)
    got = _apply(obj, op, base)
    case = dict(kind=kind, start=start, hist=[list(o) for o in h2])
    if not _operands_intact(obj, mstate, base, params):
        res.outcomes["OPERAND-mutated"] += 1
        res.violation("C11|%s|operand-mutated" % op[0], "history %r changed one of its operands (now %s)" % (h2, obj), dict(case, what="operand"), str(obj), None)
    if not any(m_net(m2)):
        # the zero combination must be refused, not returned
        if isinstance(got, str):
            res.outcomes["zero-combination-refused"] += 1
        else:
            res.outcomes["ZERO-combination-returned"] += 1
            res.violation("C11|%s|zero-combination-returned" % op[0], "history %r yields the empty equilibrium %r instead of raising" % (h2, str(got)), case, str(got), "exception")
        return None
    if kind == "partial" and isinstance(got, str) and op[0] in ("add", "sub") and (mstate[3] != (op[1] in UNKNOWN)):
        res.outcomes["mixed-known-unknown-refused"] += 1
        return None  # K * None: refusing is as good as returning a constant-free equilibrium
    probs = _check_state(res, kind, params, hist, op, got, m2)
    if probs:
        res.outcomes["WRONG"] += 1
        res.violation("C11|%s|%s" % (op[0], probs[0].split(" ")[0] + "-" + probs[0].split(" ")[1]), "start b%d, history %r: %s" % (start, h2, "; ".join(probs)), case, probs, None)
        return None
    res.outcomes["ok-" + ("netted" if op[0] in ("add", "sub") else "scaled")] += 1
    return m2, got


def _bfs(res, kind, start, depth, record=None):
    s0 = _start_state(kind, start)
    seen = {canon(s0): ()}
    frontier = [(s0, ())]
    res.states += 1
    ops = _ops()
    for d in range(depth):
        nxt = []
        for mstate, hist in frontier:
            for op in ops:
                res.transitions += 1
                res.evaluations += 1
                res.symbols[op[0]] += 1
                r = check_transition(res, kind, start, hist, op)
                if r is None:
                    continue
                m2, got = r
                h2 = hist + (op,)
                k = canon(m2)
                if k in seen:
                    res.dedup_hits += 1
                    # differential oracle: another history reaching the same model state gives an equal object
                    other = _build(kind, start, seen[k])[0]
                    res.evaluations += 1
                    if not (got == other and dict(got.reac) == dict(other.reac) and dict(got.prod) == dict(other.prod)) and kind != "symbolic":
                        res.violation("C11|differential|same-state-different-object", "histories %r and %r reach the same model state but unequal objects %s / %s" % (h2, seen[k], got, other),
                                      dict(kind=kind, start=start, hist=[list(o) for o in h2], other=[list(o) for o in seen[k]], what="differential"), str(got), str(other))
                else:
                    seen[k] = h2
                    res.states += 1
                    res.nontrivial += 1
                    nxt.append((m2, h2))
                    if record is not None and d == 0:
                        record.append((m2, got))
                    if res.states % 211 == 1:
                        res.sample(dict(kind=kind, start="b%d" % start, history=[list(o) for o in h2], reac=m2[0], prod=m2[1], exponents=list(m2[2])), limit=2)
        frontier = nxt
    res.extra["max_depth"] = depth


# ------------------------------------------------------------------------------------------------ eliminate
def _elim_pair(a, b, shape):
    from chempy import Equilibrium

    if shape == 0:
        e1 = Equilibrium(({"A": -a, "P": 1} if a < 0 else {"P": 1}), ({"A": a, "Q": 1} if a > 0 else {"Q": 1}), Fr(2))
        e2 = Equilibrium(({"A": -b, "R": 1} if b < 0 else {"R": 1}), ({"A": b, "S": 1} if b > 0 else {"S": 1}), Fr(3))
    else:  # the two equilibria share a second species and carry larger other coefficients
        e1 = Equilibrium(({"A": -a, "P": 2} if a < 0 else {"P": 2}), ({"A": a, "Q": 3} if a > 0 else {"Q": 3}), Fr(2))
        e2 = Equilibrium(({"A": -b, "Q": 1} if b < 0 else {"Q": 1}), ({"A": b, "S": 5} if b > 0 else {"S": 5}), Fr(3))
    return e1, e2


def _check_elim(res, a, b, shape, order):
    from chempy import Equilibrium

    e1, e2 = _elim_pair(a, b, shape)
    pair, coef = ([e1, e2], (a, b)) if order == 0 else ([e2, e1], (b, a))
    res.states += 1
    res.transitions += 1
    res.evaluations += 1
    res.nontrivial += 1
    # the pair is handed over as a list, a tuple, an iterator or a generator (the argument is documented as an iterable)
    cont = (abs(a) + 2 * abs(b) + shape + order) % 4
    given = [pair, tuple(pair), iter(pair), (x for x in pair)][cont]
    case = dict(kind="elim", a=a, b=b, shape=shape, order=order)
    try:
        m = list(Equilibrium.eliminate(given, "A"))
    except Exception as e:
        res.outcomes["ELIM-raises"] += 1
        cls = "unit-coefficients" if abs(a) == 1 and abs(b) == 1 else "general"
        res.violation("C11|eliminate|raises-%s|%s" % (type(e).__name__, cls), "Equilibrium.eliminate for coefficients %r raised %s" % (coef, type(e).__name__), case, "EXC %s" % type(e).__name__, "two non-zero integers")
        return
    ok = len(m) == 2 and all(int(x) == x and x != 0 for x in m) and m[0] * coef[0] + m[1] * coef[1] == 0
    comb = None
    if ok and max(abs(int(x)) for x in m) > 10 ** 4:
        # chempy's multipliers need not be the smallest ones (for 33 and 35 they have 16 digits): the combination would carry
        # K**(10**16) — the arithmetic identity m0*a + m1*b = 0 decides, the combination itself is not formed
        res.outcomes["elim-ok (huge multipliers: identity only)"] += 1
        return
    if ok:
        try:
            comb = int(m[0]) * pair[0] + int(m[1]) * pair[1]
            ok = "A" not in comb.reac and "A" not in comb.prod and comb.net_stoich(["A"]) == (0,)
            ok = ok and _expo(Fr(comb.param)) is not None
        except Exception as e:
            ok, comb = False, "EXC %s" % type(e).__name__
    res.outcomes["elim-ok" if ok else "ELIM-wrong"] += 1
    if not ok:
        res.violation("C11|eliminate|wrong-multipliers", "eliminate for coefficients %r returned %r (combination: %s)" % (coef, m, comb), case, [str(x) for x in m], "non-zero integers m with m0*a+m1*b=0")


def _intdiv(p, q):
    """integer division rounding toward zero (the model of how often one equilibrium can be cancelled)"""
    r = abs(p) // abs(q)
    return r if (p >= 0) == (q >= 0) else -r


def _check_cancel(res):
    from chempy import Equilibrium

    states = []
    for i in range(len(BASE)):
        rec = []
        sub = Result()
        _bfs(sub, "fraction", i, 1, rec)
        states += rec
    for (m1, o1), (m2, o2) in itertools.product(states, repeat=2):
        keys = sorted(set(m2[0]) | set(m2[1]))
        n1 = [m1[1].get(k, 0) - m1[0].get(k, 0) for k in keys]
        n2 = [m2[1].get(k, 0) - m2[0].get(k, 0) for k in keys]
        if any(v == 0 for v in n2):
            continue  # a catalyst of the cancelled equilibrium has zero net coefficient: -v1/0 is undefined
        res.states += 1
        res.transitions += 1
        res.evaluations += 1
        res.nontrivial += 1
        cands = [_intdiv(-v1, v2) for v1, v2 in zip(n1, n2)]
        # "how many times rxn can be added/subtracted": the per-species quotient of least magnitude; when +m and -m
        # tie, either is a valid answer (which one chempy returns depends on set iteration order)
        exp = sorted({c for c in cands if abs(c) == min(abs(x) for x in cands)})
        try:
            got = o1.cancel(o2)
        except Exception as e:
            got = "EXC %s" % type(e).__name__
        ok = got in exp
        res.outcomes["cancel-ok" if ok else "CANCEL-wrong"] += 1
        if not ok:
            res.violation("C11|cancel|multiplier", "(%s).cancel(%s) = %r, expected %r" % (o1, o2, got, exp), dict(kind="cancel", s1=[m1[0], m1[1]], s2=[m2[0], m2[1]]), got, exp)
    res.sample(dict(kind="cancel", pairs=res.states))


def _check_asrx(res):
    from chempy import Equilibrium

    for i, (r, p) in enumerate(BASE):
        for K in (Fr(7, 3), Fr(1, 1000), 2.5):
            for which, k in (("kf", Fr(5, 2)), ("kb", Fr(3, 7))):
                res.states += 1
                res.transitions += 1
                res.evaluations += 1
                res.nontrivial += 1
                e = Equilibrium(r, p, K)
                try:
                    fw, bw = e.as_reactions(**{which: k})
                    ok = dict(fw.reac) == r and dict(fw.prod) == p and dict(bw.reac) == p and dict(bw.prod) == r
                    ratio = fw.param / bw.param
                    # (c0 ** (nb - nf) is evaluated in floats for a negative exponent, so the ratio is compared to 1e-14)
                    ok = ok and abs(float(ratio) / float(K) - 1) < 1e-14 and (fw.param if which == "kf" else bw.param) == k
                    got = (str(fw), str(bw))
                except Exception as ex:
                    ok, got = False, "EXC %s" % type(ex).__name__
                res.outcomes["asrx-ok" if ok else "ASRX-wrong"] += 1
                if not ok:
                    res.violation("C11|as_reactions|kf-over-kb", "Equilibrium(b%d, K=%r).as_reactions(%s=%r) gave %r; kf/kb must equal K" % (i, K, which, k, got), dict(kind="asrx", i=i, K=str(K), which=which), got, str(K))
    res.sample(dict(kind="as_reactions", K="7/3", kf="5/2"))


def _check_neg_history(res):
    """unary minus on objects that share history: a copy with another constant, and two equilibria created with the same
    `data` dict — each reversal is the reversal of ITS operand (stoichiometry swapped, constant inverted)"""
    from chempy import Equilibrium

    Ks = [Fr(2), Fr(3, 7), Fr(11)]
    for i, (r, p) in enumerate(BASE):
        for K1, K2 in itertools.permutations(Ks, 2):
            for how in ("copy(param=)", "shared-data-dict", "neg-twice", "param-reassigned"):
                res.states += 1
                res.transitions += 3
                res.evaluations += 1
                res.nontrivial += 1
                case = dict(kind="neghist", i=i, K1=str(K1), K2=str(K2), how=how)
                try:
                    if how == "copy(param=)":
                        e = Equilibrium(r, p, K1)
                        first = -e
                        e2 = e.copy(param=K2)
                        got, exp = -e2, (dict(p), dict(r), 1 / K2)
                    elif how == "shared-data-dict":
                        d = {}
                        j = (i + 1) % len(BASE)
                        e = Equilibrium(r, p, K1, data=d)
                        e2 = Equilibrium(BASE[j][0], BASE[j][1], K2, data=d)
                        first = -e
                        got, exp = -e2, (dict(BASE[j][1]), dict(BASE[j][0]), 1 / K2)
                    elif how == "param-reassigned":
                        e = Equilibrium(r, p, K1)
                        first = -e
                        e.param = K2
                        got, exp = -e, (dict(p), dict(r), 1 / K2)
                    else:
                        e = Equilibrium(r, p, K1)
                        first = -e
                        got, exp = -(-e), (dict(r), dict(p), K1)
                    obs = (dict(got.reac), dict(got.prod), got.param)
                    also = (dict(first.reac), dict(first.prod), first.param) == (dict(p), dict(r), 1 / K1)
                except Exception as ex:
                    obs, also = "EXC %s" % type(ex).__name__, True
                ok = obs == exp and also
                res.outcomes["neg-history-ok" if ok else "NEG-history-WRONG"] += 1
                if not ok:
                    res.violation("C11|neg|history|%s" % how, "base b%d, K1=%s, K2=%s, %s: reversal is %r, expected %r" % (i, K1, K2, how, obs, exp), case, str(obs), str(exp))
    res.sample(dict(kind="neghist", how=["copy(param=)", "shared-data-dict", "neg-twice", "param-reassigned"]))


def _check_subclass(res):
    """the algebra on instances of a user's subclass of Equilibrium (no behaviour changed): the results have the same net
    stoichiometry / constant as for plain equilibria, and compare equal (==, in, both ways round) to the equilibrium they are"""
    from chempy import Equilibrium

    class MyEquilibrium(Equilibrium):
        pass

    for i, (r, p) in enumerate(BASE):
        for j, (r2, p2) in enumerate(BASE):
            if i == j:
                continue
            res.states += 1
            res.transitions += 6
            res.evaluations += 6
            res.nontrivial += 1
            e, f = MyEquilibrium(r, p, Fr(3, 7)), MyEquilibrium(r2, p2, Fr(5, 2))
            pe, pf = Equilibrium(r, p, Fr(3, 7)), Equilibrium(r2, p2, Fr(5, 2))
            tests = [("1*e == e", lambda: 1 * e == e), ("e == 1*e", lambda: e == 1 * e), ("-(-e) == e", lambda: -(-e) == e), ("(e + f) - f == (plain + plain) - plain", lambda: (e + f) - f == (pe + pf) - pf),
                     ("e in [1*e]", lambda: e in [1 * e]), ("2*e == 2*plain", lambda: 2 * e == 2 * pe), ("e - f == plain - plain", lambda: e - f == pe - pf),
                     ("not (1*e != e)", lambda: not (1 * e != e)), ("e != f", lambda: e != f and not (e == f))]
            for label, t in tests:
                try:
                    got = bool(t())
                except Exception as ex:
                    got = "EXC %s" % type(ex).__name__
                res.outcomes["subclass-ok" if got is True else "SUBCLASS-wrong"] += 1
                if got is not True:
                    res.violation("C11|subclass-instances|%s" % label, "with e, f instances of a subclass of Equilibrium (b%d, b%d): %s is %r" % (i, j, label, got), dict(kind="subclass", i=i, j=j, label=label), got, True)
    res.sample(dict(kind="subclass", tests=9))


def run_chunk(chunk, tier):
    res = Result()
    if chunk[0] == "NEGH":
        _check_neg_history(res)
        _check_subclass(res)
    elif chunk[0] == "BFS":
        _bfs(res, chunk[1], chunk[2], chunk[3])
    elif chunk[0] == "ELIM":
        a = chunk[1]
        for b in range(-6, 7):
            if b:
                for shape in (0, 1):
                    for order in (0, 1):
                        _check_elim(res, a, b, shape, order)
        res.sample(dict(kind="eliminate", a=a, b="-6..6"))
    elif chunk[0] == "ELIMBIG":
        # large coefficients of the eliminated species (two and three digits, common factors, one side 1)
        for a, b in ELIM_BIG:
            for sa, sb in ((1, 1), (1, -1), (-1, 1)):
                for order in (0, 1):
                    _check_elim(res, sa * a, sb * b, 0, order)
        res.sample(dict(kind="eliminate", pairs=ELIM_BIG))
    elif chunk[0] == "CANCEL":
        _check_cancel(res)
    else:
        _check_asrx(res)
    return res


def replay(case):
    from chempy import Equilibrium

    res = Result()
    k = case["kind"]
    if k == "elim":
        _check_elim(res, case["a"], case["b"], case["shape"], case["order"])
    elif k == "neghist":
        sub = run_chunk(("NEGH",), "quick")
        res.violations = [v for v in sub.violations if v["case"] == case]
    elif k == "subclass":
        sub = Result()
        _check_subclass(sub)
        res.violations = [v for v in sub.violations if v["case"] == case]
    elif k == "cancel":
        sub = run_chunk(("CANCEL",), "quick")
        res.violations = [v for v in sub.violations if v["case"] == case]
    elif k == "asrx":
        sub = run_chunk(("ASRX",), "quick")
        res.violations = [v for v in sub.violations if v["case"] == case]
    else:
        hist = tuple(tuple(o) for o in case["hist"])
        if case.get("what") == "differential":
            got = _build(k, case["start"], hist)[0]
            other = _build(k, case["start"], tuple(tuple(o) for o in case["other"]))[0]
            if not (got == other and dict(got.reac) == dict(other.reac) and dict(got.prod) == dict(other.prod)):
                res.violation("C11|differential|same-state-different-object", "unequal objects %s / %s" % (got, other), case, str(got), str(other))
        else:
            check_transition(res, k, case["start"], hist[:-1], hist[-1])
            if case.get("what") == "operand":
                res.violations = [v for v in res.violations if v["key"].endswith("operand-mutated")]
            else:
                res.violations = [v for v in res.violations if not v["key"].endswith("operand-mutated")] or res.violations
    if res.violations:
        v = res.violations[0]
        return dict(key=v["key"], what=v["what"], observed=v["observed"], expected=v["expected"])
    return None

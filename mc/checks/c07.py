"""C07 — every residual formulation offered to the root finder vanishes exactly at, and only at, true equilibrium states.

State space (DESIGN.md §3 C07), a product lattice swept completely:
  system     every subset of size 1..m of a pool of homogeneous equilibria sharing H+/NH3/H2O/HCO3- (mc/ref/eqmodel.py;
             quick: 6 equilibria, m=3 -> 41 systems; thorough: 8 equilibria, m=4 -> 162 systems)
  order      substances given to EqSystem in order of first appearance / reversed
  c*         an all-positive, all-distinct exact rational state (2 assignments, thorough 3); K_i := Q_i(c*) exactly, so c* is an
             equilibrium state by construction
  xi         every reaction-extent vector in {-1,0,1}^nr x {1/1000, 1}; init = c* - S^T xi  (scale 1 gives initial
             "states" with negative components: they still define the conserved totals)
  config     NumSys in {Lin, Log, Square} x rref_equil x rref_preserv x new_eq_params, backend = sympy
  transform  Lin: c ; Log: ln c ; Square: +sqrt c and sign-alternating sqrt c
  mode       direct : NumSys.f(transform(c*), init + K) called with exact numbers, zero decided exactly in sympy
             symbolic: NumSys.f(symbols, symbols) (what EqSystem hands to pyneqsys), lambdified with mpmath and
                       evaluated at 50 digits
Which extents get which treatment (exact zero test / perturbation families, per mode, per c* assignment) is fixed per tier
in plan() and reported in bounds(): the zero test runs on the full extent set, perturbations on the "core" subsets.
Oracle (from the statement): every component is zero at c*; the number of components is nr + #composition keys
(rank of the balance matrix when rref_preserv); each of four perturbation families makes at least one component
non-zero: one species doubled, a step along one reaction (Q violated, totals kept), the initial amount of one
species shifted (totals violated, Q kept), one K inverted.  equilibrium_quotients / composition_conservation agree
with the model.
"""
import itertools
import warnings
from fractions import Fraction as Fr

from mc.core import Result
from mc.ref import eqmodel as M

META = dict(
    title="Equilibrium equations vanish exactly at, and only at, true equilibrium states",
    level="model_checking",
    technique="bounded-exhaustive product-lattice sweep (systems x substance order x exact equilibrium states x reaction "
    "extents x formulation/reduction configurations x call modes) executed on the real NumSys.f, exact zero test in "
    "sympy, 50-digit non-zero test on four perturbation families, equation count against an exact-rank model",
    rule="states = distinct (system, substance order, c* assignment, extent vector xi); non-trivial = states with xi != 0 "
    "(initial state differs from the equilibrium state, so the conservation block is tested against different numbers); "
    "evaluations = calls of NumSys.f / equilibrium_quotients / composition_conservation compared with the model",
    assumptions=[
        "sympy (exact rational arithmetic, rref, expand_log, N), mpmath and pyneqsys.symbolic.linear_rref/linear_exprs are trusted",
        "reactions of a system are linearly independent (each pool reaction owns a species); dependent reaction sets are outside the bound",
        "states off the exact rational lattice, pools beyond the listed equilibria and NumSysLinRel/LinTanh are outside the bound",
    ],
    design_ref="DESIGN.md §3 C07",
    hashseed_sensitive=False,
)

NUMSYS = ("Lin", "Log", "Square")
TRANSFORMS = {"Lin": ("id",), "Log": ("log",), "Square": ("sqrt", "altsqrt")}
SCALES = {"milli": Fr(1, 1000), "unit": Fr(1)}
PERT_KINDS = ("species*2", "extent", "init-shift", "K-inverted")
ZERO_TOL = "1e-40"  # symbolic mode / non-zero test: 50-digit evaluation, |v| <= 1e-40 counts as zero


def bounds(tier):
    common = dict(extra_systems=["i3 (I2 + I- = I3-: no cation)", "water+i3"], orders=["fwd", "rev"], scales=["milli", "unit"], modes=["direct", "symbolic"], digits=50,
                  extents_full="{-1,0,1}^nr x {1/1000, 1}", extents_core="0, +-e_i at both scales, +-(1,..,1) at both scales",
                  extents_core4="0, +-(1,..,1)/1000, (1,..,1)")
    if tier == "quick":
        return dict(common, pool=M.TAGS[:6], max_subset=3, cstar_variants=[0, 1],
                    configs="3 NumSys x rref_equil x rref_preserv with new_eq_params=True (12) + new_eq_params=False with (rref_equil,rref_preserv) in {(F,F),(T,T)} (6)",
                    direct_zero="new_eq_params=True: full extents for c*#0, core extents for c*#1; new_eq_params=False: core4",
                    direct_perturbations="xi=(1,..,1)/1000, c*#0, new_eq_params=True", symbolic_zero="full extents, every c*, every config",
                    symbolic_perturbations="core4 extents for c*#0, xi=(1,..,1)/1000 for c*#1, every config")
    return dict(common, pool=M.TAGS[:8], max_subset=4, cstar_variants=[0, 1, 2],
                configs="3 NumSys x rref_equil x rref_preserv x new_eq_params = 24",
                direct_zero="full extents, every c*, every config", direct_perturbations="core4 extents, every c*, every config",
                symbolic_zero="full extents, every c*, every config", symbolic_perturbations="core extents, every c*, every config",
                four_reaction_systems="explored with the quick-tier plan (c* #0,#1; 18 configs; direct zero test on full extents for c*#0)")


OFFER_SYSTEMS = [((1,), "fwd"), ((0, 1), "fwd"), ((4,), "rev"), ((0, 5), "fwd")]  # nh4 | water+nh4 | cunh3 | water+cr2o7


# systems outside the subset lattice: anions and neutral species only (the charge row has no positive entry), alone and with water
EXTRA_SYSTEMS = [(M.TAGS.index("i3"),), (0, M.TAGS.index("i3"))]


def check_unbalanced_admission(res):
    """the system whose equations conserve 'every element and charge' must be one whose reactions do: every pool equilibrium
    with one species replaced by its neutral parent (charge dropped: charge-only imbalance, on either side) or with one
    coefficient raised by one (element imbalance) is refused by the constructor with ValueError"""
    import re
    from chempy import Equilibrium, Species
    from chempy.equilibria import EqSystem

    for tag, reac, prod, lgk in M.POOL:
        variants = []
        for side, d in (("reac", reac), ("prod", prod)):
            for sp in d:
                m = re.search(r"[+-]\d*$", sp)
                if m:
                    variants.append(("neutral %s on the %s side" % (sp[: m.start()], side), side, sp, sp[: m.start()], 0))
                variants.append(("coefficient of %s raised" % sp, side, sp, sp, 1))
        for what, side, old, new, dn in variants:
            r2 = {(new if (side == "reac" and k == old) else k): v + (dn if (side == "reac" and k == old) else 0) for k, v in reac.items()}
            p2 = {(new if (side == "prod" and k == old) else k): v + (dn if (side == "prod" and k == old) else 0) for k, v in prod.items()}
            names = list(r2) + [k for k in p2 if k not in r2]
            case = dict(layer="UB", tag=tag, what=what)
            res.states += 1
            res.transitions += 1
            res.evaluations += 1
            res.nontrivial += 1
            try:
                EqSystem([Equilibrium(r2, p2, 10.0 ** lgk)], [Species.from_formula(n) for n in names])
                got = "accepted"
            except ValueError:
                got = "ValueError"
            except Exception as e:
                got = "EXC %s" % type(e).__name__
            res.outcomes["unbalanced-equilibrium:%s" % got] += 1
            if got != "ValueError":
                res.violation("C07|EqSystem|unbalanced-equilibrium|%s" % ("accepted" if got == "accepted" else "wrong-exception"), "EqSystem([%s = %s]) (%s, %s) -> %s; it conserves neither what its equations claim to conserve" % (
                    " + ".join("%d %s" % (v, k) for k, v in r2.items()), " + ".join("%d %s" % (v, k) for k, v in p2.items()), tag, what, got), case, got, "ValueError")
    res.sample(dict(layer="UB", variants="charge dropped from one species / one coefficient raised, every pool equilibrium"))


EXT_PAIRS = [((0,), (1,)), ((1,), (0,)), ((0,), (2, 3)), ((0, 1), (6,)), ((6,), (0, 1)), ((4,), (7,))]


def check_extended(res, ia, ib, ns_name, rp, how="system"):
    """ONE EqSystem object evaluated, then extended in place (es += other, bringing new species and elements), then evaluated
    again: the equations are those of the combined system (count, zero at its equilibrium, non-zero when a NEW species is
    doubled — i.e. the new element's conservation is there)"""
    import sympy as sp

    A, Bc, C = Ctx(ia, "fwd", 0), Ctx(ib, "fwd", 0), Ctx(tuple(ia) + tuple(ib), "fwd", 0)
    case = dict(layer="EX", ia=list(ia), ib=list(ib), ns=ns_name, rp=rp, how=how)
    site = "%s|rp=%d|system-extended-in-place" % (ns_name, rp) + ("" if how == "system" else "|+= " + how)
    res.states += 1
    res.transitions += 3
    res.nontrivial += 1
    res.evaluations += 3
    try:
        with warnings.catch_warnings():
            warnings.simplefilter("ignore")
            tr = TRANSFORMS[ns_name][0]
            if how == "system":
                es = A._mk_eqsys()
                ns1 = _numsys(ns_name)(es, backend=sp, rref_preserv=bool(rp))
                ns1.f(transform_exact(tr, A.cvec()), [_R(x) for x in A.cvec()] + [_R(k) for k in A.K])
                es.composition_balance_vectors()
                es += Bc._mk_eqsys()
            else:
                # the first system already lists every substance; the equilibria of the second arrive as a list / a generator /
                # a map object / a list iterator
                from chempy.equilibria import EqSystem

                full = C._mk_eqsys()
                es = EqSystem(list(full.rxns[: A.nr]), list(full.substances.values()))
                es.composition_balance_vectors()
                more = list(full.rxns[A.nr:])
                es += {"list": lambda: more, "tuple": lambda: tuple(more), "generator": lambda: (r_ for r_ in more), "map": lambda: map(lambda r_: r_, more), "iterator": lambda: iter(more)}[how]()
            order = list(es.substances)
            if sorted(order) != sorted(C.names) or len(es.rxns) != C.nr:
                raise ValueError("+= gave substances %r, reactions %d" % (order, len(es.rxns)))
            ns2 = _numsys(ns_name)(es, backend=sp, rref_preserv=bool(rp))
            cv = [C.cstar[n] for n in order]
            params = [_R(x) for x in cv] + [_R(k) for k in C.K]
            f0 = list(ns2.f(transform_exact(tr, cv), params))
            new = [n for n in order if n not in A.names and n != "H2O"]
            dbl = [2 * c if n == new[-1] else c for n, c in zip(order, cv)]
            f1 = list(ns2.f(transform_exact(tr, dbl), params))
    except Exception as e:
        res.outcomes["extended-raises"] += 1
        res.violation("C07|%s|raises" % site, "%s then += %s: %s: %s" % ("+".join(M.TAGS[i] for i in ia), "+".join(M.TAGS[i] for i in ib), type(e).__name__, str(e)[:120]), case, "EXC %s" % type(e).__name__, None)
        return
    want = C.nr + (C.rankB if rp else len(C.keys))
    nz0 = [k for k, e in enumerate(f0) if zero_class(e) is None]
    nz1 = [k for k, e in enumerate(f1) if zero_class(e) is None]
    bad = None
    if len(f0) != want:
        bad = "%d equations, the combined system has %d reactions + %d conservation relations" % (len(f0), C.nr, want - C.nr)
    elif nz0:
        bad = "non-zero components %s at the equilibrium state of the combined system" % nz0
    elif not nz1:
        bad = "zero in every component although %s was doubled" % new[-1]
    res.outcomes["extended-ok" if bad is None else "extended-WRONG"] += 1
    if bad:
        res.violation("C07|%s|%s" % (site, "equation-count" if "equations" in bad else ("nonzero-at-equilibrium" if nz0 else "zero-off-equilibrium")), "EqSystem(%s) evaluated, then += EqSystem(%s), %s rref_preserv=%s: %s" % (
            "+".join(M.TAGS[i] for i in ia), "+".join(M.TAGS[i] for i in ib), ns_name, bool(rp), bad), case, bad, None)


# a large system (7 equilibria, 14 species): water, ammonia, carbonic acid (two steps), acetic acid, the two ammine complexes
BIG_IDX = tuple(M.TAGS.index(t) for t in ("water", "nh4", "h2co3", "hco3", "hac", "cunh3", "agnh3"))


def run_big(res, order, ns_name):
    """every configuration of one formulation on the 14-species system, at c* itself and one extent away from it, directly and
    symbolically; the species-doubling and K-inverting perturbations at the zero extent"""
    ctx = Ctx(BIG_IDX, order, 0)
    nr = ctx.nr
    perts = perturbations(ctx)
    res.extra["max_species"] = max(res.extra.get("max_species", 0), ctx.ns)
    for cfg in configs("thorough", 1):
        if cfg[0] != ns_name:
            continue
        for tr in TRANSFORMS[cfg[0]]:
            for xi, scale in (((0,) * nr, "milli"), ((1,) * nr, "milli")):
                res.states += 1
                res.transitions += sum(1 for x in xi if x)
                res.nontrivial += 1
                for mode in ("direct", "symbolic"):
                    check_one(res, ctx, cfg, tr, xi, scale, None, mode)
            for pert in perts[:4] + perts[-2:]:
                if pert[0] == "K-inverted" and not cfg[3]:
                    continue
                check_one(res, ctx, cfg, tr, (0,) * nr, "milli", pert, "direct")
    res.sample(dict(layer="BG", system=[M.TAGS[i] for i in BIG_IDX], species=ctx.ns, formulation=ns_name, order=order), limit=1)


def chunks(tier):
    return [("UB",), ("EX",)] + [("BG", order, ns) for order in ("fwd", "rev") for ns in NUMSYS] + _chunks_f(tier) + [("G", i, j) for i in range(len(OFFER_SYSTEMS)) for j in range(4)]


def _chunks_f(tier):
    b = bounds(tier)
    out = []
    for idx in M.subsets(len(b["pool"]), b["max_subset"]) + EXTRA_SYSTEMS:
        for order in b["orders"]:
            out.append((idx, order))
    return out


def configs(tier="thorough", nr=1):
    out = []
    for ns in NUMSYS:
        for re_ in (False, True):
            for rp in (False, True):
                for nep in (True, False):
                    if light(tier, nr) and not nep and re_ != rp:
                        continue  # deviation bound of the light plan
                    out.append((ns, re_, rp, nep))
    return out


def extents(nr, scales):
    out = [((0,) * nr, "milli")]
    for sc in scales:
        for xi in itertools.product((-1, 0, 1), repeat=nr):
            if any(xi):
                out.append((xi, sc))
    return out


def extents_core(nr, scales):
    keep = set()
    for sc in scales:
        for i in range(nr):
            for s in (1, -1):
                keep.add((tuple(s if k == i else 0 for k in range(nr)), sc))
        keep.add(((1,) * nr, sc))
        keep.add(((-1,) * nr, sc))
    return [e for e in extents(nr, scales) if e in keep or not any(e[0])]


def extents_core4(nr, scales):
    keep = {((1,) * nr, "milli"), ((-1,) * nr, "milli"), ((1,) * nr, "unit")}
    return [e for e in extents(nr, scales) if e in keep or not any(e[0])]


def light(tier, nr):
    """the light plan: the whole quick tier, and the four-reaction systems of the thorough tier"""
    return tier == "quick" or nr >= 4


def plan(tier, nr, variant, cfg, scales):
    """which extents get which treatment: dict of sets (direct_zero, direct_pert, sym_zero, sym_pert)"""
    full, core, core4 = extents(nr, scales), extents_core(nr, scales), extents_core4(nr, scales)
    if light(tier, nr):
        if cfg[3]:
            dz = full if variant == 0 else core
        else:
            dz = core4
        dp = [((1,) * nr, "milli")] if variant == 0 and cfg[3] else []
        sp_ = core4 if variant == 0 else [((1,) * nr, "milli")]
        return dict(direct_zero=set(dz), direct_pert=set(dp), sym_zero=set(full), sym_pert=set(sp_), stored_k_modes=("direct", "symbolic") if variant == 0 else ("direct",))
    return dict(direct_zero=set(full), direct_pert=set(core4), sym_zero=set(full), sym_pert=set(core), stored_k_modes=("direct", "symbolic"))


# --------------------------------------------------------------------------------------------- helpers
def _R(x):
    import sympy as sp

    x = Fr(x)
    return sp.Rational(x.numerator, x.denominator)


def _numsys(name):
    from chempy import equilibria as E

    return {"Lin": E.NumSysLin, "Log": E.NumSysLog, "Square": E.NumSysSquare}[name]


class Ctx(object):
    """one (system, order, c* variant): the model side and the real EqSystem"""

    def __init__(self, idx, order, variant, kinv=None):
        from chempy import Equilibrium, Species
        from chempy.equilibria import EqSystem

        self.idx, self.order, self.variant = tuple(idx), order, variant
        self.names = M.species_of(idx, order)
        self.nr, self.ns = len(idx), len(self.names)
        self.S = M.stoich_rows(idx, self.names)
        self.B, self.keys = M.balance_matrix(self.names)
        self.rankB = M.rank(self.B)
        self.cstar = M.cstar_assignment(self.names, variant)
        self.K = [M.quotient(M.POOL[i], self.cstar) for i in idx]
        self.kinv = kinv
        K = list(self.K)
        if kinv is not None:  # a system whose *stored* constant of reaction kinv is inverted (new_eq_params=False path)
            K[kinv] = 1 / K[kinv]
        self._species = [Species.from_formula(n) for n in self.names]
        self._Kstored = K
        self.eqsys = self._mk_eqsys()
        self._ns_cache = {}
        self._lam_cache = {}
        self._init_cache = {}

    def _mk_eqsys(self):
        from chempy import Equilibrium
        from chempy.equilibria import EqSystem

        return EqSystem([Equilibrium(dict(M.POOL[i][1]), dict(M.POOL[i][2]), _R(k)) for i, k in zip(self.idx, self._Kstored)], list(self._species))

    def fresh_numsys(self, cfg):
        """a NumSys on a brand-new EqSystem: a direct evaluation then depends on nothing evaluated before it (and is
        reproduced by replaying the single case); evaluations that share one instance are the business of check_history"""
        import sympy as sp

        ns, re_, rp, nep = cfg
        with warnings.catch_warnings():
            warnings.simplefilter("ignore")
            return _numsys(ns)(self._mk_eqsys(), backend=sp, rref_equil=re_, rref_preserv=rp, new_eq_params=nep)

    def cvec(self):
        return [self.cstar[n] for n in self.names]

    def init(self, xi, scale):
        key = (tuple(xi), scale)
        if key not in self._init_cache:
            s = SCALES[scale]
            self._init_cache[key] = [c - sum(self.S[i][j] * xi[i] * s for i in range(self.nr)) for j, c in enumerate(self.cvec())]
        return list(self._init_cache[key])

    def numsys(self, cfg):
        import sympy as sp

        if cfg not in self._ns_cache:
            ns, re_, rp, nep = cfg
            with warnings.catch_warnings():  # NumSysSquare is a deprecated alias: the warning is not an observation here
                warnings.simplefilter("ignore")
                self._ns_cache[cfg] = _numsys(ns)(self.eqsys, backend=sp, rref_equil=re_, rref_preserv=rp, new_eq_params=nep)
        return self._ns_cache[cfg]

    def lam(self, cfg):
        """f called with symbols (as EqSystem._SymbolicSys_from_NumSys does), lambdified for mpmath"""
        import sympy as sp

        if cfg not in self._lam_cache:
            nep = cfg[3]
            y = sp.symbols("y:%d" % self.ns, real=True)
            p = sp.symbols("p:%d" % (self.ns + (self.nr if nep else 0)), real=True)
            try:
                exprs = list(self.numsys(cfg).f(list(y), list(p)))
                fn = sp.lambdify(list(y) + list(p), exprs, modules="mpmath")
                self._lam_cache[cfg] = (len(exprs), fn, None)
            except Exception as e:  # an observation
                self._lam_cache[cfg] = (None, None, "EXC %s" % type(e).__name__)
        return self._lam_cache[cfg]


def perturbed(ctx, c, init, K, pert):
    """the perturbed (c, init, K) of one family member; None when the member does not exist"""
    kind, j = pert
    c, init, K = list(c), list(init), list(K)
    if kind == "species*2":
        c[j] = 2 * c[j]
    elif kind == "extent":
        d = min(c) / 8
        c = [cj + d * ctx.S[j][k] for k, cj in enumerate(c)]
        assert all(x > 0 for x in c)
    elif kind == "init-shift":
        init[j] = init[j] + Fr(1, 7)
    elif kind == "K-inverted":
        if K[j] == 1:
            return None
        K[j] = 1 / K[j]
    else:
        raise ValueError(kind)
    return c, init, K


def perturbations(ctx):
    out = [("species*2", j) for j in range(ctx.ns)]
    out += [("extent", i) for i in range(ctx.nr)]
    out += [("init-shift", j) for j in range(ctx.ns)]
    out += [("K-inverted", i) for i in range(ctx.nr)]
    return out


def transform_exact(tr, c):
    import sympy as sp

    if tr == "id":
        return [_R(x) for x in c]
    if tr == "log":
        return [sp.log(_R(x)) for x in c]
    if tr == "sqrt":
        return [sp.sqrt(_R(x)) for x in c]
    if tr == "altsqrt":
        return [(-1) ** k * sp.sqrt(_R(x)) for k, x in enumerate(c)]
    raise ValueError(tr)


def transform_mp(tr, c):
    import mpmath as mp

    v = [mp.mpf(x.numerator) / x.denominator for x in c]
    if tr == "id":
        return v
    if tr == "log":
        return [mp.log(x) for x in v]
    if tr == "sqrt":
        return [mp.sqrt(x) for x in v]
    if tr == "altsqrt":
        return [(-1) ** k * mp.sqrt(x) for k, x in enumerate(v)]
    raise ValueError(tr)


def zero_class(e):
    """exact decision: 'structural' | 'log-expansion' | 'simplify' | 'numeric-only' (zero to 50 digits, unproven) | None (non-zero)"""
    import sympy as sp

    e = sp.sympify(e)
    if e == 0:
        return "structural"
    if e.is_Rational:
        return None
    e2 = sp.expand(sp.expand_log(e, force=True, factor=True))
    if e2 == 0:
        return "log-expansion"
    if e2.is_Rational:
        return None
    v = sp.N(e, 60)
    if abs(v) > sp.Float(ZERO_TOL):
        return None
    if sp.simplify(e) == 0:
        return "simplify"
    return "numeric-only"


def is_nonzero(e):
    import sympy as sp

    e = sp.sympify(e)
    if e.is_Rational:
        return e != 0
    return bool(abs(sp.N(e, 50)) > sp.Float(ZERO_TOL))


def expected_len(ctx, cfg):
    return ctx.nr + (ctx.rankB if cfg[2] else len(ctx.keys))


# --------------------------------------------------------------------------------------------- one evaluation
class _Lazy(object):
    """values rendered only when a violation has to be described"""

    def __init__(self, fn):
        self.fn, self.v = fn, None

    def __getitem__(self, k):
        if self.v is None:
            self.v = self.fn()
        return self.v[k]


def evaluate(ctx, cfg, tr, xi, scale, pert, mode, numsys=None):
    """Run one NumSys.f evaluation; returns dict(obs=..., n=len, zero=[class|None per component], exc=...)"""
    import mpmath as mp

    c, init, K = ctx.cvec(), ctx.init(xi, scale), list(ctx.K)
    if pert is not None:
        got = perturbed(ctx, c, init, K, tuple(pert))
        if got is None:
            return dict(skip=True)
        c, init, K = got
    nep = cfg[3]
    if mode == "direct":
        params = [_R(x) for x in init] + ([_R(k) for k in K] if nep else [])
        try:
            f = list((numsys or ctx.fresh_numsys(cfg)).f(transform_exact(tr, c), params))
        except Exception as e:
            return dict(exc="EXC %s" % type(e).__name__)
        if pert is None:
            z = [zero_class(e) for e in f]
        else:
            z = [None if is_nonzero(e) else "zero" for e in f]
        return dict(n=len(f), zero=z, vals=_Lazy(lambda: [str(e)[:60] for e in f]))
    n, fn, exc = ctx.lam(cfg)
    if exc:
        return dict(exc=exc)
    with mp.workdps(50):
        args = transform_mp(tr, c) + [mp.mpf(x.numerator) / x.denominator for x in init]
        if nep:
            args += [mp.mpf(k.numerator) / k.denominator for k in K]
        try:
            vals = fn(*args)
        except Exception as e:
            return dict(exc="EXC %s" % type(e).__name__)
        tol = mp.mpf(ZERO_TOL)
        z = ["numeric" if abs(v) <= tol else None for v in vals]
        return dict(n=len(vals), zero=z, vals=_Lazy(lambda: [mp.nstr(v, 8) for v in vals]))


def check_one(res, ctx, cfg, tr, xi, scale, pert, mode):
    """evaluate + compare with the model; records outcome classes and violations.  Returns True when it held."""
    case = dict(layer="f", idx=list(ctx.idx), order=ctx.order, variant=ctx.variant, cfg=list(cfg), tr=tr, xi=list(xi), scale=scale,
                pert=list(pert) if pert else None, mode=mode, kinv=ctx.kinv)
    site = "%s|re=%d,rp=%d,nep=%d|%s" % (cfg[0], cfg[1], cfg[2], cfg[3], mode)
    o = evaluate(ctx, cfg, tr, xi, scale, pert, mode)
    if o.get("skip"):
        res.outcomes["pert-skipped(K=1)"] += 1
        return True
    res.evaluations += 1
    what_sys = "%s order=%s c*#%d xi=%s*%s" % ("+".join(M.TAGS[i] for i in ctx.idx), ctx.order, ctx.variant, list(xi), scale)
    if "exc" in o:
        res.outcomes[o["exc"]] += 1
        res.violation("C07|%s|raises" % site, "NumSys%s.f raised %s for %s (pert=%s)" % (cfg[0], o["exc"], what_sys, pert), case, o["exc"], "residual vector")
        return False
    ok = True
    want = expected_len(ctx, cfg)
    if o["n"] != want:
        ok = False
        res.outcomes["len-WRONG"] += 1
        res.violation("C07|%s|equation-count" % site, "NumSys%s.f returns %d equations for %s; nr + conservation relations = %d" % (cfg[0], o["n"], what_sys, want), case, o["n"], want)
    if pert is None and ctx.kinv is None:
        bad = [k for k, z in enumerate(o["zero"]) if z is None]
        if bad:
            ok = False
            res.outcomes["NONZERO-at-equilibrium"] += 1
            blocks = sorted({"equil" if k < ctx.nr else "preserv" for k in bad})
            res.violation("C07|%s|nonzero-at-equilibrium|%s" % (site, "+".join(blocks)),
                          "NumSys%s.f(%s(c*)) component(s) %s = %s, must vanish at the equilibrium state of %s"
                          % (cfg[0], tr, bad, [o["vals"][k] for k in bad], what_sys), case, [o["vals"][k] for k in bad], "0 in every component")
        else:
            for z in sorted(set(o["zero"])):
                res.outcomes["zero:%s:%s" % (mode, z)] += 1
    else:
        nz = [k for k, z in enumerate(o["zero"]) if z is None]
        kind = pert[0] if pert else "stored-K-inverted"
        if not nz:
            ok = False
            res.outcomes["pert:%s:ALL-ZERO" % kind] += 1
            res.violation("C07|%s|zero-off-equilibrium|%s" % (site, kind),
                          "NumSys%s.f vanishes in every component at a state violating the conditions (%s %s) of %s"
                          % (cfg[0], kind, pert[1] if pert else ctx.kinv, what_sys), case, "all components zero", "at least one non-zero component")
        else:
            blocks = sorted({"equil" if k < ctx.nr else "preserv" for k in nz})
            res.outcomes["pert:%s:nonzero-in-%s" % (kind, "+".join(blocks))] += 1
    return ok


def check_history(res, ctx, cfg, tr):
    """ONE EqSystem / NumSys instance evaluated repeatedly with different constants (the way a solver calls it while K is
    varied): at c* with the true K (must vanish), with each K_i inverted in turn (must not vanish), and with the true K
    again (must vanish again).  The whole sequence is one case, replayed as a sequence."""
    if not cfg[3]:
        return True
    nr = ctx.nr
    steps = [None] + [("K-inverted", i) for i in range(nr) if ctx.K[i] != 1] + [None]
    case = dict(layer="H", idx=list(ctx.idx), order=ctx.order, variant=ctx.variant, cfg=list(cfg), tr=tr, kinv=None)
    site = "%s|re=%d,rp=%d,nep=%d|same-instance" % (cfg[0], cfg[1], cfg[2], cfg[3])
    ns = ctx.fresh_numsys(cfg)
    res.states += 1
    res.transitions += len(steps)
    res.nontrivial += 1
    for n, pert in enumerate(steps):
        o = evaluate(ctx, cfg, tr, (0,) * nr, "milli", pert, "direct", numsys=ns)
        res.evaluations += 1
        if o.get("skip"):
            continue
        if "exc" in o:
            res.violation("C07|%s|raises" % site, "evaluation %d of %r on one instance raised %s" % (n, steps, o["exc"]), case, o["exc"], None)
            return False
        nz = [k for k, z in enumerate(o["zero"]) if z is None]
        if pert is None and nz:
            res.outcomes["HISTORY-nonzero-at-equilibrium"] += 1
            res.violation("C07|%s|nonzero-at-equilibrium-after-other-constants" % site, "after evaluating the same instance with other constants (%r), f(c*, true K) = %s in components %s" % (
                steps[:n], [o["vals"][k] for k in nz], nz), case, [o["vals"][k] for k in nz], "0")
            return False
        if pert is not None and not nz:
            res.outcomes["HISTORY-zero-off-equilibrium"] += 1
            res.violation("C07|%s|zero-off-equilibrium-stale-constants" % site, "evaluation %d (%r) on an instance already evaluated with the true K vanishes in every component" % (n, pert), case, "all zero", "non-zero")
            return False
    # the substances of the same system object re-ordered in place: concentrations are then given in the new order
    try:
        es = ns.eqsys
        es.sort_substances_inplace(key=lambda kv: tuple(-ord(ch) for ch in kv[0]))
        order = list(es.substances)
        c_new = [ctx.cstar[n] for n in order]
        init_new = dict(zip(ctx.names, ctx.init((1,) * nr, "milli")))  # (a non-zero extent: with init == c* any matrix would do)
        params = [_R(init_new[n]) for n in order] + [_R(k) for k in ctx.K]
        f = list(ns.f(transform_exact(tr, c_new), params))
        res.evaluations += 1
        nz = [k for k, e in enumerate(f) if zero_class(e) is None]
        if len(f) != expected_len(ctx, cfg) or nz:
            res.outcomes["HISTORY-reorder-WRONG"] += 1
            res.violation("C07|%s|after-reordering-substances-in-place" % site, "after sort_substances_inplace() on the evaluated system (order %s): %d equations (expected %d), non-zero components %s at c*" % (
                order, len(f), expected_len(ctx, cfg), [str(f[k])[:50] for k in nz]), dict(case, what="reorder"), [str(e)[:50] for e in f], "0 in each of %d components" % expected_len(ctx, cfg))
            return False
    except Exception as e:
        res.outcomes["HISTORY-reorder-raises"] += 1
        res.violation("C07|%s|after-reordering-substances-in-place" % site, "evaluation after sort_substances_inplace() raised %s: %s" % (type(e).__name__, str(e)[:100]), dict(case, what="reorder"), "EXC %s" % type(e).__name__, None)
        return False
    res.outcomes["history-ok"] += 1
    return True


# --------------------------------------------------------------------------------------------- what the root finder is offered
OFFER_TYPES = ("static_conditions", "chained_conditional", "conditional_chained")
OFFER_CHAINS = (("Log",), ("Lin",), ("Log", "Lin"), ("Lin", "Log"), ("Square", "Log"))
# (new_eq_params is an option of the get_neqsys_<type> methods themselves: get_neqsys hands on the two rref flags only)
OFFER_FLAGS = ({}, {"rref_preserv": True}, {"rref_equil": True}, {"rref_equil": True, "rref_preserv": True}, {"new_eq_params": False}, {"new_eq_params": False, "rref_preserv": True})


def offer_sequences(tier):
    """sequences of get_neqsys requests made one after the other in ONE process (flags set in one request must not
    carry over to the next): every ordered pair of flag settings x neqsys type, for a few chains"""
    out = []
    for ntype in OFFER_TYPES:
        for chain in OFFER_CHAINS:
            for fa, fb in itertools.permutations(range(len(OFFER_FLAGS)), 2):
                if tier == "quick" and len(chain) == 1 and (fa, fb) not in ((1, 0), (2, 0), (3, 0), (0, 3), (4, 0), (0, 4), (5, 4)):
                    continue
                out.append([[ntype, list(chain), fa], [ntype, list(chain), fb]])
    return out


def seq_offered(idx, order, variant, seq):
    """(own interpreter) for every request of `seq`: per stage of the returned system the number of equations and the
    largest |residual| at the transformed equilibrium state c* (50 digits)"""
    import sympy as sp

    ctx = Ctx(tuple(idx), order, variant)
    out = []
    for ntype, chain, fi in seq:
        flags = dict(OFFER_FLAGS[fi])
        try:
            with warnings.catch_warnings():
                warnings.simplefilter("ignore")
                if "new_eq_params" in flags:
                    neq = getattr(ctx._mk_eqsys(), "get_neqsys_" + ntype)(NumSys=tuple(_numsys(c) for c in chain), **flags)
                else:
                    neq = ctx._mk_eqsys().get_neqsys(ntype, NumSys=tuple(_numsys(c) for c in chain), **flags)
                if ntype == "conditional_chained":
                    stages = list(neq.neqsys_factory(()).neqsystems)
                elif ntype == "chained_conditional":
                    stages = [st.neqsys_factory(()) for st in neq.neqsystems]
                else:
                    stages = list(neq.neqsystems)
            obs = []
            for st, cname in zip(stages, chain):
                tr = TRANSFORMS[cname][0]
                xs = transform_exact(tr, ctx.cvec())
                ps = [_R(x) for x in ctx.init((0,) * ctx.nr, "milli")] + ([_R(k) for k in ctx.K] if flags.get("new_eq_params", True) else [])
                if len(ps) != len(st.params):
                    raise ValueError("%d parameters, expected %d" % (len(st.params), len(ps)))
                sub = dict(zip(st.x, xs))
                sub.update(dict(zip(st.params, ps)))
                worst = max([abs(sp.N(sp.sympify(e).subs(sub), 50)) for e in st.exprs] or [0])
                obs.append([int(st.nf), bool(worst <= sp.Float(ZERO_TOL)), str(sp.N(worst, 6))])
            out.append(obs)
        except Exception as e:
            out.append("EXC %s: %s" % (type(e).__name__, str(e)[:80]))
    return out


def check_offered(res, ctx, seq):
    from mc import isolated

    got = isolated.run("mc.checks.c07", "seq_offered", [list(ctx.idx), ctx.order, ctx.variant, seq])
    for n, ((ntype, chain, fi), obs) in enumerate(zip(seq, got)):
        res.states += 1
        res.transitions += 1
        res.evaluations += 1
        res.nontrivial += 1
        flags = OFFER_FLAGS[fi]
        case = dict(layer="G", idx=list(ctx.idx), order=ctx.order, variant=ctx.variant, seq=seq, step=n, kinv=None)
        want = ctx.nr + (ctx.rankB if flags.get("rref_preserv") else len(ctx.keys))
        site = "get_neqsys|%s|%s|%s" % (ntype, "+".join(chain), ",".join(sorted(flags)) or "no-flags")
        hist = "" if n == 0 else " after a request with %s" % (",".join(sorted(OFFER_FLAGS[seq[n - 1][2]])) or "no flags")
        if isinstance(obs, str):
            res.outcomes["offered-RAISES"] += 1
            res.violation("C07|%s|raises" % site, "get_neqsys(%r, %s, %r)%s raised %s" % (ntype, chain, flags, hist, obs), case, obs, None)
            continue
        bad = None
        if len(obs) != len(chain):
            bad = ("stages", "%d stages for a chain of %d formulations" % (len(obs), len(chain)))
        else:
            for cname, (nf, zero, worst) in zip(chain, obs):
                if nf != want:
                    bad = ("equation-count", "stage %s has %d equations, nr + conservation relations = %d" % (cname, nf, want))
                    break
                if not zero:
                    bad = ("stage-not-the-requested-formulation", "stage %s does not vanish at %s(c*): |f| up to %s" % (cname, TRANSFORMS[cname][0], worst))
                    break
        res.outcomes["offered-ok" if bad is None else "offered-WRONG"] += 1
        if bad:
            res.violation("C07|%s|%s%s" % (site, bad[0], "|after-other-request" if n else ""), "get_neqsys(%r, %s, %r)%s for %s: %s" % (
                ntype, chain, flags, hist, "+".join(M.TAGS[i] for i in ctx.idx), bad[1]), case, obs, want)


def check_quotients(res, ctx):
    """EqSystem.equilibrium_quotients against the model: == K at c*, != K_i exactly for the reactions a doubled species takes part in"""
    site = "equilibrium_quotients"
    case = dict(layer="Q", idx=list(ctx.idx), order=ctx.order, variant=ctx.variant)
    states = [(None, ctx.cvec())] + [(j, [2 * c if k == j else c for k, c in enumerate(ctx.cvec())]) for j in range(ctx.ns)]
    ok = True
    for j, c in states:
        res.evaluations += 1
        want = [M.quotient(M.POOL[i], dict(zip(ctx.names, c))) for i in ctx.idx]
        try:
            got = ctx.eqsys.equilibrium_quotients([_R(x) for x in c])
            got = [Fr(int(g.p), int(g.q)) for g in got]
        except Exception as e:
            got = "EXC %s" % type(e).__name__
        if got != want:
            ok = False
            res.outcomes["Q-WRONG"] += 1
            res.violation("C07|%s|value" % site, "equilibrium_quotients(%s) = %s, mass-action quotients are %s (%s, doubled species %s)"
                          % ([str(x) for x in c], got, [str(w) for w in want], "+".join(M.TAGS[i] for i in ctx.idx), j), dict(case, j=j), str(got), [str(w) for w in want])
        else:
            eqK = sum(1 for w, k in zip(want, ctx.K) if w == k)
            res.outcomes["Q-exact:%s" % ("all==K" if eqK == ctx.nr else "some!=K")] += 1
    return ok


def check_conservation(res, ctx, xi, scale):
    """EqSystem.composition_conservation(c*, init): keys, both total vectors (floats, rel. 1e-12 of the term magnitudes)"""
    import numpy as np

    res.evaluations += 1
    c, init = ctx.cvec(), ctx.init(xi, scale)
    case = dict(layer="cons", idx=list(ctx.idx), order=ctx.order, variant=ctx.variant, xi=list(xi), scale=scale)
    want = M.totals(ctx.names, c)
    assert want == M.totals(ctx.names, init)  # model sanity: balanced reactions keep totals
    mag = {k: sum(abs(M.COMPOSITION[n].get(k, 0) * x) for n, x in zip(ctx.names, init)) + 1 for k in ctx.keys}
    try:
        keys, a, b = ctx.eqsys.composition_conservation(dict(zip(ctx.names, map(float, c))), dict(zip(ctx.names, map(float, init))))
        keys = [int(k) for k in keys]
        a, b = [float(x) for x in np.asarray(a).ravel()], [float(x) for x in np.asarray(b).ravel()]
        good = keys == ctx.keys and len(a) == len(b) == len(keys) and all(
            abs(x - float(want[k])) <= 1e-12 * float(mag[k]) and abs(y - float(want[k])) <= 1e-12 * float(mag[k]) for k, x, y in zip(keys, a, b))
        got = dict(keys=keys, concs=a, init=b)
    except Exception as e:
        good, got = False, "EXC %s" % type(e).__name__
    if not good:
        res.outcomes["conservation-WRONG"] += 1
        res.violation("C07|composition_conservation|value", "composition_conservation(c*, init) = %s; totals are %s for %s xi=%s*%s"
                      % (got, {k: str(v) for k, v in want.items()}, "+".join(M.TAGS[i] for i in ctx.idx), list(xi), scale), case, got, {str(k): float(v) for k, v in want.items()})
    else:
        res.outcomes["conservation-ok"] += 1
    return good


# --------------------------------------------------------------------------------------------- chunks
def run_chunk(chunk, tier):
    if chunk[0] == "UB":
        res = Result()
        check_unbalanced_admission(res)
        return res
    if chunk[0] == "BG":
        res = Result()
        run_big(res, chunk[1], chunk[2])
        return res
    if chunk[0] == "EX":
        res = Result()
        for ia, ib in EXT_PAIRS:
            for ns_name in NUMSYS:
                for rp in (0, 1):
                    check_extended(res, ia, ib, ns_name, rp)
                    if ns_name == "Lin":
                        for how in ("list", "tuple", "generator", "map", "iterator"):
                            check_extended(res, ia, ib, ns_name, rp, how)
        res.sample(dict(layer="EX", pairs=[["+".join(M.TAGS[i] for i in a), "+".join(M.TAGS[i] for i in b)] for a, b in EXT_PAIRS]), limit=1)
        return res
    if chunk[0] == "G":
        res = Result()
        idx, order = OFFER_SYSTEMS[chunk[1]]
        ctx = Ctx(idx, order, 0)
        seqs = offer_sequences(tier)
        # all requests of this chunk are made one after the other in ONE fresh process (a long history of requests):
        # whatever one request leaves behind shows up in a later one
        flat = [req for k, seq in enumerate(seqs) if k % 4 == chunk[2] for req in seq]
        check_offered(res, ctx, flat)
        res.sample(dict(layer="G", system=[M.TAGS[i] for i in idx], sequences=len(seqs), example=seqs[0]), limit=1)
        return res
    idx, order = chunk
    b = bounds(tier)
    res = Result()
    nr = len(idx)
    exts = extents(nr, b["scales"])
    for i in idx:
        res.symbols["rxn:" + M.TAGS[i]] += 1
    res.symbols["order:" + order] += 1
    res.symbols["nr:%d" % nr] += 1
    for variant in (b["cstar_variants"] if not light(tier, nr) else [0, 1]):
        ctx = Ctx(idx, order, variant)
        res.symbols["cstar:%d" % variant] += 1
        res.extra["max_species"] = max(res.extra.get("max_species", 0), ctx.ns)
        res.extra["max_equations"] = max(res.extra.get("max_equations", 0), ctx.nr + len(ctx.keys))
        res.symbols["balance-matrix:" + ("rank-deficient" if ctx.rankB < len(ctx.keys) else "full-rank")] += 1
        if any(k == 1 for k in ctx.K):
            res.symbols["K==1"] += 1
        check_quotients(res, ctx)
        perts = perturbations(ctx)
        for xi, scale in exts:
            res.states += 1
            res.transitions += sum(1 for x in xi if x)
            if any(xi):
                res.nontrivial += 1
            init = ctx.init(xi, scale)
            res.symbols["scale:" + scale] += 1
            res.symbols["init:" + ("all-positive" if min(init) > 0 else "has-nonpositive-component")] += 1
            check_conservation(res, ctx, xi, scale)
        for cfg in configs(tier, nr):
            pl = plan(tier, nr, variant, cfg, b["scales"])
            res.symbols["NumSys:" + cfg[0]] += 1
            res.symbols["rref_equil:%s" % cfg[1]] += 1
            res.symbols["rref_preserv:%s" % cfg[2]] += 1
            res.symbols["new_eq_params:%s" % cfg[3]] += 1
            for tr in TRANSFORMS[cfg[0]]:
                res.symbols["transform:" + tr] += 1
                check_history(res, ctx, cfg, tr)
                for e in exts:
                    xi, scale = e
                    for mode, zkey, pkey in (("direct", "direct_zero", "direct_pert"), ("symbolic", "sym_zero", "sym_pert")):
                        if e in pl[zkey]:
                            res.symbols["mode:" + mode] += 1
                            check_one(res, ctx, cfg, tr, xi, scale, None, mode)
                        if e in pl[pkey]:
                            for pert in perts:
                                if pert[0] == "K-inverted" and not cfg[3]:
                                    continue  # constants are not parameters in this configuration: see stored-K pass below
                                res.symbols["pert:%s:%s" % (mode, pert[0])] += 1
                                check_one(res, ctx, cfg, tr, xi, scale, pert, mode)
        # new_eq_params=False reads K from the system: a system storing an inverted K_i must not vanish at c*
        for kinv in range(ctx.nr):
            if ctx.K[kinv] == 1:
                continue
            ctx2 = Ctx(idx, order, variant, kinv=kinv)
            for cfg in configs(tier, nr):
                if cfg[3]:
                    continue
                for tr in TRANSFORMS[cfg[0]]:
                    for mode in plan(tier, nr, variant, cfg, b["scales"])["stored_k_modes"]:
                        res.symbols["pert:%s:stored-K-inverted" % mode] += 1
                        check_one(res, ctx2, cfg, tr, (0,) * nr, "milli", None, mode)
        if variant == 0:
            res.sample(dict(system=[M.TAGS[i] for i in idx], order=order, species=ctx.names, cstar=[str(c) for c in ctx.cvec()],
                            K=[str(k) for k in ctx.K], equations=ctx.nr + len(ctx.keys), rank_balance=ctx.rankB), limit=1)
    return res


# --------------------------------------------------------------------------------------------- replay
def replay(case):
    res = Result()
    layer = case.get("layer")
    if layer == "EX":
        res = Result()
        check_extended(res, tuple(case["ia"]), tuple(case["ib"]), case["ns"], case["rp"], case.get("how", "system"))
        v = res.violations
        return dict(key=v[0]["key"], what=v[0]["what"], observed=v[0]["observed"], expected=v[0]["expected"]) if v else None
    if layer == "UB":
        sub = Result()
        check_unbalanced_admission(sub)
        vs = [v for v in sub.violations if v["case"] == case]
        return dict(key=vs[0]["key"], what=vs[0]["what"], observed=vs[0]["observed"], expected=vs[0]["expected"]) if vs else None
    ctx = Ctx(tuple(case["idx"]), case["order"], case["variant"], kinv=case.get("kinv"))
    if layer == "f":
        check_one(res, ctx, tuple(case["cfg"]), case["tr"], tuple(case["xi"]), case["scale"], tuple(case["pert"]) if case.get("pert") else None, case["mode"])
    elif layer == "G":
        sub = Result()
        check_offered(sub, ctx, case["seq"])
        res.violations = [v for v in sub.violations if v["case"]["step"] == case["step"]]
    elif layer == "H":
        check_history(res, ctx, tuple(case["cfg"]), case["tr"])
    elif layer == "Q":
        check_quotients(res, ctx)
    elif layer == "cons":
        check_conservation(res, ctx, tuple(case["xi"]), case["scale"])
    else:
        raise ValueError(layer)
    if res.violations:
        v = res.violations[0]
        return dict(key=v["key"], what=v["what"], observed=v["observed"], expected=v["expected"])
    return None

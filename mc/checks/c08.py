"""C08 — reported equilibrium compositions are genuine whenever the solver claims success and a sane result.

State space (DESIGN.md §3 C08), a product lattice swept completely:
  system   single homogeneous equilibria, water + one, water + two (thorough: + three) equilibria from the pool of
           mc/ref/eqmodel.py
  K        literature log10 K shifted by {-2, 0, +2} per non-water reaction (quick: one non-default shift at a time for
           three-reaction systems)
  init     every point of a concentration lattice over all non-solvent species (H2O fixed at 55.5), strictly positive
  solver   EqSystem.root with chains (Log,), (Lin,), (Log, Lin) x rref_preserv {False, True (single-formulation chains)};
           EqSystem.solve over the same lattice given as a `varied` grid (its fixed default chain);
           chempy._equilibrium.solve_equilibrium (brentq) for single-equilibrium systems
  precipitation: the NaCl(s) system written as dissolution and as precipitation, Ksp in {4, 1}, init in
           {0, .5, 1, 2, 3}^3 \\ {0}, root with three chains x two option sets, and solve
Oracle (from the statement), applied to every run that reports `success and sane`:
  x >= 0;  |B x - B init| <= 1e-6 * (|B| max(|init|,|x|)) for every element and charge;  |Q_i / K_i - 1| <= 1e-6;
  precipitation: IP meets Ksp (solid >= 0) or the solid is absent (<= 1e-9) and IP <= Ksp (1 + 1e-6).
Liveness: in every chunk (>= 20 strictly positive homogeneous cases) the default chains — root's (Log,) and
solve's (Log, Lin) — claim success+sane in at least 19 of 20 cases.  Single-equilibrium results agree with brentq.
"""
import itertools
import math

from mc.core import Result
from mc.ref import eqmodel as M

META = dict(
    title="Reported equilibrium compositions are genuine whenever the solver claims success",
    level="model_checking",
    technique="bounded-exhaustive product-lattice sweep (systems x K decades x initial-composition lattice x solver chains x "
    "entry points) executed on the real EqSystem.root/solve/solve_equilibrium; every claimed success+sane result is checked "
    "against the defining equations (non-negativity, element/charge totals, Q=K, solubility product) of a reference model",
    rule="states = distinct (system, K shifts, initial composition) lattice points; non-trivial = states for which at least one "
    "solver run claimed success+sane (the conditional oracle applied); evaluations = solver runs judged",
    assumptions=[
        "values are covered on the stated finite lattice only (real-valued quantifier): concentrations and constants between lattice points are outside the bound",
        "scipy.optimize (root/brentq), pyneqsys and numpy are the trusted environment; their answers are observed through chempy",
        "tolerances fixed in the check: 1e-6 relative on totals and Q/K (100 x pyneqsys' default tol 1e-8); brentq agreement 1e-6 relative + 1e-11 absolute (5 x brentq's xtol)",
        "systems with more than three (thorough: four) equilibria / more than 9 species are outside the bound",
    ],
    design_ref="DESIGN.md §3 C08",
    hashseed_sensitive=False,
)

RTOL = 1e-6
ATOL_TOTALS = 1e-13  # mol/dm3
GROSS = 1e-3  # violations are keyed separately as marginal (1e-6 < rel. error <= 1e-3) and gross (> 1e-3)
SOLID_ABSENT = 1e-9
H2O = 55.5
L3 = [1e-2, 1e-4, 1e-6]
L2 = [1e-2, 1e-5]
L5 = [1e-2, 1e-4, 1e-6, 1e-7, 1e-9]
L4 = [1e-1, 1e-3, 1e-5, 1e-7]
CHAINS = [("Log",), ("Lin",), ("Log", "Lin")]
ROOT_CONFIGS = [(("Log",), False), (("Lin",), False), (("Log", "Lin"), False), (("Log",), True), (("Lin",), True)]
DEFAULT_RUNS = ("root|Log|rp=0", "solve|Log+Lin|rp=0")
PRECIP_LATTICE = [0.0, 0.5, 1.0, 2.0, 3.0]
KSPS = [4.0, 1.0]
PRECIP_OPTIONS = {"default": None, "rrefp+tol": dict(rref_preserv=True, tol=1e-12), "rrefe": dict(rref_equil=True)}
ORIENTATIONS = ["dissolution", "precipitation"]  # NaCl(s) = Na+ + Cl- ; K = Ksp   |   Na+ + Cl- = NaCl(s) ; K = 1/Ksp


def systems(tier):
    """(tags, lattice, kshift-mode) in order simplest first"""
    q = tier == "quick"
    out = [(("water",), L5, "none")]
    singles = ["nh4", "hac", "cunh3", "cr2o7", "agnh3d"] + ([] if q else ["agnh3", "h2co3", "hco3"])
    out += [((t,), L3 if q else L5, "full") for t in singles]
    pairs = ["nh4", "hac", "h2co3", "hco3", "cr2o7"]
    out += [(("water", t), L3 if q else L4, "full") for t in pairs]
    out += [(("water", "cunh3"), L2 if q else L3, "full")]
    if not q:
        out += [(("water", "agnh3"), L3, "full")]
    triples = [("water", "h2co3", "hco3"), ("water", "nh4", "cunh3"), ("water", "nh4", "hac")]
    if not q:
        triples += [("water", "nh4", "agnh3"), ("water", "hac", "cr2o7"), ("water", "nh4", "h2co3"), ("water", "cunh3", "agnh3"),
                    ("water", "hco3", "cr2o7"), ("water", "hac", "h2co3")]
    out += [(t, L2, "one" if q else "full") for t in triples]
    if not q:
        out += [(t, L2, "one") for t in (("water", "nh4", "h2co3", "hco3"), ("water", "nh4", "cunh3", "hac"))]
    return out


def kshifts(tags, mode):
    free = [i for i, t in enumerate(tags) if t != "water"]
    if mode == "none" or not free:
        return [tuple(0 for _ in tags)]
    out = []
    for combo in itertools.product((0, -2, 2), repeat=len(free)):
        if mode == "one" and sum(1 for c in combo if c) > 1:
            continue
        sh = [0] * len(tags)
        for i, c in zip(free, combo):
            sh[i] = c
        out.append(tuple(sh))
    return out


def bounds(tier):
    return dict(
        systems=[dict(system=list(t), lattice=l, K_shifts=len(kshifts(t, m))) for t, l, m in systems(tier)],
        H2O=H2O, root_configs=["%s rref_preserv=%s" % ("+".join(c), rp) for c, rp in ROOT_CONFIGS], solve="default chain, varied grid",
        brentq="single-equilibrium systems", precipitation=dict(lattice=PRECIP_LATTICE, Ksp=KSPS, written_as=ORIENTATIONS, chains=["+".join(c) for c in CHAINS],
                                                               options=["default", "rref_preserv=True, tol=1e-12", "rref_equil=True"], solve="default chain, single points"),
        rtol=RTOL, solid_absent=SOLID_ABSENT, liveness="per chunk, default chains, >= 19/20",
    )


def chunks(tier):
    out = []
    for tags, latt, mode in systems(tier):
        for sh in kshifts(tags, mode):
            out.append(("H", tags, tuple(latt), sh))
    for orient in ORIENTATIONS:
        for ksp in KSPS:
            for a in range(len(PRECIP_LATTICE)):
                out.append(("P", orient, ksp, a))
    out += [("HR", i) for i in range(len(MUT_SYSTEMS))]
    out += [("PN", orient) for orient in ORIENTATIONS]
    out += [("GV", i) for i in range(len(GV_SYSTEMS))]
    out += [("PT", orient) for orient in ORIENTATIONS]
    out += [("WS", i) for i in range(len(WS_SYSTEMS))]
    out += [("BG",), ("DS",)]
    return out


# --------------------------------------------------------------------------------------------- model side
def _idx(tags):
    return [M.TAGS.index(t) for t in tags]


def kvalues(tags, shifts):
    return [10.0 ** (M.POOL[i][3] + s) for i, s in zip(_idx(tags), shifts)]


def judge(names, idx, K, init, x):
    """the defining equations on a returned vector: (sorted failure kinds, magnitudes)"""
    import numpy as np

    x = np.asarray(x, dtype=float).ravel()
    init = np.asarray(init, dtype=float).ravel()
    if x.shape != init.shape or not np.all(np.isfinite(x)):
        return ["non-finite"], {}
    kinds = set()
    mags = dict(min_x=float(x.min()), cons=0.0, q=0.0)
    if np.any(x < 0):
        kinds.add("negative")
    B, keys = M.balance_matrix(names)
    for row, k in zip(B, keys):
        row = np.asarray(row, dtype=float)
        # magnitude of the terms summed at either state (species formed from the solvent can exceed their initial amount by decades)
        t0, t1, mag = float(row @ init), float(row @ x), float(np.abs(row) @ np.maximum(np.abs(init), np.abs(x)))
        # (absolute floor: the solver's convergence tolerance is absolute, 1e-8 in residual units; a total of a few nM is
        # returned to ~1e-14 M, which is 1e-6 of the requested tolerance but can exceed 1e-6 of the total itself)
        rel = max(0.0, abs(t1 - t0) - ATOL_TOTALS) / mag if mag > 0 else (0.0 if t1 == t0 else float("inf"))
        mags["cons"] = max(mags["cons"], rel)
        if rel > RTOL:
            kinds.add("totals" if rel > GROSS else "totals(<1e-3)")
        if k != 0 and np.any(row * x > t0 * (1 + RTOL) + 1e-300):
            kinds.add("exceeds-element-total")
    for i, k in zip(idx, K):
        row = M.stoich_row(M.POOL[i], names)
        part = [(nu, xj) for nu, xj in zip(row, x) if nu]
        if any(xj <= 0 for _, xj in part):
            err = float("inf")
        else:
            err = abs(math.expm1(sum(nu * math.log(xj) for nu, xj in part) - math.log(k)))
        mags["q"] = max(mags["q"], err)
        if err > RTOL:
            kinds.add("Q!=K" if err > GROSS else "Q!=K(<1e-3)")
    for k in ("totals", "Q!=K"):  # one class per quantity: the gross one wins
        if k in kinds:
            kinds.discard(k + "(<1e-3)")
    return sorted(kinds), mags


def judge_precip(init, x, KSP, scale=1.0):
    """scale: the concentration scale of the problem (the 'solid absent' threshold is relative to it)"""
    import numpy as np

    x = np.asarray(x, dtype=float).ravel()
    init = np.asarray(init, dtype=float).ravel()
    if x.shape != (3,) or not np.all(np.isfinite(x)):
        return ["non-finite"], {}
    na, cl, solid = x
    kinds = set()
    if np.any(x < 0):
        kinds.add("negative")
    mags = dict(min_x=float(x.min()), cons=0.0)
    for row in ([1, 0, 1], [0, 1, 1], [1, -1, 0]):  # Na, Cl, charge
        row = np.asarray(row, dtype=float)
        mag = float(np.abs(row) @ np.maximum(np.abs(init), np.abs(x)))
        rel = abs(float(row @ x) - float(row @ init)) / mag if mag > 0 else (0.0 if float(row @ x) == 0 else float("inf"))
        mags["cons"] = max(mags["cons"], rel)
        if rel > RTOL:
            kinds.add("totals")
    ip = na * cl
    mags["ip_over_ksp"] = float(ip / KSP)
    met = abs(ip / KSP - 1) <= RTOL
    if solid > SOLID_ABSENT * scale:
        if not met:
            kinds.add("solid-present-IP!=Ksp")
    elif not (met or ip <= KSP * (1 + RTOL)):
        kinds.add("solid-absent-IP>Ksp")
    return sorted(kinds), mags


# --------------------------------------------------------------------------------------------- implementation side
def _numsys(chain):
    from chempy.equilibria import NumSysLin, NumSysLog

    return tuple({"Lin": NumSysLin, "Log": NumSysLog}[c] for c in chain)


def build(tags, shifts):
    from chempy import Equilibrium, Species
    from chempy.equilibria import EqSystem

    idx = _idx(tags)
    names = M.species_of(idx)
    K = kvalues(tags, shifts)
    es = EqSystem([Equilibrium(dict(M.POOL[i][1]), dict(M.POOL[i][2]), k) for i, k in zip(idx, K)], [Species.from_formula(n) for n in names])
    return es, names, idx, K


def build_precip(orient, KSP):
    from chempy import Equilibrium, Species
    from chempy.equilibria import EqSystem

    subs = [Species("Na+", 1, composition={11: 1}), Species("Cl-", -1, composition={17: 1}), Species("NaCl", composition={11: 1, 17: 1}, phase_idx=1)]
    if orient == "dissolution":
        eq = Equilibrium({"NaCl": 1}, {"Na+": 1, "Cl-": 1}, KSP)
    else:
        eq = Equilibrium({"Na+": 1, "Cl-": 1}, {"NaCl": 1}, 1.0 / KSP)
    return EqSystem([eq], subs), ["Na+", "Cl-", "NaCl"]


def run_root(es, names, init, chain, rp, extra=None):
    """-> (x or None, success, sane, exc)"""
    import numpy as np

    kw = dict(extra or {})
    if rp:
        kw["rref_preserv"] = True
    try:
        x, sol, sane = es.root(dict(zip(names, init)), NumSys=_numsys(chain), **kw)
        return np.asarray(x, dtype=float), bool(sol["success"]), bool(sane), None
    except Exception as e:
        return None, False, False, "EXC %s" % type(e).__name__


def _claim(success, sane, exc):
    if exc:
        return exc
    return {(True, True): "success+sane", (True, False): "success,not-sane", (False, True): "failed,sane", (False, False): "failed,not-sane"}[(success, sane)]


def _record(res, run, what_sys, case, claim, kinds, mags, x):
    """one judged solver run; returns True when the conditional guarantee held"""
    res.evaluations += 1
    if claim != "success+sane":
        res.outcomes["%s:%s" % (run, claim)] += 1
        return True
    if not kinds:
        res.outcomes["%s:success+sane:genuine" % run] += 1
        for k in ("cons", "q"):
            if k in mags:
                kk = "max_%s_err_accepted_in_1e-12" % k  # the runner rounds extras to 6 decimals: report in units of 1e-12
                res.extra[kk] = max(res.extra.get(kk, 0.0), round(mags[k] * 1e12, 3))
        return True
    res.outcomes["%s:success+sane:NOT-GENUINE(%s)" % (run, "+".join(kinds))] += 1
    res.violation(_key(run, kinds),
                  "%s claims success and a sane result for %s but the returned concentrations %s violate: %s (%s)"
                  % (run, what_sys, [float("%.6g" % v) for v in x], ", ".join(kinds), ", ".join("%s=%.3g" % kv for kv in sorted(mags.items()))),
                  case, dict(x=[float(v) for v in x], kinds=kinds, mags=mags), "non-negative, same element/charge totals (rel 1e-6), Q=K (rel 1e-6)")
    return False


def _key(run, kinds):
    """violation class: entry point and chain (not the rref option), the insanity flags, and one severity word for the
    defining equations: 'violated' (rel. error > 1e-3) or 'off-by<1e-3' (1e-6 < rel. error <= 1e-3)"""
    entry, chain = run.split("|")[:2]
    flags = [k for k in kinds if k in ("negative", "exceeds-element-total", "non-finite")]
    rest = [k for k in kinds if k not in flags]
    if any(not k.endswith("(<1e-3)") for k in rest):
        flags.append("defining-equations-violated")
    elif rest:
        flags.append("defining-equations-off-by<1e-3")
    return "C08|%s|%s|success+sane|%s" % (entry, chain, "+".join(flags))


def lattice_points(names, latt):
    free = [n for n in names if n != "H2O"]
    for vals in itertools.product(latt, repeat=len(free)):
        d = dict(zip(free, vals))
        yield [H2O if n == "H2O" else d[n] for n in names]


def homogeneous_case(res, es, names, idx, K, tags, shifts, init, solve_obs, live, latt=None, ind=None):
    """all solver runs for one lattice point"""
    import numpy as np

    what_sys = "%s logK-shifts=%s init=%s" % ("+".join(tags), list(shifts), dict(zip(names, init)))
    base = dict(layer="H", tags=list(tags), shifts=list(shifts), init=[float(v) for v in init], latt=list(latt or []), ind=list(ind or []))
    claimed = False
    accepted = {}
    for chain, rp in ROOT_CONFIGS:
        run = "root|%s|rp=%d" % ("+".join(chain), rp)
        x, success, sane, exc = run_root(es, names, init, chain, rp)
        claim = _claim(success, sane, exc)
        kinds, mags = judge(names, idx, K, init, x) if claim == "success+sane" else ([], {})
        _record(res, run, what_sys, dict(base, entry="root", chain=list(chain), rp=rp), claim, kinds, mags, x)
        if claim == "success+sane":
            claimed = True
            if not kinds:
                accepted[run] = x
        if run in DEFAULT_RUNS:
            live[run][0] += 1
            live[run][1] += claim == "success+sane"
    run = "solve|Log+Lin|rp=0"
    if isinstance(solve_obs, str):
        claim, x = solve_obs, None
    else:
        x, success, sane, init_seen = solve_obs
        claim = _claim(success, sane, None)
        if not np.allclose(init_seen, init, rtol=1e-14, atol=0):
            res.outcomes["solve:grid-point-MISPLACED"] += 1
            res.violation("C08|solve|varied-grid|initial-state-misplaced", "EqSystem.solve(varied=...) grid point for %s holds initial state %s" % (what_sys, list(init_seen)),
                          dict(base, entry="solve"), [float(v) for v in init_seen], [float(v) for v in init])
    kinds, mags = judge(names, idx, K, init, x) if claim == "success+sane" else ([], {})
    _record(res, run, what_sys, dict(base, entry="solve"), claim, kinds, mags, x)
    if claim == "success+sane":
        claimed = True
        if not kinds:
            accepted[run] = x
    live[run][0] += 1
    live[run][1] += claim == "success+sane"
    if len(idx) == 1:
        brentq_case(res, names, idx, K, tags, shifts, init, accepted, base)
    return claimed


def brentq_case(res, names, idx, K, tags, shifts, init, accepted, base):
    import numpy as np
    from chempy._equilibrium import solve_equilibrium

    row = M.stoich_row(M.POOL[idx[0]], names)
    res.evaluations += 1
    try:
        xb = np.asarray(solve_equilibrium(list(init), row, K[0]), dtype=float)
    except Exception as e:
        res.outcomes["brentq:EXC %s" % type(e).__name__] += 1
        res.violation("C08|solve_equilibrium|raises", "solve_equilibrium(%s, %s, %r) raised %s for a strictly positive single-equilibrium problem" % (list(init), row, K[0], type(e).__name__),
                      dict(base, entry="brentq"), "EXC %s" % type(e).__name__, "concentrations agreeing with EqSystem.root")
        return
    if not accepted:
        res.outcomes["brentq:no-accepted-root-result-to-compare"] += 1
        return
    for run, x in sorted(accepted.items()):
        tol = [RTOL * max(abs(a), abs(b)) + 1e-11 * abs(nu) for a, b, nu in zip(x, xb, row)]
        bad = [j for j in range(len(row)) if abs(x[j] - xb[j]) > tol[j]]
        if bad:
            res.outcomes["brentq:DISAGREES"] += 1
            res.violation("C08|solve_equilibrium|disagrees-with|%s" % run.split("|")[0],
                          "solve_equilibrium gives %s, %s gives %s for %s shifts=%s init=%s" % (list(xb), run, list(x), "+".join(tags), list(shifts), list(init)),
                          dict(base, entry="brentq"), [float(v) for v in xb], [float(v) for v in x])
        else:
            res.outcomes["brentq:agrees"] += 1


def run_solve_grid(es, names, latt):
    """EqSystem.solve over the whole lattice as a `varied` grid -> dict lattice-index-tuple -> (x, success, sane, init_seen) | 'EXC ..'"""
    free = [n for n in names if n != "H2O"]
    base = {n: (H2O if n == "H2O" else latt[0]) for n in names}
    try:
        r = es.solve(base, varied={n: list(latt) for n in free})
        out = {}
        for ind in itertools.product(range(len(latt)), repeat=len(free)):
            out[ind] = (r.conc[ind], bool(r.success[ind]), bool(r.sane[ind]), r.all_inits[ind])
        return out
    except Exception as e:
        return "EXC %s" % type(e).__name__


# --------------------------------------------------------------------------------------------- chunks
MUT_SYSTEMS = [("water", "nh4"), ("water", "hac"), ("water", "h2co3", "hco3"), ("water", "nh4", "hac")]
MUT_INITS = [1e-2, 1e-4]


def check_mutated_system(res, tags, j, c, chain):
    """ONE EqSystem solved, then reaction j replaced in place by an equivalent way of writing it (all coefficients
    doubled, K squared), then solved again: the second answer is judged like any other claimed result (and is the
    same composition, since the chemistry is unchanged)"""
    import numpy as np
    from chempy import Equilibrium

    es, names, idx, K = build(tags, (0,) * len(tags))
    init = [H2O if n == "H2O" else c for n in names]
    what_sys = "%s init=%s" % ("+".join(tags), dict(zip(names, init)))
    case = dict(layer="HR", tags=list(tags), j=j, c=c, chain=list(chain))
    run = "root-after-rewriting-a-reaction|%s" % "+".join(chain)
    res.states += 1
    res.transitions += 2
    res.nontrivial += 1
    x1, s1, sane1, exc1 = run_root(es, names, init, chain, False)
    r = es.rxns[j]
    try:
        es.rxns[j] = Equilibrium({k: 2 * v for k, v in r.reac.items()}, {k: 2 * v for k, v in r.prod.items()}, r.param ** 2)
    except Exception as e:
        res.outcomes["HR rewrite-raises"] += 1
        return
    x2, s2, sane2, exc2 = run_root(es, names, init, chain, False)
    res.evaluations += 2
    claim = _claim(s2, sane2, exc2)
    kinds, mags = judge(names, idx, K, init, x2) if claim == "success+sane" else ([], {})
    if claim == "success+sane" and not kinds and _claim(s1, sane1, exc1) == "success+sane":
        if not np.allclose(x1, x2, rtol=1e-5, atol=1e-14):
            kinds = ["differs-from-the-first-solution"]
    _record(res, run, what_sys, case, claim, kinds, mags, x2)


def check_reassigned_constant(res, tags, j, c, entry, factor):
    """ONE EqSystem solved, then the constant of equilibrium j re-assigned on the live object (K_j * factor), then solved
    again through the same entry point: the second answer obeys the NEW constants"""
    import numpy as np

    es, names, idx, K = build(tags, (0,) * len(tags))
    init = [H2O if n == "H2O" else c for n in names]
    what_sys = "%s init=%s, K[%d] re-assigned to %g x its first value between two calls" % ("+".join(tags), dict(zip(names, init)), j, factor)
    case = dict(layer="HK", tags=list(tags), j=j, c=c, entry=entry, factor=factor)
    run = "%s-after-reassigning-a-constant|Log+Lin" % entry
    res.states += 1
    res.transitions += 2
    res.nontrivial += 1
    res.evaluations += 2

    def call():
        if entry == "root":
            return run_root(es, names, init, ("Log", "Lin"), False)
        try:
            r = es.solve(dict(zip(names, init)))
            return np.asarray(r.conc, dtype=float).ravel(), bool(r.success), bool(r.sane), None
        except Exception as e:
            return None, False, False, "EXC %s" % type(e).__name__

    call()
    K2 = list(K)
    K2[j] = K[j] * factor
    es.rxns[j].param = K2[j]
    x2, s2, sane2, exc2 = call()
    claim = _claim(s2, sane2, exc2)
    kinds, mags = judge(names, idx, K2, init, x2) if claim == "success+sane" else ([], {})
    _record(res, run, what_sys, case, claim, kinds, mags, x2)


def run_chunk(chunk, tier):
    res = Result()
    if chunk[0] == "H":
        _, tags, latt, shifts = chunk
        es, names, idx, K = build(tags, shifts)
        for t in tags:
            res.symbols["rxn:" + t] += 1
        res.symbols["nr:%d" % len(tags)] += 1
        for s in shifts:
            res.symbols["logK-shift:%+d" % s] += 1
        grid = run_solve_grid(es, names, latt)
        live = {r: [0, 0] for r in DEFAULT_RUNS}
        free = [n for n in names if n != "H2O"]
        for ind in itertools.product(range(len(latt)), repeat=len(free)):
            d = dict(zip(free, (latt[i] for i in ind)))
            init = [H2O if n == "H2O" else d[n] for n in names]
            res.states += 1
            res.transitions += len(ROOT_CONFIGS) + 1
            for v in set(d.values()):
                res.symbols["conc:%g" % v] += 1
            claimed = homogeneous_case(res, es, names, idx, K, tags, shifts, init, grid if isinstance(grid, str) else grid[ind], live, latt, ind)
            if claimed:
                res.nontrivial += 1
        for run, (n, ok) in sorted(live.items()):
            res.extra["default_runs"] = res.extra.get("default_runs", 0) + n
            res.extra["default_runs_success_sane"] = res.extra.get("default_runs_success_sane", 0) + ok
            res.evaluations += 1
            if (n - ok) * 20 > n:
                res.outcomes["liveness:BELOW-19/20"] += 1
                res.violation("C08|liveness|%s|below-19-of-20" % run, "%s claims success+sane in only %d of %d strictly positive cases of %s shifts=%s" % (run, ok, n, "+".join(tags), list(shifts)),
                              dict(kind="chunk", layer="live", chunk=[chunk[0], list(tags), list(latt), list(shifts)], run=run), "%d/%d" % (ok, n), ">= 19/20")
            else:
                res.outcomes["liveness:ok"] += 1
        res.sample(dict(system=list(tags), species=names, K=K, lattice=list(latt), cases=res.states, default_chain_success=dict((r, v[1]) for r, v in live.items())), limit=1)
    elif chunk[0] == "HR":
        tags = MUT_SYSTEMS[chunk[1]]
        for j in range(len(tags)):
            for c in MUT_INITS:
                for chain in (("Log",), ("Log", "Lin")):
                    check_mutated_system(res, tags, j, c, chain)
                for entry in ("root", "solve"):
                    for factor in (100.0, 0.01):
                        check_reassigned_constant(res, tags, j, c, entry, factor)
        res.sample(dict(layer="HR", system=list(tags), rewriting="coefficients x2, K**2, in place on the solved system"), limit=1)
    elif chunk[0] == "PN":
        _, orient = chunk
        for (kb, kn), chain in itertools.product(PN_KSP, CHAINS):
            for init in itertools.product(PN_LATTICE, PN_LATTICE, (0.0, 1.0)):
                if any(init):
                    prebuilt_case(res, orient, kb, kn, chain, list(init))
        res.sample(dict(layer="PN", system="NaCl(s) written as " + orient, ksp_built_then_now=PN_KSP, lattice=PN_LATTICE), limit=1)
    elif chunk[0] == "BG":
        for ntags in (11, 12):
            for sc in (0.0, 0.2, -0.2):
                for chain in (("Log",), ("Log", "Lin")):
                    for species_as in ("list+names", "list+array", "tuple+array"):
                        big_case(res, ntags, sc, chain, species_as)
        res.sample(dict(layer="BG", equilibria=list(BG_TAGS)), limit=1)
    elif chunk[0] == "DS":
        for c0, stoich, K in (([2, 1, 1], (-1, 1, -1), 1000.0), ([1, 0, 3], (-1, 1, -1), 0.25), ([5, 0, 0], (-1, 2, 1), 2.0), ([1, 1], (-2, 1), 8.0), ([0, 4], (-2, 1), 8.0),
                              # stoichiometries with a common factor (a doubled / tripled equilibrium, constant raised accordingly)
                              ([1, 1, 1], (-2, -2, 2), 900.0), ([2, 1, 0], (-3, -3, 3), 27.0), ([3, 0], (-2, 4), 16.0)):
            brentq_spelling_case(res, c0, stoich, K)
        claimed = 0
        for entry in ("root", "solve"):
            for chain in CHAINS:
                if entry == "root" and chain == ("Lin",):
                    continue  # root with the linear formulation alone from a start with absent species: the recorded known finding (layer H), not repeated here
                for levels in ((1e-2, 3e-3), (1e-3, 1e-3), (0.2, 0.05)):
                    n0 = res.nontrivial
                    subclass_case(res, entry, chain, levels)
                    claimed += res.nontrivial - n0
        if not claimed:
            res.violation("C08|subclass-eq_constants|no-claimed-result", "no entry point claimed a result on the subclass system: the layer decides nothing", dict(layer="SC", entry=None), 0, ">0")
        for orient in ORIENTATIONS:
            for ksp in KSPS:
                for init in itertools.product((0.0, 1.0, 3.0), (1.0, 3.0), (0.0, 2.0)):
                    dissolved_case(res, orient, ksp, list(init))
        res.sample(dict(layer="DS", what="result fed to dissolved() and used as x0"), limit=1)
    elif chunk[0] == "PT":
        _, orient = chunk
        for ksp, chain in itertools.product(PT_KSP, CHAINS):
            for lat in itertools.product(PT_LATTICE, PT_LATTICE, (0.0, 1.0)):
                if 0.01 in lat[:2] and chain == ("Log",):
                    # the logarithmic formulation writes an absent solid as its floor exp(-36) = 2.3e-16 mol/dm3, which at these
                    # concentrations is not negligible; whether that is "absent" the statement does not decide: undersaturated trace
                    # compositions are explored with the chains that end in a linear stage
                    continue
                if any(lat):
                    tiny_ksp_case(res, orient, ksp, chain, lat)
        res.sample(dict(layer="PT", system="salt written as " + orient, ksp=PT_KSP, lattice_in_units_of_10_sqrt_Ksp=PT_LATTICE), limit=1)
    elif chunk[0] == "WS":
        tags = WS_SYSTEMS[chunk[1]]
        for chain in (("Log",), ("Log", "Lin")):
            warm_start_case(res, tags, chain)
        res.sample(dict(layer="WS", system=list(tags), levels=WS_LEVELS), limit=1)
    elif chunk[0] == "GV":
        tags = GV_SYSTEMS[chunk[1]]
        nfree = len([n for n in M.species_of(_idx(tags)) if n != "H2O"])
        for a, b in itertools.permutations(range(nfree), 2):
            grid_order_case(res, tags, a, b)
        res.sample(dict(layer="GV", system=list(tags), values=GV_VALUES, written_orders="all ordered pairs of varied substances"), limit=1)
    elif chunk[0] == "P":
        _, orient, ksp, ai = chunk
        es, names = build_precip(orient, ksp)
        a = PRECIP_LATTICE[ai]
        res.symbols["precip-written-as:" + orient] += 1
        res.symbols["Ksp:%g" % ksp] += 1
        for b_, c in itertools.product(PRECIP_LATTICE, repeat=2):
            init = [a, b_, c]
            if not any(init):
                continue
            res.states += 1
            claimed = False
            for v in set(init):
                res.symbols["precip-conc:%g" % v] += 1
            for chain in CHAINS:
                for oname, extra in sorted(PRECIP_OPTIONS.items()):
                    res.transitions += 1
                    claimed |= precip_run(res, es, names, init, chain, oname, extra, "root", orient, ksp)
            res.transitions += 1
            claimed |= precip_run(res, es, names, init, ("Log", "Lin"), "default", None, "solve", orient, ksp)
            if claimed:
                res.nontrivial += 1
        res.sample(dict(system="NaCl(s)/Na+/Cl- written as " + orient, Ksp=ksp, first=a, cases=res.states), limit=1)
    else:
        raise ValueError(chunk)
    return res


def precip_run(res, es, names, init, chain, oname, extra, entry, orient, KSP):
    import numpy as np

    run = "precip-%s|%s|%s" % (entry, "+".join(chain), oname)
    if entry == "root":
        x, success, sane, exc = run_root(es, names, init, chain, False, extra)
    else:  # EqSystem.solve: fixed default chain and options, a single point
        try:
            r = es.solve(dict(zip(names, init)))
            x, success, sane, exc = np.asarray(r.conc, dtype=float).ravel(), bool(r.success), bool(r.sane), None
        except Exception as e:
            x, success, sane, exc = None, False, False, "EXC %s" % type(e).__name__
    claim = _claim(success, sane, exc)
    kinds, mags = judge_precip(init, x, KSP) if claim == "success+sane" else ([], {})
    res.evaluations += 1
    if claim != "success+sane":
        res.outcomes["%s:%s" % (run, claim)] += 1
        return False
    if not kinds:
        state = "solid-present" if x[2] > SOLID_ABSENT else ("solid-absent,saturated" if abs(mags["ip_over_ksp"] - 1) <= RTOL else "solid-absent,undersaturated")
        res.outcomes["%s:success+sane:genuine:%s" % (run, state)] += 1
        return True
    res.outcomes["%s:success+sane:NOT-GENUINE(%s)" % (run, "+".join(kinds))] += 1
    res.violation(_key(run, kinds),
                  "%s claims success and a sane result for NaCl(s) written as %s with init=%s (Ksp=%g) but returns %s: %s (%s)"
                  % (run, orient, dict(zip(names, init)), KSP, [float("%.6g" % v) for v in x], ", ".join(kinds), ", ".join("%s=%.3g" % kv for kv in sorted(mags.items()))),
                  dict(layer="P", init=list(init), chain=list(chain), options=oname, entry=entry, orient=orient, ksp=KSP), dict(x=[float(v) for v in x], kinds=kinds, mags=mags),
                  "x>=0, Na/Cl/charge totals kept, (solid present and IP=Ksp) or (solid absent and IP<=Ksp)")
    return True


# --------------------------------------------------------------------------------------------- layer PN / GV
PN_KSP = [(4.0, 1.0), (1.0, 4.0), (4.0, 0.25)]  # (Ksp the solver object was built at, Ksp of the system when it is used)
PN_LATTICE = [0.0, 1.0, 1.5, 3.0]


def prebuilt_case(res, orient, kb, kn, chain, init):
    """a solver object from get_neqsys is kept while the solubility product of the (same) system is re-assigned; root(...,
    neqsys=kept) then answers for the system as it stands"""
    import numpy as np

    es, names = build_precip(orient, kb)
    run = "precip-root-prebuilt|%s" % "+".join(chain)
    case = dict(layer="PN", orient=orient, kb=kb, kn=kn, chain=list(chain), init=list(init))
    res.states += 1
    res.transitions += 2
    res.evaluations += 1
    try:
        neqsys = es.get_neqsys("chained_conditional", NumSys=_numsys(chain))
        es.root(dict(zip(names, init)), neqsys=neqsys)  # first use, at the Ksp it was built with
        es.rxns[0].param = kn if orient == "dissolution" else 1.0 / kn
        x, sol, sane = es.root(dict(zip(names, init)), neqsys=neqsys)
        x, success, sane, exc = np.asarray(x, dtype=float), bool(sol["success"]), bool(sane), None
    except Exception as e:
        x, success, sane, exc = None, False, False, "EXC %s" % type(e).__name__
    claim = _claim(success, sane, exc)
    if claim != "success+sane":
        res.outcomes["%s:%s" % (run, claim)] += 1
        return
    res.nontrivial += 1
    kinds, mags = judge_precip(init, x, kn)
    if not kinds:
        res.outcomes["%s:success+sane:genuine" % run] += 1
        return
    res.outcomes["%s:success+sane:NOT-GENUINE(%s)" % (run, "+".join(kinds))] += 1
    res.violation(_key(run, kinds), "root(init, neqsys=<built when Ksp was %g>) on NaCl(s) written as %s, Ksp now %g, init=%s claims success and a sane result but returns %s: %s (%s)"
                  % (kb, orient, kn, dict(zip(names, init)), [float("%.6g" % v) for v in x], ", ".join(kinds), ", ".join("%s=%.3g" % kv for kv in sorted(mags.items()))),
                  case, dict(x=[float(v) for v in x], kinds=kinds, mags=mags), "the state of the system with its current Ksp")


PT_KSP = [1e-18, 1e-12]
PT_LATTICE = [0.0, 0.01, 1.0, 3.0]  # in units of 10*sqrt(Ksp): ion products 0, 0.01 Ksp (undersaturated), 100 Ksp, 300 Ksp, 900 Ksp


def tiny_ksp_case(res, orient, ksp, chain, lat):
    """a very sparingly soluble salt in a dilute solution (every quantity far below 1e-9): same clause, relative thresholds"""
    import numpy as np

    unit = 10.0 * ksp ** 0.5
    init = [v * unit for v in lat]
    es, names = build_precip(orient, ksp)
    run = "precip-root-tiny-Ksp|%s" % "+".join(chain)
    case = dict(layer="PT", orient=orient, ksp=ksp, chain=list(chain), lat=list(lat))
    res.states += 1
    res.transitions += 1
    res.evaluations += 1
    x, success, sane, exc = run_root(es, names, init, chain, False)
    claim = _claim(success, sane, exc)
    if claim != "success+sane":
        res.outcomes["%s:%s" % (run, claim)] += 1
        return
    res.nontrivial += 1
    kinds, mags = judge_precip(init, x, ksp, scale=unit)
    if not kinds:
        res.outcomes["%s:success+sane:genuine" % run] += 1
        return
    res.outcomes["%s:success+sane:NOT-GENUINE(%s)" % (run, "+".join(kinds))] += 1
    res.violation(_key(run, kinds), "%s claims success and a sane result for a salt with Ksp=%g written as %s, init=%s, but returns %s: %s (%s)"
                  % (run, ksp, orient, dict(zip(names, init)), [float("%.6g" % v) for v in x], ", ".join(kinds), ", ".join("%s=%.3g" % kv for kv in sorted(mags.items()))),
                  case, dict(x=[float(v) for v in x], kinds=kinds, mags=mags), "solid present and IP=Ksp, or absent and IP<=Ksp")


WS_SYSTEMS = [("water", "nh4"), ("water", "hac"), ("hac",), ("nh4", "hac")]
WS_LEVELS = [1e-4, 1e-2]


def warm_start_case(res, tags, chain):
    """a titration-like sweep: every point is solved with the previous point's solution as the starting guess (x0=); the
    answer must carry the totals of ITS OWN initial state"""
    import numpy as np

    shifts = (0,) * len(tags)
    es, names, idx, K = build(tags, shifts)
    free = [n for n in names if n != "H2O"]
    prev = None
    for pt, vals in enumerate(itertools.product(WS_LEVELS, repeat=len(free))):
        d = dict(zip(free, vals))
        init = [H2O if n == "H2O" else d[n] for n in names]
        case = dict(layer="WS", tags=list(tags), chain=list(chain), pt=pt)
        res.states += 1
        res.transitions += 1
        res.evaluations += 1
        try:
            kw = {} if prev is None else dict(x0=prev)
            x, sol, sane = es.root(dict(zip(names, init)), NumSys=_numsys(chain), **kw)
            x, success, sane, exc = np.asarray(x, dtype=float), bool(sol["success"]), bool(sane), None
        except Exception as e:
            x, success, sane, exc = None, False, False, "EXC %s" % type(e).__name__
        claim = _claim(success, sane, exc)
        run = "root-warm-start|%s|rp=0" % "+".join(chain)
        what_sys = "%s init=%s%s" % ("+".join(tags), dict(zip(names, init)), "" if prev is None else " started from the previous point's solution")
        kinds, mags = judge(names, idx, K, init, x) if claim == "success+sane" else ([], {})
        if claim == "success+sane":
            res.nontrivial += 1
        _record(res, run, what_sys, case, claim, kinds, mags, x)
        if claim == "success+sane" and not kinds:
            prev = x


BG_TAGS = ("water", "nh4", "h2co3", "hco3", "hac", "hf", "h3po4", "h2po4", "hpo4", "hso4", "agnh3", "cunh3")


def big_case(res, ntags, sc, chain, species_as):
    """a system of 11-12 equilibria (21-22 species) whose constants are defined through a reference state c*; the calculation starts
    a few per cent of reaction extent away from it.  species_as: the species handed to EqSystem as a list or as a tuple, the
    initial concentrations positionally (array) or by name"""
    import numpy as np
    from chempy import Equilibrium, Species
    from chempy.equilibria import EqSystem

    tags = BG_TAGS[:ntags]
    idx = _idx(tags)
    names = M.species_of(idx)
    cstar = {n: (H2O if n == "H2O" else 10.0 ** (-2 - (j % 4)) * (1 + j / 10.0)) for j, n in enumerate(names)}
    K = []
    for i in idx:
        q = 1.0
        for k, nu in M.POOL[i][2].items():
            q *= cstar[k] ** nu
        for k, nu in M.POOL[i][1].items():
            q /= cstar[k] ** nu
        K.append(q)
    sp = [Species.from_formula(n) for n in names]
    es = EqSystem([Equilibrium(dict(M.POOL[i][1]), dict(M.POOL[i][2]), k) for i, k in zip(idx, K)], tuple(sp) if species_as.startswith("tuple") else list(sp))
    init = np.array([cstar[n] for n in names])
    for r, row in enumerate(M.stoich_rows(idx, names)):
        ext = sc * min(cstar[n] for n, v in zip(names, row) if v) * (1 if r % 2 == 0 else -0.5)
        init = init - ext * np.array(row, dtype=float)
    init = [float(v) for v in init]
    case = dict(layer="BG", ntags=ntags, sc=sc, chain=list(chain), species_as=species_as)
    res.states += 1
    res.transitions += 1
    res.evaluations += 1
    run = "root-big|%s|%s" % ("+".join(chain), species_as)
    try:
        if list(es.substances) != names:
            raise ValueError("substances %r, given %r" % (list(es.substances), names))
        arg = np.array(init) if species_as.endswith("array") else dict(zip(names, init))
        x, sol, sane = es.root(arg, NumSys=_numsys(chain))
        x, success, sane, exc = np.asarray(x, dtype=float), bool(sol["success"]), bool(sane), None
    except Exception as e:
        x, success, sane, exc = None, False, False, "EXC %s: %s" % (type(e).__name__, str(e)[:80])
    claim = _claim(success, sane, exc)
    kinds, mags = judge(names, idx, K, init, x) if claim == "success+sane" else ([], {})
    if claim == "success+sane":
        res.nontrivial += 1
    _record(res, run, "%d equilibria, %d species, start %+.0f%% of an extent away from the reference state" % (len(tags), len(names), 100 * sc), case, claim, kinds, mags, x)
    if claim != "success+sane":
        # liveness of this slice: near its equilibrium the calculation must be claimed (otherwise the slice is vacuous)
        res.violation("C08|%s|not-claimed-near-equilibrium" % run, "%s for %d equilibria started %+.0f%% of an extent away from equilibrium: %s" % (run, len(tags), 100 * sc, claim), case, claim, "success+sane")


def brentq_spelling_case(res, c0, stoich, K):
    """the bracketing scalar solver on one problem with the start composition spelled as list of ints / of floats / tuple / integer
    and float arrays: every spelling gives the equilibrium composition (Q = K, totals kept, non-negative)"""
    import numpy as np
    from chempy._equilibrium import solve_equilibrium

    spellings = [("list-of-int", lambda: [int(v) for v in c0]), ("list-of-float", lambda: [float(v) for v in c0]), ("tuple-mixed", lambda: tuple([float(c0[0])] + [int(v) for v in c0[1:]])),
                 ("ndarray-int", lambda: np.array([int(v) for v in c0])), ("ndarray-float", lambda: np.array(c0, dtype=float))]
    for sname, mk in spellings:
        res.states += 1
        res.transitions += 1
        res.evaluations += 1
        res.nontrivial += 1
        arg = mk()
        try:
            x = [float(v) for v in solve_equilibrium(arg, stoich, K)]
            q = 1.0
            for v, nu in zip(x, stoich):
                q *= v ** nu
            rc = [(v - c) / nu for v, c, nu in zip(x, c0, stoich) if nu]
            bad = None
            if min(x) < 0:
                bad = "negative concentration"
            elif abs(q / K - 1) > 1e-8:
                bad = "Q/K = %.6g" % (q / K)
            elif max(rc) - min(rc) > 1e-9 * max(1.0, max(abs(v) for v in rc)):
                bad = "not on the reaction line through the start composition (extents %r)" % (rc,)
            elif [float(v) for v in arg] != [float(v) for v in c0]:
                bad = "the caller's start composition now reads %r" % (list(arg),)
        except Exception as e:
            x, bad = None, "raised %s" % type(e).__name__
        res.outcomes["brentq-spelling:%s" % ("ok" if bad is None else "WRONG")] += 1
        if bad:
            res.violation("C08|solve_equilibrium|start-composition-as-%s|%s" % (sname, bad.split(" ")[0]), "solve_equilibrium(%s %r, %r, %r) = %r: %s" % (sname, list(c0), list(stoich), K, x, bad),
                          dict(layer="BS", c0=list(c0), stoich=list(stoich), K=K), x, None)


def subclass_case(res, entry, chain, levels):
    """a user subclass of EqSystem whose eq_constants() returns constants corrected to working conditions: every entry point solves for
    the constants the system says it has (Q = K(eqsys.eq_constants()) for every claimed result)"""
    import numpy as np
    from collections import defaultdict
    from chempy.equilibria import EqSystem

    class ConditionalEqSystem(EqSystem):
        log10_corr = {"Kw": +0.55, "Ka_NH4": -0.35, "Ka_HAc": +0.2}

        def eq_constants(self, non_precip_rids=(), eq_params=None, small=0):
            if eq_params is None:
                eq_params = [rxn.param * 10 ** self.log10_corr.get(rxn.name, 0.0) for rxn in self.rxns]
            return super(ConditionalEqSystem, self).eq_constants(non_precip_rids, eq_params, small)

    text = "H2O = H+ + OH-; 1e-14/55.5; name='Kw'\nNH4+ = NH3 + H+; 10**-9.26; name='Ka_NH4'\nCH3COOH = CH3COO- + H+; 10**-4.76; name='Ka_HAc'"
    es = ConditionalEqSystem.from_string(text)
    c_nh3, c_hac = levels
    c0 = defaultdict(float, {"H2O": 55.5, "NH3": c_nh3, "CH3COOH": c_hac, "H+": 1e-7, "OH-": 1e-7})
    case = dict(layer="SC", entry=entry, chain=list(chain), levels=list(levels))
    res.states += 1
    res.transitions += 1
    res.evaluations += 1
    try:
        if entry == "root":
            x, sol, sane = es.root(c0, NumSys=_numsys(chain))
            ok = bool(sol["success"]) and bool(sane)
        else:
            r = es.solve(c0, NumSys=_numsys(chain))
            x, ok = r.conc, bool(r.success) and bool(r.sane)
    except Exception as e:
        res.outcomes["subclass:%s:EXC %s" % (entry, type(e).__name__)] += 1
        return
    if not ok:
        res.outcomes["subclass:%s:not-claimed" % entry] += 1
        return
    res.nontrivial += 1
    qs = es.equilibrium_quotients(np.asarray(x, dtype=float))
    want = [rxn.param * 10 ** ConditionalEqSystem.log10_corr[rxn.name] for rxn in es.rxns]
    ratios = [float(q / k) for q, k in zip(qs, want)]
    bad = [r_ for r_ in ratios if abs(r_ - 1) > RTOL]
    res.outcomes["subclass:%s:%s" % (entry, "genuine" if not bad else "NOT-GENUINE")] += 1
    if bad:
        res.violation("C08|%s|subclass-eq_constants|Q!=K" % entry, "%s(%s) on a subclass of EqSystem with corrected eq_constants(), NH3=%g, CH3COOH=%g: claimed success+sane, Q/K = %r" % (
            entry, "+".join(chain), c_nh3, c_hac, ratios), case, ratios, [1.0] * len(ratios))


def dissolved_case(res, orient, ksp, init):
    """a reported result fed on: to EqSystem.dissolved (what would the solution hold without the solid?) and as the starting guess of
    the next calculation; the reported array itself stays the reported result"""
    import numpy as np

    es, names = build_precip(orient, ksp)
    case = dict(layer="DS", orient=orient, ksp=ksp, init=list(init))
    res.states += 1
    res.transitions += 2
    res.evaluations += 2
    x, success, sane, exc = run_root(es, names, init, ("Log", "Lin"), False)
    if _claim(success, sane, exc) != "success+sane" or judge_precip(init, x, ksp)[0]:
        res.outcomes["dissolved:first-result-not-claimed"] += 1
        return
    res.nontrivial += 1
    keep = np.array(x, dtype=float, copy=True)
    bad = None
    try:
        d = np.asarray(es.dissolved(x), dtype=float)
        want = np.array([keep[0] + keep[2], keep[1] + keep[2], 0.0])
        if not np.allclose(d, want, rtol=1e-12, atol=1e-300):
            bad = "dissolved(result) = %r, expected %r" % (d.tolist(), want.tolist())
        elif not np.array_equal(np.asarray(x, dtype=float), keep):
            bad = "dissolved(result) changed the result array itself: %r (was %r)" % (np.asarray(x).tolist(), keep.tolist())
        else:
            x2, sol2, sane2 = es.root(dict(zip(names, init)), x0=x, NumSys=_numsys(("Log", "Lin")))
            if not np.array_equal(np.asarray(x, dtype=float), keep):
                bad = "root(..., x0=result) changed the result array: %r (was %r)" % (np.asarray(x).tolist(), keep.tolist())
            elif bool(sol2["success"]) and bool(sane2):
                k2, m2 = judge_precip(init, x2, ksp)
                if k2:
                    bad = "root(..., x0=result) claims %r: %s" % (np.asarray(x2).tolist(), ", ".join(k2))
    except Exception as e:
        bad = "%s: %s" % (type(e).__name__, str(e)[:100])
    res.outcomes["dissolved:%s" % ("ok" if bad is None else "WRONG")] += 1
    if bad:
        res.violation("C08|precip|result-fed-on|%s" % ("result-array-modified" if "changed the result" in bad else "wrong"), "NaCl(s) written as %s, Ksp=%g, init=%s: %s" % (orient, ksp, dict(zip(names, init)), bad), case, bad, None)


GV_SYSTEMS = [("water", "nh4"), ("water", "hac"), ("nh4", "hac")]
GV_VALUES = ([1e-4, 1e-2], [1e-6, 1e-4, 1e-2])


def grid_order_case(res, tags, a, b):
    """EqSystem.solve with two varied substances written in the order (a, b) — any order, lists of unequal length: the axes
    of the result follow `varied_keys`, and every grid point is the equilibrium of the initial state it is labelled with"""
    from collections import OrderedDict
    import numpy as np

    shifts = (0,) * len(tags)
    es, names, idx, K = build(tags, shifts)
    free = [n for n in names if n != "H2O"]
    ka, kb_ = free[a], free[b]
    base = {n: (H2O if n == "H2O" else 1e-4) for n in names}
    varied = OrderedDict([(ka, list(GV_VALUES[0])), (kb_, list(GV_VALUES[1]))])
    case = dict(layer="GV", tags=list(tags), a=a, b=b)
    what = "%s solve(varied written as %s)" % ("+".join(tags), list(varied))
    res.states += 1
    res.transitions += 6
    res.evaluations += 1
    try:
        r = es.solve(dict(base), varied=varied)
        vk = list(r.varied_keys)
    except Exception as e:
        res.outcomes["grid-order:raises"] += 1
        res.violation("C08|solve|varied-grid|two-keys|raises", "%s raised %s: %s" % (what, type(e).__name__, e), case, "EXC %s" % type(e).__name__, "a grid of results")
        return
    if sorted(vk) != sorted(varied) or tuple(r.conc.shape[:-1]) != tuple(len(varied[k]) for k in vk):
        res.violation("C08|solve|varied-grid|two-keys|axes", "%s: varied_keys %s with result shape %s" % (what, vk, r.conc.shape), case, [vk, list(r.conc.shape)], "one axis per varied key, of its length")
        return
    for ind in itertools.product(*[range(len(varied[k])) for k in vk]):
        init = dict(base)
        for k, i in zip(vk, ind):
            init[k] = varied[k][i]
        init = [init[n] for n in names]
        res.evaluations += 1
        if not np.allclose(r.all_inits[ind], init, rtol=1e-14, atol=0):
            res.outcomes["grid-order:point-MISPLACED"] += 1
            res.violation("C08|solve|varied-grid|initial-state-misplaced", "%s: grid point %s (axes %s) holds initial state %s, labelled %s" % (what, list(ind), vk, list(r.all_inits[ind]), init),
                          case, [float(v) for v in r.all_inits[ind]], init)
            return
        if bool(r.success[ind]) and bool(r.sane[ind]):
            res.nontrivial += 1
            kinds, mags = judge(names, idx, K, init, r.conc[ind])
            _record(res, "solve-grid2|Log+Lin|rp=0", "%s point %s" % (what, list(ind)), dict(case, ind=list(ind)), "success+sane", kinds, mags, r.conc[ind])
        else:
            res.outcomes["grid-order:not-claimed"] += 1


# --------------------------------------------------------------------------------------------- replay
def replay(case):
    if case.get("layer") in ("PN", "GV", "PT", "WS", "HK", "BG", "DS", "BS", "SC"):
        res = Result()
        if case["layer"] == "BG":
            big_case(res, case["ntags"], case["sc"], tuple(case["chain"]), case["species_as"])
        elif case["layer"] == "DS":
            dissolved_case(res, case["orient"], case["ksp"], case["init"])
        elif case["layer"] == "BS":
            brentq_spelling_case(res, case["c0"], tuple(case["stoich"]), case["K"])
        elif case["layer"] == "SC":
            subclass_case(res, case["entry"], tuple(case["chain"]), tuple(case["levels"]))
        elif case["layer"] == "HK":
            check_reassigned_constant(res, tuple(case["tags"]), case["j"], case["c"], case["entry"], case["factor"])
        elif case["layer"] == "PT":
            tiny_ksp_case(res, case["orient"], case["ksp"], tuple(case["chain"]), case["lat"])
        elif case["layer"] == "WS":
            warm_start_case(res, tuple(case["tags"]), tuple(case["chain"]))
            res.violations = [v for v in res.violations if v["case"].get("pt") == case["pt"]]
        elif case["layer"] == "PN":
            prebuilt_case(res, case["orient"], case["kb"], case["kn"], tuple(case["chain"]), case["init"])
        else:
            grid_order_case(res, tuple(case["tags"]), case["a"], case["b"])
        if res.violations:
            v = res.violations[0]
            return dict(key=v["key"], what=v["what"], observed=v["observed"], expected=v["expected"])
        return None
    res = Result()
    if case.get("layer") == "live":
        c = case["chunk"]
        r = run_chunk((c[0], tuple(c[1]), tuple(c[2]), tuple(c[3])), "quick")
        vs = [v for v in r.violations if v["case"].get("layer") == "live" and v["case"].get("run") == case["run"]]
    elif case.get("layer") == "HR":
        check_mutated_system(res, tuple(case["tags"]), case["j"], case["c"], tuple(case["chain"]))
        vs = res.violations
    elif case.get("layer") == "P":
        es, names = build_precip(case["orient"], case["ksp"])
        extra = PRECIP_OPTIONS[case["options"]]
        precip_run(res, es, names, case["init"], tuple(case["chain"]), case["options"], extra, case.get("entry", "root"), case["orient"], case["ksp"])
        vs = res.violations
    else:
        tags, shifts, init = tuple(case["tags"]), tuple(case["shifts"]), case["init"]
        es, names, idx, K = build(tags, shifts)
        what_sys = "%s logK-shifts=%s init=%s" % ("+".join(tags), list(shifts), dict(zip(names, init)))
        if case["entry"] == "root":
            chain, rp = tuple(case["chain"]), case["rp"]
            run = "root|%s|rp=%d" % ("+".join(chain), rp)
            x, success, sane, exc = run_root(es, names, init, chain, rp)
            claim = _claim(success, sane, exc)
            kinds, mags = judge(names, idx, K, init, x) if claim == "success+sane" else ([], {})
            _record(res, run, what_sys, case, claim, kinds, mags, x)
        elif case["entry"] == "solve":
            import numpy as np

            grid = run_solve_grid(es, names, case["latt"])  # the same varied grid as the explorer, one point judged
            obs = grid if isinstance(grid, str) else grid[tuple(case["ind"])]
            if isinstance(obs, str):
                claim, x = obs, None
            else:
                x, success, sane, seen = obs
                claim = _claim(success, sane, None)
                if not np.allclose(seen, init, rtol=1e-14, atol=0):
                    res.violation("C08|solve|varied-grid|initial-state-misplaced", "grid point holds initial state %s" % list(seen), case, [float(v) for v in seen], init)
            kinds, mags = judge(names, idx, K, init, x) if claim == "success+sane" else ([], {})
            _record(res, "solve|Log+Lin|rp=0", what_sys, case, claim, kinds, mags, x)
        elif case["entry"] == "brentq":
            accepted = {}
            for chain, rp in ROOT_CONFIGS:
                run = "root|%s|rp=%d" % ("+".join(chain), rp)
                x, success, sane, exc = run_root(es, names, init, chain, rp)
                if _claim(success, sane, exc) == "success+sane" and not judge(names, idx, K, init, x)[0]:
                    accepted[run] = x
            grid_free = es.solve(dict(zip(names, init)))
            import numpy as np

            if bool(grid_free.success) and bool(grid_free.sane) and not judge(names, idx, K, init, np.asarray(grid_free.conc).ravel())[0]:
                accepted["solve|Log+Lin|rp=0"] = np.asarray(grid_free.conc, dtype=float).ravel()
            brentq_case(res, names, idx, K, tags, shifts, init, accepted, dict(case))
        else:
            raise ValueError(case)
        vs = res.violations
    if vs:
        v = vs[0]
        return dict(key=v["key"], what=v["what"], observed=v["observed"], expected=v["expected"])
    return None

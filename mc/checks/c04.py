"""C04 — the ODE system built from a reaction system is exactly S^T r in every build configuration.

State space (DESIGN.md §3 C04): every (program, configuration) pair with
  program        every ordered list (no repeats) of <= L reactions from a pool (catalysts, inactive parts, repeated
                 species, reverse pairs, equal stoichiometry with another constant)
  configuration  builder {get_odesys, _create_odesys} x parameter mode {numbers inlined, numbers + include_params=False,
                 unique_keys inlined/free, string-named free/inlined, MassAction.fk free/inlined} x substitution {none,
                 number for the first / last / both end constants, Expr, Expr with its own unique key, number for the feed ratio}
                 x stirred tank {off, on} x substance order {sorted, explicit unsorted OrderedDict, extra substance that
                 occurs in no reaction}; bounded by the number of dimensions deviating from the builder's default.
Oracle (mc/ref/massaction.py): names == substance order; set(param_names) == expected free keys; after binding every
dependent / parameter symbol BY NAME to a distinct prime each odesys.exprs[i] equals (S^T r)_i (+ feed) exactly;
expand(expr - model) == 0 symbolically; f_cb and extra['rate_exprs_cb'] numerically.  Free parameters are bound to other
primes than the values they would have if inlined, so a constant that is not really free or is bound to the wrong
reaction changes the exact value.
"""
import itertools
import math

from mc.core import Result
from mc.ref import massaction as M

META = dict(
    title="Generated ODE system is exactly the kinetic model of the reaction system",
    level="model_checking",
    technique="bounded-exhaustive enumeration of (reaction system, build configuration) pairs; per generated system translation "
    "validation of odesys.exprs against S^T r with exact prime binding by name, symbolic expand()==0, and numeric callbacks",
    rule="states = distinct (ordered reaction list, configuration) pairs; non-trivial = pairs for which the builder returned an ODE "
    "system (the right-hand side was compared); refused pairs are counted per class in outcomes",
    assumptions=[
        "pyodesys SymbolicSys (from_callback, lambdify of exprs into f_cb), sympy and numpy are trusted",
        "configurations with more deviations from the default than the bound, unit registries (C10), rate expressions other than "
        "mass action with a constant / named / unique-key parameter (C16), lists longer than the bound are outside the bound",
        "numeric callbacks: 1e-13 relative (all values are integers < 2^53 or products with one rational)",
    ],
    design_ref="DESIGN.md §3 C04",
    hashseed_sensitive=True,
)

ATOM = dict(A=5, B=7, C=11, D=13, Z=17)
KIN = [31, 37, 41, 43, 47, 53, 59, 61, 67, 71, 73, 79, 149]  # value of constant j when it is inlined
KFREE = [83, 89, 97, 101, 103, 107, 109, 113, 127, 131, 179, 181, 151]  # value bound to the free parameter 'k<j>'
SUBV, SUBV2 = 211, 239  # numeric substitutions for rate constants
AVAL, A1FREE, TVAL = 223, 227, 229  # Expr substitution k := a*T
FRFREE, FRSUB = 137, 233
FC = dict(A=139, B=149, C=151, D=157, Z=163)

POOL = [
    M.rt_make({"A": 1}, {"B": 1}),
    M.rt_make({"B": 1}, {"A": 1}),
    M.rt_make({"A": 1, "B": 1}, {"C": 1}),
    M.rt_make({"A": 2, "B": 1}, {"C": 1}, ir={"A": 1}),  # 3 A + B -> C; rate k A^2 B
    M.rt_make({"A": 1, "C": 1}, {"B": 1, "C": 1}),  # catalyst
    M.rt_make({"C": 1}, {"A": 2}, ip={"A": 1}),  # C -> 3 A
    M.rt_make({"A": 1, "B": 1}, {"B": 2}),  # autocatalysis
    M.rt_make({"A": 1}, {"B": 1}, ip={"C": 1}),  # A -> B + (C): C occurs in this reaction only as an inactive product
    M.rt_make({"A": 1}, {"B": 1}),  # same stoichiometry as 0, own constant
    M.rt_make({"B": 2}, {"A": 1, "C": 1}),
    M.rt_make({"B": 1}, {"C": 1}, ir={"C": 1}),  # C inactive reactant and product
    M.rt_make({"C": 2}, {"A": 1, "B": 1}, ip={"B": 1}),
    M.rt_make({"C": 1}, {"A": 1, "B": 1}),
]

PMODES = [("num", True), ("num", False), ("uk", True), ("uk", False), ("named", False), ("fk", False), ("named", True), ("fk", True)]
SUBSTS = ["none", "numfirst", "numlast", "numboth", "expr", "exprU", "frnum"]
ORDERS = ["sorted", "unsorted", "extra"]


def _tier(tier):
    # single-reaction systems always get the full configuration product (maxdev 6, including the trivially refused combinations)
    if tier == "quick":
        return dict(pool=8, L=3, maxdev=3)
    return dict(pool=13, L=3, maxdev=6)


def bounds(tier):
    t = _tier(tier)
    return dict(pool=t["pool"], max_list_len=t["L"], max_deviations=t["maxdev"], configurations=len(configs(t["maxdev"])), configurations_single_reaction=len(configs(6, True)),
                excluded_for_lists_of_2_or_more="substitution of a rate-constant key when the constants are plain numbers; feed-ratio substitution without stirred tank (both refused by construction, explored on all single-reaction systems)",
                dims=dict(builder=["get_odesys", "_create_odesys"], param_mode=["%s/include_params=%s" % p for p in PMODES], substitution=SUBSTS, cstr=[False, True], order=ORDERS))


def configs(maxdev, with_trivially_refused=False):
    out = []
    for builder in ("get", "create"):
        for pm in PMODES:
            if builder == "create" and pm not in (("num", True), ("uk", False), ("named", False), ("fk", False)):
                continue
            for subst in SUBSTS:
                if builder == "create" and subst in ("exprU", "frnum"):
                    continue
                for cstr in (False, True):
                    for order in ORDERS:
                        dev = (builder != "get") + (pm != (("num", True) if builder == "get" else ("named", False))) + (subst != "none") + cstr + {"sorted": 0, "unsorted": 1, "extra": 2}[order]
                        if not with_trivially_refused and ((pm[0] == "num" and subst in ("numfirst", "numlast", "numboth", "expr", "exprU")) or (subst == "frnum" and not cstr)):
                            continue
                        if dev <= maxdev:
                            out.append((dev, dict(builder=builder, style=pm[0], ip=pm[1], subst=subst, cstr=cstr, order=order)))
    out.sort(key=lambda x: x[0])
    return [c for _, c in out]


def _lists(n, L):
    for size in range(1, L + 1):
        for perm in itertools.permutations(range(n), size):
            yield perm


def chunks(tier):
    t = _tier(tier)
    n = t["pool"]
    out = [("L1", i) for i in range(len(POOL))]
    out += [("L", i, j) for i in range(n) for j in range(n) if i != j]  # lists starting i, j
    out += [("H", i) for i in range(len(POOL))]
    return out


# ------------------------------------------------------------------------------------------------- building
_TK = None


def _tk():
    global _TK
    if _TK is None:
        from chempy.util._expr import Expr

        class TK(Expr):
            """k = a*T: a rate constant proportional to the parameter 'T'"""

            argument_names = ("a",)
            parameter_keys = ("T",)

            def __call__(self, variables, backend=math, **kwargs):
                (a,) = self.all_args(variables, backend=backend)
                (T,) = self.all_params(variables, backend=backend)
                return a * T

        _TK = TK
    return _TK


def _kname(j):
    return "k%d" % j


def build(cfg, idxs, rts):
    """returns (rsys, odesys, extra); raises whatever chempy raises"""
    from collections import OrderedDict
    from chempy import Reaction, ReactionSystem, Substance
    from chempy.kinetics.ode import get_odesys, _create_odesys
    from chempy.kinetics.rates import MassAction

    rxns = []
    for j, rt in zip(idxs, rts):
        reac, prod, ir, ip = M.rt_dicts(rt)
        st = cfg["style"]
        if st == "num":
            par = KIN[j]
        elif st == "uk":
            par = MassAction([KIN[j]], unique_keys=(_kname(j),))
        elif st == "named":
            par = _kname(j)
        else:
            par = MassAction.fk(_kname(j))
        rxns.append(Reaction(reac, prod, par, inact_reac=ir or None, inact_prod=ip or None))
    order = substance_order(cfg, rts)
    if cfg["order"] == "sorted":
        rsys = ReactionSystem(rxns, list(order))
    else:
        rsys = ReactionSystem(rxns, OrderedDict((k, Substance(k)) for k in order))
    TK = _tk()
    s = cfg["subst"]
    k0, k1 = _kname(idxs[0]), _kname(idxs[-1])
    if cfg["builder"] == "get":
        subs = {"none": None, "numfirst": {k0: SUBV}, "numlast": {k1: SUBV}, "numboth": {k1: SUBV2, k0: SUBV} if k0 != k1 else {k0: SUBV}, "expr": {k0: TK([AVAL])}, "exprU": {k0: TK([AVAL], unique_keys=("a1",))}, "frnum": {"feedratio": FRSUB}}[s]
        odesys, extra = get_odesys(rsys, include_params=cfg["ip"], substitutions=subs, cstr=cfg["cstr"])
    else:
        kw = {}
        if cfg["cstr"]:
            kw["rates_kw"] = dict(cstr_fr_fc=("feedratio", OrderedDict((sk, "fc_" + sk) for sk in rsys.substances)))
        pe = {"none": None, "numfirst": {k0: SUBV}, "numlast": {k1: SUBV}, "numboth": {k1: SUBV2, k0: SUBV} if k0 != k1 else {k0: SUBV}, "expr": {k0: TK([AVAL])}}[s]
        if pe:
            kw["parameter_expressions"] = pe
        odesys, extra = _create_odesys(rsys, **kw)
    return rsys, odesys, extra


def substance_order(cfg, rts):
    used = sorted(set(k for rt in rts for k in M.rt_keys(rt)))
    if cfg["order"] == "sorted":
        return used
    if cfg["order"] == "unsorted":
        return used[-1:] + used[:-1]
    return ["Z"] + used


def must_accept(cfg):
    """configurations that are documented builder inputs: a raise is a violation.  None = no expectation."""
    if cfg["order"] == "extra":
        return None
    st, s = cfg["style"], cfg["subst"]
    if cfg["builder"] == "get":
        if s == "frnum":
            return True if (cfg["cstr"] and (st in ("num", "uk") or not cfg["ip"])) else None
        if st == "num":
            return True if s == "none" else None
        if st == "uk":
            return True
        return True if not cfg["ip"] else None
    if s == "none":
        return True if st in ("named", "uk", "fk") else None
    if s == "expr":
        return True if st == "named" else None
    return None


def expectation(cfg, idxs, rts):
    """(expected free parameter names, value per parameter name for binding, model constants per reaction as functions of the binding)"""
    st, s = cfg["style"], cfg["subst"]
    k0, k1 = _kname(idxs[0]), _kname(idxs[-1])
    order = substance_order(cfg, rts)
    pval = {}
    for j in idxs:
        pval[_kname(j)] = KFREE[j]
    pval.update(feedratio=FRFREE, T=TVAL, a1=A1FREE)
    for sk in order:
        pval["fc_" + sk] = FC[sk]
    has_keys = st != "num"  # do the reactions carry the unique keys k<j>?
    substituted = {}
    if has_keys or cfg["builder"] == "create":
        if s == "numfirst":
            substituted[k0] = ("num", SUBV)
        elif s == "numlast":
            substituted[k1] = ("num", SUBV)
        elif s == "numboth":
            substituted[k1] = ("num", SUBV2)
            substituted[k0] = ("num", SUBV)
        elif s == "expr":
            substituted[k0] = ("aT", AVAL)
        elif s == "exprU":
            substituted[k0] = ("aT", None if not cfg["ip"] else AVAL)  # a is itself the free parameter 'a1' when params are not included
    free = set()
    if cfg["cstr"]:
        free.add("feedratio")
        free.update("fc_" + sk for sk in order)
        if s == "frnum":
            free.discard("feedratio")
    if any(v[0] == "aT" for v in substituted.values()):
        free.add("T")
        if s == "exprU" and not cfg["ip"]:
            free.add("a1")
    kfree = (cfg["builder"] == "create") or (has_keys and not cfg["ip"])
    if kfree:
        free.update(_kname(j) for j in idxs if _kname(j) not in substituted)
    return order, free, pval, substituted, kfree


def model_constants(idxs, substituted, kfree, val):
    """val(name) -> value bound to the free parameter `name`; returns the model's k per reaction"""
    ks = []
    for j in idxs:
        nm = _kname(j)
        if nm in substituted:
            kind, a = substituted[nm]
            if kind == "num":
                ks.append(a)
            else:
                ks.append((val("a1") if a is None else a) * val("T"))
        elif kfree:
            ks.append(val(nm))
        else:
            ks.append(KIN[j])
    return ks


def cfg_str(cfg):
    return "%s style=%s ip=%s subst=%s cstr=%s order=%s" % ("get_odesys" if cfg["builder"] == "get" else "_create_odesys", cfg["style"], cfg["ip"] if cfg["builder"] == "get" else "-", cfg["subst"], "on" if cfg["cstr"] else "off", cfg["order"])


def sys_str(idxs, rts):
    from mc.checks.c03 import _rt_str

    return " ; ".join(_rt_str(rt, _kname(j)) for j, rt in zip(idxs, rts))


def check_pair(res, cfg, idxs, rts):
    import sympy
    import numpy as np

    bname = "get_odesys" if cfg["builder"] == "get" else "_create_odesys"
    case = dict(cfg=cfg, idxs=list(idxs), rts=[[list(map(list, p)) for p in rt] for rt in rts])
    tag = "cstr=%s|subst=%s" % ("on" if cfg["cstr"] else "off", cfg["subst"])
    res.states += 1
    res.transitions += 1
    for dim in ("builder", "style", "subst", "order"):
        res.symbols["%s:%s" % (dim, cfg[dim])] += 1
    res.symbols["ip:%s" % cfg["ip"]] += 1
    res.symbols["cstr:%s" % cfg["cstr"]] += 1
    what0 = "%s on [%s]" % (cfg_str(cfg), sys_str(idxs, rts))

    def viol(what, msg, observed=None, expected=None):
        key = "C04|%s|%s|%s" % (bname, what, tag)
        res.violation(key, "%s: %s" % (what0, msg), dict(case, expect_key=key), observed, expected)

    res.evaluations += 1
    try:
        rsys, odesys, extra = build(cfg, idxs, rts)
    except Exception as e:
        ma = must_accept(cfg)
        cls = "refused %s style=%s ip=%s subst=%s order=%s: %s" % (bname, cfg["style"], cfg["ip"], cfg["subst"], "extra" if cfg["order"] == "extra" else "-", type(e).__name__)
        if ma:
            viol("builder-raises", "raised %s: %s" % (type(e).__name__, e), "EXC %s" % type(e).__name__, "an ODE system")
            res.outcomes["REFUSED-but-documented-input"] += 1
        else:
            res.outcomes[cls] += 1
        return False
    res.nontrivial += 1
    order, free, pval, substituted, kfree = expectation(cfg, idxs, rts)
    ok = True
    names = list(odesys.names)
    pnames = list(odesys.param_names)
    # 1. names
    res.evaluations += 1
    if names != list(rsys.substances.keys()) or names != order or len(odesys.dep) != len(names) or len(odesys.exprs) != len(names):
        viol("names", "odesys.names = %r, substances %r" % (names, order), names, order)
        return False
    # 2. parameter names: exactly the free keys for documented inputs; for inputs without an acceptance expectation a
    #    further *known* key is tolerated as long as the right-hand side does not depend on it (step 3 decides that)
    res.evaluations += 1
    unused = set(pnames) - free
    strict = must_accept(cfg) is True
    if len(set(pnames)) != len(pnames) or len(odesys.params) != len(pnames) or not free <= set(pnames) or (unused and (strict or not unused <= set(pval))):
        viol("param_names", "odesys.param_names = %r, expected the free keys %r" % (pnames, sorted(free)), sorted(pnames), sorted(free))
        ok = False
    elif unused:
        res.extra["accepted_with_unused_free_key"] = res.extra.get("accepted_with_unused_free_key", 0) + 1
    # 3. exact value after binding by name
    bind = {}
    for sym, nm in zip(odesys.dep, names):
        bind[sym] = sympy.Integer(ATOM[nm])
    unknown = [nm for nm in pnames if nm not in pval]
    for sym, nm in zip(odesys.params, pnames):
        bind[sym] = sympy.Integer(pval.get(nm, 1))
    conc = {nm: ATOM[nm] for nm in names}
    ks = model_constants(idxs, substituted, kfree, lambda nm: pval[nm])
    feed = None
    if cfg["cstr"]:
        feed = (FRSUB if cfg["subst"] == "frnum" else pval["feedratio"], {sk: pval["fc_" + sk] for sk in order})
    model = M.system_rates(rts, ks, conc, order, feed)
    res.evaluations += 1
    got = []
    for e in odesys.exprs:
        try:
            v = sympy.sympify(e).xreplace(bind)
            got.append(v if v.is_Number else "UNBOUND %s" % v)
        except Exception as ex:
            got.append("EXC %s" % type(ex).__name__)
    exp = [sympy.Integer(model[nm]) for nm in names]
    if unknown or any(isinstance(g, str) or g != x for g, x in zip(got, exp)):
        viol("rhs-value", "exprs %s bound by name (%s) give %s, model S^T r = %s" % (
            [str(e) for e in odesys.exprs], ", ".join("%s=%s" % (nm, bind[sym]) for sym, nm in list(zip(odesys.dep, names)) + list(zip(odesys.params, pnames))),
            [str(g) for g in got], [str(x) for x in exp]), [str(g) for g in got], [str(x) for x in exp])
        ok = False
    # 4. symbolic identity
    if ok:
        res.evaluations += 1
        symof = dict(zip(pnames, odesys.params))
        sconc = dict(zip(names, odesys.dep))
        sks = model_constants(idxs, substituted, kfree, lambda nm: symof[nm])
        sfeed = None
        if cfg["cstr"]:
            sfeed = (FRSUB if cfg["subst"] == "frnum" else symof["feedratio"], {sk: symof["fc_" + sk] for sk in order})
        smodel = M.system_rates(rts, sks, sconc, order, sfeed)
        bad = [nm for e, nm in zip(odesys.exprs, names) if sympy.expand(e - smodel[nm]) != 0]
        if bad:
            viol("rhs-symbolic", "exprs %s differ symbolically from the model %s for %r" % ([str(e) for e in odesys.exprs], [str(smodel[nm]) for nm in names], bad), [str(e) for e in odesys.exprs], [str(smodel[nm]) for nm in names])
            ok = False
    # 5. numeric callbacks (only meaningful when the parameter vector could be bound)
    if not unknown and free <= set(pnames):
        y = np.array([float(ATOM[nm]) for nm in names])
        p = np.array([float(pval[nm]) for nm in pnames])
        res.evaluations += 1
        try:
            f = [float(v) for v in np.asarray(odesys.f_cb(0.0, y, p)).ravel()]
        except Exception as ex:
            f = "EXC %s: %s" % (type(ex).__name__, ex)
        expf = [float(model[nm]) for nm in names]
        if isinstance(f, str) or len(f) != len(expf) or any(abs(a - b) > 1e-13 * max(abs(a), abs(b)) for a, b in zip(f, expf)):
            viol("f_cb", "odesys.f_cb(0, %s, %s) = %s, model %s" % (list(y), list(p), f, expf), f, expf)
            ok = False
        if cfg["builder"] == "get":
            res.evaluations += 1
            try:
                rr = [float(v) for v in np.asarray(extra["rate_exprs_cb"](0.0, y, p)).ravel()]
            except Exception as ex:
                rr = "EXC %s: %s" % (type(ex).__name__, ex)
            expr_ = [float(v) for v in M.per_reaction_rates(rts, ks, conc)]
            if isinstance(rr, str) or len(rr) != len(expr_) or any(abs(a - b) > 1e-13 * max(abs(a), abs(b)) for a, b in zip(rr, expr_)):
                viol("rate_exprs_cb", "extra['rate_exprs_cb'](0, %s, %s) = %s, model per-reaction rates %s" % (list(y), list(p), rr, expr_), rr, expr_)
                ok = False
    res.outcomes["%s %s style=%s ip=%s subst=%s cstr=%s order=%s nfree=%d" % ("ok" if ok else "WRONG", bname, cfg["style"], cfg["ip"], cfg["subst"], cfg["cstr"], cfg["order"], len(free))] += 1
    res.extra["max_free_params"] = max(res.extra.get("max_free_params", 0), len(free))
    return ok


def check_rebuild(res, builder, style, idxs):
    """build, re-assign the rate constant of the first reaction on the live Reaction object, build again: the second
    system must be the kinetic model with the NEW constant (a builder must not answer from a stale cache)"""
    import sympy
    from chempy import Reaction, ReactionSystem
    from chempy.kinetics.ode import get_odesys, _create_odesys

    rts = [POOL[i] for i in idxs]
    names = sorted({k for rt in rts for k in M.rt_keys(rt)})
    case = dict(layer="H", builder=builder, style=style, idxs=list(idxs))
    res.states += 1
    res.transitions += 2
    res.nontrivial += 1
    conc = {"A": 5, "B": 7, "C": 11}
    kvals = {}

    def par(j, gen):
        if style == "num":
            v = KIN[j] + 1000 * gen
            return v, v
        nm = _kname(j) + ("x" if gen else "")
        kvals[nm] = 101 + 2 * j + 40 * gen
        return nm, kvals[nm]

    try:
        rxns, ks = [], []
        for j, rt in zip(idxs, rts):
            reac, prod, ir, ip = M.rt_dicts(rt)
            p, v = par(j, 0)
            ks.append(v)
            rxns.append(Reaction(reac, prod, p, inact_reac=ir or None, inact_prod=ip or None))
        rsys = ReactionSystem(rxns, names)
        for gen in (0, 1):
            if gen == 1:
                p, v = par(idxs[0], 1)
                rxns[0].param = p
                ks[0] = v
            odesys = (get_odesys(rsys, include_params=(style == "num")) if builder == "get" else _create_odesys(rsys))[0]
            res.evaluations += 1
            bind = {d: conc[n] for d, n in zip(odesys.dep, odesys.names)}
            for sym, pn in zip(odesys.params, odesys.param_names):
                bind[sym] = kvals.get(pn, sympy.Symbol("UNBOUND_" + str(pn)))
            got = [sympy.sympify(e).subs(bind) for e in odesys.exprs]
            model = M.system_rates(rts, ks, conc, list(odesys.names))
            exp = [model[n] for n in odesys.names]
            if [sympy.sympify(g) - e for g, e in zip(got, exp)] != [0] * len(exp):
                res.outcomes["rebuild-STALE" if gen else "rebuild-first-WRONG"] += 1
                res.violation("C04|%s|rebuild-after-param-reassignment|%s" % ("get_odesys" if builder == "get" else "_create_odesys", "second build uses the old constant" if gen else "first build wrong"),
                              "%s style=%s on %s: build #%d gives %r bound by name, model with the current constants %r" % (builder, style, sys_str(idxs, rts), gen + 1, [str(g) for g in got], [str(e) for e in exp]), case, [str(g) for g in got], [str(e) for e in exp])
                return
        res.outcomes["rebuild-ok"] += 1
    except Exception as e:
        res.outcomes["rebuild-raises:%s" % type(e).__name__] += 1
        res.violation("C04|%s|rebuild-after-param-reassignment|raises" % builder, "%s style=%s on %s raised %s: %s" % (builder, style, sys_str(idxs, rts), type(e).__name__, e), case, "EXC %s" % type(e).__name__, None)


def check_symbols(res, idxs, perm):
    """the alternative builder with caller-chosen symbols for the concentrations, handed in as a plain dict in another
    order than the substances: equation i is d[names[i]]/dt written in the symbol chosen for names[i]"""
    import sympy
    from collections import OrderedDict
    from chempy import Reaction, ReactionSystem, Substance
    from chempy.kinetics.ode import _create_odesys

    rts = [POOL[i] for i in idxs]
    names = sorted({k for rt in rts for k in M.rt_keys(rt)})
    order = [names[p % len(names)] for p in perm][: len(names)]
    order = order + [n for n in names if n not in order]
    case = dict(layer="H", what="symbols", idxs=list(idxs), perm=list(perm))
    res.states += 1
    res.transitions += 1
    res.nontrivial += 1
    res.evaluations += 1
    try:
        rxns = []
        for j, rt in zip(idxs, rts):
            reac, prod, ir, ip = M.rt_dicts(rt)
            rxns.append(Reaction(reac, prod, _kname(j), inact_reac=ir or None, inact_prod=ip or None))
        rsys = ReactionSystem(rxns, OrderedDict((k, Substance(k)) for k in names[::-1]))
        chosen = {k: sympy.Symbol("c_" + k) for k in order}  # a plain dict, its own order
        odesys = _create_odesys(rsys, substance_symbols=chosen)[0]
        conc = {"A": 5, "B": 7, "C": 11}
        bad = None
        if list(odesys.names) != names[::-1]:
            bad = "names %r, substance order %r" % (list(odesys.names), names[::-1])
        else:
            for i, n in enumerate(odesys.names):
                if odesys.dep[i] != chosen[n]:
                    bad = "dependent variable %d is named %r but carries the symbol %s" % (i, n, odesys.dep[i])
                    break
        if bad is None:
            kv = {_kname(j): KFREE[j] for j in idxs}
            bind = {chosen[n]: conc[n] for n in names}
            for sym, pn in zip(odesys.params, odesys.param_names):
                bind[sym] = kv.get(pn, sympy.Symbol("UNBOUND"))
            model = M.system_rates(rts, [kv[_kname(j)] for j in idxs], conc, list(odesys.names))
            got = [sympy.sympify(e).subs(bind) for e in odesys.exprs]
            if [g - model[n] for g, n in zip(got, odesys.names)] != [0] * len(got):
                bad = "right-hand side %r bound by the chosen symbols, model %r" % ([str(g) for g in got], [str(model[n]) for n in odesys.names])
        res.outcomes["symbols-ok" if bad is None else "symbols-WRONG"] += 1
        if bad:
            res.violation("C04|_create_odesys|substance_symbols-plain-dict|equations-and-symbols-mismatched", "%s with substance_symbols given in order %r: %s" % (sys_str(idxs, rts), order, bad), case, bad, None)
    except Exception as e:
        res.outcomes["symbols-raises:%s" % type(e).__name__] += 1
        res.violation("C04|_create_odesys|substance_symbols-plain-dict|raises", "%s with substance_symbols %r raised %s: %s" % (sys_str(idxs, rts), order, type(e).__name__, e), case, "EXC %s" % type(e).__name__, None)


def check_constant_priority(res, which):
    """a rate expression that reads the gas constant as a parameter: an explicit substitution of that key wins over the
    `constants` object (its documented role is to supply keys NOT found in the substitutions)"""
    import math
    import numpy as np
    from chempy import Reaction, ReactionSystem
    from chempy.kinetics.ode import get_odesys
    from chempy.kinetics.rates import MassAction
    from chempy.units import default_constants

    def _k(args, T, R, backend=math, **kwargs):
        A, Ea = args
        return A * backend.exp(-Ea / (R * T))

    ArrhR = MassAction.from_callback(_k, argument_names=("A", "Ea"), parameter_keys=("temperature", "molar_gas_constant"))
    A1, Ea1, A2, Ea2, T = 1e10, 40e3, 3e8, 25e3, 305.0
    conc = {"A": 3.0, "B": 5.0, "C": 7.0}
    myR = 8.0
    Rdef = float(default_constants.molar_gas_constant.magnitude)
    subs, consts, Rexp = {"constants-only": (None, default_constants, Rdef), "substitution-only": ({"molar_gas_constant": myR}, None, myR),
                          "substitution+constants": ({"molar_gas_constant": myR}, default_constants, myR)}[which]
    case = dict(layer="H", what="constants", which=which)
    res.states += 1
    res.transitions += 1
    res.nontrivial += 1
    res.evaluations += 1
    try:
        rsys = ReactionSystem([Reaction({"A": 1}, {"B": 1}, ArrhR([A1, Ea1])), Reaction({"B": 2}, {"C": 1}, ArrhR([A2, Ea2]))], "A B C")
        odesys = get_odesys(rsys, include_params=True, substitutions=subs, constants=consts)[0]
        y = [conc[k] for k in odesys.names]
        p = [{"temperature": T}[k] for k in odesys.param_names]
        got = np.asarray(odesys.f_cb(0.0, y, p), dtype=float).ravel()
        q1 = A1 * math.exp(-Ea1 / (Rexp * T)) * conc["A"]
        q2 = A2 * math.exp(-Ea2 / (Rexp * T)) * conc["B"] ** 2
        ref = np.array([{"A": -q1, "B": q1 - 2 * q2, "C": q2}[k] for k in odesys.names])
        ok = bool(np.allclose(got, ref, rtol=1e-10, atol=0))
        res.outcomes["constant-priority-ok" if ok else "constant-priority-WRONG"] += 1
        if not ok:
            res.violation("C04|get_odesys|substitutions-vs-constants|%s|rhs-value" % which, "Arrhenius-with-R system, %s: f = %r, with R = %r it is %r" % (which, got.tolist(), Rexp, ref.tolist()), case, got.tolist(), ref.tolist())
    except Exception as e:
        res.outcomes["constant-priority-raises:%s" % type(e).__name__] += 1
        res.violation("C04|get_odesys|substitutions-vs-constants|%s|raises" % which, "%s raised %s: %s" % (which, type(e).__name__, e), case, "EXC %s" % type(e).__name__, None)


def check_special_systems(res, which, builder):
    """two systems at the edge of what the builders take: (a) non-integral active orders (all-integral check off): the
    right-hand side is N^T r with c**(1/2), c**(3/2); (b) a substance whose key is the reserved word 'time': either refused
    with ValueError or built with that concentration as a dependent variable of its own (never the independent variable)"""
    import sympy
    from chempy import Reaction, ReactionSystem
    from chempy.kinetics.ode import get_odesys, _create_odesys

    case = dict(layer="H", what="special", which=which, builder=builder)
    res.states += 1
    res.transitions += 1
    res.nontrivial += 1
    res.evaluations += 1
    noint = [c for c in Reaction.default_checks if c != "all_integral"]
    try:
        if which.startswith("order"):
            nu = {"order1/2": sympy.Rational(1, 2), "order3/2": sympy.Rational(3, 2), "order0.5": 0.5}[which]
            ka, kb = (7, 3) if builder == "get" else ("ka", "kb")  # the alternative builder takes named constants only
            rsys = ReactionSystem([Reaction({"A": nu}, {"B": 1}, ka, checks=noint), Reaction({"B": 2}, {"C": 1}, kb)], "A B C")
            conc = {"A": 9, "B": 5, "C": 11}
            r1, r2 = 7 * sympy.Integer(9) ** sympy.nsimplify(nu), 3 * 25
            exp = {"A": -sympy.nsimplify(nu) * r1, "B": r1 - 2 * r2, "C": r2}
        else:
            rsys = ReactionSystem([Reaction({"time": 2}, {"B": 1}, 3 if builder == "get" else "kb")], "time B")
            conc = {"time": 2, "B": 5}
            exp = {"time": -24, "B": 12}
        try:
            odesys = (get_odesys(rsys, include_params=True) if builder == "get" else _create_odesys(rsys))[0]
        except ValueError as e:
            if which == "time-key":
                res.outcomes["special:%s:refused" % which] += 1
                return
            raise
        bind = {d: conc[n] for d, n in zip(odesys.dep, odesys.names)}
        bind[odesys.indep] = 1000  # the independent variable must not enter an autonomous right-hand side
        for sym, pn in zip(odesys.params, odesys.param_names):
            bind[sym] = {"ka": 7, "kb": 3}.get(pn, sympy.Symbol("UNBOUND_" + str(pn)))
        got = {n: sympy.nsimplify(sympy.sympify(e).subs(bind)) for n, e in zip(odesys.names, odesys.exprs)}
        ok = list(odesys.names) == list(rsys.substances) and all(sympy.simplify(got[n] - exp[n]) == 0 for n in exp)
        res.outcomes["special:%s:%s" % (which, "ok" if ok else "WRONG")] += 1
        if not ok:
            res.violation("C04|%s|special-system|%s|rhs-value" % ("get_odesys" if builder == "get" else "_create_odesys", which), "%s on the %s system: f = %s at %r, N^T r = %s" % (
                builder, which, {k: str(v) for k, v in got.items()}, conc, {k: str(v) for k, v in exp.items()}), case, {k: str(v) for k, v in got.items()}, {k: str(v) for k, v in exp.items()})
    except Exception as e:
        res.outcomes["special:%s:raises:%s" % (which, type(e).__name__)] += 1
        res.violation("C04|%s|special-system|%s|raises" % ("get_odesys" if builder == "get" else "_create_odesys", which), "%s on the %s system raised %s: %s" % (builder, which, type(e).__name__, e), case, "EXC %s" % type(e).__name__, None)


def check_more_special(res, which, builder):
    """further systems at the edge: (a) "text-repeat": a system read from text in which a substance is written several times on
    one side, later occurrences carrying a number; (b) "tiny-coeff": non-integral net coefficients far below one / with many
    decimals enter N as they are; (c) "zero-bound": a named constant with a default value bound to zero (and to other values)
    through substitutions: the value bound is the value used; (d) "subclass": a user subclass of Reaction overriding rate_expr
    (an efficiency factor): every builder uses the reactions' own rate expressions"""
    import sympy
    from collections import OrderedDict
    from chempy import Reaction, ReactionSystem, Substance
    from chempy.kinetics.ode import get_odesys, _create_odesys
    from chempy.kinetics.rates import MassAction
    from chempy.util._expr import Symbol as ESymbol

    case = dict(layer="H", what="more-special", which=which, builder=builder)
    res.states += 1
    res.transitions += 1
    res.nontrivial += 1
    res.evaluations += 1
    noint = [c for c in Reaction.default_checks if c != "all_integral"]
    bname = "get_odesys" if builder == "get" else "_create_odesys"
    kw_get = dict(include_params=False)
    pvals = {"ka": 7, "kb": 3, "F": 2, "cB": 13, "feedratio": 1000, "fc_A": 1000, "fc_B": 1000, "fc_C": 1000}
    tol = 0
    try:
        if which == "text-repeat":
            rsys = ReactionSystem.from_string("A + 2 A -> B; 'ka'\nB + B + 1 B -> C + 2 C; 'kb'", "A B C", substance_factory=Substance)
            conc = {"A": 9, "B": 5, "C": 11}
            r1, r2 = 7 * 9 ** 3, 3 * 5 ** 3
            exp = {"A": -3 * r1, "B": r1 - 3 * r2, "C": 3 * r2}
        elif which == "tiny-coeff":
            rsys = ReactionSystem([Reaction({"A": 1}, {"B": 2.5e-13}, MassAction(ESymbol(unique_keys=("ka",))), checks=noint),
                                   Reaction({"C": 1}, {"D": 1 / 3e6}, MassAction(ESymbol(unique_keys=("kb",))), checks=noint)], "A B C D", substance_factory=Substance)
            conc = {"A": 9, "B": 5, "C": 11, "D": 13}
            exp = {"A": -63, "B": 2.5e-13 * 63, "C": -33, "D": (1 / 3e6) * 33}
            tol = 1e-13
        elif which == "cstr-tuple":
            # the stirred-tank terms asked for with the caller's own keys, for one substance only
            rsys = ReactionSystem([Reaction({"A": 1}, {"B": 1}, MassAction(ESymbol(unique_keys=("ka",)))), Reaction({"B": 1}, {"C": 1}, MassAction(ESymbol(unique_keys=("kb",))))],
                                  "A B C", substance_factory=Substance)
            conc = {"A": 9, "B": 5, "C": 11}
            kw_get = dict(include_params=False, cstr=("F", {"B": "cB"}))
            r1, r2 = 7 * 9, 3 * 5
            exp = {"A": -r1, "B": r1 - r2 + 2 * (13 - 5), "C": r2}
            builder = "get"
        elif which == "reported-defaults":
            # named constants that carry stored values, kept free: the builder reports the stored values (extra['unique']); binding the
            # free symbols to what it reports gives the right-hand side of the inlined build
            rsys = ReactionSystem([Reaction({"A": 1}, {"B": 1}, MassAction([1.5], unique_keys=["kAB"])),
                                   Reaction({"B": 1}, {"C": 1}, MassAction([0.25], unique_keys=["kBC"]))], "A B C", substance_factory=Substance)
            conc = {"A": 9, "B": 5, "C": 11}
            kw_get = dict(include_params=False)
            r1, r2 = sympy.Rational(3, 2) * 9, sympy.Rational(1, 4) * 5
            exp = {"A": -r1, "B": r1 - r2, "C": r2}
            builder = "get"
        elif which.startswith("zero-bound"):
            val = {"zero-bound:0": 0, "zero-bound:0.0": 0.0, "zero-bound:2": 2, "zero-bound:default": 0.25}[which]
            rsys = ReactionSystem([Reaction({"A": 1}, {"B": 1}, MassAction([1.5], unique_keys=["ka"])),
                                   Reaction({"B": 1}, {"C": 1}, MassAction([0.25], unique_keys=["kBC"]))], "A B C", substance_factory=Substance)
            conc = {"A": 9, "B": 5, "C": 11}
            kw_get = dict(include_params=(builder == "get"), substitutions={"kBC": val})
            r1, r2 = (sympy.Rational(3, 2) if builder == "get" else 7) * 9, sympy.nsimplify(val) * 5
            exp = {"A": -r1, "B": r1 - r2, "C": r2}
            builder = "get"
        else:
            class EfficiencyReaction(Reaction):
                def rate_expr(self):
                    return super(EfficiencyReaction, self).rate_expr() * self.data["efficiency"]

            rsys = ReactionSystem([EfficiencyReaction({"A": 1}, {"B": 1}, MassAction(ESymbol(unique_keys=("ka",))), data={"efficiency": 2}),
                                   EfficiencyReaction({"B": 1}, {"C": 1}, MassAction(ESymbol(unique_keys=("kb",))), data={"efficiency": 4})], "A B C", substance_factory=Substance)
            conc = {"A": 9, "B": 5, "C": 11}
            r1, r2 = 2 * 7 * 9, 4 * 3 * 5
            exp = {"A": -r1, "B": r1 - r2, "C": r2}
        odesys, extra_ = (get_odesys(rsys, **kw_get) if builder == "get" else _create_odesys(rsys))[:2]
        if which == "reported-defaults":
            pvals = {k_: v_ for k_, v_ in dict(extra_["unique"]).items() if v_ is not None}
        bind = {d: conc[n] for d, n in zip(odesys.dep, odesys.names)}
        bind[odesys.indep] = 1000
        for sym, pn in zip(odesys.params, odesys.param_names):
            bind[sym] = pvals.get(pn, sympy.Symbol("UNBOUND_" + str(pn)))
        got = {n: sympy.sympify(e).subs(bind) for n, e in zip(odesys.names, odesys.exprs)}
        if tol:
            ok = all(got[n].is_number and abs(float(got[n]) - exp[n]) <= tol * abs(exp[n]) for n in exp)
        else:
            ok = all(sympy.simplify(sympy.nsimplify(got[n]) - exp[n]) == 0 for n in exp)
        ok = ok and list(odesys.names) == list(rsys.substances)
        res.outcomes["more-special:%s:%s" % (which.split(":")[0], "ok" if ok else "WRONG")] += 1
        if not ok:
            res.violation("C04|%s|special-system|%s|rhs-value" % (bname, which), "%s on the %s system: f = %s at %r, N^T r = %s" % (
                bname, which, {k: str(v) for k, v in got.items()}, conc, {k: str(v) for k, v in exp.items()}), case, {k: str(v) for k, v in got.items()}, {k: str(v) for k, v in exp.items()})
    except Exception as e:
        res.outcomes["more-special:%s:raises:%s" % (which, type(e).__name__)] += 1
        res.violation("C04|%s|special-system|%s|raises" % (bname, which), "%s on the %s system raised %s: %s" % (bname, which, type(e).__name__, e), case, "EXC %s" % type(e).__name__, None)


def check_large(res, variant, builder):
    """the 13-substance, 16-20-reaction system of C03's layer BIG (a hub substance in up to 17 reactions, autocatalysis, inactive
    parts) through both builders: one equation per substance in substance order, equal to N^T r"""
    import sympy
    from chempy import Reaction, ReactionSystem
    from chempy.kinetics.ode import get_odesys, _create_odesys
    from mc.checks import c03

    rts = c03._big_system(variant)
    S = list(c03.BIG_S)
    primes = [101, 103, 107, 109, 113, 127, 131, 137, 139, 149, 151, 157, 163]
    conc = dict(zip(S, primes))
    case = dict(layer="H", what="large", variant=variant, builder=builder)
    res.states += 1
    res.transitions += len(rts)
    res.nontrivial += 1
    res.evaluations += 1
    try:
        rxns, ks, kvals = [], [], {}
        for j, rt in enumerate(rts):
            reac, prod, ir, ip = M.rt_dicts(rt)
            k = 200 + 3 * j
            nm = "q%02d" % j
            kvals[nm] = k
            rxns.append(Reaction(reac, prod, k if builder == "get" else nm, inact_reac=ir or None, inact_prod=ip or None))
            ks.append(k)
        order = S if variant == 0 else S[::-1]
        rsys = ReactionSystem(rxns, order)
        odesys = (get_odesys(rsys, include_params=True) if builder == "get" else _create_odesys(rsys))[0]
        bind = {d: conc[n] for d, n in zip(odesys.dep, odesys.names)}
        for sym, pn in zip(odesys.params, odesys.param_names):
            bind[sym] = kvals.get(pn, sympy.Symbol("UNBOUND_" + str(pn)))
        got = [sympy.sympify(e).subs(bind) for e in odesys.exprs]
        model = M.system_rates(rts, ks, conc, order)
        exp = [model[n] for n in order]
        ok = list(odesys.names) == list(order) and [sympy.sympify(g) - e for g, e in zip(got, exp)] == [0] * len(exp)
        res.outcomes["large-ok" if ok else "large-WRONG"] += 1
        if not ok:
            res.violation("C04|%s|large-system|rhs-value" % ("get_odesys" if builder == "get" else "_create_odesys"), "%s on the %d-reaction, %d-substance system (variant %d): names %r, f = %r, N^T r = %r" % (
                builder, len(rts), len(S), variant, list(odesys.names), [str(g) for g in got], [str(e) for e in exp]), case, [str(g) for g in got], [str(e) for e in exp])
    except Exception as e:
        res.outcomes["large-raises:%s" % type(e).__name__] += 1
        res.violation("C04|%s|large-system|raises" % builder, "%s on the large system (variant %d) raised %s: %s" % (builder, variant, type(e).__name__, e), case, "EXC %s" % type(e).__name__, None)


def check_expanded_equilibrium(res, builder, which):
    """an equilibrium with an inactive species expanded into its forward and backward reactions (as_reactions), then built: the
    inactive species is consumed by the forward and released by the backward reaction (its net coefficient changes sign)"""
    import sympy
    from chempy import Equilibrium, ReactionSystem
    from chempy.kinetics.ode import get_odesys, _create_odesys

    case = dict(layer="H", what="expanded-equilibrium", builder=builder, which=which)
    res.states += 1
    res.transitions += 2
    res.nontrivial += 1
    res.evaluations += 1
    conc = {"A": 5, "B": 7, "C": 11, "S": 13}
    kf, K = 6, 3
    try:
        kw = dict(inact_reac={"S": 1}) if which == "inactive-reactant" else dict(inact_prod={"S": 2})
        eq = Equilibrium({"A": 1, "B": 1}, {"C": 1}, K, **kw)
        fw, bw = eq.as_reactions(kf=kf)
        if builder == "create":
            fw.param, bw.param = "kfw", "kbw"
        rsys = ReactionSystem([fw, bw], "A B C S")
        odesys = (get_odesys(rsys, include_params=True) if builder == "get" else _create_odesys(rsys))[0]
        bind = {d: conc[n] for d, n in zip(odesys.dep, odesys.names)}
        kb = sympy.Rational(kf, K)
        for sym, pn in zip(odesys.params, odesys.param_names):
            bind[sym] = {"kfw": kf, "kbw": kb}.get(pn, sympy.Symbol("UNBOUND_" + str(pn)))
        got = {n: sympy.nsimplify(sympy.sympify(e).subs(bind)) for n, e in zip(odesys.names, odesys.exprs)}
        rf, rb = kf * conc["A"] * conc["B"], kb * conc["C"]
        nS = -1 if which == "inactive-reactant" else 2
        exp = {"A": -rf + rb, "B": -rf + rb, "C": rf - rb, "S": nS * (rf - rb)}
        ok = all(sympy.simplify(got[n] - exp[n]) == 0 for n in exp)
        res.outcomes["expanded-equilibrium-ok" if ok else "expanded-equilibrium-WRONG"] += 1
        if not ok:
            res.violation("C04|%s|expanded-equilibrium|rhs-value" % ("get_odesys" if builder == "get" else "_create_odesys"), "A + B = C with %s S, as_reactions(kf=%d) then %s: f = %s, forward minus backward gives %s" % (
                which, kf, builder, {k: str(v) for k, v in got.items()}, {k: str(v) for k, v in exp.items()}), case, {k: str(v) for k, v in got.items()}, {k: str(v) for k, v in exp.items()})
    except Exception as e:
        res.outcomes["expanded-equilibrium-raises:%s" % type(e).__name__] += 1
        res.violation("C04|%s|expanded-equilibrium|raises" % builder, "%s, %s raised %s: %s" % (which, builder, type(e).__name__, e), case, "EXC %s" % type(e).__name__, None)


def check_partial_names(res, kind, nnamed):
    """rate expressions with several arguments of which only the leading `nnamed` carry names (unique_keys is aligned with
    the beginning of args): kept as free parameters, exactly the named ones become parameters (defaults: the written values)
    and the right-hand side evaluated at those defaults equals the inlined build and the hand rate"""
    import math
    import numpy as np
    from chempy import Reaction, ReactionSystem
    from chempy.kinetics.ode import get_odesys
    from chempy.kinetics.rates import MassAction, Arrhenius, Eyring

    T = 305.0
    conc = {"A": 3.0, "B": 5.0, "C": 7.0}
    if kind == "Arrhenius":
        args, names_all = [1e10, 4810.0], ("A_1", "EaR_1")
        k1 = args[0] * math.exp(-args[1] / T)
        expr = Arrhenius(list(args), unique_keys=names_all[:nnamed] if nnamed else None)
    else:  # Eyring with its defaulted third argument (conc0) left unnamed, or named explicitly
        args, names_all = [2e10, 5200.0, 1.0], ("kBh_1", "dHR_1", "c0_1")
        k1 = T * args[0] * math.exp(-args[1] / T) / args[2]
        expr = Eyring(list(args[:2]) if nnamed < 3 else list(args), unique_keys=names_all[:nnamed] if nnamed else None)
    case = dict(layer="H", what="partial-names", kind=kind, nnamed=nnamed)
    res.states += 1
    res.transitions += 2
    res.nontrivial += 1
    res.evaluations += 1
    try:
        rsys = ReactionSystem([Reaction({"A": 1}, {"B": 1}, MassAction(expr)), Reaction({"B": 2}, {"C": 1}, 7.0)], "A B C")
        ref = {"A": -k1 * conc["A"], "B": k1 * conc["A"] - 2 * 7.0 * conc["B"] ** 2, "C": 7.0 * conc["B"] ** 2}
        out = {}
        for ip in (True, False):
            odesys, extra = get_odesys(rsys, include_params=ip)
            pn = list(odesys.param_names)
            uniq = dict(extra["unique"])
            vals = dict(temperature=T, **{k: v for k, v in uniq.items()})
            f = np.asarray(odesys.f_cb(0.0, [conc[k] for k in odesys.names], [vals[k] for k in pn]), dtype=float).ravel()
            out[ip] = (pn, uniq, {k: float(v) for k, v in zip(odesys.names, f)})
        exp_free = ["temperature"] + list(names_all[:nnamed])
        bad = None
        if sorted(out[True][0]) != ["temperature"]:
            bad = "inlined build has parameters %r" % (out[True][0],)
        elif sorted(out[False][0]) != sorted(exp_free):
            bad = "free-parameter build has parameters %r, the named constants are %r" % (out[False][0], exp_free)
        elif {k: float(v) for k, v in out[False][1].items()} != {k: float(v) for k, v in zip(names_all[:nnamed], args)}:
            bad = "defaults of the named constants %r, written %r" % (out[False][1], dict(zip(names_all[:nnamed], args)))
        else:
            for ip in (True, False):
                if not all(abs(out[ip][2][k] - ref[k]) <= 1e-10 * abs(ref[k]) for k in ref):
                    bad = "include_params=%r: f = %r, by hand %r" % (ip, out[ip][2], ref)
        res.outcomes["partial-names-ok" if bad is None else "partial-names-WRONG"] += 1
        if bad:
            res.violation("C04|get_odesys|partially-named-arguments|%s" % kind, "%s with the first %d argument(s) named: %s" % (kind, nnamed, bad), case, bad, None)
    except Exception as e:
        res.outcomes["partial-names-raises:%s" % type(e).__name__] += 1
        res.violation("C04|get_odesys|partially-named-arguments|%s|raises" % kind, "%s with the first %d argument(s) named raised %s: %s" % (kind, nnamed, type(e).__name__, e), case, "EXC %s" % type(e).__name__, None)


def run_chunk(chunk, tier):
    res = Result()
    t = _tier(tier)
    if chunk[0] == "H":
        i = chunk[1]
        if i == 3:
            for variant in (0, 1):
                for builder in ("get", "create"):
                    check_large(res, variant, builder)
            for which in ("inactive-reactant", "inactive-product"):
                for builder in ("get", "create"):
                    check_expanded_equilibrium(res, builder, which)
        if i == 2:
            for which in ("order1/2", "order3/2", "order0.5", "time-key"):
                for builder in ("get", "create"):
                    check_special_systems(res, which, builder)
            for which in ("reported-defaults", "cstr-tuple", "text-repeat", "tiny-coeff", "zero-bound:0", "zero-bound:0.0", "zero-bound:2", "zero-bound:default", "subclass"):
                for builder in ("get", "create"):
                    check_more_special(res, which, builder)
        if i == 1:
            for kind, nargs in (("Arrhenius", 2), ("Eyring", 3)):
                for nnamed in range(nargs + 1):
                    check_partial_names(res, kind, nnamed)
        if i == 0:
            for which in ("constants-only", "substitution-only", "substitution+constants"):
                check_constant_priority(res, which)
        for idxs in [(i,), (i, (i + 1) % len(POOL))]:
            for perm in itertools.permutations(range(3)):
                check_symbols(res, idxs, perm)
        for idxs in [(i,), (i, (i + 1) % len(POOL)), ((i + 2) % len(POOL), i)]:
            for builder in ("get", "create"):
                for style in ("num", "named"):
                    if builder == "create" and style == "num":
                        continue
                    check_rebuild(res, builder, style, idxs)
        res.sample(dict(layer="H", first=sys_str((i,), [POOL[i]])))
        return res
    cfgs = configs(t["maxdev"])
    n, L = t["pool"], t["L"]
    if chunk[0] == "L1":
        lists = [(chunk[1],)]
        cfgs = configs(6, True)
    else:
        _, i, j = chunk
        lists = [(i, j)]
        for size in range(3, L + 1):
            lists += [(i, j) + rest for rest in itertools.permutations([x for x in range(n) if x not in (i, j)], size - 2)]
    for idxs in lists:
        rts = [POOL[i] for i in idxs]
        for i in idxs:
            res.symbols["pool:%02d" % i] += 1
        for cfg in cfgs:
            check_pair(res, cfg, idxs, rts)
        if len(idxs) == 3 and idxs[2] == (idxs[1] + 1) % n:
            res.sample(dict(system=sys_str(idxs, rts), configurations=len(cfgs)), limit=1)
    return res


def replay(case):
    res = Result()
    if case.get("layer") == "H":
        if case.get("what") == "symbols":
            check_symbols(res, tuple(case["idxs"]), tuple(case["perm"]))
        elif case.get("what") == "constants":
            check_constant_priority(res, case["which"])
        elif case.get("what") == "large":
            check_large(res, case["variant"], case["builder"])
        elif case.get("what") == "expanded-equilibrium":
            check_expanded_equilibrium(res, case["builder"], case["which"])
        elif case.get("what") == "more-special":
            check_more_special(res, case["which"], case["builder"])
        elif case.get("what") == "special":
            check_special_systems(res, case["which"], case["builder"])
        elif case.get("what") == "partial-names":
            check_partial_names(res, case["kind"], case["nnamed"])
        else:
            check_rebuild(res, case["builder"], case["style"], tuple(case["idxs"]))
        if res.violations:
            v = res.violations[0]
            return dict(key=v["key"], what=v["what"], observed=v["observed"], expected=v["expected"])
        return None
    check_pair(res, case["cfg"], case["idxs"], [M.rt_from_json(x) for x in case["rts"]])
    want = case.get("expect_key")
    for v in res.violations:
        if v["key"] == want:
            return dict(key=v["key"], what=v["what"], observed=v["observed"], expected=v["expected"])
    if res.violations:
        v = res.violations[0]
        return dict(key=v["key"], what=v["what"], observed=v["observed"], expected=v["expected"])
    return None

"""C05 — only balanced reactions are admitted; elements and charge are conserved.

State space
  A  every reaction over ≤ K species of a 9-species pool with explicit compositions (2 elements + charge), each species
     with (reactant, product) coefficients ∈ {0,1,2}² — construction of ReactionSystem([rxn]) with default checks
  F  the same through text + Substance.from_formula on a pool of real formulas
  M  ordered lists of ≤3 reactions with one unbalanced reaction in every position (and all-balanced lists)
  O  every accepted system of layer A (and the accepted lists of M): composition vectors, B·Sᵀ = 0, B·f(c) ≡ 0 on the
     real ODE right-hand side, odesys.linear_invariants, every analytic elimination offered (`preferred` subsets of size 1–2)
  I  numerical integration of the accepted multi-reaction systems over a rate-constant lattice: B·y(t) constant
Oracle: per-key net count on the enumerated tuple; integer linear algebra.
"""
import itertools
from collections import OrderedDict

from mc.core import Result

META = dict(
    title="Only balanced reactions are admitted and their elements and charge are conserved",
    level="model_checking",
    technique="complete enumeration of all reactions with coefficients {0,1,2} over a composed-species pool (and all short ordered lists with an unbalanced reaction in every position), constructed through the real ReactionSystem/ODE builders, compared with per-key net counts and exact integer linear algebra; integration on a rate-constant lattice",
    rule="states = distinct reaction tuples / ordered lists / (system, preferred subset) / (system, k-pattern); non-trivial = reactions with a net effect (the balance check decides) — counted as balanced, "
    "unbalanced-in-one-key, unbalanced-in-several-keys",
    assumptions=["sympy and pyodesys are trusted", "integration is checked on a lattice of rate constants only (values off the lattice are outside the bound)", "more than K species per reaction and coefficients > 2 are outside the bound"],
    design_ref="DESIGN.md §3 C05",
    hashseed_sensitive=True,
)

POOL = [
    ("A", {1: 1}),
    ("B", {2: 1}),
    ("AB", {1: 1, 2: 1}),
    ("A2", {1: 2}),
    ("A2B", {1: 2, 2: 1}),
    ("A+", {1: 1, 0: 1}),
    ("B-", {2: 1, 0: -1}),
    ("e-", {0: -1}),
    ("AB-", {1: 1, 2: 1, 0: -1}),
    ("hv", {}),  # a species whose composition is present but empty (photon, inert third body)
]
COMP = dict(POOL)
NAMES = [n for n, c in POOL]
KEYS = [0, 1, 2]
FPOOL = {"H2O": {1: 2, 8: 1}, "H+": {1: 1, 0: 1}, "OH-": {1: 1, 8: 1, 0: -1}, "H2": {1: 2}, "O2": {8: 2}, "H2O2": {1: 2, 8: 2}, "Fe+2": {26: 1, 0: 2}, "Fe+3": {26: 1, 0: 3}, "e-": {0: -1},
         "P2W18O62-10": {15: 2, 74: 18, 8: 62, 0: -10}, "P2W18O62-12": {15: 2, 74: 18, 8: 62, 0: -12}}  # multi-digit charges
COEF = [(r, p) for r in (0, 1, 2) for p in (0, 1, 2) if (r, p) != (0, 0)]

# reactions for the list layer: (reac, prod)
BALANCED = [
    ({"A": 1, "B": 1}, {"AB": 1}),
    ({"A": 2}, {"A2": 1}),
    ({"A2": 1, "B": 1}, {"A2B": 1}),
    ({"A+": 1, "e-": 1}, {"A": 1}),
    ({"AB-": 1}, {"A": 1, "B-": 1}),
    ({"A+": 1, "B-": 1}, {"AB": 1}),
    ({"AB": 2}, {"A2B": 1, "B": 1}),
    ({"A": 1}, {"A2": 1, "B": 1}, {"AB": 1}, {}),  # A + (AB) -> A2 + B: AB is consumed through an inactive coefficient only
    ({"A2B": 1}, {"A": 1}, {}, {"AB": 1}),  # A2B -> A + (AB): AB is produced through an inactive coefficient only
    ({"A2": 1, "hv": 1}, {"A": 2}),  # photolysis: hv carries no composition
]
UNBALANCED = [
    ({"A": 1}, {"A2": 1}),  # element 1 only
    ({"AB": 1}, {"A": 1}),  # element 2 only
    ({"A+": 1}, {"A": 1}),  # charge only
    ({"A": 1, "B": 1}, {"AB-": 1}),  # charge only, two reactants
    ({"A2B": 1}, {"A+": 1, "B": 2}),  # all three keys
    ({"A": 1}, {"A2": 1}, {"AB": 1}, {}),  # unbalanced only through its inactive reactant
    ({"A2": 1, "hv": 1}, {"A": 1}),  # unbalanced, involving the composition-free species
]
KPAT = [(0.1, 1.0, 10.0), (10.0, 1.0, 0.1), (1.0, 1.0, 1.0)]


def bounds(tier):
    return dict(K=3 if tier == "quick" else 4, coefficients=[0, 1, 2], pool=len(POOL), formula_pool=len(FPOOL), list_len=3, preferred_sizes=[1, 2], k_lattice=[0.1, 1, 10])


def chunks(tier):
    K = bounds(tier)["K"]
    out = []
    for k in range(1, K + 1):
        for first in range(len(POOL) - k + 1):
            out.append(("A", k, first))
    out += [("F", first) for first in range(len(FPOOL))]
    out += [("M", i) for i in range(len(BALANCED) + len(UNBALANCED))]
    out += [("I", i) for i in range(len(BALANCED))]
    out += [("HC", k) for k in range(len(FIRST_OPS))]
    out += [("NI",)]
    return out


# ------------------------------------------------------------------------------------------------ model
def _full(rx):
    """(all reactants, all products) of a reaction tuple, inactive parts included"""
    r, p = dict(rx[0]), dict(rx[1])
    if len(rx) > 2:
        for k, v in rx[2].items():
            r[k] = r.get(k, 0) + v
        for k, v in rx[3].items():
            p[k] = p.get(k, 0) + v
    return r, p


def net_keys(reac, prod, comp):
    """{composition key: net amount produced}"""
    out = {}
    for d, s in ((prod, 1), (reac, -1)):
        for sp, c in d.items():
            for k, n in comp[sp].items():
                out[k] = out.get(k, 0) + s * c * n
    return out


def _participants(rxn_dicts):
    """the species taking part in the reactions, in pool order (get_odesys does not accept an idle substance)"""
    used = set()
    for r, p in map(_full, rxn_dicts):
        used |= set(r) | set(p)
    return [n for n in NAMES if n in used]


def _substances(names, comp):
    from chempy import Substance

    # charged species are declared in both documented ways: composition[0] given directly (A+, AB-), or charge= next to a
    # composition of the elements only (B-, and the bare electron with an EMPTY composition)
    out = OrderedDict()
    for n in names:
        c = dict(comp[n])
        if 0 in c and n in CHARGE_BY_KEYWORD:
            q = c.pop(0)
            out[n] = Substance(n, charge=q, composition=c)
        else:
            out[n] = Substance(n, composition=c)
    return out


CHARGE_BY_KEYWORD = ("e-", "B-", "Fe+3", "OH-")
# species with non-integral composition numbers (CaSO4 hemihydrate) and reactions among them (the last two are unbalanced)
NI_COMP = {"W": {1: 2, 8: 1}, "G": {20: 1, 16: 1, 8: 4}, "Gh": {20: 1, 16: 1, 8: 4.5, 1: 1}, "Gd": {20: 1, 16: 1, 8: 6, 1: 4},
           # thirds and many-decimal amounts (a repeat unit of a polymer, a dopant): 3 * (1/3) == 1 and 8 * 0.0390625 == 0.3125 exactly
           "T": {6: 1 / 3.0}, "B6": {6: 1}, "Dp": {6: 1, 15: 0.0390625}, "Dq": {6: 8, 15: 0.3125}}
NI_RXNS = [({"Gh": 2, "W": 3}, {"Gd": 2}), ({"Gh": 2}, {"G": 2, "W": 1}), ({"Gd": 1}, {"G": 1, "W": 2}), ({"G": 1, "Gd": 1}, {"Gh": 2, "W": 1}),
           ({"Gh": 2, "W": 2}, {"Gd": 2}), ({"Gh": 1}, {"G": 1, "W": 1}), ({"T": 3}, {"B6": 1}), ({"Dp": 8}, {"Dq": 1}), ({"T": 2}, {"B6": 1})]
NI_OK = [True, True, True, True, False, False, True, True, False]


def _mk_system(rxn_dicts, names, comp, params=None):
    from chempy import Reaction, ReactionSystem

    rxns = [Reaction(rx[0], rx[1], (params[i] if params else i + 2), inact_reac=(rx[2] if len(rx) > 2 else None), inact_prod=(rx[3] if len(rx) > 2 else None))
            for i, rx in enumerate(rxn_dicts)]
    return ReactionSystem(rxns, _substances(names, comp))


def _observe_construct(rxn_dicts, names, comp):
    try:
        rs = _mk_system(rxn_dicts, names, comp)
        # the same reactions handed over as a one-shot iterable, the substances made by a factory: the same decision (here:
        # accepted) and the same reactions
        from chempy import Reaction, ReactionSystem, Substance

        gen = (Reaction(rx[0], rx[1], i + 2, inact_reac=(rx[2] if len(rx) > 2 else None), inact_prod=(rx[3] if len(rx) > 2 else None)) for i, rx in enumerate(rxn_dicts))
        rs_g = ReactionSystem(gen, substance_factory=lambda n: _substances([n], comp)[n])
        if len(rs_g.rxns) != len(rxn_dicts):
            return None, "EXC the system built from a generator of the same reactions holds %d of %d reactions" % (len(rs_g.rxns), len(rxn_dicts))
        return rs, "accepted"
    except ValueError as e:
        # (an unbalanced set must be refused on the generator route as well)
        try:
            from chempy import Reaction, ReactionSystem

            gen = (Reaction(rx[0], rx[1], i + 2, inact_reac=(rx[2] if len(rx) > 2 else None), inact_prod=(rx[3] if len(rx) > 2 else None)) for i, rx in enumerate(rxn_dicts))
            ReactionSystem(gen, substance_factory=lambda n: _substances([n], comp)[n])
            return None, "EXC refused as a list (%s) but accepted when the same reactions come from a generator" % e
        except ValueError:
            pass
        except Exception:
            pass  # (e.g. a reaction without net effect refused by Reaction itself)
        return None, "ValueError: %s" % e
    except Exception as e:
        return None, "EXC %s: %s" % (type(e).__name__, e)


def check_construction(res, rxn_dicts, names, comp, case, layer):
    """accepted ⇔ every reaction leaves every key unchanged; a rejection names a key that is really violated"""
    import re

    nets = [net_keys(*_full(rx), comp=comp) for rx in rxn_dicts]
    has_effect = all(any(r.get(s, 0) != p.get(s, 0) for s in set(r) | set(p)) for r, p in map(_full, rxn_dicts))
    res.states += 1
    res.transitions += len(rxn_dicts)
    res.evaluations += 1
    if not has_effect:
        # a reaction without net effect is refused by Reaction itself (C03); not a balance decision
        rs, got = _observe_construct(rxn_dicts, names, comp)
        res.outcomes["no-net-effect:" + ("refused" if rs is None else "ACCEPTED")] += 1
        if rs is not None:
            res.violation("C05|%s|no-effect-accepted" % layer, "a reaction without net effect was accepted: %r" % (rxn_dicts,), case, got, "ValueError")
        return None
    res.nontrivial += 1
    bad = [(i, {k: v for k, v in n.items() if v != 0}) for i, n in enumerate(nets)]
    bad = [(i, d) for i, d in bad if d]
    rs, got = _observe_construct(rxn_dicts, names, comp)
    if not bad:
        res.outcomes["balanced:" + ("accepted" if rs is not None else "REJECTED")] += 1
        if rs is None:
            res.violation("C05|%s|balanced-rejected" % layer, "balanced system %r was rejected: %s" % (rxn_dicts, got), case, got, "accepted")
        return rs
    cls = "unbalanced-in-%d-key%s" % (len(bad[0][1]), "" if len(bad[0][1]) == 1 else "s")
    if rs is not None:
        res.outcomes[cls + ":ACCEPTED"] += 1
        res.violation("C05|%s|unbalanced-accepted|reaction-%d-of-%d|%s" % (layer, bad[0][0] + 1, len(rxn_dicts), "charge-only" if set(bad[0][1]) == {0} else "elements"),
                      "system %r was accepted although reaction %d changes %r" % (rxn_dicts, bad[0][0] + 1, bad[0][1]), case, "accepted", "ValueError naming one of %r" % sorted(bad[0][1]))
        return None
    if not got.startswith("ValueError"):
        res.outcomes[cls + ":WRONG-exception"] += 1
        res.violation("C05|%s|wrong-exception" % layer, "unbalanced system %r raised %s" % (rxn_dicts, got), case, got, "ValueError")
        return None
    # the message names one or several (key: amount) pairs: at least one, and every pair named is a key some reaction really changes, by
    # that amount (a message listing all violated keys is as good as one naming the first)
    mm = re.search(r"Composition violation \(((?:-?\d+: -?[0-9.eE+-]+)(?:, -?\d+: -?[0-9.eE+-]+)*)\)", got)
    pairs = [tuple(x.split(": ")) for x in mm.group(1).split(", ")] if mm else []
    m = re.match(r"(-?\d+): (.*)", mm.group(1).split(", ")[0]) if mm else None
    allbad = {}
    for i, d in bad:
        for k, v in d.items():
            allbad.setdefault(k, set()).add(v)
    if not pairs or any(int(k) not in allbad or float(v) not in {float(x) for x in allbad[int(k)]} for k, v in pairs):
        res.outcomes[cls + ":WRONG-key-named"] += 1
        res.violation("C05|%s|rejection-names-wrong-key" % layer, "unbalanced system %r: message %r does not name a violated key (violated: %r)" % (rxn_dicts, got, bad), case, got, bad)
    else:
        res.outcomes[cls + ":rejected-naming-" + ("charge" if m.group(1) == "0" else "element")] += 1
    return None


# ------------------------------------------------------------------------------------------------ invariants of accepted systems
def _rank(rows):
    import sympy

    return sympy.Matrix(rows).rank() if rows else 0


def check_invariants(res, rs, rxn_dicts, names, comp, case, with_ode=True):
    import sympy

    bad = []
    res.evaluations += 1
    # variants are derived from the accepted system's reactions by copy-then-modify (every part of the copy is emptied); the
    # accepted system itself stays the system that was accepted
    try:
        for rxn in rs.rxns:
            cp = rxn.copy()
            for part in ("reac", "prod", "inact_reac", "inact_prod"):
                d_ = getattr(cp, part)
                d_.clear()
                d_["Zz"] = 7
        for rxn, rx in zip(rs.rxns, rxn_dicts):
            want = (dict(rx[0]), dict(rx[1]), dict(rx[2]) if len(rx) > 2 else {}, dict(rx[3]) if len(rx) > 2 else {})
            have = (dict(rxn.reac), dict(rxn.prod), dict(rxn.inact_reac), dict(rxn.inact_prod))
            if have != want:
                bad.append(("reaction changed by editing its copy", have, want))
    except Exception as e:
        bad.append(("copy-then-modify raised", type(e).__name__, None))
    inexact = any(isinstance(v, float) for n in names for v in comp[n].values())
    B_exp = [[comp[n].get(k, 0) for n in names] for k in sorted({k for n in names for k in comp[n]})]
    keys_exp = sorted({k for n in names for k in comp[n]})
    try:
        B, ck = rs.composition_balance_vectors()
        B = [list(r) for r in B]
    except Exception as e:
        B, ck = "EXC %s" % type(e).__name__, None
    if B != B_exp or list(ck or []) != keys_exp:
        bad.append(("composition_balance_vectors", (B, ck), (B_exp, keys_exp)))
    # the same system after its substances were re-ordered in place: the reported vectors follow the new order
    try:
        rs.sort_substances_inplace(key=lambda kv: tuple(-ord(ch) for ch in kv[0]))
        names2 = list(rs.substances)
        B2, ck2 = rs.composition_balance_vectors()
        if [list(r) for r in B2] != [[comp[n].get(k, 0) for n in names2] for k in keys_exp] or list(ck2) != keys_exp:
            bad.append(("composition_balance_vectors after sort_substances_inplace", [list(r) for r in B2], names2))
        rs.sort_substances_inplace(key=lambda kv: names.index(kv[0]))
        if list(rs.substances) != list(names):
            bad.append(("sort_substances_inplace did not restore the order", list(rs.substances), list(names)))
    except Exception as e:
        bad.append(("sort_substances_inplace / composition_balance_vectors raised", type(e).__name__, None))
    S = [[p.get(n, 0) - r.get(n, 0) for n in names] for r, p in map(_full, rxn_dicts)]
    for row in B_exp:
        for srow in S:
            if sum(a * b for a, b in zip(row, srow)) != 0:
                bad.append(("B.S^T", row, srow))
    # violation helpers agree with the model (all zero for an accepted system)
    for rxn in rs.rxns:
        res.evaluations += 2
        try:
            q = rxn.charge_neutrality_violation(rs.substances)
            cv = rxn.composition_violation(rs.substances)
        except Exception as e:
            q, cv = "EXC %s" % type(e).__name__, None
        if q != 0 or cv is None or list(cv) != [0] * len(keys_exp):
            bad.append(("violation helpers", (q, cv), 0))
    if with_ode and not bad and all(rx[0] for rx in rxn_dicts):
        # (a system made only of zeroth-order steps gives a constant right-hand side that the ODE builder does not take;
        # that is the builders' acceptance question, C04, not a conservation question)
        from chempy.kinetics.ode import get_odesys

        res.evaluations += 1
        try:
            odesys, extra = get_odesys(rs, include_params=True)
            if list(odesys.names) != list(names):
                bad.append(("odesys.names", list(odesys.names), list(names)))
            li = odesys.linear_invariants
            li = [] if li is None else [[(int(x) if float(x) == int(x) else float(x)) for x in r] for r in (li.tolist() if hasattr(li, "tolist") else li)]
            if li != B_exp:
                bad.append(("odesys.linear_invariants", li, B_exp))
            for row in B_exp:
                e = sympy.expand(sum(c * ex for c, ex in zip(row, odesys.exprs)))
                if e != 0:
                    bad.append(("B.f(c) != 0", row, str(e)))
            # the same right-hand side evaluated numerically through ReactionSystem.rates, with float and with array-valued
            # concentrations (three states at once): every invariant row annihilates it, and arrays agree with floats state by state
            import numpy as np

            pts = [[1.5 + 0.25 * i + 0.5 * j for i in range(len(names))] for j in range(3)]
            arrs = {n: np.array([pts[j][i] for j in range(3)]) for i, n in enumerate(names)}
            keep = {n: a.copy() for n, a in arrs.items()}
            res.evaluations += 1
            ra = rs.rates(dict(arrs))
            if any(not np.array_equal(arrs[n], keep[n]) for n in names):
                bad.append(("rates(array-valued concentrations) changed the caller's arrays", {n: arrs[n].tolist() for n in names}, {n: keep[n].tolist() for n in names}))
            for j in range(3):
                rf = rs.rates({n: pts[j][i] for i, n in enumerate(names)})
                scale = max([1.0] + [abs(float(v)) for v in rf.values()])
                for n in names:
                    a = np.broadcast_to(np.asarray(ra.get(n, 0.0), dtype=float), (3,))[j]
                    if abs(float(a) - float(rf.get(n, 0.0))) > 1e-12 * scale:
                        bad.append(("rates with arrays differ from rates with floats", (n, j, float(a)), float(rf.get(n, 0.0))))
                for row in B_exp:
                    tot = sum(c * float(np.broadcast_to(np.asarray(ra.get(n, 0.0), dtype=float), (3,))[j]) for c, n in zip(row, names))
                    if abs(tot) > 1e-9 * scale * max(1.0, max(abs(c) for c in row)):
                        bad.append(("B.rates(arrays) != 0", row, tot))
            # analytic eliminations
            ld = extra["linear_dependencies"]
            if ld is None:
                bad.append(("linear_dependencies missing", None, None))
            else:
                y0 = {d: sympy.Symbol("y0_" + n.replace("+", "p").replace("-", "m")) for d, n in zip(odesys.dep, names)}
                rankB = _rank(B_exp)
                prefs = [None] + [list(c) for k in (1, 2) for c in itertools.combinations(names, k) if k < len(names)]
                for pref in prefs:
                    res.states += 1
                    res.transitions += 1
                    res.evaluations += 1
                    res.nontrivial += 1
                    try:
                        ex = ld(preferred=pref)(None, y0, None, sympy)
                    except ValueError:
                        res.outcomes["elimination-refused"] += 1
                        continue  # not every subset can be eliminated: refusing is fine
                    except Exception as e:
                        bad.append(("linear_dependencies(%r) raised" % (pref,), type(e).__name__, None))
                        continue
                    res.outcomes["elimination-offered"] += 1
                    dep_name = dict(zip(odesys.dep, names))
                    if pref is not None and {dep_name[k] for k in ex} != set(pref):
                        bad.append(("linear_dependencies(%r) eliminated" % (pref,), sorted(dep_name[k] for k in ex), pref))
                    for dep, expr in ex.items():
                        rel = sympy.expand(dep - expr)
                        if inexact:  # float composition numbers: chempy row-reduces in floats, 2/3 comes back as 0.666666666666667
                            rel = sympy.expand(sympy.nsimplify(rel, rational=True, tolerance=1e-12))
                        # rel must vanish at y = y0 and be a combination of the invariants B (y - y0)
                        at0 = sympy.expand(rel.subs({d: y0[d] for d in odesys.dep}))
                        v = [rel.coeff(d) for d in odesys.dep]
                        lin = sympy.expand(rel - sum(c * (d - y0[d]) for c, d in zip(v, odesys.dep)))
                        if at0 != 0 or lin != 0 or _rank(B_exp + [v]) != rankB:
                            bad.append(("elimination of %s (preferred=%r) does not follow from the invariants" % (dep, pref), str(expr), None))
        except Exception as e:
            bad.append(("get_odesys raised", "%s: %s" % (type(e).__name__, e), None))
    res.outcomes["invariants-ok" if not bad else "invariants-WRONG"] += 1
    for what, got, exp in bad:
        res.violation("C05|invariants|%s" % what.split(" (")[0].split("(")[0].strip(), "accepted system %r: %s: %r (expected %r)" % (rxn_dicts, what, got, exp), dict(case, what="invariants"), got, exp)


def check_integration(res, rxn_dicts, names, comp, kpat, case):
    import numpy as np
    from chempy.kinetics.ode import get_odesys

    res.states += 1
    res.transitions += 1
    res.evaluations += 1
    res.nontrivial += 1
    params = [kpat[i % len(kpat)] for i in range(len(rxn_dicts))]
    try:
        rs = _mk_system(rxn_dicts, names, comp, params)
        odesys, extra = get_odesys(rs, include_params=True)
        c0 = {n: 0.25 + 0.5 * ((i * 7) % 4) for i, n in enumerate(names)}
        result = odesys.integrate([0, 0.01, 0.1, 1.0, 10.0], c0, atol=1e-12, rtol=1e-12, integrator="cvode" if False else "scipy")
        y = np.asarray(result.yout)
        B = np.array([[comp[n].get(k, 0) for n in names] for k in sorted({k for n in names for k in comp[n]})], dtype=float)
        tot = y @ B.T
        scale = np.abs(y) @ np.abs(B).T + 1e-300
        dev = float(np.max(np.abs(tot - tot[0]) / scale))
        moved = float(np.max(np.abs(y[-1] - y[0])))
        ok = dev < 1e-8
    except Exception as e:
        ok, dev, moved = False, "EXC %s: %s" % (type(e).__name__, e), 0
    res.outcomes["integration-conserves" if ok else "integration-DRIFTS"] += 1
    if ok:
        res.extra["max_invariant_drift"] = max(res.extra.get("max_invariant_drift", 0.0), dev)
        res.extra["max_concentration_change"] = max(res.extra.get("max_concentration_change", 0.0), moved)
    else:
        res.violation("C05|integration|invariant-drift", "system %r with k=%r: relative drift of B.y = %r" % (rxn_dicts, params, dev), case, dev, "< 1e-8")
        return
    # the same system integrated stretch by stretch (chained_parameter_variation: three durations, the end state of one
    # stretch is the start of the next), the initial state given as a dict whose keys are written in another order than
    # the system's substances
    if len(names) >= 2:
        from chempy.kinetics.ode import chained_parameter_variation

        res.evaluations += 1
        try:
            c0r = OrderedDict((n, c0[n]) for n in reversed(names))
            tout, cout, info = chained_parameter_variation(odesys, [0.1, 0.9, 9.0], c0r, {}, {}, integrate_kwargs=dict(atol=1e-12, rtol=1e-12, integrator="scipy"))
            yc = np.asarray(cout, dtype=float)
            totc = yc @ B.T
            scalec = np.abs(yc) @ np.abs(B).T + 1e-300
            devc = float(np.max(np.abs(totc - tot[0]) / scalec))
            endc = float(np.max(np.abs(yc[-1] - y[-1]) / (np.abs(y[-1]) + 1e-9)))
            okc = devc < 1e-8 and endc < 1e-3  # (two adaptive integrations of the same problem: agreement to the solver's global error)
        except Exception as e:
            okc, devc, endc = False, "EXC %s: %s" % (type(e).__name__, e), None
        res.outcomes["chained-integration-conserves" if okc else "chained-integration-DRIFTS"] += 1
        if not okc:
            res.violation("C05|integration|chained|invariant-drift", "system %r with k=%r integrated in three stretches from %r: relative drift of B.y = %r, end state differs from the one-stretch result by %r" % (
                rxn_dicts, params, dict(c0r), devc, endc), case, [devc, endc], "< 1e-8, < 1e-3")


# ------------------------------------------------------------------------------------------------ chunks
def _single_reactions(k, first, pool_names):
    idx = list(range(len(pool_names)))
    for rest in itertools.combinations([i for i in idx if i > first], k - 1):
        sp = (first,) + rest
        for coefs in itertools.product(COEF, repeat=k):
            reac = {pool_names[i]: c[0] for i, c in zip(sp, coefs) if c[0]}
            prod = {pool_names[i]: c[1] for i, c in zip(sp, coefs) if c[1]}
            yield sp, coefs, reac, prod


def run_chunk(chunk, tier):
    res = Result()
    kind = chunk[0]
    if kind == "A":
        _, k, first = chunk
        n_ode = 0
        for sp, coefs, reac, prod in _single_reactions(k, first, NAMES):
            case = dict(layer="A", sp=list(sp), coefs=[list(c) for c in coefs])
            rs = check_construction(res, [(reac, prod)], NAMES, COMP, case, "single")
            if rs is not None:
                # every accepted system: matrix checks; ODE-based checks on systems whose species fit a small substance list
                names = [NAMES[i] for i in sp]
                small = _observe_construct([(reac, prod)], names, COMP)[0]
                if small is not None:
                    check_invariants(res, small, [(reac, prod)], names, COMP, dict(case, small=True), with_ode=True)
                    n_ode += 1
                check_invariants(res, rs, [(reac, prod)], NAMES, COMP, case, with_ode=False)
            for i in sp:
                res.symbols[NAMES[i]] += 1
        res.sample(dict(layer="A", species=[NAMES[first]], k=k, accepted_systems_with_ode_checks=n_ode))
    elif kind == "F":
        fn = list(FPOOL)
        first = chunk[1]
        for k in (1, 2, 3):
            for sp, coefs, reac, prod in _single_reactions(k, first, fn):
                if k == 3 and sum(c[0] + c[1] for c in coefs) > 5:
                    continue
                check_formula(res, sp, coefs, reac, prod, fn)
        res.sample(dict(layer="F", first=fn[first]))
    elif kind == "M":
        allr = BALANCED + UNBALANCED
        first = chunk[1]
        others = [i for i in range(len(allr)) if i != first]
        for n in (1, 2, 3):
            for rest in itertools.permutations(others, n - 1):
                seq = (first,) + rest
                if sum(1 for i in seq if i >= len(BALANCED)) > 1:
                    continue  # at most one unbalanced reaction per list: it must be found in every position
                rx = [allr[i] for i in seq]
                case = dict(layer="M", seq=list(seq))
                names = _participants(rx)
                rs = check_construction(res, rx, names, COMP, case, "list")
                if rs is not None and n >= 2 and seq[0] < seq[1]:
                    check_invariants(res, rs, rx, names, COMP, case, with_ode=(n == 2))
        res.sample(dict(layer="M", first=first, unbalanced=first >= len(BALANCED)))
    elif kind == "HC":
        check_history_of_constructions(res, chunk[1])
    elif kind == "NI":
        # non-integral composition numbers (hemihydrate): balance decisions, invariants and analytic eliminations alike
        names_all = list(NI_COMP)
        for i, rx in enumerate(NI_RXNS):
            for extra in [()] + [(j,) for j in range(len(NI_RXNS)) if j != i and NI_OK[j]]:
                rxl = [NI_RXNS[i]] + [NI_RXNS[j] for j in extra]
                if sum(1 for r_ in rxl if not NI_OK[NI_RXNS.index(r_)]) > 1:
                    continue
                for order in (1, -1):
                    used = set(k for r_, p_ in rxl for k in list(r_) + list(p_))
                    names = [n for n in names_all[::order] if n in used]
                    case = dict(layer="NI", i=i, extra=list(extra), order=order)
                    rs = check_construction(res, rxl, names, NI_COMP, case, "non-integral")
                    if rs is not None:
                        check_invariants(res, rs, rxl, names, NI_COMP, case, with_ode=True)
                        for kpat in range(2):
                            check_integration(res, rxl, names, NI_COMP, KPAT[kpat], dict(case, kpat=kpat))
        res.sample(dict(layer="NI", species={k: {str(a): b for a, b in v.items()} for k, v in NI_COMP.items()}, reactions=len(NI_RXNS)))
    elif kind == "I":
        first = chunk[1]
        # (a reaction that consumes a species through an inactive coefficient keeps consuming it at zero concentration:
        # its trajectories leave the physical region and the integrator may give up — not part of the integration lattice)
        usable = [i for i in range(len(BALANCED)) if not (len(BALANCED[i]) > 2 and BALANCED[i][2])]
        others = [i for i in usable if i != first]
        for n in (2, 3):
            if first not in usable:
                break
            for rest in itertools.combinations(others, n - 1):
                seq = (first,) + rest
                rx = [BALANCED[i] for i in seq]
                for ki, kpat in enumerate(KPAT):
                    check_integration(res, rx, _participants(rx), COMP, kpat, dict(layer="I", seq=list(seq), kpat=ki))
        res.sample(dict(layer="I", first=first))
    return res


FIRST_OPS = ["dont_check={'balance'}", "dont_check={'duplicate'}", "checks=()", "dont_check={'balance','substance_keys'}"]


def seq_admission_after(first_op):
    """(runs in its own interpreter, see mc/isolated.py) one construction that legitimately switches checks off for
    itself, followed by ordinary constructions: [(index into BALANCED+UNBALANCED, 'accepted' | 'ValueError' | ...)]"""
    from chempy import Reaction, ReactionSystem

    allr = BALANCED + UNBALANCED
    kw = {"dont_check={'balance'}": dict(dont_check={"balance"}), "dont_check={'duplicate'}": dict(dont_check={"duplicate"}), "checks=()": dict(checks=()),
          "dont_check={'balance','substance_keys'}": dict(dont_check={"balance", "substance_keys"})}[first_op]
    rx = UNBALANCED[0]
    first = "accepted"
    try:
        ReactionSystem([Reaction(rx[0], rx[1], 2)], _substances(_participants([rx]), COMP), **kw)
    except Exception as e:
        first = type(e).__name__
    out = []
    for i, rxn in enumerate(allr):
        out.append([i, _observe_construct([rxn], _participants([rxn]), COMP)[1].split(":")[0]])
    return dict(first=first, later=out)


def check_history_of_constructions(res, k):
    from mc import isolated

    first_op = FIRST_OPS[k]
    got = isolated.run("mc.checks.c05", "seq_admission_after", [first_op])
    allr = BALANCED + UNBALANCED
    for i, obs in got["later"]:
        res.states += 1
        res.transitions += 2
        res.evaluations += 1
        res.nontrivial += 1
        exp = "accepted" if i < len(BALANCED) else "ValueError"
        res.outcomes["after-%s:%s" % (first_op, "ok" if obs == exp else "WRONG")] += 1
        if obs != exp:
            res.violation("C05|history|construction-after-%s|%s" % (first_op, "unbalanced-accepted" if exp == "ValueError" else "balanced-rejected"),
                          "after one ReactionSystem(..., %s), constructing %r with default checks: %s (expected %s)" % (first_op, allr[i], obs, exp), dict(layer="HC", k=k, i=i), obs, exp)
    res.sample(dict(layer="HC", first_op=first_op, then="every reaction of the balanced/unbalanced lists with default checks"))


def check_formula(res, sp, coefs, reac, prod, fn):
    """the same decision through text and Substance.from_formula"""
    from chempy import ReactionSystem

    side = lambda d: " + ".join(("%d %s" % (c, k)) if c != 1 else k for k, c in d.items())
    if not reac or not prod:
        return
    text = "%s -> %s" % (side(reac), side(prod))
    case = dict(layer="F", sp=list(sp), coefs=[list(c) for c in coefs])
    nets = {k: v for k, v in net_keys(reac, prod, FPOOL).items() if v != 0}
    has_effect = any(reac.get(s, 0) != prod.get(s, 0) for s in set(reac) | set(prod))
    res.states += 1
    res.transitions += 1
    res.evaluations += 1
    if not has_effect:
        res.outcomes["no-net-effect:skipped"] += 1
        return
    res.nontrivial += 1
    try:
        rs = ReactionSystem.from_string(text)
        got = "accepted"
    except ValueError as e:
        got = "ValueError: %s" % e
    except Exception as e:
        got = "EXC %s" % type(e).__name__
    ok = (got == "accepted") == (not nets) and (got == "accepted" or got.startswith("ValueError"))
    res.outcomes["formula:" + ("balanced" if not nets else "unbalanced") + (":ok" if ok else ":WRONG")] += 1
    if not ok:
        res.violation("C05|formula|%s" % ("balanced-rejected" if not nets else "unbalanced-accepted" + ("|charge-only" if set(nets) == {0} else "")), "ReactionSystem.from_string(%r): %s; net change per key %r" % (text, got, nets), case, got, nets)
    elif got == "accepted":
        names = list(rs.substances)
        check_invariants(res, rs, [(reac, prod)], names, {n: rs.substances[n].composition for n in names}, case, with_ode=False)
        for n in names:
            if rs.substances[n].composition != FPOOL[n]:
                res.violation("C05|formula|composition", "composition of %s read as %r" % (n, rs.substances[n].composition), case, rs.substances[n].composition, FPOOL[n])


def replay(case):
    res = Result()
    L = case["layer"]
    if L in ("A", "F"):
        pool = NAMES if L == "A" else list(FPOOL)
        sp, coefs = tuple(case["sp"]), [tuple(c) for c in case["coefs"]]
        reac = {pool[i]: c[0] for i, c in zip(sp, coefs) if c[0]}
        prod = {pool[i]: c[1] for i, c in zip(sp, coefs) if c[1]}
        if L == "F":
            check_formula(res, sp, coefs, reac, prod, pool)
        else:
            rs = check_construction(res, [(reac, prod)], NAMES, COMP, case, "single")
            if rs is not None:
                names = [NAMES[i] for i in sp]
                small = _observe_construct([(reac, prod)], names, COMP)[0]
                if small is not None:
                    check_invariants(res, small, [(reac, prod)], names, COMP, case, with_ode=True)
                check_invariants(res, rs, [(reac, prod)], NAMES, COMP, case, with_ode=False)
    elif L == "HC":
        sub = Result()
        check_history_of_constructions(sub, case["k"])
        res.violations = [v for v in sub.violations if v["case"]["i"] == case["i"]]
    elif L == "NI":
        sub = run_chunk(("NI",), "quick")
        want = {k: case.get(k) for k in ("i", "extra", "order")}
        res.violations = [v for v in sub.violations if {k: v["case"].get(k) for k in want} == want and v["case"].get("kpat") == case.get("kpat")]
    elif L == "M":
        allr = BALANCED + UNBALANCED
        rx = [allr[i] for i in case["seq"]]
        rs = check_construction(res, rx, _participants(rx), COMP, case, "list")
        if rs is not None:
            check_invariants(res, rs, rx, _participants(rx), COMP, case, with_ode=True)
    else:
        rx = [BALANCED[i] for i in case["seq"]]
        check_integration(res, rx, _participants(rx), COMP, KPAT[case["kpat"]], case)
    if res.violations:
        v = res.violations[0]
        return dict(key=v["key"], what=v["what"], observed=v["observed"], expected=v["expected"])
    return None

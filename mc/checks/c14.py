"""C14 — molar mass is the composition-weighted sum of standard atomic weights.

State space: all 118 elements × {symbol, name} × 4 case variants × charges −3..+3 (no bound: the whole domain);
every ordered symbol pair X2Y3; the C01 derivation space of cost ≤ N (additivity over groups / hydrates /
multipliers / charge); all mixtures = multisets of ≤3 of 8 formulas × coefficients {1,2,3}.
Oracle: an independently typed IUPAC table (mc/ref/iupac.py; a *set* of admissible published values per element),
Σ count·w − q·mₑ computed from the derivation-tree composition, definition of mass fractions.
"""
import itertools
from collections import OrderedDict

from mc.core import Result
from mc.ref import formula as F
from mc.ref import iupac as I

META = dict(
    title="Molar mass is the composition-weighted sum of standard atomic weights",
    level="model_checking",
    technique="complete enumeration of the 118-element domain (x case variants x charges) and bounded-exhaustive enumeration of all formula derivations up to a cost bound and all small mixtures, compared with an independent IUPAC table and the additive mass model",
    rule="states = (element, spelling variant), (element, charge), symbol pairs, formula derivations, mixtures; non-trivial = all except single neutral atoms in layer B "
    "(a table lookup, a charge correction, a sum over >=2 leaves, or a mixture of >=2 components is involved)",
    assumptions=[
        "mc/ref/iupac.py was typed from the IUPAC 2013-2021 standard-atomic-weight tables; a chempy weight must equal one of the published values to 1e-9 relative",
        "electron mass: chempy's 5.489e-4 u is accepted within 1e-3 relative of CODATA (the statement fixes 'electron mass', not its digits)",
        "formulas of cost > N are outside the bound",
    ],
    design_ref="DESIGN.md §3 C14",
    hashseed_sensitive=False,
)

MIX = ["H2O", "NaCl", "Fe+3", "SO4-2", "C6H12O6", "Na2CO3..10H2O", "[Fe(CN)6]-3", "UO2.3"]
REL = 1e-10


def bounds(tier):
    return dict(N=4 if tier == "quick" else 5, elements=118, charges=[-3, 3], mixture_size=3, mixture_coeffs=[1, 2, 3])


def _J(a):
    return {1: 1, 2: 1, 3: 4, 4: 16, 5: 48}.get(a, 96)


def chunks(tier):
    N = bounds(tier)["N"]
    out = [("E", k) for k in range(0, 118, 10)] + [("T",)] + [("P", k) for k in range(0, 118, 8)] + [("N",), ("HH", 0), ("HH", 1)] + [("M", i) for i in range(len(MIX))]
    for a in range(1, N + 1):
        out += [("B", N, a, j, _J(a)) for j in range(_J(a))]
    return out


def W(z):
    from chempy.util.periodic import relative_atomic_masses

    w = relative_atomic_masses[z - 1]
    ws = I.ELEMENTS[z - 1][2]
    return min(ws, key=lambda x: abs(x - w))


def model_mass(comp):
    return sum(v * W(z) for z, v in comp.items() if z != 0), comp.get(0, 0)


def _mass_ok(got, comp):
    heavy, q = model_mass(comp)
    if not isinstance(got, float):
        return False, heavy - q * I.ELECTRON_MASS
    exp = heavy - q * I.ELECTRON_MASS
    tol = REL * max(1.0, abs(heavy)) + 1e-3 * abs(q) * I.ELECTRON_MASS
    return abs(got - exp) <= tol, exp


def _mass_of(s):
    from chempy import Substance

    try:
        m = float(Substance.from_formula(s).mass)
    except Exception as e:
        return "EXC %s" % type(e).__name__
    # the same formula as a Species (the subclass strips the phase label itself before parsing): the same mass
    try:
        from chempy import Species

        ms = float(Species.from_formula(s).mass)
        if ms != m:
            return "EXC Species.from_formula(...).mass = %r differs from Substance's %r" % (ms, m)
    except Exception as e:
        return "EXC Species.from_formula: %s" % type(e).__name__
    return m


def _check_mass(res, s, comp, case):
    got = _mass_of(s)
    res.evaluations += 1
    ok, exp = _mass_ok(got, comp)
    res.outcomes["mass-ok" if ok else "mass-WRONG"] += 1
    if not ok:
        res.violation("C14|Substance.mass|%s" % case["layer"], "Substance.from_formula(%r).mass = %r, sum(count*weight) - q*m_e = %r" % (s, got, exp), case, got, exp)
    return got


def run_chunk(chunk, tier):
    from chempy.util import periodic as P
    import chempy

    res = Result()
    kind = chunk[0]
    if kind == "E":
        for z in range(chunk[1] + 1, min(chunk[1] + 10, 118) + 1):
            sym, names, ws, u = I.ELEMENTS[z - 1]
            res.symbols[sym] += 1
            # table row
            res.states += 1
            res.transitions += 1
            res.evaluations += 1
            res.nontrivial += 1
            row = (P.symbols[z - 1], P.names[z - 1], P.relative_atomic_masses[z - 1])
            ok = row[0] == sym and row[1] in names and any(abs(row[2] - x) <= 1e-9 * x for x in ws)
            res.outcomes["row-ok" if ok else "row-WRONG"] += 1
            if not ok:
                res.violation("C14|periodic-table|row", "element %d is listed as %r; IUPAC: %s, %s, weight in %s" % (z, row, sym, sorted(names), ws), dict(layer="E", z=z, what="row"), row, [sym, sorted(names), ws])
            # lookups: symbol / every admissible name × case variants
            spellings = {sym, sym.lower(), sym.upper(), sym.capitalize()}
            for n in names:
                if n == P.names[z - 1] or n.lower() in P.lower_names:
                    spellings |= {n, n.lower(), n.upper(), n.capitalize(), n.swapcase()}
            for sp in sorted(spellings):
                res.states += 1
                res.transitions += 1
                res.evaluations += 1
                res.nontrivial += 1
                try:
                    got = chempy.atomic_number(sp)
                except Exception as e:
                    got = "EXC %s" % type(e).__name__
                res.outcomes["lookup-ok" if got == z else "lookup-WRONG"] += 1
                if got != z:
                    res.violation("C14|atomic_number|lookup", "atomic_number(%r) = %r, expected %d" % (sp, got, z), dict(layer="E", z=z, what="lookup", sp=sp), got, z)
            # inverse: symbols[Z-1] / names[Z-1] of the looked-up number give the spelling back
            # ions: mass(sym+q) and ion - neutral = -q*m_e
            neutral = _check_mass(res, sym, {z: 1}, dict(layer="E", z=z, what="mass", s=sym, comp={str(z): 1}))
            for q in (-3, -2, -1, 1, 2, 3):
                s = sym + ("+" if q > 0 else "-") + (str(abs(q)) if abs(q) > 1 else "")
                res.states += 1
                res.transitions += 2
                res.nontrivial += 1
                got = _check_mass(res, s, {z: 1, 0: q}, dict(layer="E", z=z, what="mass", s=s, comp={str(z): 1, "0": q}))
                # the documented charge= keyword on the neutral formula gives the same ion ...
                res.evaluations += 1
                try:
                    viakw = float(chempy.Substance.from_formula(sym, charge=q).mass)
                except Exception as e:
                    viakw = "EXC %s" % type(e).__name__
                if isinstance(got, float) and not (isinstance(viakw, float) and abs(viakw - got) <= 1e-12 * max(1.0, abs(got))):
                    res.violation("C14|Substance.mass|charge-keyword", "Substance.from_formula(%r, charge=%d).mass = %r, the ion %r weighs %r" % (sym, q, viakw, s, got), dict(layer="E", z=z, what="chargekw", s=s, q=q), viakw, got)
                # a parent whose mass was already read, deep-copied and then given the charge: the copy weighs what the ion weighs
                res.evaluations += 1
                try:
                    import copy as _copy

                    parent = chempy.Substance.from_formula(sym)
                    parent.mass
                    child = _copy.deepcopy(parent)
                    child.composition[0] = q
                    viacopy = float(child.mass)
                    parent_after = float(parent.mass)
                except Exception as e:
                    viacopy, parent_after = "EXC %s" % type(e).__name__, None
                if isinstance(got, float) and not (isinstance(viacopy, float) and abs(viacopy - got) <= 1e-12 * max(1.0, abs(got)) and parent_after == neutral):
                    res.violation("C14|Substance.mass|read-copy-charge", "Substance.from_formula(%r): mass read, deep-copied, copy.composition[0] = %d: copy.mass = %r (the ion weighs %r), parent.mass = %r (was %r)" % (
                        sym, q, viacopy, got, parent_after, neutral), dict(layer="E", z=z, what="readcopy", s=s, q=q), viacopy, got)
                # ... and leaves the neutral parent what it was
                res.evaluations += 1
                again = _mass_of(sym)
                if isinstance(neutral, float) and again != neutral:
                    res.violation("C14|Substance.mass|neutral-changed-after-ion", "after creating %r with charge=%d, Substance.from_formula(%r).mass = %r (was %r)" % (sym, q, sym, again, neutral), dict(layer="E", z=z, what="chargekw", s=s, q=q), again, neutral)
                if isinstance(got, float) and isinstance(neutral, float):
                    d = got - neutral
                    exp = -q * I.ELECTRON_MASS
                    res.evaluations += 1
                    if abs(d - exp) > 1e-3 * abs(exp) + 1e-9:
                        res.violation("C14|Substance.mass|ion-minus-neutral", "mass(%s) - mass(%s) = %r, expected -q*m_e = %r" % (s, sym, d, exp), dict(layer="E", z=z, what="ion", s=s, q=q), d, exp)
        res.sample(dict(layer="E", z=chunk[1] + 1, spellings=sorted({I.ELEMENTS[chunk[1]][0].upper(), sorted(I.ELEMENTS[chunk[1]][1])[0].lower()})))
    elif kind == "T":
        res.states += 3
        res.transitions += 3
        res.evaluations += 3
        res.nontrivial += 3
        got = (tuple(P.period_lengths), tuple(P.accum_period_lengths), {g: tuple(v) for g, v in P.groups.items()})
        acc = tuple(itertools.accumulate(I.PERIOD_LENGTHS))
        exp = (I.PERIOD_LENGTHS, acc, I.GROUPS)
        res.outcomes["tables-ok" if got == exp else "tables-WRONG"] += 1
        if got != exp:
            res.violation("C14|periodic-table|periods-groups", "period/group tables differ from the periodic table", dict(layer="T"), got, exp)
        res.sample(dict(layer="T", groups=sorted(I.GROUPS)))
    elif kind == "P":
        for x in F.SYMBOLS[chunk[1]: chunk[1] + 8]:
            for y in F.SYMBOLS:
                s = x + "2" + y + "3"
                comp = {F.Z[x]: 2, F.Z[y]: 3} if x != y else {F.Z[x]: 5}
                res.states += 1
                res.transitions += 2
                res.nontrivial += 1
                _check_mass(res, s, comp, dict(layer="P", s=s, comp={str(k): v for k, v in comp.items()}))
        res.sample(dict(layer="P", s=F.SYMBOLS[chunk[1]] + "2Og3"))
    elif kind == "HH":
        for i, st in enumerate(F.multi_hydrate_states()):
            if i % 2 == chunk[1]:
                s, comp = F.string_of(st), F.composition_of(st)
                res.states += 1
                res.transitions += F.cost_of(st)
                res.nontrivial += 1
                _check_mass(res, s, comp, dict(layer="N", s=s, comp={str(k): v for k, v in comp.items()}))
        res.sample(dict(layer="HH", s="Na..7H..C"))
    elif kind == "N":
        for st in F.numeral_states():
            s, comp = F.string_of(st), F.composition_of(st)
            res.states += 1
            res.transitions += F.cost_of(st)
            res.nontrivial += 1
            _check_mass(res, s, comp, dict(layer="N", s=s, comp={str(k): v for k, v in comp.items()}))
        res.sample(dict(layer="N", s="Na2S..17H2O"))
    elif kind == "B":
        _, N, a, j, J = chunk
        seen = set()
        for st in F.states(N, a, j, J):
            s = F.string_of(st)
            if s in seen:
                res.dedup_hits += 1
                continue
            seen.add(s)
            comp = F.composition_of(st)
            c = F.cost_of(st)
            res.states += 1
            res.transitions += c
            if c >= 2:
                res.nontrivial += 1
            _check_mass(res, s, comp, dict(layer="B", s=s, comp={str(k): v for k, v in comp.items()}))
            if len(seen) % 1999 == 1:
                res.sample(dict(layer="B", s=s, mass=_mass_ok(0.0, comp)[1]), limit=2)
    elif kind == "M":
        first = MIX[chunk[1]]
        masses = {k: _mass_of(k) for k in MIX}
        # an earlier caller used its own substance factory (e.g. isotopically labelled masses) for the same keys: later
        # calls with the default factory are not affected by it
        try:
            chempy.mass_fractions({k: 1 for k in MIX}, substance_factory=lambda k: chempy.Substance(k, data=dict(mass=1000.0 + len(k))))
        except Exception:
            pass
        for n in (1, 2, 3):
            for rest in itertools.combinations([k for k in MIX if k != first], n - 1):
                keys = (first,) + rest
                if list(keys) != sorted(keys, key=MIX.index):
                    continue  # each unordered mixture once (owned by its first member in pool order)
                for coeffs in itertools.product([1, 2, 3], repeat=n):
                    _check_mix(res, keys, coeffs, masses)
                if n == 2:  # a trace component (either position): every fraction is proportional to coefficient x mass
                    for coeffs in ((1, 1e-30), (1e-30, 1), (2, 1e-12), (1e-15, 3)):
                        _check_mix(res, keys, coeffs, masses)
        res.sample(dict(layer="M", first=first))
    return res


def _check_mix(res, keys, coeffs, masses):
    import chempy

    stoich = dict(zip(keys, coeffs))
    res.states += 1
    res.transitions += len(keys)
    res.evaluations += 1
    if len(keys) > 1:
        res.nontrivial += 1
    tot = sum(masses[k] * c for k, c in stoich.items())
    exp = {k: masses[k] * c / tot for k, c in stoich.items()}
    # the substances may also be handed in: in the mixture's order, in reverse order, or as a larger registry
    for how in ("default", "given", "given-reversed", "registry", "OrderedDict", "Counter", "defaultdict", "MappingProxyType", "UserDict", "ChainMap"):
        if how != "default":
            res.states += 1
            res.transitions += 1
            res.evaluations += 1
        try:
            if how == "default":
                got = chempy.mass_fractions(stoich)
            elif how in ("OrderedDict", "Counter", "defaultdict", "MappingProxyType", "UserDict", "ChainMap"):
                import collections
                import types

                if how == "MappingProxyType":
                    arg = types.MappingProxyType(dict(stoich))  # mappings that are not dict subclasses
                elif how == "ChainMap":
                    arg = collections.ChainMap(dict(list(stoich.items())[:1]), dict(list(stoich.items())[1:]))
                elif how == "defaultdict":
                    arg = collections.defaultdict(int)
                    arg.update(stoich)
                else:
                    arg = getattr(collections, how)(stoich)
                got = dict(chempy.mass_fractions(arg))
            else:
                ks = {"given": list(keys), "given-reversed": list(keys)[::-1], "registry": MIX[::-1]}[how]
                got = chempy.mass_fractions(stoich, substances=OrderedDict((k, chempy.Substance.from_formula(k)) for k in ks))
        except Exception as e:
            got = "EXC %s" % type(e).__name__
        ok = isinstance(got, dict) and set(got) == set(exp) and all(got[k] > 0 and abs(got[k] - exp[k]) <= 1e-12 * exp[k] for k in exp) and abs(sum(got.values()) - 1) <= 1e-12
        res.outcomes["mix-ok" if ok else "mix-WRONG"] += 1
        if not ok:
            res.violation("C14|mass_fractions|definition|substances=%s" % how, "mass_fractions(%r, substances: %s) = %r, expected %r" % (stoich, how, got, exp), dict(layer="M", keys=list(keys), coeffs=list(coeffs)), got, exp)
    got = None
    try:
        got = chempy.mass_fractions(stoich)
    except Exception:
        pass
    if isinstance(got, dict) and len(keys) == 1 and got != {keys[0]: 1.0}:
        res.violation("C14|mass_fractions|single", "single-component mixture %r has fractions %r" % (stoich, got), dict(layer="M", keys=list(keys), coeffs=list(coeffs)), got, {keys[0]: 1.0})


def replay(case):
    res = Result()
    L = case["layer"]
    if L in ("P", "N", "B") or (L == "E" and case.get("what") == "mass"):
        _check_mass(res, case["s"], {int(k): v for k, v in case["comp"].items()}, case)
    elif L == "M":
        _check_mix(res, tuple(case["keys"]), tuple(case["coeffs"]), {k: _mass_of(k) for k in MIX})
    elif L == "E":
        r = run_chunk(("E", (case["z"] - 1) // 10 * 10), "quick")
        res.violations = [v for v in r.violations if v["case"].get("z") == case["z"] and v["case"].get("what") == case.get("what") and v["case"].get("sp") == case.get("sp") and v["case"].get("s") == case.get("s")]
    else:
        res = run_chunk(("T",), "quick")
    if res.violations:
        v = res.violations[0]
        return dict(key=v["key"], what=v["what"], observed=v["observed"], expected=v["expected"])
    return None

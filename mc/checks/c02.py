"""C02 — balancing returns only balanced, positive, canonical coefficients, or refuses.

State space: all pairs of disjoint reactant/product species sets (R, P) with |R|,|P| within the side bound over a
composition-vector alphabet (2 elements with counts {0,1,2} + charged species; thorough: a third element, counts to 3,
fractional counts) × the three values of the under-determination switch; duplicates mode (allow_duplicates=True,
underdetermined=None) on all (R, P) sharing 1–2 species; a formula-defined layer through Substance.from_formula.
Oracle: exact linear algebra on Fractions — null space of the signed composition matrix; extreme rays of
{x ≥ 0, Ax = 0} by enumerating column subsets (hence: a strictly positive solution exists ⇔ the ray supports cover all
columns); exhaustive search of all positive integer vectors below the returned coefficient sum.
"""
import itertools
from fractions import Fraction as Fr
from functools import reduce
from math import gcd

from mc.core import Result

META = dict(
    title="Balancing returns only balanced, positive, canonical coefficients or refuses",
    level="model_checking",
    technique="complete enumeration of all reactant/product species-set pairs over a composition-vector alphabet x 3 modes (+ duplicates mode), executed on the real balancer (sympy + CBC), decided by an exact rational null-space / extreme-ray reference model and exhaustive search below the returned coefficient sum",
    rule="states = distinct (R, P, mode) triples; non-trivial = instances that pass the one-sided-component pre-check (i.e. every composition key occurs on both sides, "
    "so the linear algebra decides) — counted separately as feasible single-ray, feasible multi-ray and infeasible",
    assumptions=["sympy and CBC (through PuLP) are trusted as the environment chempy delegates to; their answers are observed through chempy only", "more than 6 species per reaction and compositions outside the alphabet are outside the bound"],
    design_ref="DESIGN.md §3 C02",
    hashseed_sensitive=False,
)

# composition vectors: (element 1, element 2, charge[, element 3])
VEC_Q = [(a, b, 0) for a in (0, 1, 2) for b in (0, 1, 2) if (a, b) != (0, 0)] + [(1, 0, 1), (0, 1, -1), (1, 1, -1), (0, 0, -1)]
VEC_T = VEC_Q + [(3, 0, 0), (0, 3, 0), (3, 1, 0), (1, 3, 0), (2, 3, 0), (Fr(3, 2), 1, 0), (1, Fr(1, 2), 0), (2, 0, 2)]
FORMULAS = ["H2", "O2", "H2O", "H2O2", "CO", "CO2", "CH4", "C2H2", "C", "Fe", "FeO", "Fe2O3", "Fe+3", "Fe+2", "e-", "H+", "OH-",
            "CaSO4", "CaSO4(H2O)0.5", "CaSO4(H2O)2", "Fe(OH)2.5"]  # decimal subscripts: non-integral compositions
MODES = (True, False, None)


def bounds(tier):
    if tier == "quick":
        return dict(species=len(VEC_Q), sides=[(1, 1), (1, 2), (2, 1), (2, 2), (1, 3), (3, 1)], dup_sides=[(2, 2)], formulas=len(FORMULAS), formula_sides=[(1, 1), (1, 2), (2, 1), (2, 2)])
    # (the 20-species alphabet with fractional and larger counts is explored up to 4 species per reaction; the deepest side
    # bounds run on the 12-species alphabet, where coefficient sums stay small enough for the exhaustive minimality search)
    return dict(species=len(VEC_T), sides=[(1, 1), (1, 2), (2, 1), (2, 2), (1, 3), (3, 1)], sides_on_the_12_species_alphabet=[(2, 3), (3, 2), (3, 3)],
                dup_sides=[(2, 2)], dup_sides_on_the_12_species_alphabet=[(2, 3), (3, 2)], formulas=len(FORMULAS),
                formula_sides=[(1, 1), (1, 2), (2, 1), (2, 2), (2, 3), (3, 2)])


def _vec(tier):
    return VEC_Q if tier == "quick" else VEC_T


def chunks(tier):
    b = bounds(tier)
    n = b["species"]
    out = []
    for nr, np_ in b["sides"]:
        for first in range(n):
            out.append(("V", nr, np_, first))
    for nr, np_ in b.get("sides_on_the_12_species_alphabet", []):
        for first in range(len(VEC_Q)):
            out.append(("W", nr, np_, first))
    for nr, np_ in b["dup_sides"]:
        for first in range(n):
            out.append(("D", nr, np_, first))
    for nr, np_ in b.get("dup_sides_on_the_12_species_alphabet", []):
        for first in range(len(VEC_Q)):
            out.append(("DW", nr, np_, first))
    for nr, np_ in b["formula_sides"]:
        for first in range(len(FORMULAS)):
            out.append(("F", nr, np_, first))
    out += [("L", k, 0, pat) for k in (9, 10, 11, 12) for pat in range(3)]
    out += [("BM", 0, 0, i) for i in range(len(BM))]
    out += [("TV", 0, 0, i) for i in range(len(TV_INSTANCES))]
    out += [("DF", 2, 0, i) for i in range(len(DF_POOL) - 1)]
    return out


# ------------------------------------------------------------------------------------------------ exact linear algebra
def nullspace(M, ncols):
    M = [list(r) for r in M]
    piv = []
    r = 0
    for c in range(ncols):
        if r == len(M):
            break
        p = None
        for i in range(r, len(M)):
            if M[i][c] != 0:
                p = i
                break
        if p is None:
            continue
        M[r], M[p] = M[p], M[r]
        pv = M[r][c]
        M[r] = [x / pv for x in M[r]]
        for i in range(len(M)):
            if i != r and M[i][c] != 0:
                f = M[i][c]
                M[i] = [x - f * y for x, y in zip(M[i], M[r])]
        piv.append(c)
        r += 1
    free = [c for c in range(ncols) if c not in piv]
    basis = []
    for fc in free:
        v = [Fr(0)] * ncols
        v[fc] = Fr(1)
        for i, pc in enumerate(piv):
            v[pc] = -M[i][fc]
        basis.append(v)
    return basis


def primitive(v):
    den = reduce(lambda a, b: a * b // gcd(a, b), [Fr(x).denominator for x in v], 1)
    iv = [int(Fr(x) * den) for x in v]
    g = reduce(gcd, [abs(x) for x in iv], 0) or 1
    return [x // g for x in iv]


def analyse(A, n):
    """(null-space basis, strictly-positive-solution exists?, extreme rays)"""
    ns = nullspace(A, n)
    rank = n - len(ns)
    support, rays = set(), []
    for k in range(1, min(n, rank + 1) + 1):
        for cols in itertools.combinations(range(n), k):
            sub = [[row[c] for c in cols] for row in A]
            b = nullspace(sub, k)
            if len(b) != 1:
                continue
            v = primitive(b[0])
            if all(x > 0 for x in v) or all(x < 0 for x in v):
                support |= set(cols)
                rays.append((cols, [abs(x) for x in v]))
    return ns, len(support) == n, rays


def smaller_sum_solution(A, n, s):
    """a positive integer x with Ax = 0 and sum(x) < s, or None — exhaustive"""
    def rec(i, rem, x):
        if i == n - 1:
            if rem < 1:
                return None
            x.append(rem)
            if all(sum(r[j] * x[j] for j in range(n)) == 0 for r in A):
                return list(x)
            x.pop()
            return None
        for v in range(1, rem - (n - i - 1) + 1):
            x.append(v)
            r = rec(i + 1, rem - v, x)
            if r:
                return r
            x.pop()
        return None

    for tot in range(n, s):
        r = rec(0, tot, [])
        if r:
            return r
    return None


# ------------------------------------------------------------------------------------------------ one instance
def _long_vectors(k, pat):
    """k elemental species E1..Ek and one or two compounds built from all of them: > 10 species in one reaction"""
    coef = [[(i % 3) + 1 for i in range(k)], [((7 * i) % 5) + 1 for i in range(k)], [1 + (i == k - 1) * 2 + (i == 0) for i in range(k)]][pat]
    vecs = [[1 if j == i else 0 for j in range(k)] for i in range(k)]
    vecs.append(list(coef))
    if pat == 2:  # a second product sharing the elements: two-dimensional solution space
        vecs.append([1] * k)
    return vecs


_SHARED = {}


def _instance(layer, R, P, tier):
    from chempy import Substance

    if layer == "L":
        k, pat = R
        V = _long_vectors(k, pat)
        names = ["E%d" % i for i in range(k)] + ["P%d" % i for i in range(len(V) - k)]
        subs = {nm: Substance(nm, composition={j + 1: x for j, x in enumerate(v) if x}) for nm, v in zip(names, V)}
        n, nR = len(names), k
        A = [[Fr(V[j][row]) * (-1 if j < nR else 1) for j in range(n)] for row in range(k)]
        return names, nR, subs, A

    if layer == "F":
        from chempy.util.parsing import formula_to_composition

        names = [FORMULAS[i] for i in R + P]
        comps = [formula_to_composition(k) for k in names]
        keys_ = sorted({k for c in comps for k in c})
        vecs = [[Fr(c.get(k, 0)) for k in keys_] for c in comps]
        for c in comps:  # these mappings are ours now: editing them must not change what chempy parses later
            c[0] = c.get(0, 0) + 7
            c[999] = 1
        subs = None
    else:
        V = _vec(tier)
        names = ["S%d" % i for i in R + P]
        CK = (1, 2, 0, 3)
        vecs = [[Fr(x) for x in V[i]] + [Fr(0)] * (4 - len(V[i])) for i in R + P]
        # the Substance objects are the caller's: one object per species, reused by every call of this process (the
        # usual "table of substances"); balancing must leave them as they are
        subs = {}
        for nm, i in zip(names, R + P):
            if (tier, i) not in _SHARED:
                comp = {}
                for ck, x in zip(CK, V[i]):
                    if x != 0:
                        comp[ck] = x if isinstance(x, int) else float(x)
                if 0 in comp:
                    # charged species are declared the documented way: charge= next to a composition holding the elements
                    # only (for the bare electron: an empty one); the object then carries composition[0] == charge
                    obj = Substance(nm, charge=comp[0], composition={k: v for k, v in comp.items() if k != 0})
                    _SHARED[(tier, i)] = (obj, dict(comp))
                else:
                    _SHARED[(tier, i)] = (Substance(nm, composition=comp), dict(comp))
            obj, orig = _SHARED[(tier, i)]
            subs[nm] = obj
    n = len(names)
    nR = len(R)
    A = [[vecs[j][row] * (-1 if j < nR else 1) for j in range(n)] for row in range(len(vecs[0]))]
    A = [r for r in A if any(r)]
    return names, nR, subs, A


def _precheck_stops(A, nR):
    """a composition key that occurs on one side only (with one sign): the instance is trivially infeasible"""
    for row in A:
        left = [x for x in row[:nR] if x != 0]
        right = [x for x in row[nR:] if x != 0]
        for a, b in ((left, right), (right, left)):
            if not a and not (any(x > 0 for x in b) and any(x < 0 for x in b)):
                return True
    return False


def check_instance(res, layer, R, P, tier, modes=MODES, dup=False, orders=("fwd", "rev")):
    """both written orders of the species within each side (the answer is a property of the species *sets*); the reversed
    order is run for the instances the linear algebra decides (the one-sided pre-check does not depend on the order)"""
    cls = None
    for order in orders:
        if order == "rev":
            if layer == "L" or cls == "trivially-infeasible" or (len(R) < 2 and len(P) < 2):
                continue
            cls = _check_instance(res, layer, tuple(R)[::-1], tuple(P)[::-1], tier, modes, order)
        else:
            cls = _check_instance(res, layer, R, P, tier, modes, order)
    return cls


def _check_instance(res, layer, R, P, tier, modes, order):
    import sympy
    from chempy import balance_stoichiometry

    names, nR, subs, A = _instance(layer, R, P, tier)
    n = len(names)
    rnames, pnames = names[:nR], names[nR:]
    if layer == "V":
        for i in R + P:
            obj, orig = _SHARED[(tier, i)]
            if obj.composition != orig:
                res.violation("C02|substances|declared-with-charge-keyword|composition-differs", "Substance(%r, charge=%r, composition=%r).composition = %r before any balancing call" % (
                    obj.name, orig.get(0), {k: v for k, v in orig.items() if k != 0}, obj.composition), dict(layer=layer, R=list(R), P=list(P), mode="None", tier=tier, order=order), repr(obj.composition), repr(orig))
                obj.composition = dict(orig)
    ns, feasible, rays = analyse(A, n) if A else ([], False, [])
    trivial = _precheck_stops(A, nR) if A else True
    single = feasible and len(ns) == 1
    cls = "trivially-infeasible" if trivial else ("single-ray" if single else ("multi-ray" if feasible else "infeasible"))
    for mode in modes:
        res.states += 1
        res.transitions += 1
        res.evaluations += 1
        if not trivial:
            res.nontrivial += 1
        case = dict(layer=layer, R=list(R), P=list(P), mode=repr(mode), tier=tier, order=order)  # R, P as written
        kw = dict(underdetermined=mode)
        if subs is not None:
            kw["substances"] = subs
        try:
            r, p = balance_stoichiometry(rnames, pnames, **kw)
            out = ("ok", dict(r), dict(p))
        except ValueError as e:
            out = ("ValueError", str(e)[:60])
        except Exception as e:
            out = ("EXC " + type(e).__name__, str(e)[:60])
        v = []
        if layer == "F" and out[0] == "ok" and not trivial:
            # the returned mappings are the caller's: they are edited (scaled, one key removed) and the same species are
            # balanced again — the second answer is the first one again
            try:
                for k_ in list(r):
                    r[k_] = r[k_] * 2
                p.pop(next(iter(p)))
                r2, p2 = balance_stoichiometry(rnames, pnames, **kw)
                if (dict(r2), dict(p2)) != (out[1], out[2]) or list(r2) != rnames or list(p2) != pnames:
                    v.append("second-call-differs-after-caller-edited-the-first-result")
            except Exception:
                v.append("second-call-differs-after-caller-edited-the-first-result")
        if layer == "V":
            for i in R + P:
                obj, orig = _SHARED[(tier, i)]
                if obj.composition != orig or list(obj.composition) != list(orig):
                    v.append("callers-substance-modified")
                    obj.composition = dict(orig)
                    break
        if out[0] == "ok":
            x = [out[1].get(k, out[2].get(k)) for k in names]
            parametric = any(getattr(sympy.sympify(e), "free_symbols", None) for e in x)
            if list(out[1]) != rnames or list(out[2]) != pnames:
                v.append("keys")
            resid = [sympy.expand(sum(sympy.Rational(r_[j].numerator, r_[j].denominator) * x[j] for j in range(n))) for r_ in A]
            if any(e != 0 for e in resid):
                v.append("unbalanced")
            if mode is not True or not parametric:
                ints = all(sympy.sympify(e).is_Integer for e in x)
                if not ints:
                    if mode is not True:
                        v.append("nonint")
                elif any(e <= 0 for e in x):
                    v.append("nonpositive")
                elif mode is not True and reduce(gcd, [int(e) for e in x]) != 1:
                    v.append("noncoprime")
            if not feasible:
                v.append("infeasible-but-returned-" + ("parametric" if parametric else "numeric"))
            if single:
                g = [abs(t) for t in primitive(ns[0])]
                if [sympy.sympify(e) for e in x] != [sympy.Integer(t) for t in g]:
                    v.append("not-the-unique-minimal-solution")
            if mode is None and feasible and not v and (n <= 7 or single):
                # (exhaustive search below the returned sum; for the long layer only single-ray systems, where the
                # unique-minimal-solution clause already decided, are cheap enough)
                b = None if single else smaller_sum_solution(A, n, sum(int(e) for e in x))
                if b:
                    v.append("not-minimal-sum")
            res.outcomes["%s:returned%s" % (cls, "-parametric" if parametric else "")] += 1
        else:
            if out[0] != "ValueError":
                v.append("wrong-exception-" + out[0][4:])
            elif single:
                v.append("refused-single-ray")
            elif feasible and mode is None:
                v.append("refused-feasible")
            res.outcomes["%s:%s" % (cls, out[0].split(" ")[0])] += 1
        for what in v:
            key = "C02|mode=%r|%s|%s" % (mode, cls, what)
            if what == "infeasible-but-returned-parametric":
                # instance-level key: this class is a recorded finding (known_findings.json lists every instance of
                # the explored space), so that any *other* instance is still reported
                Rs, Ps = tuple(sorted(R)), tuple(sorted(P))  # the key names the species sets (index order), whatever the written order
                key += "|%s>%s" % ("+".join("(%s)" % ",".join(t) for t in _show(layer, Rs, tier)) if layer != "F" else "+".join(_show(layer, Rs, tier)),
                                   "+".join("(%s)" % ",".join(t) for t in _show(layer, Ps, tier)) if layer != "F" else "+".join(_show(layer, Ps, tier)))
            res.violation(key, "balance_stoichiometry(%s -> %s, underdetermined=%r) %s: %s [%s]" % (_show(layer, R, tier), _show(layer, P, tier), mode, out[0], out[1:], what), case, out, cls)
    if res.states % 499 < len(modes):
        res.sample(dict(layer=layer, reactants=_show(layer, R, tier), products=_show(layer, P, tier), cls=cls, nullity=len(ns)), limit=2)
    return cls


def _show(layer, idx, tier):
    if layer == "L":
        return ["long:k=%d,pattern=%d" % tuple(idx)] if len(idx) == 2 else []
    if layer == "F":
        return [FORMULAS[i] for i in idx]
    V = _vec(tier)
    return [tuple(str(x) for x in V[i]) for i in idx]


FORMULA_LIKE = ["H2O", "O3", "H2", "CO", "N2", "Fe", "C", "O2", "NO", "CH4", "Ar", "He"]


def check_duplicates(res, R, P, tier, labels="rank"):
    """allow_duplicates=True, underdetermined=None on species sets that overlap; labels="formula-like": the species carry names that
    read as formulas of OTHER compositions (the caller's `substances` decide, never the label)"""
    import sympy
    from chempy import balance_stoichiometry

    from chempy import Substance

    V = _vec(tier)
    # species are named by their rank within this instance (n0, n1, ...): the same names come back in other instances with
    # other compositions, as they do for a caller who re-uses generic names; every call gets fresh Substance objects
    rank = {i: ("n%d" % k if labels == "rank" else FORMULA_LIKE[k]) for k, i in enumerate(sorted(set(R) | set(P)))}
    CK = (1, 2, 0, 3)
    subs = {}
    for i, nm in rank.items():
        comp = {ck: (x if isinstance(x, int) else float(x)) for ck, x in zip(CK, V[i]) if x != 0}
        subs[nm] = Substance(nm, composition=comp)
    rnames, pnames = [rank[i] for i in R], [rank[i] for i in P]
    res.states += 1
    res.transitions += 1
    res.evaluations += 1
    res.nontrivial += 1
    case = dict(layer="D", R=list(R), P=list(P), tier=tier, labels=labels)
    try:
        r, p = balance_stoichiometry(rnames, pnames, substances=subs, underdetermined=None, allow_duplicates=True)
        out = ("ok", dict(r), dict(p))
    except ValueError as e:
        out = ("ValueError", str(e)[:60])
    except Exception as e:
        out = ("EXC " + type(e).__name__, str(e)[:60])
    v = []
    if out[0] == "ok":
        r, p = out[1], out[2]
        if set(r) & set(p):
            v.append("species-on-both-sides")
        if not (set(r) <= set(rnames) and set(p) <= set(pnames)):
            v.append("keys-not-among-given")
        xs = list(r.values()) + list(p.values())
        if not all(isinstance(e, int) or sympy.sympify(e).is_Integer for e in xs):
            v.append("nonint")
        elif any(e <= 0 for e in xs):
            v.append("nonpositive")
        elif reduce(gcd, [int(e) for e in xs]) != 1:
            v.append("noncoprime")
        idx = {nm: i for i, nm in rank.items()}
        for row in range(3):
            tot = sum(Fr(V[idx[k]][row]) * c for k, c in p.items()) - sum(Fr(V[idx[k]][row]) * c for k, c in r.items())
            if tot != 0:
                v.append("unbalanced")
                break
        res.outcomes["dup:returned"] += 1
    else:
        if out[0] != "ValueError":
            v.append("wrong-exception-" + out[0][4:])
        res.outcomes["dup:" + out[0].split(" ")[0]] += 1
    for what in v:
        res.violation("C02|duplicates|%s" % what + ("" if labels == "rank" else "|formula-like-labels"), "balance_stoichiometry(%s -> %s, underdetermined=None, allow_duplicates=True%s) %s: %s [%s]" % (
            _show("V", R, tier), _show("V", P, tier), "" if labels == "rank" else ", species labelled %r" % (rnames + pnames,), out[0], out[1:], what), case, out, None)


# ------------------------------------------------------------------------------------------------ layers BM / TV / DF
BM = [
    (["NO2", "C57H110O6", "CH4"], ["C2H6", "C", "C3H5N3O9", "C2H4"]),
    (["C57H110O6", "O2"], ["CO2", "CO", "H2O", "C"]),
    (["C12H22O11", "KNO3"], ["K2CO3", "N2", "CO2", "H2O", "CO"]),
    (["C6H12O6", "O2"], ["CO2", "CO", "H2O", "C2H6O"]),
    (["C8H18", "O2", "N2"], ["CO2", "CO", "H2O", "NO", "NO2"]),
    (["C3H5N3O9"], ["CO2", "H2O", "N2", "O2", "NO"]),
    (["Fe2O3", "C", "CO"], ["Fe", "Fe3O4", "CO2"]),
    (["C57H110O6", "C3H8O3", "O2"], ["C18H36O2", "CO2", "H2O"]),
    (["C21H30O2", "O2", "N2O"], ["CO2", "H2O", "N2", "CO", "C2H4"]),
    (["C16H34", "O2"], ["CO2", "CO", "H2O", "C2H4", "CH4"]),
]


def _flatcomp(f):
    import re

    d = {}
    for sym, n in re.findall(r"([A-Z][a-z]?)(\d*)", f):
        d[sym] = d.get(sym, 0) + int(n or 1)
    return d


def _exact_min_sum(A, n):
    """reference: minimal coefficient sum over positive integer solutions of A x = 0, by an exact (zero-gap) integer program —
    CBC through PuLP, the environment chempy itself delegates to, invoked here with its default (exact) settings"""
    import pulp

    x = [pulp.LpVariable("v%02d" % i, lowBound=1, cat="Integer") for i in range(n)]
    prob = pulp.LpProblem("reference", pulp.LpMinimize)
    prob += pulp.lpSum(x)
    for row in A:
        prob += pulp.lpSum([x[i] * int(e) for i, e in enumerate(row)]) == 0
    prob.solve(pulp.PULP_CBC_CMD(msg=False, gapRel=0, gapAbs=0))
    if pulp.LpStatus[prob.status] != "Optimal":
        return None
    return [int(round(pulp.value(v))) for v in x]


def check_big(res, i, order):
    """under-determined reactions of big molecules (minimal coefficient sums of 20..250): the smallest-integers mode returns a
    balanced positive coprime solution whose sum is the exact minimum"""
    from chempy import balance_stoichiometry

    R, P = BM[i]
    if order == "rev":
        R, P = R[::-1], P[::-1]
    names = R + P
    comps = [_flatcomp(f) for f in names]
    keys = sorted({k for c in comps for k in c})
    A = [[c.get(k, 0) * (-1 if j < len(R) else 1) for j, c in enumerate(comps)] for k in keys]
    ref = _exact_min_sum(A, len(names))
    case = dict(layer="BM", i=i, order=order)
    res.states += 1
    res.transitions += 1
    res.evaluations += 1
    res.nontrivial += 1
    try:
        r, p = balance_stoichiometry(R, P, underdetermined=None)
        x = [int(dict(r, **p)[k]) for k in names]
        got = ("ok", x)
    except ValueError as e:
        got = ("ValueError", str(e)[:60])
    except Exception as e:
        got = ("EXC " + type(e).__name__, str(e)[:60])
    bad = None
    if ref is None:
        if got[0] == "ok":
            bad = "an answer for a reaction without positive integer solution"
    elif got[0] != "ok":
        bad = "refused although %r balances it" % (ref,)
    else:
        x = got[1]
        if any(sum(r_[j] * x[j] for j in range(len(x))) != 0 for r_ in A):
            bad = "unbalanced"
        elif any(v <= 0 for v in x) or reduce(gcd, x) != 1:
            bad = "not positive coprime"
        elif sum(x) != sum(ref):
            bad = "coefficient sum %d, the minimum is %d (%r)" % (sum(x), sum(ref), ref)
    res.outcomes["big:%s" % ("ok sum=%s" % (sum(ref) if ref else "-") if bad is None else "WRONG")] += 1
    if bad:
        res.violation("C02|mode=None|big-molecules|%s" % ("not-minimal-sum" if "minimum" in bad else "other"), "balance_stoichiometry(%r -> %r, underdetermined=None) = %r: %s" % (R, P, got, bad), case, got, ref)


TV_INSTANCES = [  # (reactant compositions, product compositions) with a non-integral amount x = 3/2 or 1/2
    ([{1: "3/2"}], [{1: "3"}]),
    ([{1: 1, 2: "1/2"}, {2: 1}], [{1: 1, 2: 2}]),
    ([{1: 2, 2: 1}, {1: 1, 2: "3/2"}], [{1: 1}, {2: 1}]),
    ([{1: "3/2", 2: 1}], [{1: 1}, {1: 1, 2: 2}]),
    # trace-level amounts (2e-10, 1e-10: an additive at the level of impurities) decide the ratio: 2 feed -> 4 lean + pure
    ([{1: 3, 2: "1/5000000000"}], [{1: 1, 2: "1/10000000000"}, {1: 2}]),
    # ten significant digits: 1.000000001 and 2.000000002
    ([{1: "1000000001/1000000000", 2: 1}], [{1: "2000000002/1000000000"}, {2: 2}]),
]
TV_EXACT_ONLY = {4: ("numpy.float32",), 5: ("numpy.float32",)}  # amounts that type cannot hold
TV_TYPES = ["float", "Fraction", "Decimal", "sympy.Rational", "numpy.float32", "numpy.float64"]


def _tv_value(txt, tname):
    import decimal
    import numpy as np
    import sympy

    f = Fr(txt) if isinstance(txt, str) else Fr(txt)
    if f.denominator == 1 and not isinstance(txt, str):
        return int(f)
    return {"float": float(f), "Fraction": f, "Decimal": decimal.Decimal(f.numerator) / decimal.Decimal(f.denominator), "sympy.Rational": sympy.Rational(f.numerator, f.denominator),
            "numpy.float32": np.float32(float(f)), "numpy.float64": np.float64(float(f))}[tname]


def check_types(res, i, tname, mode):
    """composition amounts given as float / Fraction / Decimal / sympy.Rational / numpy scalars: the answer is the one the exact
    rational linear algebra gives (or a refusal where that says so)"""
    import sympy
    from chempy import balance_stoichiometry, Substance

    Rc, Pc = TV_INSTANCES[i]
    if tname in TV_EXACT_ONLY.get(i, ()):
        return
    names = ["r%d" % k for k in range(len(Rc))] + ["p%d" % k for k in range(len(Pc))]
    comps = Rc + Pc
    subs = {nm: Substance(nm, composition={k: _tv_value(v, tname) for k, v in c.items()}) for nm, c in zip(names, comps)}
    keys = sorted({k for c in comps for k in c})
    A = [[Fr(c.get(k, 0)) * (-1 if j < len(Rc) else 1) for j, c in enumerate(comps)] for k in keys]
    ns, feasible, rays = analyse(A, len(names))
    single = feasible and len(ns) == 1
    case = dict(layer="TV", i=i, tname=tname, mode=repr(mode))
    res.states += 1
    res.transitions += 1
    res.evaluations += 1
    res.nontrivial += 1
    try:
        r, p = balance_stoichiometry(names[: len(Rc)], names[len(Rc):], substances=subs, underdetermined=mode)
        x = [dict(r, **p)[k] for k in names]
        got = ("ok", [str(v) for v in x])
    except ValueError as e:
        x, got = None, ("ValueError", str(e)[:60])
    except Exception as e:
        x, got = None, ("EXC " + type(e).__name__, str(e)[:60])
    bad = None
    if x is None:
        if got[0] != "ValueError":
            bad = "wrong exception"
        elif single:
            bad = "refused a single-ray reaction"
    else:
        resid = [sympy.expand(sum(sympy.Rational(r_[j].numerator, r_[j].denominator) * sympy.sympify(x[j]) for j in range(len(x)))) for r_ in A]
        if any(e != 0 for e in resid):
            bad = "unbalanced"
        elif not feasible:
            bad = "an answer for an infeasible system"
        elif single and [sympy.sympify(v) for v in x] != [sympy.Integer(abs(t)) for t in primitive(ns[0])]:
            bad = "not the unique minimal solution %r" % ([abs(t) for t in primitive(ns[0])],)
    res.outcomes["types:%s:%s" % (tname, "ok" if bad is None else "WRONG")] += 1
    if bad:
        res.violation("C02|mode=%r|composition-amounts-as-%s|%s" % (mode, tname, bad.split(" %")[0].split(" [")[0][:40]), "balance_stoichiometry with amounts given as %s (%r -> %r, underdetermined=%r) = %r: %s" % (
            tname, Rc, Pc, mode, got, bad), case, got, [abs(t) for t in primitive(ns[0])] if single else None)


SK_CASES = ["duplicate-reordered", "duplicate-same-object", "no-duplicate", "lookalike-dot:\u22c5", "lookalike-dot:\u2219", "lookalike-dot:\u2022", "hydrate-dot:..", "hydrate-dot:\u00b7",
            "registry:unused-entries",
            "custom-keys:str:one-sided", "custom-keys:200:one-sided", "custom-keys:str:solvable", "custom-keys:200:solvable"]


def check_substance_keys(res, which, mode):
    """species given as Substance objects (substances={s: s}): a substance present on both sides as two equal objects whose
    composition dictionaries were filled in different orders is the same substance (refused, or a balanced answer - never an
    unbalanced one); and a hydrate written with a dot look-alike is refused or read as the hydrate, never as something else"""
    import sympy
    from chempy import balance_stoichiometry, Substance

    case = dict(layer="SK", which=which, mode=repr(mode))
    res.states += 1
    res.transitions += 1
    res.evaluations += 1
    res.nontrivial += 1
    if which.startswith("registry:"):
        # the caller's `substances` is a registry holding more entries than the reaction uses (other elements, an ion): they do not take part
        reg = {k: Substance.from_formula(k) for k in ("H2", "O2", "H2O", "N2", "Fe+3", "NaCl", "Pt")}
        R, P = (["H2", "O2"], ["H2O"]) if which == "registry:unused-entries" else (["H2", "O2", "Pt"], ["H2O", "Pt"])
        comp = {k: dict(reg[k].composition) for k in set(R + P)}
        kw = dict(substances=reg)
        if which != "registry:unused-entries":
            kw["allow_duplicates"] = True
        must_answer = which == "registry:unused-entries" or mode is None
    elif which.startswith("custom-keys:"):
        # compositions keyed by the caller's own component names (strings, or integers that are no atomic numbers): a component present on
        # one side only is refused with ValueError like any other infeasible placement; a solvable instance is solved
        _, kind, what = which.split(":")
        kx, ky = ("flour", "egg") if kind == "str" else (200, 201)
        a = Substance("a", composition={kx: 2, ky: 1} if what == "one-sided" else {kx: 2})
        b = Substance("b", composition={kx: 1})
        R, P = ["a"], ["b"]
        comp = {"a": dict(a.composition), "b": dict(b.composition)}
        kw = dict(substances={"a": a, "b": b})
        must_answer = what == "solvable"
    elif which.endswith("-dot:" + which.split(":")[-1]) and ":" in which:
        dot = which.split(":", 1)[1]
        R, P = ["CuSO4%s5H2O" % dot], ["CuSO4", "H2O", "O2"]
        comp = {R[0]: {29: 1, 16: 1, 8: 9, 1: 10}, "CuSO4": {29: 1, 16: 1, 8: 4}, "H2O": {1: 2, 8: 1}, "O2": {8: 2}}
        kw = {}
        must_answer = False
    else:
        w1 = Substance("H2O", composition={1: 2, 8: 1})
        w2 = w1 if which == "duplicate-same-object" else Substance("H2O", composition=dict([(8, 1), (1, 2)]))
        C, CO, H2 = Substance("C", composition={6: 1}), Substance("CO", composition={6: 1, 8: 1}), Substance("H2", composition={1: 2})
        if which == "no-duplicate":
            R, P = [w1, C], [CO, H2]
        else:
            R, P = [w1, C], [w2, CO, H2]
        comp = {s: dict(s.composition) for s in R + P}
        kw = dict(substances={s: s for s in R + P})
        must_answer = which == "no-duplicate"
    try:
        r, p = balance_stoichiometry(R, P, underdetermined=mode, **kw)
        got = ("ok", [str(r[k]) for k in R], [str(p[k]) for k in P])
    except Exception as e:
        r = p = None
        got = ("EXC " + type(e).__name__, str(e)[:60])
    bad = None
    if r is None:
        if must_answer:
            bad = "refused a single-ray reaction"
        elif which.startswith("custom-keys:") and got[0] != "EXC ValueError":
            bad = "wrong exception"
    else:
        keys = sorted({k for c in comp.values() for k in c}, key=str)
        for k in keys:
            tot = sum(sympy.sympify(p[s]) * comp[s].get(k, 0) for s in P) - sum(sympy.sympify(r[s]) * comp[s].get(k, 0) for s in R)
            if sympy.expand(tot) != 0:
                bad = "unbalanced"
        if which.startswith("registry:"):
            if bad is None and must_answer and ([str(r.get(k_)) for k_ in ("H2", "O2")], str(p.get("H2O"))) != (["2", "1"], "2"):
                bad = "not the unique minimal solution"
        elif bad is None and must_answer and got != (("ok", ["1", "1"], ["1", "1"]) if not which.startswith("custom-keys:") else ("ok", ["1"], ["2"])):
            bad = "not the unique minimal solution"
    res.outcomes["substance-keys:%s:%s" % (which.split(":")[0], "ok" if bad is None else "WRONG")] += 1
    if bad:
        res.violation("C02|mode=%r|substance-keys|%s|%s" % (mode, which.split(":")[0], bad), "balance_stoichiometry(%r, %r, underdetermined=%r) [%s] = %r: %s" % (
            [str(getattr(x, "name", x)) for x in R], [str(getattr(x, "name", x)) for x in P], mode, which, got, bad), case, got, None)


DF_POOL = ["CO", "H2", "CH4", "CO2", "H2O", "O2", "C"]


DF_ALTER = {"H2O": {1: 2, 8: 2}, "CO2": {6: 1, 8: 3}, "CH4": {6: 1, 1: 2}}  # a label whose supplied composition is another one


def check_duplicates_formula(res, R, P, alter=None):
    """allow_duplicates=True, underdetermined=None through formulas, with up to four products; alter=<formula>: the caller supplies
    `substances`, in which that label carries another composition than its text reads as - the supplied one decides"""
    import sympy
    from chempy import balance_stoichiometry

    rn, pn = [DF_POOL[i] for i in R], [DF_POOL[i] for i in P]
    case = dict(layer="DF", R=list(R), P=list(P), alter=alter)
    kw = {}
    flat = _flatcomp
    if alter is not None:
        from chempy import Substance

        comps = {f: (dict(DF_ALTER[f]) if f == alter else dict(Substance.from_formula(f).composition)) for f in set(rn) | set(pn)}
        kw = dict(substances={f: Substance(f, composition=dict(c)) for f, c in comps.items()})
        flat = lambda f: comps[f]
    res.states += 1
    res.transitions += 1
    res.evaluations += 1
    res.nontrivial += 1
    try:
        r, p = balance_stoichiometry(rn, pn, underdetermined=None, allow_duplicates=True, **kw)
        out = ("ok", {k: str(v) for k, v in r.items()}, {k: str(v) for k, v in p.items()})
    except ValueError as e:
        r = p = None
        out = ("ValueError", str(e)[:60])
    except Exception as e:
        r = p = None
        out = ("EXC " + type(e).__name__, str(e)[:60])
    v = []
    if r is not None:
        xs = list(r.values()) + list(p.values())
        if set(r) & set(p):
            v.append("species-on-both-sides")
        if not (set(r) <= set(rn) and set(p) <= set(pn)):
            v.append("keys-not-among-given")
        if not all(isinstance(e, int) or sympy.sympify(e).is_Integer for e in xs):
            v.append("nonint")
        elif any(e <= 0 for e in xs):
            v.append("nonpositive")
        elif reduce(gcd, [int(e) for e in xs]) != 1:
            v.append("noncoprime")
        else:
            tot = {}
            for d, sg in ((r, -1), (p, 1)):
                for k, c in d.items():
                    for el, n in flat(k).items():
                        tot[el] = tot.get(el, 0) + sg * int(c) * n
            if any(tot.values()):
                v.append("unbalanced")
        res.outcomes["dupF:returned"] += 1
    else:
        if out[0] != "ValueError":
            v.append("wrong-exception-" + out[0][4:])
        res.outcomes["dupF:" + out[0].split(" ")[0]] += 1
    for what in v:
        res.violation("C02|duplicates|formulas|%s" % what + ("" if alter is None else "|supplied-composition-differs-from-label"), "balance_stoichiometry(%r -> %r, underdetermined=None, allow_duplicates=True%s) %s: %s [%s]" % (
            rn, pn, "" if alter is None else ", substances supplied with %s = %r" % (alter, DF_ALTER[alter]), out[0], out[1:], what), case, out, None)


# ------------------------------------------------------------------------------------------------ chunks
def run_chunk(chunk, tier):
    res = Result()
    kind, nr, np_, first = chunk
    if kind == "BM":
        for order in ("fwd", "rev"):
            check_big(res, first, order)
        res.sample(dict(layer="BM", reaction=BM[first]))
        return res
    if kind == "TV":
        for tname in TV_TYPES:
            for mode in MODES:
                check_types(res, first, tname, mode)
        if first == 0:
            for which in SK_CASES:
                for mode in MODES:
                    check_substance_keys(res, which, mode)
        res.sample(dict(layer="TV", instance=TV_INSTANCES[first], types=TV_TYPES))
        return res
    if kind == "DF":
        idx = list(range(len(DF_POOL)))
        for rest in itertools.combinations([i for i in idx if i > first], 1):
            R = (first,) + rest
            for k in (3, 4):
                for P in itertools.combinations(idx, k):
                    if len(set(R) & set(P)) in (1, 2):
                        check_duplicates_formula(res, R, P)
                        for alter in DF_ALTER:
                            if alter in [DF_POOL[i] for i in set(R) | set(P)]:
                                check_duplicates_formula(res, R, P, alter)
        res.sample(dict(layer="DF", first=DF_POOL[first], pool=DF_POOL))
        return res
    if kind == "L":
        cls = check_instance(res, "L", (nr, first), (), tier)
        res.symbols["long-" + cls] += 1
        res.sample(dict(layer="L", species=nr + (2 if first == 2 else 1), pattern=first, cls=cls))
        return res
    if kind == "W":  # the deepest side bound, on the small alphabet
        kind, tier = "V", "quick"
    if kind == "DW":
        kind, tier = "D", "quick"
    n = len(FORMULAS) if kind == "F" else len(_vec(tier))
    idx = list(range(n))
    if kind in ("V", "F"):
        for rest in itertools.combinations([i for i in idx if i > first], nr - 1):
            R = (first,) + rest
            others = [i for i in idx if i not in R]
            for P in itertools.combinations(others, np_):
                cls = check_instance(res, kind, R, P, tier)
                res.symbols[cls] += 1
    else:
        for rest in itertools.combinations([i for i in idx if i > first], nr - 1):
            R = (first,) + rest
            for P in itertools.combinations(idx, np_):
                k = len(set(R) & set(P))
                if k in (1, 2) and set(R) != set(P):
                    check_duplicates(res, R, P, tier)
                    check_duplicates(res, R, P, tier, labels="formula-like")
        res.sample(dict(layer="D", first=first, sides=[nr, np_]))
    return res


def replay(case):
    res = Result()
    tier = case.get("tier", "quick")
    if case["layer"] == "BM":
        check_big(res, case["i"], case["order"])
    elif case["layer"] == "TV":
        check_types(res, case["i"], case["tname"], {"True": True, "False": False, "None": None}[case["mode"]])
    elif case["layer"] == "SK":
        check_substance_keys(res, case["which"], {"True": True, "False": False, "None": None}[case["mode"]])
    elif case["layer"] == "DF":
        check_duplicates_formula(res, tuple(case["R"]), tuple(case["P"]), case.get("alter"))
    elif case["layer"] == "D":
        check_duplicates(res, tuple(case["R"]), tuple(case["P"]), tier, case.get("labels", "rank"))
    else:
        mode = {"True": True, "False": False, "None": None}[case["mode"]]
        _check_instance(res, case["layer"], tuple(case["R"]), tuple(case["P"]), tier, (mode,), case.get("order", "fwd"))
    if res.violations:
        v = res.violations[0]
        return dict(key=v["key"], what=v["what"], observed=v["observed"], expected=v["expected"])
    return None

"""C19 — physical-chemistry relations give unit-independent values in their valid ranges.

State space (DESIGN.md §3 C19): for each of the nine relations the product
    {grid over the validity range, 10 K beyond it on both sides, boundary points, boundary +-1e-9}
  x {plain numbers, `units=default_units` with the documented units, inputs in scaled compatible units
     (degR and mK for temperatures, Pa for bar, mol/m3 for M, g/mol for kg/mol, cm2/s for m2/s, mol/m3/Pa for M/atm)}
is enumerated completely and every point is executed on the real function.
Oracle (from the statement):
  value     unit modes == plain mode after conversion (1e-12 rel.), result convertible to the unit of the named quantity;
            plain mode == the closed-form relation where there is one (Henry / Nernst / Einstein-Smoluchowski)
  warnings  range warning <=> a temperature outside the documented closed range (never inside)
  anchors   published values (CRC / the cited papers), density maximum at 3.98 C
  shape     density rises below / falls above 3.98 C; viscosity and permittivity fall, self-diffusion rises with T
  inverses  get_P_at_T_and_c o get_c_at_T_and_P = id;  density_from_concentration(w*rho/M) = rho
Violation keys are  C19|<function>|<mode>|<what>  with mode in {plain, units-mode, constants-mode, scaled-units[<input>]}.
A failure that a scaled-unit call shares with the default-unit call at the same point is booked under the
default-unit key (one defect, one key).
"""
import math

from mc.core import Result
from mc import env

META = dict(
    title="Physical-chemistry relations give unit-independent values in their valid ranges",
    level="model_checking",
    technique="bounded-exhaustive product-lattice sweep: every relation x every unit mode x every point of a dense grid over "
    "(and just outside) its validity range, executed on the real functions; unitless path, closed forms and published "
    "anchors as reference; exact decimal range test for the warnings",
    rule="states = distinct (relation, lattice point) pairs; each is evaluated in every unit mode of the relation; "
    "non-trivial = points where at least one unit-mode evaluation is compared with the plain value or a warning is expected",
    assumptions=[
        "quantities, numpy, sympy and the interpreter are trusted; temperatures in degC/degF (offset units) are not 'compatible units' "
        "for `quantities` and are not used",
        "real-valued inputs are covered on the stated grids only; a range threshold off by less than the grid step and more than 1e-9 K "
        "is outside the bound (the boundary points and boundary +-1e-9 K are on the lattice)",
        "scaled-unit lattice points within 1e-9 relative of a range boundary are skipped for the warning oracle (313.15*1.8 degR is not "
        "exactly 313.15 K)",
        "sulfuric_acid_density documents its range twice (docstring 273 <= T <= 323, warning text 0-50 degC): the warning oracle uses "
        "[273.15, 323.15] K and skips the bands [273, 273.15) and (323, 323.15] where the two documents disagree",
        "Schumpe (1993) parameters are compared with a table pinned from the reviewed tree (mc/ref/schumpe1993.py), the paper not being "
        "available offline; the structural checks (linearity, additivity, O2 and H+ references) are independent",
        "with a constants object the reference uses that object's own R, F, k_B, e (they are inputs); the hard-coded constants of the "
        "plain path are compared with CODATA-2014 values to 1e-8",
    ],
    design_ref="DESIGN.md §3 C19",
    hashseed_sensitive=False,
)

TOL = 1e-12  # unit modes vs plain mode
EPS = 1e-9

WATER = {
    # name: lo, hi (K, closed), shape
    "water_density": (273.15, 313.15, "unimodal"),
    "water_viscosity": (273.15, 373.15, "dec"),
    "water_self_diffusion_coefficient": (273.15, 373.15, "inc"),
    "water_permittivity": (273.15, 623.15, "dec"),
}
T_DENS_MAX = 273.15 + 3.983035  # Tanaka et al. (2001): maximum density 999.974950 kg/m3 at 3.983035 C


def bounds(tier):
    q = tier == "quick"
    return dict(
        water_T_step_K=0.5 if q else 0.01, beyond_range_K=10, boundary_eps_K=EPS, permittivity_P_bar=[None, 100.0, 1000.0],
        sa_w_step=0.05 if q else 0.01, sa_T_step_K=0.5 if q else 0.1, sa_inverse_w_step=0.05 if q else 0.01, sa_inverse_T_step_K=5.0 if q else 1.0,
        henry_T_step_K=0.5 if q else 0.05, henry_H=[1.2e-3, 3.3e-4], henry_Tderiv=[0.0, 1300.0, 1800.0, 2400.0, -500.0], henry_T0=[None, 293.15],
        nernst_T_step_K=5.0 if q else 0.5, nernst_conc=[145.0, 15.0, 4.0, 150.0, 2.0, 7e-5], nernst_z=[1, 2, 3, -1, -2],
        mobility_T_step_K=5.0 if q else 0.1, mobility_D=[1e-10, 2.299e-9, 9.31e-9], mobility_z=[-3, -2, -1, 0, 1, 2, 3],
        lgs_conc=[0.05, 0.5, 2.0],
    )


def _grid100(lo, hi, step, beyond):
    """temperatures lo-beyond .. hi+beyond as exact 2-decimal literals (hundredths of K)"""
    a, b, s = int(round((lo - beyond) * 100)), int(round((hi + beyond) * 100)), int(round(step * 100))
    return [round(x / 100.0, 2) for x in range(a, b + 1, s)]


SEG = 120


def chunks(tier):
    b = bounds(tier)
    out = [("ANCHOR",)]
    for rel, (lo, hi, _) in WATER.items():
        n = len(_grid100(lo, hi, b["water_T_step_K"], b["beyond_range_K"]))
        seg = SEG if tier == "quick" else 1500
        out += [("W", rel, i, min(n, i + seg)) for i in range(0, n, seg)]
        out.append(("Wb", rel))
        out.append(("WA", rel))
    nw = int(round(0.8 / b["sa_w_step"])) + 1
    per = 2 if tier == "quick" else 3
    out += [("SA", i, min(nw, i + per)) for i in range(0, nw, per)]
    nwi = int(round(0.8 / b["sa_inverse_w_step"])) + 1
    per = 3 if tier == "quick" else 4
    out += [("SAI", i, min(nwi, i + per)) for i in range(0, nwi, per)]
    out += [("LGS", g) for g in range(0, 15, 3)]
    out += [("H", ih, itd) for ih in range(len(b["henry_H"])) for itd in range(len(b["henry_Tderiv"]))]
    out += [("HSYM",)]
    out += [("N", iz) for iz in range(len(b["nernst_z"]))]
    out += [("M", i) for i in range(len(b["mobility_D"]))]
    return out


# =============================================================================================== observation helpers
def _call(res, f):
    """-> (value or ('EXC', text), range_warned, any_user_warning)"""
    res.evaluations += 1
    with env.record_warnings() as w:
        try:
            v = f()
        except Exception as e:
            return ("EXC", "%s: %s" % (type(e).__name__, str(e)[:90])), False, False
    msgs = [str(x.message) for x in w if issubclass(x.category, UserWarning)]
    rng = any(("range" in m.lower() or "outside" in m.lower()) for m in msgs)
    return v, rng, bool(msgs)


def _is_exc(v):
    return isinstance(v, tuple) and len(v) == 2 and v[0] == "EXC"


def _mag(v, unit):
    """magnitude of v in `unit` (None: plain number expected)"""
    from chempy.units import to_unitless

    if unit is None:
        if hasattr(v, "dimensionality"):
            return float(to_unitless(v))
        return float(v)
    return float(to_unitless(v, unit))


class Judge(object):
    """books the comparison of one call with its expectation; implements the one-defect-one-key attribution"""

    def __init__(self, res, fn, case):
        self.res, self.fn, self.case = res, fn, case
        self.primary = {}  # what -> mode of the default-unit call that already failed this way at this point
        self.ok = True

    def fail(self, mode, what, text, observed, expected):
        called = mode
        if mode.startswith("scaled-units") and what in self.primary:
            mode = self.primary[what]
        elif mode in ("units-mode", "constants-mode"):
            self.primary.setdefault(what, mode)
        key = "C19|%s|%s|%s" % (self.fn, mode, what)
        self.res.violation(key, text, dict(self.case, k=key, called_in=called), observed, expected)
        self.res.outcomes["%s|%s|%s" % (self.fn, mode, what.upper())] += 1
        self.ok = False

    def value(self, mode, v, unit, ref, tol, label, skip_value=False):
        """v: raw return value; -> magnitude or None"""
        if _is_exc(v):
            self.fail(mode, "raises", "%s %s raised %s (expected %r)" % (self.fn, label, v[1], ref), "EXC " + v[1].split(":")[0], ref)
            return None
        try:
            m = _mag(v, unit)
        except Exception as e:
            self.fail(mode, "dimension", "%s %s returned %r which is not convertible to %s (%s)" % (self.fn, label, v, unit, type(e).__name__),
                      repr(v), "a quantity in %s" % (unit,))
            return None
        if unit is not None and not hasattr(v, "dimensionality"):
            self.fail(mode, "dimension", "%s %s returned the plain number %r, expected a quantity in %s" % (self.fn, label, v, unit), repr(v), str(unit))
            return None
        if skip_value or ref is None:
            return m
        # (the relative permittivity is a sum of terms of order 1..100 that cancels to ~0 far above the validity range: there a
        # relative tolerance on the result would demand more digits than the 1e-16 rounding of a converted temperature leaves)
        floor = 1.0 if self.fn == "water_permittivity" else 0.0
        if not (m == m) or abs(m - ref) > tol * max(abs(ref), floor) + 1e-300:
            self.fail(mode, "value", "%s %s = %r, expected %r (rel. tol %g)" % (self.fn, label, m, ref, tol), m, ref)
            return None
        d = abs(m - ref) / abs(ref) if ref else 0.0
        k = "max_relerr_x1e16[%s|%s]" % (self.fn, mode)
        if d * 1e16 > self.res.extra.get(k, -1.0):
            self.res.extra[k] = d * 1e16
        self.res.outcomes["%s|%s|value-ok" % (self.fn, mode)] += 1
        return m

    def warning(self, mode, warned, expected, label):
        if expected is None:
            return
        if warned and not expected:
            self.fail(mode, "warning-spurious", "%s %s emitted a range warning although every input is inside the documented range" % (self.fn, label), True, False)
        elif expected and not warned:
            self.fail(mode, "warning-missing", "%s %s emitted no range warning although the temperature is outside the documented range" % (self.fn, label), False, True)
        else:
            self.res.outcomes["%s|%s|%s" % (self.fn, mode, "warned-outside" if expected else "silent-inside")] += 1


def _near(T, *bnds):
    return any(abs(T - b) <= 1e-9 * b for b in bnds)


def _U():
    from chempy.units import default_units as u

    return u


# =============================================================================================== layer W: water correlations
def _water_fn(rel):
    if rel == "water_density":
        from chempy.properties.water_density_tanaka_2001 import water_density as f
    elif rel == "water_viscosity":
        from chempy.properties.water_viscosity_korson_1969 import water_viscosity as f
    elif rel == "water_self_diffusion_coefficient":
        from chempy.properties.water_diffusivity_holz_2000 import water_self_diffusion_coefficient as f
    else:
        from chempy.properties.water_permittivity_bradley_pitzer_1979 import water_permittivity as f
    return f


def _water_unit(rel, u):
    return {"water_density": u.kg / u.m ** 3, "water_viscosity": u.centipoise, "water_self_diffusion_coefficient": u.m ** 2 / u.s,
            "water_permittivity": u.dimensionless}[rel]


def _state_W(res, rel, T, P=None, count=True):
    """one temperature (and pressure) in every unit mode; returns the plain value (or None)"""
    u = _U()
    f = _water_fn(rel)
    lo, hi, _ = WATER[rel]
    outside = T < lo or T > hi
    unit = _water_unit(rel, u)
    case = dict(layer="W", rel=rel, T=T, P=P)
    J = Judge(res, rel, case)
    pa = () if P is None else (P,)
    lab = "(T=%r%s)" % (T, "" if P is None else ", P=%r bar" % P)
    # plain
    v, w, _ = _call(res, lambda: f(T, *pa))
    v0 = J.value("plain", v, None, None, 0, "plain" + lab)
    J.warning("plain", w, outside, "plain" + lab)
    if v0 is not None and not (v0 == v0 and abs(v0) != float("inf") and v0 > 0):
        if outside:  # extrapolation beyond the validity range may leave the domain of the formula (log of a negative number)
            res.outcomes["%s|plain|non-physical-value-outside-range" % rel] += 1
        else:
            J.fail("plain", "value", "%s plain%s = %r is not a positive finite number" % (rel, lab, v0), v0, "> 0")
        v0 = None
    v, w, _ = _call(res, lambda: f(T, *pa, warn=False))
    m = J.value("plain", v, None, v0, 0.0, "plain warn=False" + lab)
    if w:
        J.fail("plain", "warning-despite-warn-False", "%s(T=%r, warn=False) still emitted a range warning" % (rel, T), True, False)
    # the documented T0 argument (value of T at 0 degC): the same temperature on a shifted scale
    if rel == "water_density":
        for T0 in (0.0, 273.16):
            Tin = T - 273.15 + T0
            v, w, _ = _call(res, lambda: f(Tin, T0=T0))
            J.value("T0-override", v, None, v0, 1e-9, "T0=%r%s" % (T0, lab))
            if not _is_exc(v) and not _near(T, lo, hi):
                J.warning("T0-override", w, outside, "T0=%r%s" % (T0, lab))
            res.symbols["T0=%r" % T0] += 1
    # default units
    pu = () if P is None else (P * u.bar,)
    v, w, _ = _call(res, lambda: f(T * u.K, *pu, units=u))
    J.value("units-mode", v, unit, v0, TOL, "units=default_units, T in K" + lab)
    if not _is_exc(v):
        J.warning("units-mode", w, outside, "units=default_units, T in K" + lab)
    # scaled temperature units
    for tn, Tq in (("degR", T * 1.8 * u.rankine), ("mK", T * 1000.0 * u.mK)):
        v, w, _ = _call(res, lambda: f(Tq, *pu, units=u))
        J.value("scaled-units[T]", v, unit, v0, TOL, "T in %s%s" % (tn, lab))
        if not _is_exc(v) and not _near(T, lo, hi):
            J.warning("scaled-units[T]", w, outside, "T in %s%s" % (tn, lab))
        res.symbols["T-unit:" + tn] += 1
    # scaled pressure units
    if P is not None:
        for pn, Pq in (("Pa", P * 1e5 * u.Pa), ("MPa", P * 0.1 * u.MPa)):
            v, w, _ = _call(res, lambda: f(T * u.K, Pq, units=u))
            J.value("scaled-units[P]", v, unit, v0, 1e-11, "P in %s%s" % (pn, lab))
            if not _is_exc(v):
                J.warning("scaled-units[P]", w, outside, "P in %s%s" % (pn, lab))
            res.symbols["P-unit:" + pn] += 1
    if rel == "water_self_diffusion_coefficient" and v0 is not None:
        # the uncertainty keyword (fit parameters shifted by multiples of their standard errors): the same physical value with
        # plain numbers and with quantities, and a call with it leaves later calls without it as they were
        for em in ((1, 1), (-1, 0.5)):
            vp, _, _ = _call(res, lambda: f(T, err_mult=em, warn=False))
            vp = J.value("err_mult", vp, None, None, 0, "plain err_mult=%r%s" % (em, lab))
            vq, _, _ = _call(res, lambda: f(T * u.K, units=u, err_mult=em, warn=False))
            J.value("err_mult", vq, unit, vp, TOL, "units=default_units, err_mult=%r%s" % (em, lab))
            res.symbols["err_mult=%r" % (em,)] += 1
        v, _, _ = _call(res, lambda: f(T * u.K, units=u, warn=False))
        J.value("units-mode-after-err_mult", v, unit, v0, TOL, "units=default_units after calls with err_mult" + lab)
        v, _, _ = _call(res, lambda: f(T, warn=False))
        J.value("plain-after-err_mult", v, None, v0, 0.0, "plain after calls with err_mult" + lab)
    # the same calls once more in this process (a session evaluates one temperature many times): same value, same warning behaviour
    v, w, _ = _call(res, lambda: f(T, *pa))
    J.value("plain-again", v, None, v0, 0.0, "plain, called again" + lab)
    J.warning("plain-again", w, outside, "plain, called again" + lab)
    v, w, _ = _call(res, lambda: f(T * u.K, *pu, units=u))
    J.value("units-mode-again", v, unit, v0, TOL, "units=default_units, T in K, called again" + lab)
    if not _is_exc(v):
        J.warning("units-mode-again", w, outside, "units=default_units, T in K, called again" + lab)
    if count:
        res.states += 1
        res.nontrivial += 1
        res.transitions += 7 + (2 if P is not None else 0)
        res.symbols["rel:" + rel] += 1
        res.outcomes["%s|point-%s-%s" % (rel, "outside" if outside else "inside", "ok" if J.ok else "VIOLATED")] += 1
    return v0


def _state_WA(res, rel, Ts, P=None):
    """an ARRAY of temperatures in one call (plain and with units): element-wise the scalar results, the result carrying the unit"""
    import numpy as np

    u = _U()
    f = _water_fn(rel)
    unit = _water_unit(rel, u)
    pa = () if P is None else (P,)
    pu = () if P is None else (P * u.bar,)
    case = dict(layer="WA", rel=rel, Ts=list(Ts), P=P)
    J = Judge(res, rel, case)
    res.states += 1
    res.nontrivial += 1
    res.transitions += 2
    scal = []
    for T in Ts:
        v, _, _ = _call(res, lambda: f(T, *pa, warn=False))
        scal.append(None if _is_exc(v) else float(v))
    if any(v is None for v in scal):
        res.outcomes["%s|array-skipped (a scalar evaluation raises)" % rel] += 1
        return
    v, _, _ = _call(res, lambda: f(np.array(Ts), *pa, warn=False))
    try:
        arr = [float(x) for x in np.asarray(v, dtype=float).reshape(-1)]
        ok = len(arr) == len(Ts) and all(abs(a - b) <= 1e-12 * abs(b) for a, b in zip(arr, scal))
    except Exception:
        arr, ok = repr(v)[:80], False
    if not ok:
        J.fail("array-plain", "value", "%s(array %r) = %r, scalar evaluations give %r" % (rel, list(Ts), arr, scal), arr, scal)
    v, _, _ = _call(res, lambda: f(np.array(Ts) * u.K, *pu, units=u, warn=False))
    try:
        from chempy.units import to_unitless

        arr = [float(x) for x in np.asarray(to_unitless(v, unit), dtype=float).reshape(-1)]
        ok = len(arr) == len(Ts) and all(abs(a - b) <= TOL * abs(b) for a, b in zip(arr, scal))
    except Exception as e:
        arr, ok = "%s: %s" % (type(e).__name__, str(e)[:80]), False
    if not ok:
        J.fail("array-units", "value-or-dimension", "%s(array %r K, units=default_units) = %r (converted to the unit of the quantity), scalar evaluations give %r" % (rel, list(Ts), arr, scal), arr, scal)
    res.outcomes["%s|array-%s" % (rel, "ok" if J.ok else "VIOLATED")] += 1


def _shape(res, rel, Ta, va, Tb, vb, P):
    """consecutive in-range grid points Ta < Tb"""
    lo, hi, shape = WATER[rel]
    if va is None or vb is None or Ta < lo or Tb > hi:
        return
    if shape == "dec":
        good = vb < va
    elif shape == "inc":
        good = vb > va
    else:
        if Tb <= T_DENS_MAX:
            good = vb > va
        elif Ta >= T_DENS_MAX:
            good = vb < va
        else:
            return
    res.evaluations += 1
    if good:
        res.outcomes["%s|shape-ok" % rel] += 1
    else:
        key = "C19|%s|plain|shape" % rel
        res.violation(key, "%s: value %r at %r K and %r at %r K contradict the qualitative shape (%s)" % (rel, va, Ta, vb, Tb, shape),
                      dict(layer="Wshape", rel=rel, Ta=Ta, Tb=Tb, P=P, k=key), [va, vb], shape)


# =============================================================================================== layer SA: sulfuric acid
M_H2SO4 = (1.00794 * 2 + 32.066 + 4 * 15.9994) * 1e-3  # kg/mol, standard atomic weights


def _state_SA(res, w, T, count=True):
    from chempy.properties.sulfuric_acid_density_myhre_1998 import sulfuric_acid_density as f

    u = _U()
    lo, hi = 273.15, 323.15
    if 273.0 <= T < 273.15 or 323.0 < T <= 323.15:
        expect = None  # the two documented ranges disagree here
    else:
        expect = T < lo or T > hi
    unit = u.kg / u.m ** 3
    J = Judge(res, "sulfuric_acid_density", dict(layer="SA", w=w, T=T))
    lab = "(w=%r, T=%r)" % (w, T)
    v, wn, _ = _call(res, lambda: f(w, T))
    v0 = J.value("plain", v, None, None, 0, "plain" + lab)
    J.warning("plain", wn, expect, "plain" + lab)
    if v0 is not None and not (500 < v0 < 2500):
        J.fail("plain", "value", "sulfuric_acid_density plain%s = %r is not a liquid density" % (lab, v0), v0, "500..2500 kg/m3")
        v0 = None
    # the documented T0 argument (value of T at 0 degC): the same temperature on a shifted scale, T0 = 0 being the Celsius scale
    for T0 in (0, 0.0, 273.16):
        Tin = T - 273.15 + T0
        v, wn, _ = _call(res, lambda: f(w, Tin, T0=T0))
        J.value("T0-override", v, None, v0, 1e-9, "T0=%r%s" % (T0, lab))
        if not _is_exc(v) and expect is not None and not _near(T, lo, hi):
            J.warning("T0-override", wn, expect, "T0=%r%s" % (T0, lab))
        res.symbols["SA:T0=%r" % (T0,)] += 1
    v, wn, _ = _call(res, lambda: f(w, T * u.K, units=u))
    J.value("units-mode", v, unit, v0, TOL, "units=default_units, T in K" + lab)
    if not _is_exc(v):
        J.warning("units-mode", wn, expect, "T in K" + lab)
    for tn, Tq in (("degR", T * 1.8 * u.rankine), ("mK", T * 1000.0 * u.mK)):
        v, wn, _ = _call(res, lambda: f(w, Tq, units=u))
        J.value("scaled-units[T]", v, unit, v0, TOL, "T in %s%s" % (tn, lab))
        if not _is_exc(v) and not _near(T, lo, hi):
            J.warning("scaled-units[T]", wn, expect, "T in %s%s" % (tn, lab))
    if count:
        res.states += 1
        res.nontrivial += 1
        res.transitions += 4
        res.symbols["rel:sulfuric_acid_density"] += 1
        res.outcomes["sulfuric_acid_density|point-%s-%s" % ({None: "ambiguous", True: "outside", False: "inside"}[expect], "ok" if J.ok else "VIOLATED")] += 1
    return v0


INV_TOL = 5e-3  # kg/m3; the helper's own convergence criterion is 1e-3 kg/m3 on successive iterates


def _state_SAI(res, w, T, count=True):
    """density_from_concentration must invert conc = w*rho/M on the validity range"""
    from chempy.properties.sulfuric_acid_density_myhre_1998 import sulfuric_acid_density as f, density_from_concentration as g

    u = _U()
    J = Judge(res, "density_from_concentration", dict(layer="SAI", w=w, T=T))
    rho = float(f(w, T, warn=False))
    conc = w * rho / M_H2SO4  # mol/m3
    lab = "(conc=%r mol/m3 i.e. w=%r, T=%r)" % (conc, w, T)
    conv = None
    for mi in (10, 100, 1000):
        v, wn, anyw = _call(res, lambda: g(conc, T, maxiter=mi))
        if _is_exc(v) and v[1].startswith("NoConvergence"):
            continue
        conv = mi
        break
    if conv is None:
        J.fail("plain", "no-convergence-in-range", "density_from_concentration%s does not converge within 1000 iterations although w and T are "
               "inside the documented range (forward density %r)" % (lab, rho), "NoConvergence", rho)
    else:
        m = J.value("plain", v, None, None, 0, "plain" + lab)
        if m is not None and abs(m - rho) > INV_TOL:
            J.fail("plain", "inverse", "density_from_concentration%s = %r but sulfuric_acid_density(w, T) = %r" % (lab, m, rho), m, rho)
        elif m is not None:
            res.outcomes["density_from_concentration|plain|inverse-ok(maxiter=%d)" % conv] += 1
        if anyw:
            J.fail("plain", "warning-spurious", "density_from_concentration%s emitted a warning inside the range" % lab, True, False)
        if conv <= 100 and m is not None:
            unit = u.kg / u.m ** 3
            mm = M_H2SO4 * u.kg / u.mol
            variants = (
                ("units-mode", "conc in mol/m3, T in K", lambda: g(conc * u.mol / u.m ** 3, T * u.K, units=u, maxiter=conv)),
                ("scaled-units[c]", "conc in M", lambda: g(conc / 1000.0 * u.molar, T * u.K, units=u, maxiter=conv)),
                ("scaled-units[M]", "molar mass in g/mol", lambda: g(conc * u.mol / u.m ** 3, T * u.K, molar_mass=M_H2SO4 * 1e3 * u.gram / u.mol, units=u, maxiter=conv)),
                ("scaled-units[M]", "molar mass in kg/mol (explicit)", lambda: g(conc * u.mol / u.m ** 3, T * u.K, molar_mass=mm, units=u, maxiter=conv)),
                ("scaled-units[T]", "T in degR", lambda: g(conc * u.mol / u.m ** 3, T * 1.8 * u.rankine, units=u, maxiter=conv)),
            )
            for mode, vl, call in variants:
                v2, wn, anyw = _call(res, call)
                if mode == "scaled-units[T]" and _is_exc(v2) and v2[1].startswith("NoConvergence"):
                    # consequence of a wrong density callback value: same defect class as a wrong value
                    J.fail(mode, "value", "density_from_concentration %s%s raised NoConvergence, plain mode gives %r" % (vl, lab, m), "NoConvergence", m)
                    continue
                m2 = J.value(mode, v2, unit, None, 0, vl + lab)
                if m2 is not None:
                    if abs(m2 - m) > 2e-3:
                        J.fail(mode, "value", "density_from_concentration %s%s = %r kg/m3, plain mode gives %r" % (vl, lab, m2, m), m2, m)
                    else:
                        res.outcomes["density_from_concentration|%s|value-ok" % mode] += 1
            # the same plain call with the documented leading arguments given by position
            for vl, call in (("molar mass by position", lambda: g(conc, T, M_H2SO4, maxiter=conv)), ("molar mass and density function by position", lambda: g(conc, T, M_H2SO4, f, maxiter=conv))):
                v3, wn, anyw = _call(res, call)
                if _is_exc(v3):
                    J.fail("plain-positional", "value", "density_from_concentration %s%s raised %s, the keyword spelling gives %r" % (vl, lab, v3[1], m), v3[1], m)
                    continue
                m3 = J.value("plain-positional", v3, None, None, 0, vl + lab)
                if m3 is not None:
                    if abs(m3 - m) > 1e-9:
                        J.fail("plain-positional", "value", "density_from_concentration %s%s = %r kg/m3, the keyword spelling gives %r" % (vl, lab, m3, m), m3, m)
                    else:
                        res.outcomes["density_from_concentration|plain-positional|value-ok"] += 1
    if count:
        res.states += 1
        res.nontrivial += 1
        res.transitions += 6
        res.symbols["rel:density_from_concentration"] += 1
        res.outcomes["density_from_concentration|point-%s" % ("ok" if J.ok else "VIOLATED")] += 1
        if conv:
            res.outcomes["density_from_concentration|needs-maxiter<=%d" % conv] += 1


# =============================================================================================== layer LGS: Schumpe 1993
def _state_LGS(res, gas, ions, cs, count=True):
    from chempy.properties.gas_sol_electrolytes_schumpe_1993 import lg_solubility_ratio as f
    from mc.ref import schumpe1993 as S

    u = _U()
    J = Judge(res, "lg_solubility_ratio", dict(layer="LGS", gas=gas, ions=list(ions), cs=list(cs)))
    ref = sum((S.GAS[gas] + S.ION[k]) * c for k, c in zip(ions, cs))
    lab = "(%r, %r)" % (dict(zip(ions, cs)), gas)
    tol = 1e-12 if ref else 0.0
    hasF = "F-" in ions
    v, _, anyw = _call(res, lambda: f(dict(zip(ions, cs)), gas))
    J.value("plain", v, None, ref, tol, "plain" + lab)
    if anyw and not hasF:
        J.fail("plain", "warning-spurious", "lg_solubility_ratio%s emitted a warning" % lab, True, False)
    v, _, anyw = _call(res, lambda: f({k: c * u.molar for k, c in zip(ions, cs)}, gas, units=u))
    J.value("units-mode", v, u.dimensionless, ref, tol, "conc in M" + lab)
    if anyw and not hasF and not _is_exc(v):
        J.fail("units-mode", "warning-spurious", "lg_solubility_ratio%s emitted a warning" % lab, True, False)
    v, _, anyw = _call(res, lambda: f({k: c * 1000.0 * u.mol / u.m ** 3 for k, c in zip(ions, cs)}, gas, units=u))
    J.value("scaled-units[c]", v, u.dimensionless, ref, tol, "conc in mol/m3 (=mM)" + lab)
    if count:
        res.states += 1
        res.nontrivial += 1
        res.transitions += 3
        res.symbols["gas:" + gas] += 1
        for k in ions:
            res.symbols["ion:" + k] += 1
        res.outcomes["lg_solubility_ratio|point-%s" % ("ok" if J.ok else "VIOLATED")] += 1


# =============================================================================================== layer H: Henry
ATM_PA = 101325.0


def _state_H(res, H0, Td, T0, T, count=True):
    from chempy.henry import Henry, HenryWithUnits, Henry_H_at_T

    u = _U()
    J = Judge(res, "Henry_H_at_T", dict(layer="H", H0=H0, Td=Td, T0=T0, T=T))
    t0 = 298.15 if T0 is None else T0
    ref = H0 * math.exp(Td * (1 / T - 1 / t0))
    lab = "(T=%r, H=%r, Tderiv=%r, T0=%r)" % (T, H0, Td, T0)
    hu = u.molar / u.atm
    kw0 = {} if T0 is None else dict(T0=T0)
    kwq = {} if T0 is None else dict(T0=T0 * u.K)
    hargs = (H0, Td) if T0 is None else (H0, Td, T0)
    hargsq = (H0 * hu, Td * u.K) if T0 is None else (H0 * hu, Td * u.K, T0 * u.K)
    calls = [
        ("plain", "Henry_H_at_T plain", None, lambda: Henry_H_at_T(T, H0, Td, **kw0)),
        ("plain", "Henry_H_at_T plain backend=math", None, lambda: Henry_H_at_T(T, H0, Td, backend=math, **kw0)),
        ("plain", "Henry(...)(T) plain", None, lambda: Henry(*hargs)(T)),
        ("units-mode", "Henry_H_at_T units, T in K", hu, lambda: Henry_H_at_T(T * u.K, H0 * hu, Td * u.K, units=u, **kwq)),
        ("units-mode", "HenryWithUnits(...)(T in K)", hu, lambda: HenryWithUnits(*hargsq)(T * u.K)),
        ("scaled-units[H]", "H in mol/m3/Pa", hu, lambda: Henry_H_at_T(T * u.K, H0 * 1000.0 / ATM_PA * u.mol / u.m ** 3 / u.Pa, Td * u.K, units=u, **kwq)),
        ("scaled-units[T]", "T in degR (Tderiv, T0 in K)", hu, lambda: Henry_H_at_T(T * 1.8 * u.rankine, H0 * hu, Td * u.K, units=u, **kwq)),
        ("scaled-units[T]", "HenryWithUnits(...)(T in degR)", hu, lambda: HenryWithUnits(*hargsq)(T * 1.8 * u.rankine)),
        ("scaled-units[T]", "Tderiv in degR (T in K)", hu, lambda: Henry_H_at_T(T * u.K, H0 * hu, Td * 1.8 * u.rankine, units=u, **kwq)),
        ("scaled-units[T]", "T in mK", hu, lambda: Henry_H_at_T(T * 1000.0 * u.mK, H0 * hu, Td * u.K, units=u, **kwq)),
        ("scaled-units[T,Tderiv,T0]", "all temperatures in degR", hu,
         lambda: Henry_H_at_T(T * 1.8 * u.rankine, H0 * hu, Td * 1.8 * u.rankine, T0=t0 * 1.8 * u.rankine, units=u)),
    ]
    for mode, vl, unit, call in calls:
        v, _, anyw = _call(res, call)
        J.value(mode, v, unit, ref, 1e-12 if mode == "plain" else 2e-12, vl + lab)
        if anyw and not _is_exc(v):
            J.fail(mode, "warning-spurious", "%s%s emitted a warning" % (vl, lab), True, False)
        res.symbols["henry:" + vl.split("(")[0].strip()] += 1
    # two relations that differ (here: tabulated at another reference temperature) are different objects to ==, != and as table keys
    if T0 is not None and T0 != 298.15:
        v, _, _ = _call(res, lambda: [Henry(H0, Td) == Henry(H0, Td, T0), Henry(H0, Td) != Henry(H0, Td, T0), len({Henry(H0, Td): 1, Henry(H0, Td, T0): 2}), Henry(H0, Td, T0) == Henry(H0, Td, T0)])
        if v != [False, True, 2, True]:
            J.fail("plain", "distinct-relations-taken-for-the-same", "Henry(H, Tderiv) and Henry(H, Tderiv, T0)%s: [==, !=, entries of a table keyed by both, equal to an identical one] = %r" % (lab, v), v, [False, True, 2, True])
    # inverse helpers
    for P in (0.2, 1.0, 50.0):
        h = Henry(*hargs)
        v, _, _ = _call(res, lambda: h.get_P_at_T_and_c(T, h.get_c_at_T_and_P(T, P)))
        J2 = Judge(res, "Henry.get_P_at_T_and_c", dict(layer="H", H0=H0, Td=Td, T0=T0, T=T, P=P))
        J2.value("plain", v, None, P, 1e-14, "o get_c_at_T_and_P plain (P=%r)%s" % (P, lab))
        v, _, _ = _call(res, lambda: h.get_c_at_T_and_P(T, P))
        J2.fn = "Henry.get_c_at_T_and_P"
        J2.value("plain", v, None, P * ref, 1e-12, "plain (P=%r)%s" % (P, lab))
        hq = HenryWithUnits(*hargsq)
        for pn, Pq in (("atm", P * u.atm), ("bar", P * ATM_PA / 1e5 * u.bar), ("Pa", P * ATM_PA * u.Pa)):
            mode = "units-mode" if pn == "atm" else "scaled-units[P]"
            J2.fn = "Henry.get_c_at_T_and_P"
            v, _, _ = _call(res, lambda: hq.get_c_at_T_and_P(T * u.K, Pq))
            c = J2.value(mode, v, u.molar, P * ref, 4e-12, "P in %s%s" % (pn, lab))
            if c is not None:
                J2.fn = "Henry.get_P_at_T_and_c"
                v2, _, _ = _call(res, lambda: hq.get_P_at_T_and_c(T * u.K, v))
                J2.value(mode, v2, u.atm, P, 4e-12, "o get_c_at_T_and_P, P in %s%s" % (pn, lab))
        J.ok &= J2.ok
    if count:
        res.states += 1
        res.nontrivial += 1
        res.transitions += len(calls) + 3 * 8
        res.symbols["rel:Henry"] += 1
        res.outcomes["Henry|point-%s" % ("ok" if J.ok else "VIOLATED")] += 1


def _state_HSYM(res, count=True):
    import sympy
    from chempy.henry import Henry_H_at_T
    from chempy.electrochemistry.nernst import nernst_potential

    T, H, Td, T0, co, ci, z = sympy.symbols("T H Td T0 co ci z", positive=True)
    for fn, f, want in (
        ("Henry_H_at_T", lambda: Henry_H_at_T(T, H, Td, T0, backend=sympy), H * sympy.exp(Td * (1 / T - 1 / T0))),
        ("nernst_potential", lambda: nernst_potential(co, ci, z, T, backend=sympy), sympy.Float(8.3144598) * T / (z * sympy.Float(96485.33289)) * sympy.log(co / ci)),
    ):
        res.evaluations += 1
        res.transitions += 1
        if count:
            res.states += 1
            res.nontrivial += 1
        key = "C19|%s|plain|symbolic-form" % fn
        case = dict(layer="HSYM", k=key)
        try:
            got = f()
            ratio = sympy.simplify(got / want)
            good = ratio.is_number and abs(float(ratio) - 1) < 1e-9
        except Exception as e:
            got, good = "EXC %s" % type(e).__name__, False
        if good:
            res.outcomes["%s|symbolic-ok" % fn] += 1
        else:
            res.violation(key, "symbolic %s = %s, the relation is %s" % (fn, got, want), case, str(got), str(want))
            res.outcomes["%s|symbolic-VIOLATED" % fn] += 1
        res.symbols["symbolic:" + fn] += 1


# =============================================================================================== layer N: Nernst
R14, F14 = 8.3144598, 96485.33289  # CODATA 2014
KB14, E14 = 1.38064852e-23, 1.6021766208e-19


def _consts():
    from chempy.units import default_constants as c, to_unitless

    u = _U()
    return dict(
        R=float(to_unitless(c.molar_gas_constant, u.joule / u.K / u.mol)), F=float(to_unitless(c.Faraday_constant, u.coulomb / u.mol)),
        kB=float(to_unitless(c.Boltzmann_constant, u.joule / u.K)), e=float(to_unitless(c.elementary_charge, u.coulomb)),
    )


_C = None


def _state_N(res, co, ci, z, T, count=True):
    global _C
    from chempy.electrochemistry.nernst import nernst_potential as f
    from chempy.units import default_constants as const

    u = _U()
    if _C is None:
        _C = _consts()
    J = Judge(res, "nernst_potential", dict(layer="N", co=co, ci=ci, z=z, T=T))
    lnr = math.log(co / ci)
    ref = R14 * T / (z * F14) * lnr
    refc = _C["R"] * T / (z * _C["F"]) * lnr
    lab = "(c_out=%r, c_in=%r, z=%r, T=%r)" % (co, ci, z, T)
    V = u.volt
    mM = u.mol / u.m ** 3
    tol0 = 1e-9 if ref else 0.0
    tol = TOL if ref else 0.0
    v, _, anyw = _call(res, lambda: f(co, ci, z, T))
    v0 = J.value("plain", v, None, ref, tol0, "plain" + lab)
    if anyw:
        J.fail("plain", "warning-spurious", "nernst_potential%s emitted a warning" % lab, True, False)
    base = v0 if v0 is not None else ref
    calls = [
        ("units-mode", "value", "conc plain numbers, T in K, units", lambda: f(co, ci, z, T * u.K, units=u), base),
        ("units-mode", "value", "conc both in mM, T in K, units", lambda: f(co * mM, ci * mM, z, T * u.K, units=u), base),
        ("units-mode", "value", "conc both in M, T in K, units", lambda: f(co / 1000 * u.molar, ci / 1000 * u.molar, z, T * u.K, units=u), base),
        ("units-mode", "mixed-concentration-units-value", "c_out in mM, c_in in M, units", lambda: f(co * mM, ci / 1000 * u.molar, z, T * u.K, units=u), base),
        ("units-mode", "mixed-concentration-units-value", "c_out in M, c_in in mM, units", lambda: f(co / 1000 * u.molar, ci * mM, z, T * u.K, units=u), base),
        ("scaled-units[T]", "value", "T in degR, units", lambda: f(co, ci, z, T * 1.8 * u.rankine, units=u), base),
        ("constants-mode", "value", "conc plain numbers, constants", lambda: f(co, ci, z, T * u.K, const), refc),
        ("constants-mode", "value", "conc plain numbers, constants+units", lambda: f(co, ci, z, T * u.K, const, u), refc),
        ("constants-mode", "value", "conc both in mM, constants+units", lambda: f(co * mM, ci * mM, z, T * u.K, const, u), refc),
        ("constants-mode", "mixed-concentration-units-value", "c_out in mM, c_in in M, constants+units", lambda: f(co * mM, ci / 1000 * u.molar, z, T * u.K, const, u), refc),
        ("constants-mode", "mixed-concentration-units-value", "c_out in mM, c_in in M, constants without units", lambda: f(co * mM, ci / 1000 * u.molar, z, T * u.K, const), refc),
        ("constants-mode", "mixed-concentration-units-value", "c_out in M, c_in in mM, constants without units", lambda: f(co / 1000 * u.molar, ci * mM, z, T * u.K, const), refc),
        ("scaled-units[T]", "value", "T in degR, constants+units", lambda: f(co, ci, z, T * 1.8 * u.rankine, const, u), refc),
    ]
    for mode, what, vl, call, rf in calls:
        v, _, anyw = _call(res, call)
        m = J.value(mode, v, V, None, 0, vl + lab, skip_value=True)
        if m is not None:
            # (absolute slack: a unit conversion may leave the concentration ratio one ulp from its exact value, which
            # moves ln(ratio) by 2e-16 whatever its size, e.g. from exactly 0 when c_out == c_in)
            if abs(m - rf) > (2 * tol) * abs(rf) + 4e-16 * abs(R14 * T / (z * F14)):
                J.fail(mode, what, "nernst_potential %s%s = %r V, the Nernst equation gives %r V" % (vl, lab, m, rf), m, rf)
            else:
                res.outcomes["nernst_potential|%s|%s-ok" % (mode, what)] += 1
        if anyw and not _is_exc(v):
            J.fail(mode, "warning-spurious", "nernst_potential %s%s emitted a warning" % (vl, lab), True, False)
    if count:
        res.states += 1
        if co != ci:
            res.nontrivial += 1
        res.transitions += 1 + len(calls)
        res.symbols["rel:nernst_potential"] += 1
        res.symbols["nernst:z=%+d" % z] += 1
        res.outcomes["nernst_potential|point-%s" % ("ok" if J.ok else "VIOLATED")] += 1


# =============================================================================================== layer M: mobility
def _state_M(res, D, z, T, count=True):
    global _C
    from chempy.einstein_smoluchowski import electrical_mobility_from_D as f
    from chempy.units import default_constants as const

    u = _U()
    if _C is None:
        _C = _consts()
    J = Judge(res, "electrical_mobility_from_D", dict(layer="M", D=D, z=z, T=T))
    ref = D * z * E14 / (KB14 * T)
    refc = D * z * _C["e"] / (_C["kB"] * T)
    lab = "(D=%r, z=%r, T=%r)" % (D, z, T)
    mu = u.m ** 2 / u.volt / u.s
    m2s, cm2s = u.m ** 2 / u.s, u.cm ** 2 / u.s
    v, _, anyw = _call(res, lambda: f(D, z, T))
    v0 = J.value("plain", v, None, ref, 1e-8 if ref else 0.0, "plain" + lab)
    if anyw:
        J.fail("plain", "warning-spurious", "electrical_mobility_from_D%s emitted a warning" % lab, True, False)
    base = v0 if v0 is not None else ref
    calls = [
        ("units-mode", "D in m2/s, T in K, units", lambda: f(D * m2s, z, T * u.K, units=u), base),
        ("scaled-units[D]", "D in cm2/s, T in K, units", lambda: f(D * 1e4 * cm2s, z, T * u.K, units=u), base),
        ("scaled-units[T]", "D in m2/s, T in degR, units", lambda: f(D * m2s, z, T * 1.8 * u.rankine, units=u), base),
        ("constants-mode", "D in m2/s, T in K, constants+units", lambda: f(D * m2s, z, T * u.K, const, u), refc),
        ("constants-mode", "D in m2/s, T in K, constants", lambda: f(D * m2s, z, T * u.K, const), refc),
        ("scaled-units[D]", "D in cm2/s, constants+units", lambda: f(D * 1e4 * cm2s, z, T * u.K, const, u), refc),
        ("scaled-units[T]", "T in degR, constants+units", lambda: f(D * m2s, z, T * 1.8 * u.rankine, const, u), refc),
    ]
    for mode, vl, call, rf in calls:
        v, _, anyw = _call(res, call)
        J.value(mode, v, mu, rf, 4e-12 if rf else 0.0, vl + lab)
        if anyw and not _is_exc(v):
            J.fail(mode, "warning-spurious", "electrical_mobility_from_D %s%s emitted a warning" % (vl, lab), True, False)
    if count:
        res.states += 1
        if z:
            res.nontrivial += 1
        res.transitions += 1 + len(calls)
        res.symbols["rel:electrical_mobility_from_D"] += 1
        res.symbols["mobility:z=%+d" % z] += 1
        res.outcomes["electrical_mobility_from_D|point-%s" % ("ok" if J.ok else "VIOLATED")] += 1


# =============================================================================================== anchors
ANCHORS = [
    # (relation, args, published value, rel. tolerance, source)
    ("water_density", (273.15 + 3.983035,), 999.974950, 1e-9, "Tanaka 2001: maximum density"),
    ("water_density", (273.15,), 999.8428, 2e-6, "Tanaka 2001 table, 0 C"),
    ("water_density", (277.15,), 999.9749, 2e-6, "Tanaka 2001 table, 4 C"),
    ("water_density", (293.15,), 998.2067, 2e-6, "Tanaka 2001 table, 20 C"),
    ("water_density", (298.15,), 997.0470, 2e-6, "Tanaka 2001 table, 25 C"),
    ("water_density", (313.15,), 992.2152, 2e-6, "Tanaka 2001 table, 40 C"),
    ("water_viscosity", (293.15,), 1.0020, 1e-12, "Korson 1969: eta(20 C) = 1.0020 cP by definition"),
    ("water_viscosity", (298.15,), 0.8903, 2e-4, "Korson 1969 table II, 25 C"),
    ("water_viscosity", (273.15,), 1.7916, 2e-3, "Korson 1969 / CRC, 0 C"),
    ("water_viscosity", (323.15,), 0.5468, 2e-3, "Korson 1969 / CRC, 50 C"),
    ("water_viscosity", (373.15,), 0.2818, 1.5e-2, "CRC (NBS), 100 C: beyond Korson's measurements (8-70 C), the correlation is 1 % low"),
    ("water_self_diffusion_coefficient", (298.15,), 2.299e-9, 5e-4, "Holz 2000, 25 C"),
    ("water_self_diffusion_coefficient", (273.15,), 1.099e-9, 2e-3, "Holz 2000 fit, 0 C"),
    ("water_permittivity", (298.15,), 78.38, 2e-3, "Bradley & Pitzer 1979 / CRC, 25 C 1 bar"),
    ("water_permittivity", (273.15,), 87.90, 3e-3, "Bradley & Pitzer 1979 / CRC, 0 C 1 bar"),
    ("water_permittivity", (373.15,), 55.5, 5e-3, "CRC, 100 C"),
    ("sulfuric_acid_density", (0.5, 293.15), 1395.1, 1e-3, "CRC: 50 % H2SO4 at 20 C"),
    ("sulfuric_acid_density", (0.1, 298.15), 1064.0, 1e-3, "CRC: 10 % H2SO4 at 25 C"),
    ("nernst_potential", (145.0, 15.0, 1, 310.0), 0.060605, 1e-5, "textbook: Na+ across a mammalian membrane"),
    ("nernst_potential", (4.0, 150.0, 1, 310.0), -0.0968196, 1e-5, "textbook: K+"),
    ("electrical_mobility_from_D", (9.31e-9, 1, 298.15), 3.623e-7, 1e-3, "Atkins: H+ mobility 36.23e-8 m2/(V s) from D = 9.31e-9 m2/s"),
    ("Henry", (1.2e-3, 1800.0, 298.15), 1.2e-3, 1e-15, "H(T0) = H0"),
]


def _anchor_fn(name):
    if name in WATER:
        return _water_fn(name)
    if name == "sulfuric_acid_density":
        from chempy.properties.sulfuric_acid_density_myhre_1998 import sulfuric_acid_density as f
    elif name == "nernst_potential":
        from chempy.electrochemistry.nernst import nernst_potential as f
    elif name == "electrical_mobility_from_D":
        from chempy.einstein_smoluchowski import electrical_mobility_from_D as f
    else:
        from chempy.henry import Henry

        def f(H0, Td, T):
            return Henry(H0, Td)(T)
    return f


def _state_ANCHOR(res, i, count=True):
    name, args, want, tol, src = ANCHORS[i]
    f = _anchor_fn(name)
    v, _, _ = _call(res, lambda: f(*args))
    fn = "Henry_H_at_T" if name == "Henry" else name
    key = "C19|%s|plain|anchor" % fn
    case = dict(layer="ANCHOR", i=i, k=key)
    if count:
        res.states += 1
        res.nontrivial += 1
        res.transitions += 1
        res.symbols["anchor:" + name] += 1
    try:
        m = float(v)
    except Exception:
        m = None
    if m is None or not abs(m - want) <= tol * abs(want):
        res.violation(key, "%s%r = %r, published anchor %r (%s, rel. tol %g)" % (name, args, v, want, src, tol), case, m if m is not None else repr(v), want)
        res.outcomes["%s|anchor-VIOLATED" % name] += 1
    else:
        res.outcomes["%s|anchor-ok" % name] += 1


def _state_DENSMAX(res, count=True):
    """fine scan 3.90 .. 4.10 C in 0.001 K: the density maximum lies at 3.98 C"""
    f = _water_fn("water_density")
    best = None
    for i in range(3900, 4101):
        T = 273.15 + i / 1000.0
        v, _, _ = _call(res, lambda: f(T, warn=False))
        if not _is_exc(v) and (best is None or float(v) > best[1]):
            best = (i / 1000.0, float(v))
    if count:
        res.states += 1
        res.nontrivial += 1
        res.transitions += 201
    key = "C19|water_density|plain|anchor"
    if best is None or abs(best[0] - 3.983) > 0.0011 or abs(best[1] - 999.97495) > 1e-5:
        res.violation(key, "water_density is largest at %r C (%r kg/m3) on a 0.001 K scan; published maximum 999.97495 kg/m3 at 3.983 C" % (best or (None, None)),
                      dict(layer="DENSMAX", k=key), list(best) if best else None, [3.983, 999.97495])
        res.outcomes["water_density|maximum-VIOLATED"] += 1
    else:
        res.outcomes["water_density|maximum-at-3.98C-ok"] += 1


# =============================================================================================== chunks
def _sa_ws(step):
    n = int(round(0.8 / step))
    return [round(0.1 + i * step, 4) for i in range(n + 1)]


def run_chunk(chunk, tier):
    res = Result()
    b = bounds(tier)
    kind = chunk[0]
    if kind == "ANCHOR":
        for i in range(len(ANCHORS)):
            _state_ANCHOR(res, i)
        _state_DENSMAX(res)
        res.sample(dict(layer="ANCHOR", anchors=len(ANCHORS) + 1), limit=1)
    elif kind == "W":
        _, rel, i0, i1 = chunk
        lo, hi, _ = WATER[rel]
        grid = _grid100(lo, hi, b["water_T_step_K"], b["beyond_range_K"])
        Ps = b["permittivity_P_bar"] if rel == "water_permittivity" else [None]
        f = _water_fn(rel)
        for P in Ps:
            prev = None
            for T in grid[i0:i1]:
                v0 = _state_W(res, rel, T, P)
                if prev is not None:
                    _shape(res, rel, prev[0], prev[1], T, v0, P)
                prev = (T, v0)
            if i1 < len(grid):  # the first point of the next chunk, plain value only, closes the shape relation across the cut
                Tn = grid[i1]
                vn, _, _ = _call(res, lambda: f(Tn, *(() if P is None else (P,)), warn=False))
                try:
                    vn = None if _is_exc(vn) else float(vn)
                except Exception:
                    vn = None
                _shape(res, rel, prev[0], prev[1], Tn, vn, P)
        res.sample(dict(layer="W", rel=rel, T_from=grid[i0], T_to=grid[min(len(grid), i1) - 1], pressures=Ps), limit=1)
    elif kind == "WA":
        rel = chunk[1]
        lo, hi, _ = WATER[rel]
        Ps = b["permittivity_P_bar"] if rel == "water_permittivity" else [None]
        for P in Ps:
            for Ts in ([lo + 1.0, (lo + hi) / 2], [lo + 5.0, lo + 10.0, hi - 5.0], [(lo + hi) / 2]):
                _state_WA(res, rel, Ts, P)
        res.sample(dict(layer="WA", rel=rel), limit=1)
    elif kind == "Wb":
        rel = chunk[1]
        lo, hi, _ = WATER[rel]
        Ps = b["permittivity_P_bar"] if rel == "water_permittivity" else [None]
        for P in Ps:
            for T in (lo - EPS, lo + EPS, hi - EPS, hi + EPS, lo - 1.0, hi + 1.0):
                _state_W(res, rel, T, P)
        res.sample(dict(layer="Wb", rel=rel, points=[lo - EPS, lo + EPS, hi - EPS, hi + EPS]), limit=1)
    elif kind == "SA":
        _, i0, i1 = chunk
        ws = _sa_ws(b["sa_w_step"])[i0:i1]
        Ts = _grid100(273.15, 323.15, b["sa_T_step_K"], 10) + [272.99, 323.16, 273.0, 323.0, 273.15 + EPS, 323.15 - EPS]
        for w in ws:
            for T in Ts:
                _state_SA(res, w, T)
            res.symbols["w=%r" % w] += 1
        res.sample(dict(layer="SA", w=ws, T_points=len(Ts)), limit=1)
    elif kind == "SAI":
        _, i0, i1 = chunk
        ws = _sa_ws(b["sa_inverse_w_step"])[i0:i1]
        Ts = _grid100(273.15, 323.15, b["sa_inverse_T_step_K"], 0)
        for w in ws:
            for T in Ts:
                _state_SAI(res, w, T)
        res.sample(dict(layer="SAI", w=ws, T_points=len(Ts)), limit=1)
    elif kind == "LGS":
        from mc.ref import schumpe1993 as S

        gases = sorted(S.GAS)[chunk[1]: chunk[1] + 3]
        ions = sorted(S.ION)
        cat = [k for k in ions if "+" in k]
        an = [k for k in ions if "-" in k]
        for gi, gas in enumerate(gases):
            for k in ions:
                for c in b["lgs_conc"]:
                    _state_LGS(res, gas, (k,), (c,))
            for a in cat:
                for bb in an:
                    _state_LGS(res, gas, (a, bb), (0.25, 0.5))
            # three-ion mixtures: every cation with two fixed anions
            for a in cat:
                _state_LGS(res, gas, (a, "Cl-", "SO4-2"), (0.3, 0.1, 0.1))
        res.sample(dict(layer="LGS", gases=gases, ions=len(ions)), limit=1)
    elif kind == "H":
        _, ih, itd = chunk
        for T0 in b["henry_T0"]:
            for T in _grid100(273.15, 373.15, b["henry_T_step_K"], 0):
                _state_H(res, b["henry_H"][ih], b["henry_Tderiv"][itd], T0, T)
        res.sample(dict(layer="H", H0=b["henry_H"][ih], Tderiv=b["henry_Tderiv"][itd]), limit=1)
    elif kind == "HSYM":
        _state_HSYM(res)
        res.sample(dict(layer="HSYM"), limit=1)
    elif kind == "N":
        z = b["nernst_z"][chunk[1]]
        for co in b["nernst_conc"]:
            for ci in b["nernst_conc"]:
                for T in _grid100(273.15, 323.15, b["nernst_T_step_K"], 0) + [310.0]:
                    _state_N(res, co, ci, z, T)
        res.sample(dict(layer="N", z=z, conc=b["nernst_conc"]), limit=1)
    elif kind == "M":
        D = b["mobility_D"][chunk[1]]
        for z in b["mobility_z"]:
            for T in _grid100(273.15, 373.15, b["mobility_T_step_K"], 0):
                _state_M(res, D, z, T)
        res.sample(dict(layer="M", D=D, z=b["mobility_z"]), limit=1)
    else:
        raise ValueError(chunk)
    return res


# =============================================================================================== replay
def replay(case):
    res = Result()
    layer = case["layer"]
    if layer == "WA":
        _state_WA(res, case["rel"], case["Ts"], case.get("P"))
    elif layer == "W":
        _state_W(res, case["rel"], case["T"], case.get("P"), count=False)
    elif layer == "Wshape":
        va = _state_W(res, case["rel"], case["Ta"], case.get("P"), count=False)
        vb = _state_W(res, case["rel"], case["Tb"], case.get("P"), count=False)
        _shape(res, case["rel"], case["Ta"], va, case["Tb"], vb, case.get("P"))
    elif layer == "SA":
        _state_SA(res, case["w"], case["T"], count=False)
    elif layer == "SAI":
        _state_SAI(res, case["w"], case["T"], count=False)
    elif layer == "LGS":
        _state_LGS(res, case["gas"], tuple(case["ions"]), tuple(case["cs"]), count=False)
    elif layer == "H":
        _state_H(res, case["H0"], case["Td"], case["T0"], case["T"], count=False)
    elif layer == "HSYM":
        _state_HSYM(res, count=False)
    elif layer == "N":
        _state_N(res, case["co"], case["ci"], case["z"], case["T"], count=False)
    elif layer == "M":
        _state_M(res, case["D"], case["z"], case["T"], count=False)
    elif layer == "ANCHOR":
        _state_ANCHOR(res, case["i"], count=False)
    elif layer == "DENSMAX":
        _state_DENSMAX(res, count=False)
    else:
        raise ValueError(case)
    want = case.get("k")
    vs = ([v for v in res.violations if v["key"] == want and v["case"].get("called_in") == case.get("called_in")]
          or [v for v in res.violations if v["key"] == want] or res.violations)
    if vs:
        v = vs[0]
        return dict(key=v["key"], what=v["what"], observed=v["observed"], expected=v["expected"])
    return None

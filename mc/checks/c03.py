"""C03 — mass-action rate of each substance = net stoichiometry x k x prod(c^nu), summed over the reactions (+ feed).

State space (DESIGN.md §3 C03), every state executed on the real chempy objects:
  layer R  every single reaction over the substances S with (reac, prod) coefficients in {0,1,2}^2 per substance and an
           inactive (reac, prod) part on at most one substance, x 5 kinds of rate constant x 4 kinds of variables
  layer S  every ordered list (all permutations of every subset of size <= L) of a pool of representative reactions
           x 3 ways of giving the substances x (k kind, variable kind) pairs x {no feed, feed to all, feed to one}
           x {substance_keys given, not given}; array forms (law_of_mass_action_rates/dCdt_list, *_stoichs, get_coeff_mtx)
Oracle: mc/ref/massaction.py (dict based, from the statement).  Concentrations and constants are distinct primes >= 5
(net multipliers only have the prime factors 2 and 3) so that every exponent / sign / key error changes the exact value.
"""
import itertools
from fractions import Fraction as Fr

from mc.core import Result
from mc.ref import massaction as M

META = dict(
    title="Mass-action rate of each substance is net stoichiometry times k*prod(c^nu)",
    level="model_checking",
    technique="bounded-exhaustive enumeration of reaction tuples and ordered reaction lists, each evaluated on the real "
    "Reaction/ReactionSystem objects with exact (prime-valued int/Fraction, dyadic float, symbolic) variables and compared with a "
    "dict-based mass-action reference model; permutations of one reaction set double as a differential oracle",
    rule="states = distinct reaction tuples (layer R) + distinct (ordered reaction list, substance specification) pairs (layer S); "
    "non-trivial = states whose expected rate vector is not identically zero (tuples with a net effect; all systems)",
    assumptions=[
        "sympy (expand, arithmetic), fractions and numpy are trusted",
        "coefficients > 2, more than one substance with an inactive part, pools other than the listed one and lists longer "
        "than the bound are outside the bound; rate expressions other than a plain constant (number, symbol, named) are C16's",
        "float comparisons: exact for dyadic floats combined with ints; 1e-13 relative where a Fraction meets a float",
    ],
    design_ref="DESIGN.md §3 C03",
    hashseed_sensitive=False,
)

ATOM = dict(A=5, B=7, C=11, D=13)
DEN = dict(A=17, B=19, C=23, D=29)
KPRIME = [31, 37, 41, 43, 47, 53, 59, 61, 67, 71, 73, 79, 83, 89, 97, 101, 103, 107, 109, 113, 127, 131, 179, 181]
KDEN = 251
FR_ATOM = 137
FC_ATOM = dict(A=139, B=149, C=151, D=157)
FC_DEN = dict(A=163, B=167, C=173, D=191)
KMODES = ("int", "frac", "float", "sym", "named")
VKINDS = ("int", "frac", "float", "sym")
PAIRS_QUICK = [("int", "int"), ("frac", "frac"), ("float", "float"), ("named", "int"), ("sym", "sym"), ("int", "sym"), ("sym", "int"), ("named", "sym"), ("float", "array")]
PAIRS_ALL = [(k, v) for k in KMODES for v in VKINDS]
PAIRS_THOROUGH = PAIRS_QUICK + [("named", "frac"), ("float", "sym")]
PAIRS9 = [(r, p) for r in range(3) for p in range(3)]

# pool of representative reactions: (reac, prod, inact_reac, inact_prod)
POOL3 = [
    M.rt_make({"A": 1}, {"B": 1}),
    M.rt_make({"B": 1}, {"A": 1}),  # reverse of 0
    M.rt_make({"A": 1}, {"B": 1}),  # same stoichiometry as 0, other constant
    M.rt_make({"A": 2}, {"C": 1}),
    M.rt_make({"A": 1, "B": 1}, {"C": 1}),
    M.rt_make({"C": 1}, {"A": 1, "B": 1}),
    M.rt_make({"A": 1, "B": 1}, {"B": 2}),  # autocatalysis: B on both sides
    M.rt_make({"A": 1, "C": 1}, {"B": 1, "C": 1}),  # catalyst C on both sides, net zero
    M.rt_make({"A": 2, "B": 1}, {"C": 1}, ir={"A": 1}),  # 3 A + B -> C, rate k A^2 B
    M.rt_make({"A": 1}, {"B": 1}, ip={"B": 1}),  # A -> 2 B
    M.rt_make({"B": 1}, {"C": 1}, ir={"C": 1}),  # C inactive reactant and product: net C 0
    M.rt_make({"B": 2}, {"A": 1, "C": 1}),
    M.rt_make({"C": 1}, {"A": 2}, ip={"A": 1}),  # C -> 3 A
    M.rt_make({"A": 1, "C": 2}, {"A": 2, "B": 1}, ir={"B": 1}),  # B inactive reactant and product
]
POOL4 = POOL3 + [
    M.rt_make({"D": 1}, {"A": 1}),
    M.rt_make({"A": 1, "D": 1}, {"B": 1, "C": 1}),
    M.rt_make({"C": 1}, {"D": 2}, ir={"D": 1}),
    M.rt_make({"B": 1, "D": 2}, {"D": 3}),
]


def bounds(tier):
    if tier == "quick":
        return dict(substances="ABC", coeffs=[0, 1, 2], inactive_coeffs=[0, 1], inactive_on="at most one substance", kmodes=list(KMODES), vkinds=list(VKINDS),
                    pool=len(POOL3), max_list_len=3, system_pairs=["%s/%s" % p for p in PAIRS_QUICK], feed=["off", "all", "one"], substance_specs=["None", "sorted", "unsorted"])
    return dict(substances="ABCD", coeffs=[0, 1, 2], inactive_coeffs=[0, 1, 2], inactive_on="at most one substance", kmodes=list(KMODES), vkinds=list(VKINDS),
                pool=len(POOL4), max_list_len=4, system_pairs=["%s/%s" % p for p in PAIRS_THOROUGH], feed=["off", "all", "one"], substance_specs=["None", "sorted", "unsorted"])


def _tier(tier):
    if tier == "quick":
        return dict(S="ABC", inact=[(1, 0), (0, 1), (1, 1)], pool=POOL3, L=3, pairs=PAIRS_QUICK)
    return dict(S="ABCD", inact=[(a, b) for a in range(3) for b in range(3) if (a, b) != (0, 0)], pool=POOL4, L=4, pairs=PAIRS_THOROUGH)


def chunks(tier):
    t = _tier(tier)
    out = [("R", a, b) for a in range(9) for b in range(9)]
    out.append(("S1",))
    out.append(("Z",))
    out.append(("BIG",))
    out += [("H", i) for i in range(len(POOL3))]
    n = len(t["pool"])
    out += [("S", i, j) for i in range(n) for j in range(i + 1, n)]
    return out


# ------------------------------------------------------------------------------------------------- values
def _sym(name):
    import sympy

    return sympy.Symbol(name)


def conc_of(vkind, S):
    if vkind == "int":
        return {s: ATOM[s] for s in S}
    if vkind == "frac":
        return {s: Fr(ATOM[s], DEN[s]) for s in S}
    if vkind == "float":
        return {s: ATOM[s] / 4.0 for s in S}
    if vkind == "array":  # one numpy array per substance (vectorised evaluation over two states); dyadic values
        import numpy as np

        return {s: np.array([ATOM[s] / 4.0, ATOM[s] / 2.0 + 1.0]) for s in S}
    return {s: _sym(s) for s in S}


def kval(kind, j):
    K = KPRIME[j]
    if kind == "int":
        return K
    if kind == "frac":
        return Fr(K, KDEN)
    if kind == "float":
        return K / 8.0
    return _sym("k%d" % j)


def feed_of(vkind, S):
    if vkind == "int":
        return FR_ATOM, {s: FC_ATOM[s] for s in S}
    if vkind == "frac":
        return Fr(FR_ATOM, 193), {s: Fr(FC_ATOM[s], FC_DEN[s]) for s in S}
    if vkind in ("float", "array"):
        return FR_ATOM / 16.0, {s: FC_ATOM[s] / 2.0 for s in S}
    return _sym("fr"), {s: _sym("fc_" + s) for s in S}


def kparam_and_model(kmode, vkind, j):
    """(what is handed to Reaction as param, the value the model uses, extra variables)"""
    if kmode == "named":
        v = kval("float" if vkind == "array" else vkind, j)
        return "k%d" % j, v, {"k%d" % j: v}
    v = kval(kmode, j)
    return v, v, {}


def same(got, exp):
    """exact for int/Fraction/symbolic; 1e-13 relative as soon as a float is involved"""
    import sympy
    import numpy as np

    try:
        if isinstance(got, np.ndarray) or isinstance(exp, np.ndarray):
            g, e = np.asarray(got, dtype=float), np.asarray(exp, dtype=float)
            g, e = np.broadcast_arrays(g, e) if g.shape != e.shape and (g.ndim == 0 or e.ndim == 0) else (g, e)
            return g.shape == e.shape and bool(np.all(np.abs(g - e) <= 1e-13 * np.maximum(np.abs(g), np.abs(e))))
        if isinstance(got, sympy.Basic) or isinstance(exp, sympy.Basic):
            d = sympy.expand(sympy.sympify(got) - sympy.sympify(exp))
            if d == 0:
                return True
            if not d.atoms(sympy.Float):
                return False
            syms = sorted(d.free_symbols, key=str)
            sub = dict(zip(syms, [sympy.Integer(p) for p in KPRIME]))
            g, e = float(sympy.sympify(got).subs(sub)), float(sympy.sympify(exp).subs(sub))
            return abs(g - e) <= 1e-13 * max(abs(g), abs(e))
        import numbers

        if isinstance(got, numbers.Integral) and not isinstance(got, bool):
            got = int(got)  # numpy integer scalars denote the same exact value
        if isinstance(got, (float, numbers.Real)) and not isinstance(got, (int, Fr)) or isinstance(exp, float):
            g, e = float(got), float(exp)
            return abs(g - e) <= 1e-13 * max(abs(g), abs(e))
        if isinstance(got, bool) or not isinstance(got, (int, Fr)):
            return False
        return got == exp
    except Exception:
        return False


def _is_zero(x):
    return same(x, 0) or same(x, 0.0)


def _show(d):
    if isinstance(d, dict):
        return {str(k): str(v) for k, v in sorted(d.items(), key=lambda kv: str(kv[0]))}
    if isinstance(d, (list, tuple)):
        return [str(v) for v in d]
    return str(d)


def _cmp_rates(res, got, exp, skeys_given, fed, key, what, case):
    """compare a rates dict with the model.  skeys_given: key sets must coincide.  Otherwise every returned key must be
    right and every substance with a non-zero expectation (or a feed term) must be present."""
    res.evaluations += 1
    if isinstance(got, str):
        res.violation(key + "|raises", "%s raised %s" % (what, got), dict(case, expect_key=key + "|raises"), got, _show(exp))
        return False
    if not isinstance(got, dict):
        res.violation(key + "|not-a-dict", "%s returned %r" % (what, got), dict(case, expect_key=key + "|not-a-dict"), repr(got), _show(exp))
        return False
    bad = None
    for s, v in got.items():
        if s not in exp:
            if skeys_given or not _is_zero(v):
                bad = "unexpected key %r" % (s,)
        elif not same(v, exp[s]):
            bad = "value for %r is %s, model %s" % (s, v, exp[s])
    for s, v in exp.items():
        if s not in got and (skeys_given or s in fed or not _is_zero(v)):
            bad = "substance %r missing (model %s)" % (s, v)
    if bad:
        res.violation(key + "|value", "%s: %s" % (what, bad), dict(case, expect_key=key + "|value"), _show(got), _show(exp))
        return False
    return True


# ------------------------------------------------------------------------------------------------- layer R
def _check_reaction(res, rt, S, modes=None, stoich=True):
    from chempy import Reaction

    reac, prod, ir, ip = M.rt_dicts(rt)
    keys = list(S)
    eff = M.has_effect(rt)
    jrt = [list(map(list, p)) for p in rt]
    done_stoich = False
    for kmode in KMODES:
        for vkind in VKINDS:
            if modes and (kmode, vkind) not in modes:
                continue
            case = dict(layer="R", rt=jrt, S=S, kmode=kmode, vkind=vkind)
            kparam, kmodel, extra = kparam_and_model(kmode, vkind, 0)
            res.transitions += 1
            res.evaluations += 1
            try:
                r = Reaction(dict(reac), dict(prod), kparam, inact_reac=dict(ir) or None, inact_prod=dict(ip) or None)
            except Exception as e:
                obs = "EXC %s" % type(e).__name__
                if eff:
                    k = "C03|Reaction.__init__|rejects a reaction with a net effect"
                    res.violation(k, "Reaction(%r, %r, inact_reac=%r, inact_prod=%r) raised %s: %s" % (reac, prod, ir, ip, type(e).__name__, e), dict(case, expect_key=k), obs, "a Reaction")
                    res.outcomes["net-effect:REJECTED"] += 1
                else:
                    res.outcomes["no-net-effect:rejected %s" % type(e).__name__] += 1
                continue
            if not eff:
                res.outcomes["no-net-effect:accepted"] += 1
            if stoich and not done_stoich:
                done_stoich = True
                for name, exp in M.stoich_rows(rt, keys).items():
                    res.evaluations += 1
                    try:
                        got = tuple(getattr(r, name)(keys))
                    except Exception as e:
                        got = "EXC %s" % type(e).__name__
                    if got != exp:
                        k = "C03|Reaction.%s|wrong row" % name
                        res.violation(k, "Reaction(%r, %r, inact_reac=%r, inact_prod=%r).%s(%r) = %r, model %r" % (reac, prod, ir, ip, name, keys, got, exp),
                                      dict(case, expect_key=k), got, exp)
            conc = conc_of(vkind, S)
            variables = dict(conc, **extra)
            exp = M.reaction_contrib(rt, kmodel, conc, keys)
            ok = True
            for given in (True, False):
                try:
                    got = r.rate(dict(variables), substance_keys=list(keys)) if given else r.rate(dict(variables))
                except Exception as e:
                    got = "EXC %s: %s" % (type(e).__name__, e)
                key = "C03|Reaction.rate|substance_keys=%s|k=%s" % ("given" if given else "None", kmode)
                what = "Reaction(%r, %r, %r, inact_reac=%r, inact_prod=%r).rate(%s%s)" % (reac, prod, kparam, ir, ip, _show(variables), ", substance_keys=%r" % keys if given else "")
                ok &= _cmp_rates(res, got, exp, given, (), key, what, case)
            # only what the rate needs is supplied: the concentrations of the ACTIVE reactants (and a named constant);
            # species that are products or inactive-only need no entry
            need = {s: conc[s] for s in reac}
            need.update(extra)
            try:
                got = r.rate(dict(need))
            except Exception as e:
                got = "EXC %s: %s" % (type(e).__name__, e)
            key = "C03|Reaction.rate|variables=active-reactants-only|k=%s" % kmode
            what = "Reaction(%r, %r, %r, inact_reac=%r, inact_prod=%r).rate(%s)" % (reac, prod, kparam, ir, ip, _show(need))
            ok &= _cmp_rates(res, got, exp, False, (), key, what, case)
            if eff:
                order = sum(reac.values())
                cat = any(s in prod or s in ip for s in list(reac) + list(ir))
                res.outcomes["%s order=%d inactive=%s both-sides=%s" % ("ok" if ok else "WRONG", order, "y" if (ir or ip) else "n", "y" if cat else "n")] += 1
            res.symbols["k:" + kmode] += 1
            res.symbols["c:" + vkind] += 1


def _run_R(res, chunk, tier):
    t = _tier(tier)
    S = t["S"]
    first = (PAIRS9[chunk[1]], PAIRS9[chunk[2]])
    for rest in itertools.product(PAIRS9, repeat=len(S) - 2):
        ap = first + rest
        reac = {s: ap[i][0] for i, s in enumerate(S)}
        prod = {s: ap[i][1] for i, s in enumerate(S)}
        options = [(None, (0, 0))] + [(w, ia) for w in range(len(S)) for ia in t["inact"]]
        for who, ia in options:
            ir = {S[who]: ia[0]} if who is not None else {}
            ip = {S[who]: ia[1]} if who is not None else {}
            rt = M.rt_make(reac, prod, ir, ip)
            res.states += 1
            if M.has_effect(rt):
                res.nontrivial += 1
            _check_reaction(res, rt, S)
            for i, s in enumerate(S):
                res.symbols["%s:r%dp%d" % (s, ap[i][0], ap[i][1])] += 1
            res.symbols["inactive:%s" % ("none" if who is None else "%s r%dp%d" % (S[who], ia[0], ia[1]))] += 1
            if res.states % 331 == 1:
                res.sample(dict(layer="R", reac=reac, prod=prod, inact_reac=ir, inact_prod=ip, net=M.net(rt, S)), limit=2)


# ------------------------------------------------------------------------------------------------- layer S
SPECS = ("None", "sorted", "unsorted")


def _substances(spec, S, used):
    if spec == "None":
        return None, sorted(used)
    if spec == "sorted":
        return list(S), list(S)
    rot = list(S[-1] + S[:-1])  # e.g. C A B: explicit list, not sorted
    return rot, rot


def _check_system(res, idxs, rts, S, pairs, specs=SPECS, only=None):
    """idxs: pool indices (-> rate-constant atoms), rts: the reaction tuples in list order"""
    from chempy import Reaction, ReactionSystem
    from chempy.kinetics.ode import law_of_mass_action_rates, dCdt_list
    from chempy.util.stoich import get_coeff_mtx

    used = set(k for rt in rts for k in M.rt_keys(rt))
    jr = [[list(map(list, p)) for p in rt] for rt in rts]
    ref_int = None
    for spec in specs:
        arg, order = _substances(spec, S, used)
        did_matrices = False
        for kmode, vkind in pairs:
            if only and (spec, kmode, vkind) != only[:3]:
                continue
            mode = "k=%s,c=%s" % (kmode, vkind)
            case = dict(layer="S", idxs=list(idxs), rts=jr, S=S, spec=spec, kmode=kmode, vkind=vkind)
            conc = conc_of(vkind, S)
            variables = dict(conc)
            rxns, kmodel = [], []
            for j, rt in zip(idxs, rts):
                kp, km, extra = kparam_and_model(kmode, vkind, j)
                variables.update(extra)
                reac, prod, ir, ip = M.rt_dicts(rt)
                rxns.append(Reaction(reac, prod, kp, inact_reac=ir or None, inact_prod=ip or None))
                kmodel.append(km)
            res.transitions += 1
            try:
                rsys = ReactionSystem(rxns, arg) if arg is not None else ReactionSystem(rxns)
            except Exception as e:
                k = "C03|ReactionSystem.__init__|rejects the system"
                res.violation(k, "ReactionSystem(%d reactions, %r) raised %s: %s" % (len(rxns), arg, type(e).__name__, e), dict(case, expect_key=k), "EXC %s" % type(e).__name__, "a ReactionSystem")
                continue
            got_order = list(rsys.substances.keys())
            if got_order != order:
                k = "C03|ReactionSystem.substances|order"
                res.violation(k, "substances given as %r -> %r, expected %r" % (arg, got_order, order), dict(case, expect_key=k), got_order, order)
                continue
            F, cf = feed_of(vkind, S)
            fvars = dict(variables, fr=F, **{"fc_" + s: cf[s] for s in S})
            ok = True
            for feed in ("off", "all", "one", "rev", "last"):
                # "rev": the feed mapping written in the reverse of the substance order; "last": only the last substance fed
                fed = {"off": [], "all": list(order), "one": [order[0]], "rev": list(order)[::-1], "last": [order[-1]]}[feed]
                exp_all = M.system_rates(rts, kmodel, conc, order, (F, {s: cf[s] for s in fed}) if fed else None)
                for given in (True, False):
                    kw = {}
                    if fed:
                        kw["cstr_fr_fc"] = ("fr", dict((s, "fc_" + s) for s in fed))
                    if given:
                        kw["substance_keys"] = list(order)
                    try:
                        got = rsys.rates(dict(fvars if fed else variables), **kw)
                    except Exception as e:
                        got = "EXC %s: %s" % (type(e).__name__, e)
                    if vkind == "array":
                        fresh = conc_of(vkind, S)
                        changed = [s_ for s_ in S if not (conc[s_] == fresh[s_]).all()]
                        if changed:
                            k = "C03|ReactionSystem.rates|callers-arrays-modified"
                            res.violation(k, "ReactionSystem(...).rates(array-valued concentrations): the caller's array(s) for %r now hold %r" % (changed, [conc[s_].tolist() for s_ in changed]),
                                          dict(case, feed=feed, given=given, expect_key=k), [conc[s_].tolist() for s_ in changed], [fresh[s_].tolist() for s_ in changed])
                            for s_ in changed:
                                conc[s_][...] = fresh[s_]
                    key = "C03|ReactionSystem.rates|feed=%s|substance_keys=%s|k=%s" % (feed, "given" if given else "None", kmode)
                    if isinstance(got, str) and got.startswith("EXC KeyError") and fed and not given and any(s not in used for s in fed):
                        # a fed substance that occurs in no reaction: its rate is F*(c_feed - c), chempy has no entry to add it to
                        key = "C03|ReactionSystem.rates|feed|substance_keys=None|fed substance occurring in no reaction"
                    what = "ReactionSystem(%s; substances=%r).rates(%s%s%s)" % (
                        " ; ".join(_rt_str(rt, kp) for rt, kp in zip(rts, [r.param for r in rxns])), arg, _show(fvars if fed else variables),
                        ", cstr_fr_fc=%r" % (kw.get("cstr_fr_fc"),) if fed else "", ", substance_keys=%r" % order if given else "")
                    good = _cmp_rates(res, got, exp_all, given, fed, key, what, dict(case, feed=feed, given=given))
                    ok &= good
                    if good and (kmode, vkind, feed, given) == ("int", "int", "off", True):
                        ref_int = got
            # array forms
            if kmode != "named":
                res.evaluations += 1
                try:
                    rr = list(law_of_mass_action_rates([conc[s] for s in order], rsys))
                    got = list(dCdt_list(rsys, rr))
                except Exception as e:
                    rr, got = None, "EXC %s: %s" % (type(e).__name__, e)
                exp_r = M.per_reaction_rates(rts, kmodel, conc)
                exp_f = M.system_rates(rts, kmodel, conc, order)
                if isinstance(got, str) or len(rr) != len(exp_r) or not all(same(a, b) for a, b in zip(rr, exp_r)):
                    k = "C03|law_of_mass_action_rates|k=%s|per-reaction rate" % kmode
                    res.violation(k, "law_of_mass_action_rates(%s, rsys[%s]) = %s, model %s" % (_show([conc[s] for s in order]), " ; ".join(_rt_str(rt, km) for rt, km in zip(rts, kmodel)), _show(rr) if rr is not None else got, _show(exp_r)),
                                  dict(case, expect_key=k), _show(rr) if rr is not None else got, _show(exp_r))
                    ok = False
                elif len(got) != len(order) or not all(same(a, exp_f[s]) for a, s in zip(got, order)):
                    k = "C03|dCdt_list|k=%s|per-substance derivative" % kmode
                    res.violation(k, "dCdt_list(rsys[%s], rates) = %s, model %s (substance order %r)" % (" ; ".join(_rt_str(rt, km) for rt, km in zip(rts, kmodel)), _show(got), _show([exp_f[s] for s in order]), order),
                                  dict(case, expect_key=k), _show(got), _show([exp_f[s] for s in order]))
                    ok = False
            if not did_matrices:
                did_matrices = True
                rows = [M.stoich_rows(rt, order) for rt in rts]
                for name in ("net_stoich", "all_reac_stoich", "active_reac_stoich", "all_prod_stoich", "active_prod_stoich"):
                    res.evaluations += 1
                    exp = [list(r[name]) for r in rows]
                    try:
                        got = [[int(x) for x in row] for row in getattr(rsys, name + "s")()]
                    except Exception as e:
                        got = "EXC %s" % type(e).__name__
                    if got != exp:
                        k = "C03|ReactionSystem.%ss|wrong matrix" % name
                        res.violation(k, "rsys[%s].%ss() = %r, model %r (columns %r)" % (" ; ".join(_rt_str(rt, "k") for rt in rts), name, got, exp, order), dict(case, expect_key=k), got, exp)
                        ok = False
                res.evaluations += 1
                exp = [[dict(rt[1]).get(s, 0) - dict(rt[0]).get(s, 0) for rt in rts] for s in order]
                try:
                    got = [[int(x) for x in row] for row in get_coeff_mtx(list(order), [(r.reac, r.prod) for r in rxns])]
                except Exception as e:
                    got = "EXC %s" % type(e).__name__
                if got != exp:
                    k = "C03|get_coeff_mtx|wrong matrix"
                    res.violation(k, "get_coeff_mtx(%r, %r) = %r, model %r" % (order, [(dict(r.reac), dict(r.prod)) for r in rxns], got, exp), dict(case, expect_key=k), got, exp)
                    ok = False
            res.outcomes["%s system n=%d spec=%s %s" % ("ok" if ok else "WRONG", len(rts), spec, mode)] += 1
            res.symbols["k:" + kmode] += 1
            res.symbols["c:" + vkind] += 1
    return ref_int


def _rt_str(rt, k):
    reac, prod, ir, ip = M.rt_dicts(rt)

    def side(act, inact):
        parts = ["%s%s" % ("%d " % v if v != 1 else "", s) for s, v in sorted(act.items())]
        parts += ["(%s%s)" % ("%d " % v if v != 1 else "", s) for s, v in sorted(inact.items())]
        return " + ".join(parts)

    return "%s -> %s; %s" % (side(reac, ir), side(prod, ip), k)


def _run_combo(res, combo, t):
    pool, S = t["pool"], t["S"]
    first = None
    for perm in itertools.permutations(combo):
        rts = [pool[i] for i in perm]
        res.states += len(SPECS)
        res.nontrivial += len(SPECS)
        ref = _check_system(res, perm, rts, S, t["pairs"])
        for i in perm:
            res.symbols["pool:%02d" % i] += 1
        if first is None:
            first = (perm, ref)
        else:
            res.dedup_hits += 1
            res.evaluations += 1
            res.extra["permutations_compared"] = res.extra.get("permutations_compared", 0) + 1
            if ref is not None and first[1] is not None and ref != first[1]:
                k = "C03|ReactionSystem.rates|depends on the order of the reactions in the list"
                res.violation(k, "rates for reaction order %r = %r but for order %r = %r" % (perm, ref, first[0], first[1]),
                              dict(layer="S", idxs=list(perm), rts=[[list(map(list, p)) for p in rt] for rt in rts], S=S, spec="sorted", kmode="int", vkind="int", expect_key=k, first=list(first[0])), _show(ref), _show(first[1]))
    if res.states % 7 == 0:
        res.sample(dict(layer="S", reactions=[_rt_str(pool[i], KPRIME[i]) for i in combo], permutations=len(list(itertools.permutations(combo)))), limit=2)


# ------------------------------------------------------------------------------------------------- histories
HIST_K = [7, Fr(11, 3), "kx", 13]  # successive values assigned to rxn.param ("kx": a named constant looked up in the variables)


def _check_history(res, i, seq):
    """assign the parameters of `seq` to one live Reaction object in turn (evaluating before, between and after):
    every evaluation must use the CURRENT rate constant — of the reaction alone and inside a two-reaction system"""
    from chempy import Reaction, ReactionSystem

    S = "ABC"
    rt = POOL3[i]
    other = POOL3[(i + 1) % len(POOL3)]
    reac, prod, ir, ip = M.rt_dicts(rt)
    o = M.rt_dicts(other)
    conc = {s: ATOM[s] for s in S}
    var = dict(conc, kx=Fr(5, 7))
    res.states += 1
    res.transitions += len(seq)
    res.nontrivial += 1
    case = dict(layer="H", i=i, seq=list(seq))
    try:
        rxn = Reaction(reac, prod, 3, inact_reac=ir, inact_prod=ip)
        rs = ReactionSystem([rxn, Reaction(o[0], o[1], 17, inact_reac=o[2], inact_prod=o[3])], S)
    except Exception as e:
        res.outcomes["history-construct-raises"] += 1
        return
    kcur = 3
    for step, ki in enumerate((None,) + tuple(seq)):
        if ki is not None:
            rxn.param = HIST_K[ki]
            kcur = HIST_K[ki]
        kval_ = var["kx"] if kcur == "kx" else kcur
        res.evaluations += 2
        exp1 = M.reaction_contrib(rt, kval_, conc, M.rt_keys(rt))
        exp2 = M.system_rates([rt, other], [kval_, 17], conc, list(S))
        try:
            got1 = rxn.rate(var)
            got2 = rs.rates(var)
        except Exception as e:
            got1 = got2 = "EXC %s" % type(e).__name__
        ok = isinstance(got1, dict) and all(got1.get(s, 0) == v for s, v in exp1.items()) and isinstance(got2, dict) and all(got2.get(s, 0) == v for s, v in exp2.items())
        res.outcomes["history-ok" if ok else "history-STALE"] += 1
        if not ok:
            res.violation("C03|history|param-reassigned|rate-uses-stale-constant", "%s with param assigned %r (step %d of %r): rate %r / system rates %r, model %r / %r" % (
                _rt_str(rt, "k"), kcur, step, [HIST_K[j] for j in seq], _show(got1) if isinstance(got1, dict) else got1, _show(got2) if isinstance(got2, dict) else got2, _show(exp1), _show(exp2)), case, str(got1), str(exp1))
            return


def _check_reorder(res, i):
    """the array forms (law_of_mass_action_rates -> dCdt_list) before and after the substances of the SAME system object
    are re-ordered in place: concentrations and derivatives follow the current substance order"""
    from collections import OrderedDict
    from chempy import Reaction, ReactionSystem, Substance
    from chempy.kinetics.ode import law_of_mass_action_rates, dCdt_list

    rts = [POOL3[i], POOL3[(i + 1) % len(POOL3)]]
    ks = [7, 17]
    conc = {s: ATOM[s] for s in "ABC"}
    case = dict(layer="H", i=i, seq=["reorder"])
    res.states += 1
    res.transitions += 3
    res.nontrivial += 1
    try:
        rxns = []
        for rt, k in zip(rts, ks):
            reac, prod, ir, ip = M.rt_dicts(rt)
            rxns.append(Reaction(reac, prod, k, inact_reac=ir, inact_prod=ip))
        rs = ReactionSystem(rxns, OrderedDict((s, Substance(s)) for s in "CAB"))
    except Exception:
        res.outcomes["reorder-construct-raises"] += 1
        return
    for step, action in enumerate((None, "sort", "reverse", "sort")):
        if action == "sort":
            rs.sort_substances_inplace()
        elif action == "reverse":
            rs.sort_substances_inplace(key=lambda kv: -ord(kv[0]))
        order = list(rs.substances)
        exp = M.system_rates(rts, ks, conc, order)
        res.evaluations += 1
        try:
            got = list(dCdt_list(rs, list(law_of_mass_action_rates([conc[s] for s in order], rs))))
        except Exception as e:
            got = "EXC %s" % type(e).__name__
        ok = isinstance(got, list) and [int(g) for g in got] == [exp[s] for s in order]
        res.outcomes["reorder-ok" if ok else "reorder-STALE"] += 1
        if not ok:
            res.violation("C03|history|substances-reordered-in-place|array-rates-use-stale-order", "%s ; %s with substances %s (step %d): dCdt_list(law_of_mass_action_rates) = %r, model %r" % (
                _rt_str(rts[0], "7"), _rt_str(rts[1], "17"), "".join(order), step, got, [exp[s] for s in order]), case, str(got), str([exp[s] for s in order]))
            return


def run_chunk(chunk, tier):
    res = Result()
    t = _tier(tier)
    if chunk[0] == "H":
        _check_reorder(res, chunk[1])
        for n in (1, 2, 3):
            for seq in itertools.product(range(len(HIST_K)), repeat=n):
                if all(a != b for a, b in zip(seq, seq[1:])):
                    _check_history(res, chunk[1], seq)
        res.sample(dict(layer="H", reaction=_rt_str(POOL3[chunk[1]], "k"), params=[str(x) for x in HIST_K]))
    elif chunk[0] == "R":
        _run_R(res, chunk, tier)
    elif chunk[0] == "BIG":
        for variant in (0, 1):
            for kmode, vkind in (("int", "int"), ("int", "frac"), ("float", "float")):
                _check_big(res, variant, kmode, vkind)
        res.sample(dict(layer="BIG", substances=len(BIG_S), reactions=[len(_big_system(v)) for v in (0, 1)]))
    elif chunk[0] == "Z":
        for za in range(len(ZORD)):
            for zb in range(len(ZORD)):
                for kmode, vkind in (("float", "float"), ("sym", "sym"), ("named", "float"), ("int", "sym")):
                    _check_orders(res, za, zb, kmode, vkind)
        for vi in range(len(ND_VALUES)):
            for order in (1, 2):
                _check_named_default(res, vi, order)
        res.sample(dict(layer="Z", orders=[str(z) for z in ZORD], example="A + 0 B -> C and 1/2 B -> C: c**0 == 1, c**(1/2)"))
    elif chunk[0] == "S1":
        for i in range(len(t["pool"])):
            _run_combo(res, (i,), t)
    elif chunk[0] == "S":
        _, i, j = chunk
        n = len(t["pool"])
        _run_combo(res, (i, j), t)
        for size in range(3, t["L"] + 1):
            for rest in itertools.combinations(range(j + 1, n), size - 2):
                _run_combo(res, (i, j) + rest, t)
    else:
        raise ValueError(chunk)
    return res


# ------------------------------------------------------------------------------------------------- layer BIG
BIG_S = "ABCDEFGHIJKLM"


def _big_system(variant):
    """13 substances, 16-20 reactions: a hub substance (A) taking part in 11-17 of them, autocatalytic steps (a species on both
    sides with a non-zero net), inactive parts doubling an active species, a species produced by many reactions"""
    rts = []
    others = BIG_S[1:]
    for i, x in enumerate(others[:-1]):  # A + X_i -> X_{i+1}  (A in every one of them)
        rts.append(M.rt_make({"A": 1, x: 1}, {others[i + 1]: 1}))
    rts.append(M.rt_make({"B": 1, "C": 1}, {"B": 2}))  # autocatalysis
    rts.append(M.rt_make({"A": 2, "D": 1}, {"E": 1}, ir={"A": 3}))  # 5 A + D -> E, rate k A^2 D
    rts.append(M.rt_make({"M": 1}, {"A": 2}, ip={"A": 1}))  # M -> 3 A
    rts.append(M.rt_make({"F": 1}, {"G": 1, "A": 1}))
    rts.append(M.rt_make({"A": 1, "H": 2}, {"A": 2, "I": 1}))  # A on both sides, net +1
    if variant:
        rts = rts[::-1] + [M.rt_make({"L": 1}, {"A": 1}), M.rt_make({"K": 1, "A": 1}, {"J": 2}), M.rt_make({"A": 1}, {"M": 1})]
    return rts


def _check_big(res, variant, kmode, vkind):
    from chempy import Reaction, ReactionSystem
    from chempy.kinetics.ode import law_of_mass_action_rates, dCdt_list

    rts = _big_system(variant)
    S = BIG_S
    primes = [101, 103, 107, 109, 113, 127, 131, 137, 139, 149, 151, 157, 163]
    conc = {s_: (primes[i] if vkind == "int" else (Fr(primes[i], 7) if vkind == "frac" else primes[i] / 4.0)) for i, s_ in enumerate(S)}
    case = dict(layer="BIG", variant=variant, kmode=kmode, vkind=vkind)
    res.states += 1
    res.transitions += len(rts)
    res.nontrivial += 1
    rxns, ks = [], []
    for j, rt in enumerate(rts):
        k = KPRIME[j % len(KPRIME)] + (2 if j >= len(KPRIME) else 0)
        k = k if kmode == "int" else k / 8.0
        reac, prod, ir, ip = M.rt_dicts(rt)
        rxns.append(Reaction(reac, prod, k, inact_reac=ir or None, inact_prod=ip or None))
        ks.append(k)
    for order in (list(S), list(S)[::-1]):
        res.evaluations += 2
        exp = M.system_rates(rts, ks, conc, order)
        try:
            rsys = ReactionSystem(rxns, order)
            got = rsys.rates(dict(conc))
        except Exception as e:
            got = "EXC %s: %s" % (type(e).__name__, e)
        key = "C03|ReactionSystem.rates|large-system|k=%s" % kmode
        ok = _cmp_rates(res, got, exp, False, (), key, "ReactionSystem(%d reactions over %d substances, A in %d of them).rates(...)" % (len(rts), len(S), sum(1 for rt in rts if "A" in M.rt_keys(rt))), case)
        try:
            arr = list(dCdt_list(rsys, list(law_of_mass_action_rates([conc[s_] for s_ in order], rsys))))
        except Exception as e:
            arr = "EXC %s: %s" % (type(e).__name__, e)
        if isinstance(arr, str) or len(arr) != len(order) or not all(same(a, exp[s_]) for a, s_ in zip(arr, order)):
            ok = False
            k2 = "C03|dCdt_list|large-system|k=%s" % kmode
            res.violation(k2, "dCdt_list(law_of_mass_action_rates) on the %d x %d system (order %s): %s, model %s" % (len(rts), len(S), "".join(order), _show(arr), _show([exp[s_] for s_ in order])),
                          dict(case, expect_key=k2), _show(arr), _show([exp[s_] for s_ in order]))
        res.outcomes["%s large system variant %d %s/%s" % ("ok" if ok else "WRONG", variant, kmode, vkind)] += 1


# ------------------------------------------------------------------------------------------------- layer Z
# active orders at and below one: an explicit coefficient 0 (c**0 == 1: the substance takes no part), 1/2, 3/2 next to 1, 2
ZORD = [0, Fr(1, 2), 1, Fr(3, 2), 2]
ZCONC = dict(A=4.0, B=9.0, C=25.0)  # perfect squares: every half-integer power is an exact float


def _check_orders(res, za, zb, kmode, vkind):
    """Reaction({A: a, B: b} -> C) for every pair of orders in ZORD: Reaction.rate and a one-reaction ReactionSystem.rates"""
    import sympy
    from chempy import Reaction, ReactionSystem

    a, b = ZORD[za], ZORD[zb]
    res.states += 1
    res.transitions += 1
    if a == 0 and b == 0:
        return
    res.nontrivial += 1
    S = "ABC"
    conc = dict(ZCONC) if vkind == "float" else {s: _sym(s) for s in S}
    kparam, kmodel, extra = kparam_and_model(kmode, vkind, 3)
    variables = dict(conc, **extra)
    r = kmodel
    for s_, nu in (("A", a), ("B", b)):
        if nu != 0:
            r = r * (conc[s_] ** (float(nu) if vkind == "float" else sympy.Rational(nu.numerator, nu.denominator) if isinstance(nu, Fr) else nu))
    exp = {"A": -a * r, "B": -b * r, "C": r}
    exp = {k: (v if not isinstance(v, Fr) else float(v)) for k, v in exp.items()}
    case = dict(layer="Z", za=za, zb=zb, kmode=kmode, vkind=vkind)
    for form in ("float", "Fraction"):
        co = {"A": a, "B": b}
        co = {k: (float(v) if form == "float" and isinstance(v, Fr) else v) for k, v in co.items()}
        if form == "Fraction" and not any(isinstance(v, Fr) for v in co.values()):
            continue
        try:
            rxn = Reaction(dict(co), {"C": 1}, kparam, checks=[c for c in Reaction.default_checks if c != "all_integral"])
            got = rxn.rate(dict(variables))
            got2 = ReactionSystem([rxn], S, checks=()).rates(dict(variables))
        except Exception as e:
            got = got2 = "EXC %s: %s" % (type(e).__name__, e)
        if vkind == "float" and kmode != "named" and not isinstance(got, str):
            # the array route on the same system: net stoichiometry row and dCdt_list(law_of_mass_action_rates)
            from chempy.kinetics.ode import law_of_mass_action_rates, dCdt_list

            res.evaluations += 1
            try:
                rs_ = ReactionSystem([rxn], S, checks=())
                row = [float(x) for x in rs_.net_stoichs()[0]]
                arr = [float(x) for x in dCdt_list(rs_, list(law_of_mass_action_rates([conc[s_] for s_ in S], rs_, variables=dict(variables))))]
            except Exception as e:
                row, arr = "EXC %s: %s" % (type(e).__name__, e), None
            want_row = [-float(a), -float(b), 1.0]
            good = row == want_row and arr is not None and all(_zsame(x, exp[s_]) for x, s_ in zip(arr, S))
            res.outcomes["%s orders (%s, %s) array route" % ("ok" if good else "WRONG", a, b)] += 1
            if not good:
                k = "C03|net_stoichs/dCdt_list|order<=1|k=%s" % kmode
                res.violation(k, "ReactionSystem([Reaction(%r, {'C': 1}, %r)]): net_stoichs row %r (written %r), dCdt_list %r (model %s)" % (co, kparam, row, want_row, arr, _show(exp)),
                              dict(case, expect_key=k), [row, arr], [want_row, _show(exp)])
        for api, g in (("Reaction.rate", got), ("ReactionSystem.rates", got2)):
            res.evaluations += 1
            ok = isinstance(g, dict) and all(_zsame(g.get(k_, 0), v) for k_, v in exp.items()) and all(k_ in exp for k_ in g)
            res.outcomes["%s orders (%s, %s) %s" % ("ok" if ok else "WRONG", a, b, api)] += 1
            if not ok:
                k = "C03|%s|order<=1|k=%s" % (api, kmode)
                res.violation(k, "Reaction(%r, {'C': 1}, %r) %s(%s) = %s, model %s (rate = k*A**%s*B**%s)" % (co, kparam, api, _show(variables), _show(g), _show(exp), a, b),
                              dict(case, expect_key=k), _show(g), _show(exp))


ND_VALUES = ["absent", 0, 0.0, Fr(0), 3, Fr(5, 2), "sym"]


def _check_named_default(res, vi, order):
    """a rate constant that carries a stored value AND a name (MassAction([7], unique_keys=['k1'])): the value bound to the name in the
    variables is the constant used - whatever it is, also zero - and the stored value is used only when the name is left unbound"""
    import sympy
    from chempy import Reaction, ReactionSystem
    from chempy.kinetics.rates import MassAction

    v = ND_VALUES[vi]
    val = 7 if v == "absent" else (sympy.Symbol("kbound") if v == "sym" else v)
    a = 2 if order == 1 else 3
    reac = {"A": 1} if order == 1 else {"A": 2}
    variables = {"A": a, "B": 5}
    if v != "absent":
        variables["k1"] = val
    r = val * (a if order == 1 else a * a)
    exp = {"A": -order * r, "B": r}
    case = dict(layer="ND", vi=vi, order=order)
    res.states += 1
    res.transitions += 2
    res.nontrivial += 1
    for api in ("Reaction.rate", "ReactionSystem.rates"):
        res.evaluations += 1
        try:
            rxn = Reaction(dict(reac), {"B": 1}, MassAction([7], unique_keys=["k1"]))
            g = rxn.rate(dict(variables)) if api == "Reaction.rate" else ReactionSystem([rxn], "AB", checks=()).rates(dict(variables))
        except Exception as e:
            g = "EXC %s: %s" % (type(e).__name__, e)
        ok = isinstance(g, dict) and all(_zsame(g.get(k_, 0), x) for k_, x in exp.items())
        res.outcomes["%s named constant with a stored value, bound to %s" % ("ok" if ok else "WRONG", "nothing" if v == "absent" else ("zero" if v in (0, 0.0, Fr(0)) and not isinstance(v, str) else "a value"))] += 1
        if not ok:
            k = "C03|%s|named-constant-with-stored-value|bound-to-%s" % (api, "nothing" if v == "absent" else ("zero" if not isinstance(v, str) and v == 0 else "a-value"))
            res.violation(k, "Reaction(%r -> B, MassAction([7], unique_keys=['k1'])): %s(%s) = %s, model %s" % (reac, api, _show(variables), _show(g), _show(exp)), dict(case, expect_key=k), _show(g), _show(exp))


def _zsame(got, exp):
    import sympy
    import numpy as np

    try:
        if isinstance(got, np.ndarray) or isinstance(exp, np.ndarray):
            g, e = np.asarray(got, dtype=float), np.asarray(exp, dtype=float)
            g, e = np.broadcast_arrays(g, e) if g.shape != e.shape and (g.ndim == 0 or e.ndim == 0) else (g, e)
            return g.shape == e.shape and bool(np.all(np.abs(g - e) <= 1e-13 * np.maximum(np.abs(g), np.abs(e))))
        if isinstance(got, sympy.Basic) or isinstance(exp, sympy.Basic):
            d = sympy.simplify(sympy.nsimplify(sympy.sympify(got) - sympy.sympify(exp), rational=True))
            if d == 0:
                return True
            sub = {sym: 4 ** (i + 1) for i, sym in enumerate(sorted(d.free_symbols, key=str))}
            return abs(float(d.subs(sub))) <= 1e-9 * (1 + abs(float(sympy.sympify(exp).subs(sub))))
        return abs(float(got) - float(exp)) <= 1e-12 * max(abs(float(got)), abs(float(exp)), 1e-300)
    except Exception:
        return False


# ------------------------------------------------------------------------------------------------- replay
def replay(case):
    res = Result()
    if case["layer"] == "BIG":
        _check_big(res, case["variant"], case["kmode"], case["vkind"])
        for v in res.violations:
            if v["key"] == case.get("expect_key") or not case.get("expect_key"):
                return dict(key=v["key"], what=v["what"], observed=v["observed"], expected=v["expected"])
        return dict(key=res.violations[0]["key"], what=res.violations[0]["what"], observed=res.violations[0]["observed"], expected=res.violations[0]["expected"]) if res.violations else None
    if case["layer"] == "ND":
        _check_named_default(res, case["vi"], case["order"])
        for v in res.violations:
            if v["key"] == case.get("expect_key"):
                return dict(key=v["key"], what=v["what"], observed=v["observed"], expected=v["expected"])
        return None
    if case["layer"] == "Z":
        _check_orders(res, case["za"], case["zb"], case["kmode"], case["vkind"])
        for v in res.violations:
            if v["key"] == case.get("expect_key"):
                return dict(key=v["key"], what=v["what"], observed=v["observed"], expected=v["expected"])
        return None
    if case["layer"] == "H" and case["seq"] == ["reorder"]:
        _check_reorder(res, case["i"])
    elif case["layer"] == "H":
        _check_history(res, case["i"], tuple(case["seq"]))
    elif case["layer"] == "R":
        _check_reaction(res, M.rt_from_json(case["rt"]), case["S"], modes=[(case["kmode"], case["vkind"])])
    else:
        rts = [M.rt_from_json(x) for x in case["rts"]]
        if "first" in case:
            pool = POOL4
            a = _check_system(res, case["first"], [pool[i] for i in case["first"]], case["S"], [("int", "int")], specs=("sorted",))
            b = _check_system(res, case["idxs"], rts, case["S"], [("int", "int")], specs=("sorted",))
            if a != b:
                return dict(key=case["expect_key"], what="rates depend on reaction order", observed=_show(b), expected=_show(a))
        else:
            _check_system(res, case["idxs"], rts, case["S"], [(case["kmode"], case["vkind"])], specs=(case["spec"],))
    want = case.get("expect_key")
    for v in res.violations:
        if v["key"] == want:
            return dict(key=v["key"], what=v["what"], observed=v["observed"], expected=v["expected"])
    if res.violations:
        v = res.violations[0]
        return dict(key=v["key"], what=v["what"], observed=v["observed"], expected=v["expected"])
    return None

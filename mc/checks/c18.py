"""C18 — ionic strength and Debye-Hueckel terms follow their definitions in any units.

State space (DESIGN.md §3 C18), four layers, every state executed on chempy.electrolytes:
  layer I   every ion multiset of size <= R over ions (z, 2^-k), z in -4..4 \\ {0}, k on a dyadic ladder spanning 12
            decades; for each multiset: every distinct permutation, every merge of two equal-charge entries, two
            scalings, in the input forms  list+charges / list of quantities (4 spellings of mol/kg) / quantity array /
            dict of formulas (charges parsed; substances=None | string | mapping; plain and quantity values)
  layer AB  the (T, eps_r, rho) grid x {numeric path (numpy, math, sympy backend), units-only path, constants path,
            constants path with explicit b0} x {K & kg/m3, degR & g/cm3}
  layer G   lattice (I, z, A, a, B, C, I0) x {limiting, extended, davies} x {numpy, math, sympy backend, quantities};
            the symbolic form of each function once (exact identity with the defining expression)
  layer P   stoichiometry vectors in {-2..2}^n (n<=3) x charge vectors x I x (T, eps, rho) x {3 product functions,
            2 product classes} x {numpy, math}
Oracle: the definitions in the property statement, written here independently (Fractions for layer I, 40-digit mpmath
for G and P, CODATA-based definition + power laws + path agreement for AB).
"""
import itertools
import math
from fractions import Fraction

from mc.core import Result
from mc import env

META = dict(
    title="Ionic strength and Debye-Hueckel terms follow their definitions in any units",
    level="model_checking",
    technique="bounded-exhaustive product-lattice sweep (all ion multisets up to a size bound x all permutations/merges/input "
    "forms; full (T,eps,rho) grid x all code paths; full parameter lattice x all formula variants/backends) executed on "
    "chempy.electrolytes and compared with the definitions evaluated exactly (Fractions) or at 40 digits",
    rule="states = distinct ion multisets + distinct (T,eps,rho) grid points + distinct (I,z,A,a,B,C,I0) lattice points + distinct "
    "(stoich,z,I,T,eps,rho) product points; non-trivial = multisets with >=2 entries, every grid point, lattice points with "
    "I>0 and z!=0, product points with I>0 and a non-zero stoichiometric entry",
    assumptions=[
        "quantities, numpy, sympy, mpmath and the interpreter are trusted",
        "real-valued arguments are covered on the stated finite lattices only (molalities 2^-k: dyadic, so that neutrality and the "
        "value are decided exactly); multisets larger than the bound, |z|>4 and values between lattice points are outside the bound",
        "the physical constants used for the definitional anchor of A and B are CODATA values; agreement is required to 1e-5 "
        "relative only (the constants object of `quantities` is CODATA 2006), the two chempy paths must agree to 1e-9",
    ],
    design_ref="DESIGN.md §3 C18",
    hashseed_sensitive=False,
)

ZS = [1, -1, 2, -2, 3, -3, 4, -4]
FORMULAS = {
    1: ["Na+", "H+", "K+", "Li+"],
    2: ["Mg+2", "Ca+2", "Sr+2", "Ba+2"],
    3: ["Fe+3", "Al+3", "Cr+3", "La+3"],
    4: ["Th+4", "Sn+4", "Zr+4", "Ce+4"],
    -1: ["Cl-", "F-", "Br-", "I-"],
    -2: ["SO4-2", "CO3-2", "S-2", "C2O4-2"],
    -3: ["PO4-3", "AsO4-3", "Fe(CN)6-3", "N-3"],
    -4: ["Fe(CN)6-4", "SiO4-4", "P2O7-4", "C-4"],
}


# exponents k of the molalities 2^-k: 12 decades; neighbours differing by factors 2 and 4 make neutral mixed-charge sets reachable
LAD_Q = [0, 1, 2, 20, 40]


def bounds(tier):
    if tier == "quick":
        return dict(
            ion_charges="-4..4 without 0", ladders={"1": LAD_Q, "2": LAD_Q, "3": LAD_Q},
            max_ions=3, T=[250.0 + 10 * i for i in range(41)], eps=[5.0, 10.0, 20.0, 40.0, 60.0, 78.4, 90.0, 100.0],
            rho=[500.0, 750.0, 997.0, 1250.0, 1500.0], stoich_range=2, stoich_len=3,
        )
    lad9 = [0, 1, 2, 5, 10, 15, 20, 25, 30, 35, 40]
    return dict(
        ion_charges="-4..4 without 0", ladders={"1": list(range(0, 41)), "2": lad9, "3": lad9, "4": [0, 1, 20, 40]},
        max_ions=4, T=[250.0 + 2.5 * i for i in range(161)], eps=[5.0 + 5 * i for i in range(20)] + [78.4],
        rho=[500.0 + 100 * i for i in range(11)] + [997.0], stoich_range=2, stoich_len=3,
    )


def _ions(ladder):
    return [(z, k) for k in ladder for z in ZS]


def _n_multisets(n, r):
    return math.comb(n + r - 1, r)


def chunks(tier):
    b = bounds(tier)
    out = []
    for r in range(1, b["max_ions"] + 1):
        ions = _ions(b["ladders"][str(r)])
        n = len(ions)
        if r == 1 or _n_multisets(n, r) <= 1000:
            out.append(("I", r, -1, 0, 1))
            continue
        per = 700 if tier == "quick" else 1500
        for i0 in range(n):
            cnt = _n_multisets(n - i0, r - 1)
            J = max(1, -(-cnt // per))
            out += [("I", r, i0, j, J) for j in range(J)]
    nT = len(b["T"])
    step = 4 if tier == "quick" else 3
    out += [("AB", i, min(nT, i + step)) for i in range(0, nT, step)]
    out += [("Gsym",), ("IL",)]
    out += [("G", z) for z in range(-4, 5)]
    out += [("Gu", z) for z in (-3, 1, 2)]
    out += [("P", n, j) for n in (1, 2, 3) for j in range(4 if n == 3 else 1)]
    return out


# =============================================================================================== layer I
def _neutral_warned(w):
    return any("charge neutral" in str(x.message) for x in w)


def _call_is(res, f):
    """-> (value | 'EXC ...', warned)"""
    res.evaluations += 1
    with env.record_warnings() as w:
        try:
            v = f()
        except Exception as e:
            return "EXC %s" % type(e).__name__, False
    return v, _neutral_warned(w)


def _mag_molal(v):
    """exact magnitude in mol/kg of a quantity result, or 'EXC ...'"""
    from chempy.units import to_unitless, default_units as u

    try:
        if not hasattr(v, "dimensionality"):
            return "NOT-A-QUANTITY %r" % (v,)
        return float(to_unitless(v, u.molal))
    except Exception as e:
        return "EXC %s" % type(e).__name__


def _judge(res, site, form, got, warned, ref, net, case, exact_float=True):
    """compare one observation of ionic_strength with the definition"""
    ok = True
    if isinstance(got, str):
        res.violation("C18|%s|%s|raises" % (site, form), "%s in form %s raised/was unusable: %s; definition gives %s" % (site, form, got, float(ref)),
                      dict(case, k="C18|%s|%s|raises" % (site, form)), got, float(ref))
        return False
    try:
        same = Fraction(float(got)) == ref
    except Exception:
        same = False
    if not same:
        ok = False
        key = "C18|%s|%s|value" % (site, form)
        res.violation(key, "%s (%s) = %r, half the sum of b*z^2 is %r" % (site, form, got, float(ref)), dict(case, k=key), float(got), float(ref))
    if warned != (net != 0):
        ok = False
        key = "C18|%s|%s|%s" % (site, form, "warning-missing" if net != 0 else "warning-spurious")
        res.violation(key, "%s (%s): neutrality warning %s although sum b*z = %r" % (site, form, "issued" if warned else "not issued", float(net)),
                      dict(case, k=key), warned, net != 0)
    return ok


def _state_I(res, zs, ks, count=True):
    from chempy.electrolytes import ionic_strength
    from chempy.units import default_units as u
    from chempy import Substance
    import numpy as np

    r = len(zs)
    bs = [2.0 ** -k for k in ks]
    ref = sum(Fraction(b) * z * z for b, z in zip(bs, zs)) / 2
    net = sum(Fraction(b) * z for b, z in zip(bs, zs))
    case = dict(layer="I", zs=list(zs), ks=list(ks))
    ok = True
    if count:
        res.states += 1
        if r >= 2:
            res.nontrivial += 1
        for z in zs:
            res.symbols["z=%+d" % z] += 1
        for k in ks:
            res.symbols["b=2^-%d" % k] += 1
    perms = _distinct_perms(zs, ks)
    res.transitions += len(perms)
    # --- form 1: list + charges, every distinct permutation
    for p in perms:
        m = [bs[i] for i in p]
        c = [zs[i] for i in p]
        got, wn = _call_is(res, lambda: ionic_strength(m, c))
        ok &= _judge(res, "ionic_strength", "list", got, wn, ref, net, dict(case, perm=list(p)))
    res.symbols["form:list"] += len(perms)
    # --- merges of two equal-charge entries (list form)
    for i in range(r):
        for j in range(i + 1, r):
            if zs[i] == zs[j]:
                m = [bs[t] for t in range(r) if t not in (i, j)] + [bs[i] + bs[j]]
                c = [zs[t] for t in range(r) if t not in (i, j)] + [zs[i]]
                res.transitions += 1
                got, wn = _call_is(res, lambda: ionic_strength(m, c))
                ok &= _judge(res, "ionic_strength", "list-merged", got, wn, ref, net, dict(case, merge=[i, j]))
                res.symbols["op:merge"] += 1
    # --- linear scaling (exact for these factors on dyadic molalities)
    for lam in (0.125, 3.0):
        m = [b * lam for b in bs]
        res.transitions += 1
        got, wn = _call_is(res, lambda: ionic_strength(m, list(zs)))
        ok &= _judge(res, "ionic_strength", "list-scaled", got, wn, ref * Fraction(lam), net * Fraction(lam), dict(case, scale=lam))
        res.symbols["op:scale"] += 1
    # --- form 2: quantities
    units = (("molal", u.molal), ("mol/kg", u.mol / u.kg), ("mmol/g", u.mmol / u.gram), ("umol/mg", u.umol / u.mg))
    for n, p in enumerate(perms):
        name, unit = units[(n + sum(ks) // 5 + sum(zs)) % 4] if n else units[0]
        m = [bs[i] * unit for i in p]
        c = [zs[i] for i in p]
        got, wn = _call_is(res, lambda: ionic_strength(m, c))
        if not isinstance(got, str):
            got = _mag_molal(got)
        ok &= _judge(res, "ionic_strength", "quantities", got, wn, ref, net, dict(case, perm=list(p), unit=name))
        res.symbols["form:quantities[%s]" % name] += 1
    got, wn = _call_is(res, lambda: ionic_strength(np.array(bs) * u.molal, list(zs)))
    if not isinstance(got, str):
        got = _mag_molal(got)
    ok &= _judge(res, "ionic_strength", "quantity-array", got, wn, ref, net, dict(case))
    res.symbols["form:quantity-array"] += 1
    got, wn = _call_is(res, lambda: ionic_strength([b * u.molal for b in bs], list(zs), units=u))
    if not isinstance(got, str):
        got = _mag_molal(got)
    ok &= _judge(res, "ionic_strength", "quantities+units-arg", got, wn, ref, net, dict(case))
    res.symbols["form:quantities+units-arg"] += 1
    # --- form 3: mapping formula -> molality, charges read from the formulas
    used = {}
    keys = []
    for z in zs:
        keys.append(FORMULAS[z][used.get(z, 0)])
        used[z] = used.get(z, 0) + 1
    for p in perms:
        d = {}
        for i in p:
            d[keys[i]] = bs[i]
        got, wn = _call_is(res, lambda: ionic_strength(d))
        ok &= _judge(res, "ionic_strength", "dict", got, wn, ref, net, dict(case, perm=list(p), keys=keys))
    res.symbols["form:dict"] += len(perms)
    d = dict(zip(keys, bs))
    got, wn = _call_is(res, lambda: ionic_strength(d, substances=" ".join(keys)))
    ok &= _judge(res, "ionic_strength", "dict+substances-string", got, wn, ref, net, dict(case, keys=keys))
    # the substances may be listed in another order than the molalities (and may be a larger registry)
    got, wn = _call_is(res, lambda: ionic_strength(d, substances=" ".join(keys[::-1])))
    ok &= _judge(res, "ionic_strength", "dict+substances-string-reversed", got, wn, ref, net, dict(case, keys=keys))
    from collections import OrderedDict as _OD
    sreg = _OD((k, Substance.from_formula(k)) for k in (["Al+3"] + keys[::-1] + ["SO4-2"]) if True)
    got, wn = _call_is(res, lambda: ionic_strength(d, substances=sreg))
    ok &= _judge(res, "ionic_strength", "dict+substances-registry", got, wn, ref, net, dict(case, keys=keys))
    subst = {"s%d" % i: Substance.from_formula(k) for i, k in enumerate(keys)}
    d2 = {"s%d" % i: b for i, b in enumerate(bs)}
    got, wn = _call_is(res, lambda: ionic_strength(d2, substances=subst))
    ok &= _judge(res, "ionic_strength", "dict+substances-mapping", got, wn, ref, net, dict(case, keys=keys))
    dq = {k: b * u.molal for k, b in zip(keys, bs)}
    got, wn = _call_is(res, lambda: ionic_strength(dq))
    if not isinstance(got, str):
        got = _mag_molal(got)
    ok &= _judge(res, "ionic_strength", "dict-of-quantities", got, wn, ref, net, dict(case, keys=keys))
    # the caller's own objects made from the same formulas are the caller's to edit: a later reading of the charges from the
    # formulas must not see those edits
    try:
        from chempy.util.parsing import formula_to_composition

        for k in keys:
            own = Substance.from_formula(k)
            own.composition[0] = own.composition.get(0, 0) + 1
            own.composition[999] = 1
            raw = formula_to_composition(k)
            raw[0] = raw.get(0, 0) + 2
    except Exception:
        pass
    got, wn = _call_is(res, lambda: ionic_strength(dict(zip(keys, bs))))
    ok &= _judge(res, "ionic_strength", "dict-after-caller-edited-own-objects", got, wn, ref, net, dict(case, keys=keys))
    res.symbols["form:dict-variants"] += 6
    if count:
        res.outcomes[("neutral" if net == 0 else "charged") + ("-ok" if ok else "-VIOLATED") + "-n%d" % r] += 1
        if ref > res.extra.get("max_ionic_strength", 0):
            res.extra["max_ionic_strength"] = float(ref)
        if res.states % 499 == 1:
            res.sample(dict(layer="I", zs=list(zs), molalities=bs, I=float(ref), net=float(net)), limit=2)
    return ok


def _state_I_long(res, n, pattern):
    """long ion lists (n = 8..40 entries): half the sum of b*z^2, every term counted; the warning follows the net charge"""
    from chempy.electrolytes import ionic_strength
    from chempy.units import default_units as u
    import numpy as np

    if pattern == "neutral-pairs":  # +z, -z, ... (an odd n ends with a neutral-making pair split over the last three entries)
        zs = [((i // 2) % 4 + 1) * (1 if i % 2 == 0 else -1) for i in range(n)]
        ks = [(i // 2) % 6 for i in range(n)]
        if n % 2:
            zs[-1], ks[-1] = 0, 3
    elif pattern == "all-cations":
        zs, ks = [(i % 3) + 1 for i in range(n)], [i % 7 for i in range(n)]
    else:  # "ones"
        zs, ks = [1 if i % 2 == 0 else -1 for i in range(n)], [0] * n
    bs = [2.0 ** -k for k in ks]
    ref = sum(Fraction(b) * z * z for b, z in zip(bs, zs)) / 2
    net = sum(Fraction(b) * z for b, z in zip(bs, zs))
    case = dict(layer="IL", n=n, pattern=pattern)
    res.states += 1
    res.transitions += n
    res.nontrivial += 1
    got, wn = _call_is(res, lambda: ionic_strength(list(bs), list(zs)))
    ok = _judge(res, "ionic_strength", "list[n=%d]" % n, got, wn, ref, net, case)
    got, wn = _call_is(res, lambda: ionic_strength(np.array(bs) * u.molal, list(zs)))
    if not isinstance(got, str):
        got = _mag_molal(got)
    ok &= _judge(res, "ionic_strength", "quantity-array[n=%d]" % n, got, wn, ref, net, case)
    got, wn = _call_is(res, lambda: ionic_strength([b * u.molal for b in bs], tuple(zs)))
    if not isinstance(got, str):
        got = _mag_molal(got)
    ok &= _judge(res, "ionic_strength", "quantities[n=%d]" % n, got, wn, ref, net, case)
    res.outcomes["long-list-%s" % ("ok" if ok else "VIOLATED")] += 1


DEC_NEUTRAL = [  # decimal molalities of neutral salt solutions: b*z cancels on paper, in doubles only up to a few ulp
    ([0.05, 0.15], [3, -1]), ([0.1, 0.2, 0.3], [1, 1, -1]), ([0.1, 0.15], [3, -2]), ([0.4, 0.1, 0.3, 0.2], [1, 3, -1, -2]),
    ([1e-7, 3e-7], [3, -1]), ([0.3, 0.1], [-1, 3]), ([0.05, 0.15, 0.02, 0.06], [3, -1, 3, -1]),
]
DEC_KEYS = {3: "Fe+3", -1: "ClO4-", 1: "Na+", 2: "Ca+2", -2: "SO4-2", -3: "PO4-3"}
GROUP_KEYS = [("Fe(CN)6-4(aq)", -4), ("[Fe(CN)6]-4(aq)", -4), ("Fe(CN)6-4", -4), ("Al(OH)4-(aq)", -1), ("Co(NH3)6+3(aq)", 3), ("UO2(CO3)3-4(aq)", -4)]


def _state_I_decimal(res):
    """(a) neutral decimal compositions (3:1 salts, salts sharing an ion) at several magnitudes: value to 1e-15 relative and NO
    neutrality warning; the same with one entry raised by 1e-6 relative: a warning; as lists, quantities and formula mappings.
    (b) mappings whose keys carry a group in parentheses and a state suffix: charges are those the formulas say"""
    from chempy.electrolytes import ionic_strength
    from chempy.units import default_units as u

    for bs, zs in DEC_NEUTRAL:
        for pert in (False, True):
            b2 = list(bs)
            if pert:
                b2[0] = b2[0] * (1 + 1e-6)
            ref = sum(b * z * z for b, z in zip(b2, zs)) / 2
            forms = [("list", lambda: ionic_strength(list(b2), list(zs))), ("quantities", lambda: ionic_strength([b * u.molal for b in b2], list(zs), units=u))]
            if len(set(zs)) == len(zs):
                forms.append(("mapping", lambda: ionic_strength({DEC_KEYS[z]: b for b, z in zip(b2, zs)})))
            for form, f in forms:
                res.states += 1
                res.transitions += 1
                res.nontrivial += 1
                got, warned = _call_is(res, f)
                val = _mag_molal(got) if form == "quantities" and not isinstance(got, str) else got
                ok = not isinstance(val, str) and abs(float(val) - ref) <= 1e-14 * ref and warned == pert
                res.outcomes["I-decimal:%s:%s" % ("unbalanced" if pert else "neutral", "ok" if ok else "WRONG")] += 1
                if not ok:
                    key = "C18|ionic_strength|decimal-%s|%s" % (form, "value" if isinstance(val, str) or abs(float(val) - ref) > 1e-14 * ref else ("warning-missing" if pert else "warning-spurious"))
                    res.violation(key, "ionic_strength(%r, %r) [%s]: value %r (definition %r), neutrality warning %s; the composition is %s" % (
                        b2, zs, form, val, ref, "issued" if warned else "not issued", "off by 1e-6 of one entry" if pert else "neutral"), dict(layer="ID", k=key), [repr(val), warned], [ref, pert])
    for key_, z in GROUP_KEYS:
        for b in (0.125, 0.5):
            res.states += 1
            res.transitions += 1
            res.nontrivial += 1
            comp = {("K+" if z < 0 else "Cl-"): abs(z) * b, key_: b}
            ref = (abs(z) * b + b * z * z) / 2
            got, warned = _call_is(res, lambda: ionic_strength(dict(comp)))
            ok = not isinstance(got, str) and float(got) == ref and not warned
            res.outcomes["I-group-keys:%s" % ("ok" if ok else "WRONG")] += 1
            if not ok:
                key = "C18|ionic_strength|mapping-group-and-state-key|%s" % ("raises" if isinstance(got, str) else "value" if float(got) != ref else "warning-spurious")
                res.violation(key, "ionic_strength(%r) = %r (warning %s), charges from the formulas give %r without a warning" % (comp, got, warned, ref), dict(layer="ID", k=key), [repr(got), warned], [ref, False])


def _distinct_perms(zs, ks):
    seen, out = set(), []
    for p in itertools.permutations(range(len(zs))):
        sig = tuple((zs[i], ks[i]) for i in p)
        if sig not in seen:
            seen.add(sig)
            out.append(p)
    return out


def _multisets(ions, r, i0):
    if i0 < 0:
        return itertools.combinations_with_replacement(ions, r)
    return ((ions[i0],) + rest for rest in itertools.combinations_with_replacement(ions[i0:], r - 1))


# =============================================================================================== layer AB
# CODATA 2018 (exact SI) values; the definition is evaluated with them as an anchor (1e-5 rel.)
_E = 1.602176634e-19
_NA = 6.02214076e23
_KB = 1.380649e-23
_EPS0 = 8.8541878128e-12
_F = _E * _NA
_R = _KB * _NA
TOL_PATH = 1e-9  # two chempy paths (hard-coded factor vs constants object)
TOL_POW = 1e-12  # power laws within one path
TOL_DEF = 1e-5  # against the definition evaluated with CODATA-2018 constants (k_B moved by 1e-6 since CODATA 2006: 1.7e-6 on A)


def _A_def(eps, T, rho):
    return _F ** 3 / (4 * math.pi * _NA) * math.sqrt(rho / (2 * (_EPS0 * eps * _KB * _NA * T) ** 3))


def _B_def(eps, T, rho):
    return _F * math.sqrt(2 * rho / (eps * _EPS0 * _R * T))


def _paths():
    """name -> callable(fn, eps, T, rho) returning a float (A: dimensionless, B: 1/m) or raising"""
    import sympy
    from chempy.units import default_units as u, default_constants as const, to_unitless

    def fin(fn, q):
        return float(to_unitless(q)) if fn.__name__ == "A" else float(to_unitless(q, 1 / u.m))

    sy = {}

    def sym(fn, e, T, r):
        if fn.__name__ not in sy:
            s = sympy.symbols("e T r", positive=True)
            sy[fn.__name__] = sympy.lambdify(s, fn(*s, backend=sympy), "math")
        return float(sy[fn.__name__](e, T, r))

    K, kgm3, degR, gcm3 = u.K, u.kg / u.m ** 3, u.rankine, u.gram / u.cm ** 3

    def twice(fn, e, T, r, **kw):
        """the caller's temperature and density objects handed in twice (and to the other function in between): they are left
        as they are, and the second answer is the one reported"""
        from chempy import electrolytes as el

        Tq, rq = T * K, r * kgm3
        fn(e, Tq, rq, **kw)
        (el.B if fn.__name__ == "A" else el.A)(e, Tq, rq, **kw)
        out = fin(fn, fn(e, Tq, rq, **kw))
        if rq.units != kgm3.units or float(rq.magnitude) != float(r) or Tq.units != K.units or float(Tq.magnitude) != float(T):
            raise ArithmeticError("the caller's quantities were modified: T = %r, rho = %r" % (Tq, rq))
        return out

    return [
        ("constants+units, same T and rho objects used three times", lambda fn, e, T, r: twice(fn, e, T, r, constants=const, units=u)),
        ("units, same T and rho objects used three times", lambda fn, e, T, r: twice(fn, e, T, r, units=u)),
        # other number types for the plain path, and the math backend named next to units
        ("numeric-Fraction", lambda fn, e, T, r: float(fn(Fraction(e), Fraction(T), Fraction(r)))),
        ("numeric-sympy-numbers", lambda fn, e, T, r: float(fn(sympy.Float(e), sympy.Float(T), sympy.Float(r)))),
        ("numeric-numpy-scalars", lambda fn, e, T, r: float(fn(__import__("numpy").float64(e), __import__("numpy").float64(T), __import__("numpy").float64(r)))),
        ("units+backend=math", lambda fn, e, T, r: fin(fn, fn(e, T * K, r * kgm3, units=u, backend=math))),
        ("units+backend='math'", lambda fn, e, T, r: fin(fn, fn(e, T * K, r * kgm3, units=u, backend="math"))),
        ("constants+units+backend=math[degR,g/cm3]", lambda fn, e, T, r: fin(fn, fn(e, T * 1.8 * degR, r / 1000 * gcm3, constants=const, units=u, backend=math))),
        ("numeric", lambda fn, e, T, r: float(fn(e, T, r))),
        ("numeric-math", lambda fn, e, T, r: float(fn(e, T, r, backend=math))),
        ("numeric-sympy-lambdified", sym),
        ("units[K,kg/m3]", lambda fn, e, T, r: fin(fn, fn(e, T * K, r * kgm3, units=u))),
        ("units[degR,g/cm3]", lambda fn, e, T, r: fin(fn, fn(e, T * 1.8 * degR, r / 1000 * gcm3, units=u))),
        ("constants+units[K,kg/m3]", lambda fn, e, T, r: fin(fn, fn(e, T * K, r * kgm3, constants=const, units=u))),
        ("constants+units[degR,g/cm3]", lambda fn, e, T, r: fin(fn, fn(e, T * 1.8 * degR, r / 1000 * gcm3, constants=const, units=u))),
        ("constants+b0[K,kg/m3]", lambda fn, e, T, r: fin(fn, fn(e, T * K, r * kgm3, b0=1 * u.molal, constants=const))),
        ("constants+b0[mmol/g]", lambda fn, e, T, r: fin(fn, fn(e, T * K, r * kgm3, b0=1 * u.mmol / u.gram, constants=const))),
        # a standard molality of magnitude 1 in ANOTHER unit (1 mmol/kg): A and B scale with sqrt(b0); the value is scaled back here
        ("units+b0[1 mmol/kg]/sqrt(1e-3)", lambda fn, e, T, r: fin(fn, fn(e, T * K, r * kgm3, b0=1 * u.mmol / u.kg, units=u)) / math.sqrt(1e-3)),
        ("constants+units+b0[1 mmol/kg]/sqrt(1e-3)", lambda fn, e, T, r: fin(fn, fn(e, T * K, r * kgm3, b0=1 * u.mmol / u.kg, constants=const, units=u)) / math.sqrt(1e-3)),
        ("units+b0[1000 mmol/kg]", lambda fn, e, T, r: fin(fn, fn(e, T * K, r * kgm3, b0=1000 * u.mmol / u.kg, units=u))),
    ]


def _mx(res, key, v):
    if v > res.extra.get(key, -1.0):
        res.extra[key] = v


def _rel(a, b):
    return abs(a - b) / abs(b) if b else abs(a)


_PATHS = None


def _state_AB(res, eps, T, rho, refpt, cache, count=True):
    """one grid point, all paths; refpt = (eps0, T0, rho0) anchors the power laws"""
    global _PATHS
    from chempy import electrolytes as el

    if _PATHS is None:
        _PATHS = _paths()
    case = dict(layer="AB", eps=eps, T=T, rho=rho, ref=list(refpt))
    ok = True
    if count:
        res.states += 1
        res.nontrivial += 1
    for fn, dfn, expo in ((el.A, _A_def, (-1.5, -1.5, 0.5)), (el.B, _B_def, (-0.5, -0.5, 0.5))):
        name = fn.__name__
        vals = {}
        for pname, call in _PATHS:
            res.evaluations += 1
            res.transitions += 1
            res.symbols["path:" + pname] += 1
            try:
                v = call(fn, eps, T, rho)
                if not (v == v and abs(v) != float("inf")):
                    raise ArithmeticError("non-finite")
            except Exception as e:
                key = "C18|%s|%s|raises-or-wrong-dimension" % (name, pname)
                res.violation(key, "%s(eps=%r, T=%r, rho=%r) through path %s: %s: %s" % (name, eps, T, rho, pname, type(e).__name__, str(e)[:120]),
                              dict(case, k=key), "EXC %s" % type(e).__name__, dfn(eps, T, rho))
                ok = False
                continue
            vals[pname] = v
            # reference point of this path (for the power laws)
            ck = (name, pname)
            if ck not in cache:
                try:
                    cache[ck] = call(fn, *refpt)
                except Exception:
                    cache[ck] = None
            v0 = cache[ck]
            if v0:
                want = (eps / refpt[0]) ** expo[0] * (T / refpt[1]) ** expo[1] * (rho / refpt[2]) ** expo[2]
                d = _rel(v / v0, want)
                _mx(res, "max_%s_powerlaw_relerr_x1e16" % name, d * 1e16)
                if d > TOL_POW:
                    key = "C18|%s|%s|power-law" % (name, pname)
                    res.violation(key, "%s through %s: value ratio to the reference point %r is %r, the definition's power law gives %r"
                                  % (name, pname, refpt, v / v0, want), dict(case, k=key), v / v0, want)
                    ok = False
        base = vals.get("numeric")
        d0 = dfn(eps, T, rho)
        for pname, v in vals.items():
            d = _rel(v, d0)
            _mx(res, "max_%s_definition_relerr_x1e6" % name, d * 1e6)
            if d > TOL_DEF:
                key = "C18|%s|%s|differs-from-definition" % (name, pname)
                res.violation(key, "%s(eps=%r, T=%r, rho=%r) through %s = %r, the definition evaluates to %r" % (name, eps, T, rho, pname, v, d0),
                              dict(case, k=key), v, d0)
                ok = False
            if base is not None and pname != "numeric":
                d = _rel(v, base)
                _mx(res, "max_%s_path_relerr_x1e16" % name, d * 1e16)
                if d > TOL_PATH:
                    key = "C18|%s|%s|disagrees-with-numeric-path" % (name, pname)
                    res.violation(key, "%s(eps=%r, T=%r, rho=%r): path %s gives %r, the numeric path %r" % (name, eps, T, rho, pname, v, base),
                                  dict(case, k=key), v, base)
                    ok = False
    if count:
        res.outcomes["AB-grid-ok" if ok else "AB-grid-VIOLATED"] += 1
        if res.states % 97 == 1:
            res.sample(dict(layer="AB", eps=eps, T=T, rho=rho, A=_A_def(eps, T, rho), B=_B_def(eps, T, rho)), limit=1)
    return ok


# =============================================================================================== layer G
G_IS = [0.0, 2.0 ** -20, 1e-4, 0.01, 0.1, 0.5, 1.0, 3.0]
G_A = [0.5, 1.1739626360067401, 2.5]
G_a = [0.0, 3e-13, 3e-10, 9e-10]
G_B = [3284405474.3500986, 1.0e9]
G_C = [0.0, 0.1, -0.3]
G_I0 = [1, 2.0]
TOL_G = 1e-13


def _ref_gamma(kind, IS, z, A, a=0, B=0, C=0, I0=1):
    """(value, scale) at 40 digits; scale = sum of |terms| (for the tolerance)"""
    import mpmath

    with mpmath.workdps(40):
        m = mpmath.mpf
        x = m(IS) / m(I0)
        s = mpmath.sqrt(x)
        if kind == "limiting":
            t1, t2 = -m(A) * z * z * s, m(0)
        elif kind == "extended":
            t1, t2 = -m(A) * z * z * s / (1 + m(B) * m(a) * s), m(C) * x
        else:
            t1, t2 = -m(A) * z * z * s / (1 + s), -m(A) * z * z * m(C) * x
        return float(t1 + t2), float(abs(t1) + abs(t2))


def _num(v):
    from chempy.units import to_unitless

    if hasattr(v, "dimensionality"):
        return float(to_unitless(v))
    return float(v)


def _cmp_gamma(res, kind, mode, f, ref, scale, case):
    res.evaluations += 1
    res.transitions += 1
    key0 = "C18|%s_log_gamma|%s|" % (kind, mode)
    try:
        got = _num(f())
    except Exception as e:
        res.violation(key0 + "raises", "%s_log_gamma %r raised %s: %s" % (kind, case, type(e).__name__, str(e)[:100]), dict(case, k=key0 + "raises"),
                      "EXC %s" % type(e).__name__, ref)
        return None
    if scale:
        _mx(res, "max_log_gamma_err_over_scale_x1e16", abs(got - ref) / scale * 1e16)
    if not abs(got - ref) <= TOL_G * scale + 1e-300:
        res.violation(key0 + "formula", "%s_log_gamma %r = %r, its formula gives %r" % (kind, case, got, ref), dict(case, k=key0 + "formula"), got, ref)
        return None
    return got


def _state_G(res, z, IS, A, I0, count=True):
    """all formula variants at one (z, I, A, I0) x the (a, B, C) sub-lattice x backends"""
    import sympy
    from chempy import electrolytes as el

    backends = (("numpy", None), ("math", math), ("sympy", sympy))
    ok = True
    base = dict(layer="G", z=z, IS=IS, A=A, I0=I0)
    nstates = 0
    # limiting
    ref, sc = _ref_gamma("limiting", IS, z, A, I0=I0)
    lim = {}
    for bn, be in backends:
        g = _cmp_gamma(res, "limiting", bn, lambda: el.limiting_log_gamma(IS, z, A, I0=I0, backend=be), ref, sc, dict(base, fn="limiting", backend=bn))
        ok &= g is not None
        lim[bn] = g
        res.symbols["backend:" + bn] += 1
    nstates += 1
    # davies
    for C in G_C + [None]:
        ref, sc = _ref_gamma("davies", IS, z, A, C=-0.3 if C is None else C, I0=I0)
        for bn, be in backends:
            kw = {} if C is None else dict(C=C)
            g = _cmp_gamma(res, "davies", bn, lambda: el.davies_log_gamma(IS, z, A, I0=I0, backend=be, **kw), ref, sc,
                           dict(base, fn="davies", C=C, backend=bn))
            ok &= g is not None
        nstates += 1
        res.symbols["C=%r" % C] += 1
    # extended
    for a in G_a:
        for B in G_B:
            for C in G_C:
                ref, sc = _ref_gamma("extended", IS, z, A, a, B, C, I0)
                for bn, be in backends:
                    g = _cmp_gamma(res, "extended", bn, lambda: el.extended_log_gamma(IS, z, a, A, B, C, I0=I0, backend=be), ref, sc,
                                   dict(base, fn="extended", a=a, B=B, C=C, backend=bn))
                    ok &= g is not None
                    # reduction to the limiting law: exact at a = 0, and |ext - lim| <= |lim| * B a sqrt(I/I0) otherwise (C = 0)
                    if g is not None and C == 0.0 and lim.get(bn) is not None:
                        x = B * a * math.sqrt(IS / I0)
                        if abs(g - lim[bn]) > abs(lim[bn]) * x * (1 + 1e-9) + 4e-16 * abs(lim[bn]):
                            key = "C18|extended_log_gamma|%s|does-not-reduce-to-limiting" % bn
                            res.violation(key, "extended_log_gamma(I=%r,z=%r,a=%r,A=%r,B=%r) = %r but the limiting law gives %r (B*a*sqrt(I) = %r)"
                                          % (IS, z, a, A, B, g, lim[bn], x), dict(base, fn="extended", a=a, B=B, C=C, backend=bn, k=key), g, lim[bn])
                            ok = False
                    if g is not None and IS == 0.0 and g != 0.0:
                        key = "C18|extended_log_gamma|%s|nonzero-at-zero-ionic-strength" % bn
                        res.violation(key, "extended_log_gamma at I=0 is %r" % g, dict(base, fn="extended", a=a, B=B, C=C, backend=bn, k=key), g, 0.0)
                        ok = False
                nstates += 1
        res.symbols["a=%r" % a] += 1
    if count:
        res.states += nstates
        if IS > 0 and z != 0:
            res.nontrivial += nstates
        res.symbols["G:z=%+d" % z] += 1
        res.symbols["G:I=%r" % IS] += 1
        res.outcomes[("G-zero" if (IS == 0 or z == 0) else "G-nonzero") + ("-ok" if ok else "-VIOLATED")] += 1
    return ok


def _state_Gu(res, z, IS, a_nm, count=True):
    """quantities mode: I in molal (I0 = 1 molal or 1 mmol/g), a in m / nm / angstrom, B in 1/m or 1/nm"""
    from chempy import electrolytes as el
    from chempy.units import default_units as u

    A, B, C = G_A[1], G_B[0], 0.1
    ok = True
    base = dict(layer="Gu", z=z, IS=IS, a_nm=a_nm)
    n = 0
    for i0n, I0 in (("molal", 1 * u.molal), ("mmol/g", 1 * u.mmol / u.gram), ("2molal", 2 * u.molal)):
        i0 = 2.0 if i0n == "2molal" else 1.0
        ISq = IS * u.molal
        ref, sc = _ref_gamma("limiting", IS, z, A, I0=i0)
        ok &= _cmp_gamma(res, "limiting", "quantities", lambda: el.limiting_log_gamma(ISq, z, A, I0=I0), ref, sc, dict(base, fn="limiting", I0=i0n)) is not None
        ref, sc = _ref_gamma("davies", IS, z, A, C=-0.3, I0=i0)
        ok &= _cmp_gamma(res, "davies", "quantities", lambda: el.davies_log_gamma(ISq, z, A, I0=I0), ref, sc, dict(base, fn="davies", I0=i0n)) is not None
        n += 2
        # the ionic strength written in another unit of the same dimension than I0 (as ionic_strength returns it for molalities
        # given in mmol/kg): the ratio I/I0 is a pure number whatever the two units
        ISm = (IS * 1000.0) * u.mmol / u.kg
        ref, sc = _ref_gamma("limiting", IS, z, A, I0=i0)
        ok &= _cmp_gamma(res, "limiting", "quantities", lambda: el.limiting_log_gamma(ISm, z, A, I0=I0), ref, sc * 8 + 1e-15 * abs(ref), dict(base, fn="limiting", I0=i0n, IS_unit="mmol/kg")) is not None
        ref, sc = _ref_gamma("davies", IS, z, A, C=-0.3, I0=i0)
        ok &= _cmp_gamma(res, "davies", "quantities", lambda: el.davies_log_gamma(ISm, z, A, I0=I0), ref, sc * 8 + 1e-15 * abs(ref), dict(base, fn="davies", I0=i0n, IS_unit="mmol/kg")) is not None
        ref, sc = _ref_gamma("extended", IS, z, A, a_nm * 1e-9, B, C, i0)
        ok &= _cmp_gamma(res, "extended", "quantities", lambda: el.extended_log_gamma(ISm, z, a_nm * u.nm, A, B / u.m, C, I0=I0), ref, sc * 8 + 1e-15 * abs(ref),
                         dict(base, fn="extended", I0=i0n, IS_unit="mmol/kg", a_unit="nm", B_unit="1/m")) is not None
        n += 3
        for an, aq in (("m", a_nm * 1e-9 * u.m), ("nm", a_nm * u.nm), ("angstrom", a_nm * 10 * u.angstrom)):
            for Bn, Bq in (("1/m", B / u.m), ("1/nm", B * 1e-9 / u.nm)):
                ref, sc = _ref_gamma("extended", IS, z, A, a_nm * 1e-9, B, C, i0)
                ok &= _cmp_gamma(res, "extended", "quantities", lambda: el.extended_log_gamma(ISq, z, aq, A, Bq, C, I0=I0), ref, sc * 4,
                                 dict(base, fn="extended", I0=i0n, a_unit=an, B_unit=Bn)) is not None
                n += 1
                res.symbols["a-unit:" + an] += 1
                res.symbols["B-unit:" + Bn] += 1
    if count:
        res.states += n
        if IS > 0 and z != 0:
            res.nontrivial += n
        res.outcomes["Gu-quantities" + ("-ok" if ok else "-VIOLATED")] += 1
    return ok


def _state_Gsym(res, count=True):
    """the symbolic (sympy backend) form of every function is identically its defining expression"""
    import sympy
    from chempy import electrolytes as el

    I, z, a, A, B, C, I0 = sympy.symbols("I z a A B C I0", positive=True)
    s = sympy.sqrt(I / I0)
    cases = [
        ("limiting", lambda: el.limiting_log_gamma(I, z, A, I0, backend=sympy), -A * z ** 2 * s),
        ("extended", lambda: el.extended_log_gamma(I, z, a, A, B, C, I0, backend=sympy), -A * z ** 2 * s / (1 + B * a * s) + C * I / I0),
        ("davies", lambda: el.davies_log_gamma(I, z, A, C, I0, backend=sympy), -A * z ** 2 * (s / (1 + s) + C * I / I0)),
        ("davies-defaultC", lambda: el.davies_log_gamma(I, z, A, I0=I0, backend=sympy), -A * z ** 2 * (s / (1 + s) - sympy.Rational(3, 10) * I / I0)),
        ("extended-a0", lambda: el.extended_log_gamma(I, z, 0, A, B, 0, I0, backend=sympy), -A * z ** 2 * s),
    ]
    ok = True
    for name, f, want in cases:
        res.evaluations += 1
        res.transitions += 1
        if count:
            res.states += 1
            res.nontrivial += 1
        case = dict(layer="Gsym", fn=name)
        key = "C18|%s_log_gamma|symbolic|formula" % name.split("-")[0]
        try:
            got = f()
            d = sympy.simplify(sympy.nsimplify(got - want, rational=True))
        except Exception as e:
            res.violation(key, "symbolic %s raised %s" % (name, type(e).__name__), dict(case, k=key), "EXC %s" % type(e).__name__, str(want))
            ok = False
            continue
        if d != 0:
            res.violation(key, "symbolic %s_log_gamma = %s, the formula is %s" % (name, got, want), dict(case, k=key), str(got), str(want))
            ok = False
        res.symbols["symbolic:" + name] += 1
    if count:
        res.outcomes["Gsym" + ("-ok" if ok else "-VIOLATED")] += 1
    return ok


# =============================================================================================== layer P
# (charge 0: an uncharged participant such as H2O or CO2 — its limiting/Davies log gamma is 0, its extended one is C*I)
P_Z = {1: [(1,), (-2,), (3,), (0,)], 2: [(1, -1), (2, -1), (-2, 3), (4, -4), (0, 1)], 3: [(1, -1, 2), (2, -2, -1), (3, -1, 1), (4, -4, -2), (0, 1, -1), (2, 0, -2)]}
P_IS = [0.0, 1e-4, 0.01, 0.1, 0.5, 2.0]
P_TER = [(298.15, 78.4, 997.0), (273.15, 87.9, 999.8), (373.15, 55.5, 958.4), (650.0, 5.0, 500.0)]
P_a = (3e-10, 4.5e-10, 9e-10)
P_C = [0.0, 0.1]
TOL_P = 2e-13


def _ref_product(kind, IS, stoich, zs, T, eps, rho, a=None, C=0.0, Aval=None, Bval=None):
    import mpmath

    with mpmath.workdps(40):
        m = mpmath.mpf
        x = m(IS)
        s = mpmath.sqrt(x)
        tot, sc = m(0), m(0)
        for i, nu in enumerate(stoich):
            z = zs[i]
            if kind == "limiting":
                g = -m(Aval) * z * z * s
                g2 = abs(g)
            elif kind == "extended":
                t1, t2 = -m(Aval) * z * z * s / (1 + m(Bval) * m(a[i]) * s), m(C) * x
                g, g2 = t1 + t2, abs(t1) + abs(t2)
            else:
                t1, t2 = -m(Aval) * z * z * s / (1 + s), -m(Aval) * z * z * m(C) * x
                g, g2 = t1 + t2, abs(t1) + abs(t2)
            tot += nu * g
            sc += abs(nu) * g2
        return float(mpmath.exp(tot)), float(sc)


def _cmp_prod(res, site, mode, f, ref, sc, case):
    res.evaluations += 1
    res.transitions += 1
    key0 = "C18|%s|%s|" % (site, mode)
    try:
        got = float(f())
    except Exception as e:
        if ref == float("inf") and isinstance(e, OverflowError):
            res.extra["product_beyond_float_range"] = res.extra.get("product_beyond_float_range", 0) + 1
            return True  # the true value exceeds the float range: inf or OverflowError are both faithful
        res.violation(key0 + "raises", "%s %r raised %s: %s" % (site, case, type(e).__name__, str(e)[:100]), dict(case, k=key0 + "raises"),
                      "EXC %s" % type(e).__name__, ref)
        return False
    if got == ref:  # includes the overflow region where both are inf
        return True
    if ref:
        _mx(res, "max_product_relerr_over_1_plus_scale_x1e16", abs(got - ref) / abs(ref) / (1 + sc) * 1e16)
    if not abs(got - ref) <= abs(ref) * (TOL_P * (1 + sc)):
        res.violation(key0 + "not-exp-of-weighted-log-gammas", "%s %r = %r, exp(sum nu_i ln gamma_i) = %r" % (site, case, got, ref),
                      dict(case, k=key0 + "not-exp-of-weighted-log-gammas"), got, ref)
        return False
    return True


def _state_P(res, stoich, zs, count=True):
    from chempy import electrolytes as el

    n = len(stoich)
    a = list(P_a[:n])
    ok = True
    nst = 0
    for T, eps, rho in P_TER:
        Aval = float(el.A(eps, T, rho))  # validated against the definition in layer AB
        Bval = float(el.B(eps, T, rho))
        for IS in P_IS:
            base = dict(layer="P", stoich=list(stoich), zs=list(zs), T=T, eps=eps, rho=rho, IS=IS)
            for bn, be in (("numpy", None), ("math", math)):
                ref, sc = _ref_product("limiting", IS, stoich, zs, T, eps, rho, Aval=Aval)
                ok &= _cmp_prod(res, "limiting_activity_product", bn, lambda: el.limiting_activity_product(IS, stoich, zs, T, eps, rho, backend=be),
                                ref, sc, dict(base, fn="limiting", backend=bn))
                for C in P_C:
                    ref, sc = _ref_product("extended", IS, stoich, zs, T, eps, rho, a=a, C=C, Aval=Aval, Bval=Bval)
                    ok &= _cmp_prod(res, "extended_activity_product", bn,
                                    lambda: el.extended_activity_product(IS, stoich, zs, a, T, eps, rho, C, backend=be), ref, sc,
                                    dict(base, fn="extended", C=C, backend=bn))
                for C in (None, 0.1, 0, 0.0):  # an explicit zero is a value, not "use the default"
                    ref, sc = _ref_product("davies", IS, stoich, zs, T, eps, rho, C=-0.3 if C is None else C, Aval=Aval)
                    kw = {} if C is None else dict(C=C)
                    ok &= _cmp_prod(res, "davies_activity_product", bn,
                                    lambda: el.davies_activity_product(IS, stoich, zs, a, T, eps, rho, backend=be, **kw), ref, sc,
                                    dict(base, fn="davies", C=C, backend=bn))
            nst += 1
            if count:
                res.symbols["P:I=%r" % IS] += 1
        # the callable classes: I is computed from the molalities handed in
        for cs in ((0.01,) * n, tuple(0.001 * (i + 1) for i in range(n)), (0.0,) * n):
            IS = 0.5 * sum(c * z * z for c, z in zip(cs, zs))
            base = dict(layer="P", stoich=list(stoich), zs=list(zs), T=T, eps=eps, rho=rho, c=list(cs))
            ref, sc = _ref_product("limiting", IS, stoich, zs, T, eps, rho, Aval=Aval)
            ok &= _cmp_prod(res, "LimitingDebyeHuckelActivityProduct", "call",
                            lambda: el.LimitingDebyeHuckelActivityProduct(stoich, zs, T, eps, rho)(list(cs)), ref, sc, dict(base, fn="Lclass"))
            ref, sc = _ref_product("extended", IS, stoich, zs, T, eps, rho, a=a, C=0.0, Aval=Aval, Bval=Bval)
            ok &= _cmp_prod(res, "ExtendedDebyeHuckelActivityProduct", "call",
                            lambda: el.ExtendedDebyeHuckelActivityProduct(stoich, zs, a, T, eps, rho)(list(cs)), ref, sc, dict(base, fn="Eclass"))
            ref, sc = _ref_product("extended", IS, stoich, zs, T, eps, rho, a=a, C=0.1, Aval=Aval, Bval=Bval)
            ok &= _cmp_prod(res, "ExtendedDebyeHuckelActivityProduct", "call",
                            lambda: el.ExtendedDebyeHuckelActivityProduct(stoich, zs, a, T, eps, rho, 0.1)(list(cs)), ref, sc, dict(base, fn="EclassC"))
            # two products that differ (here only by the trailing C) are different keys of a memo table
            res.evaluations += 1
            try:
                pa, pb = el.ExtendedDebyeHuckelActivityProduct(stoich, zs, a, T, eps, rho), el.ExtendedDebyeHuckelActivityProduct(stoich, zs, a, T, eps, rho, 0.1)
                memo = {pa: "without C"}
                memo.setdefault(pb, "with C = 0.1")
                gotm = [memo[pb], bool(pa == pb), bool(pa != pb), pb in [pa]]
            except Exception as e:
                gotm = "EXC %s" % type(e).__name__
            if gotm != ["with C = 0.1", False, True, False]:
                ok = False
                key = "C18|ExtendedDebyeHuckelActivityProduct|distinct-products-taken-for-the-same"
                res.violation(key, "products built with and without C = 0.1 (%r, %r): [memo entry found for the second, ==, !=, in] = %r" % (stoich, zs, gotm), dict(base, fn="EclassMemo", k=key), gotm, ["with C = 0.1", False, True, False])
            nst += 1
    if count:
        res.states += nst
        if any(stoich):
            res.nontrivial += nst - len(P_TER) * 2  # I = 0 points are trivial (product 1)
        res.outcomes["P-%s" % ("ok" if ok else "VIOLATED") + ("-allzero" if not any(stoich) else "")] += 1
        for nu in stoich:
            res.symbols["nu=%+d" % nu] += 1
    return ok


# =============================================================================================== chunks
def run_chunk(chunk, tier):
    res = Result()
    b = bounds(tier)
    kind = chunk[0]
    if kind == "IL":
        for n in (8, 9, 10, 11, 13, 16, 17, 18, 19, 33, 40):
            for pattern in ("neutral-pairs", "all-cations", "ones"):
                _state_I_long(res, n, pattern)
        _state_I_decimal(res)
        res.sample(dict(layer="IL", lengths=[8, 9, 10, 11, 13, 16, 17, 18, 19, 33, 40]), limit=1)
    elif kind == "I":
        _, r, i0, j, J = chunk
        ions = _ions(b["ladders"][str(r)])
        for n, ms in enumerate(_multisets(ions, r, i0)):
            if n % J != j:
                continue
            _state_I(res, [x[0] for x in ms], [x[1] for x in ms])
    elif kind == "AB":
        _, i, i1 = chunk
        refpt = (b["eps"][0], b["T"][0], b["rho"][0])
        cache = {}
        for T in b["T"][i:i1]:
            for eps in b["eps"]:
                for rho in b["rho"]:
                    _state_AB(res, eps, T, rho, refpt, cache)
            res.symbols["T=%r" % T] += 1
    elif kind == "Gsym":
        _state_Gsym(res)
        res.sample(dict(layer="Gsym", functions=["limiting", "extended", "davies", "davies-defaultC", "extended-a0"]), limit=1)
    elif kind == "G":
        z = chunk[1]
        for IS in G_IS:
            for A in G_A:
                for I0 in G_I0:
                    _state_G(res, z, IS, A, I0)
        res.sample(dict(layer="G", z=z, points=len(G_IS) * len(G_A) * len(G_I0)), limit=1)
    elif kind == "Gu":
        z = chunk[1]
        for IS in G_IS:
            for a_nm in (0.0, 0.3, 0.9):
                _state_Gu(res, z, IS, a_nm)
        res.sample(dict(layer="Gu", z=z, I_molal=G_IS, a_nm=[0.0, 0.3, 0.9]), limit=1)
    elif kind == "P":
        _, n, j = chunk
        rng = range(-b["stoich_range"], b["stoich_range"] + 1)
        for t, stoich in enumerate(itertools.product(rng, repeat=n)):
            for zi, zs in enumerate(P_Z[n]):
                if n == 3 and zi != j:
                    continue
                _state_P(res, list(stoich), list(zs))
        res.sample(dict(layer="P", n=n, z_vectors=[list(x) for x in P_Z[n]]), limit=1)
    else:
        raise ValueError(chunk)
    return res


# =============================================================================================== replay
def replay(case):
    res = Result()
    layer = case["layer"]
    if layer == "IL":
        _state_I_long(res, case["n"], case["pattern"])
    elif layer == "ID":
        _state_I_decimal(res)
    elif layer == "I":
        _state_I(res, case["zs"], case["ks"], count=False)
    elif layer == "AB":
        _state_AB(res, case["eps"], case["T"], case["rho"], tuple(case["ref"]), {}, count=False)
    elif layer == "G":
        _state_G(res, case["z"], case["IS"], case["A"], case["I0"], count=False)
    elif layer == "Gu":
        _state_Gu(res, case["z"], case["IS"], case["a_nm"], count=False)
    elif layer == "Gsym":
        _state_Gsym(res, count=False)
    elif layer == "P":
        _state_P(res, case["stoich"], case["zs"], count=False)
    else:
        raise ValueError(case)
    want = case.get("k")
    vs = [v for v in res.violations if v["key"] == want] or res.violations
    if not vs and res.nviol:
        vs = res.violations
    if vs:
        v = vs[0]
        return dict(key=v["key"], what=v["what"], observed=v["observed"], expected=v["expected"])
    return None

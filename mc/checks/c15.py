"""C15 — structural queries on a reaction system match its reaction graph.

State space
  L  every ordered list (no repeats) of ≤ LMAX reactions from a pool of 14 over substances A..H (isomerisations,
     bimolecular steps, catalysts, inactive parts, reversible pairs, a duplicated reverse step, a reaction touching
     nothing else, isolated substances), each list under sorted and reversed substance order
  H  breadth-first search over operation histories: rs + [pool_j], rs + other_system, rs += ..., rs.subset(pred_k)[0|1],
     rs.split()[i]; depth D; a state is canonicalised by (reaction-id tuple, substance-key tuple)
  U  composed species over 2 elements × every state c ∈ {0,1,2}^ns (upper concentration bounds); array/dict helpers
Oracle: union–find components of the bipartite species/reaction graph, set/list algebra written from the statement.
"""
import itertools
from collections import OrderedDict

from mc.core import Result

META = dict(
    title="Structural queries on a reaction system match its reaction graph",
    level="model_checking",
    technique="bounded-exhaustive enumeration of all ordered reaction lists up to a length bound and explicit-state BFS over add/subset/split histories with canonical-state dedup on real ReactionSystem objects, compared in every state with a union-find / set-algebra reference model; complete lattice of concentration states for the elemental bounds",
    rule="states = distinct (ordered reaction list, substance order) pairs, BFS states and (system, concentration vector) lattice points; "
    "non-trivial = lists of >=2 reactions (grouping/fusing, pairing and category decisions depend on more than one reaction) and lattice points with a non-zero total",
    assumptions=["numpy is trusted", "lists longer than LMAX, histories deeper than D, more than 8 substances and concentration levels outside {0,1,2} are outside the bound"],
    design_ref="DESIGN.md §3 C15",
    hashseed_sensitive=True,
)

SUBS = list("ABCDEFGH")
# (reac, prod, inact_reac, inact_prod)
POOL = [
    ({"A": 1}, {"B": 1}, {}, {}),
    ({"B": 1}, {"A": 1}, {}, {}),
    ({"A": 1, "B": 1}, {"C": 1}, {}, {}),
    ({"C": 1}, {"D": 1}, {}, {}),
    ({"D": 1}, {"E": 2}, {}, {}),
    ({"E": 1}, {"F": 1}, {}, {}),
    ({"F": 1, "A": 1}, {"F": 1, "B": 1}, {}, {}),  # F is a catalyst
    ({"C": 2}, {"A": 1}, {"E": 1}, {"E": 1}),  # E only as an inactive spectator on both sides
    ({"B": 1}, {"B": 1, "D": 1}, {}, {}),
    ({"E": 1, "F": 1}, {"G": 1}, {}, {}),
    ({"G": 1}, {"E": 1, "F": 1}, {}, {}),
    ({"D": 1}, {"C": 1}, {"A": 1}, {}),  # A consumed only through an inactive coefficient
    ({"B": 1}, {"A": 1}, {}, {}),  # duplicate of #1 with another rate constant
    ({"G": 1}, {"G": 2}, {}, {}),
]
PARAMS = [2, 3, 5, 7, 11, 13, 17, 19, 23, 29, 31, 37, 41, 43]
PREDS = [
    ("order1", lambda r: r.order() == 1),
    ("touchesA", lambda r: "A" in r.keys()),
    ("has_inactive", lambda r: bool(r.inact_reac) or bool(r.inact_prod)),
    ("param_lt_10", lambda r: r.param < 10),
]


PREDS_TRUTHY = [  # predicates that answer with a truthy / falsy value that is not a bool
    ("n_CAB", lambda r: r.reac.get("C", 0) + r.reac.get("A", 0) + r.reac.get("B", 0)),  # 0, 1 or 2
    ("keys_in_AB", lambda r: set(r.keys()) & {"A", "B"}),
    ("half_if_order1", lambda r: 0.5 if r.order() == 1 else 0.0),
    ("name_or_None", lambda r: "x" if r.param > 10 else None),
]


def bounds(tier):
    return dict(LMAX=4 if tier == "quick" else 5, pool=len(POOL), substances=len(SUBS), bfs_depth=4 if tier == "quick" else 5, conc_levels=[0, 1, 2])


def chunks(tier):
    b = bounds(tier)
    out = []
    for first in range(len(POOL)):
        for order in ("sorted", "reversed"):
            out.append(("L", b["LMAX"], first, order))
    out += [("H", i, b["bfs_depth"]) for i in range(4)]
    out += [("U", i) for i in range(len(BOUND_SYSTEMS))] + [("A",)]
    out += [("EQ", i) for i in EQ_POOL] + [("AI",), ("MR",)]
    out += [("CH", n, k) for n in (5, 6) for k in range(4)] + [("CC", k) for k in range(len(CONCAT_SYSTEMS))]
    return out


# ------------------------------------------------------------------------------------------------ model
REV = 100  # index REV + i is the reverse of pool reaction i (all four parts change sides): the backward half of an equilibrium


def _entry(i):
    if i >= REV:
        r, p, ir, ip = POOL[i - REV]
        return p, r, ip, ir
    return POOL[i]


def keys_of(i):
    r, p, ir, ip = _entry(i)
    return set(r) | set(p) | set(ir) | set(ip)


def net_of(i, s):
    r, p, ir, ip = _entry(i)
    return p.get(s, 0) + ip.get(s, 0) - r.get(s, 0) - ir.get(s, 0)


def model_split(seq, subs):
    """set of (sorted positions, substance tuple in system order) — one per connected component"""
    par = {}

    def find(x):
        while par.setdefault(x, x) != x:
            par[x] = par[par[x]]
            x = par[x]
        return x

    for i in seq:
        ks = sorted(keys_of(i))
        for k in ks[1:]:
            par[find(k)] = find(ks[0])
    comps = {}
    for pos, i in enumerate(seq):
        comps.setdefault(find(sorted(keys_of(i))[0]), []).append(pos)
    out = set()
    for root, poss in comps.items():
        ks = set().union(*[keys_of(seq[p]) for p in poss])
        out.add((tuple(sorted(poss)), tuple(s for s in subs if s in ks)))
    return out


def model_categories(seq, subs):
    acc, dep, una, non = set(), set(), set(), set()
    for s in subs:
        nets = [net_of(i, s) for i in seq]
        appears = any(s in keys_of(i) for i in seq)
        neg, pos = any(n < 0 for n in nets), any(n > 0 for n in nets)
        if neg and pos:
            pass
        elif neg:
            dep.add(s)
        elif pos:
            acc.add(s)
        elif appears:
            una.add(s)
        else:
            non.add(s)
    return dict(accumulated=acc, depleted=dep, unaffected=una, nonparticipating=non)


def _all_reac(i):
    r, p, ir, ip = _entry(i)
    return {k: r.get(k, 0) + ir.get(k, 0) for k in set(r) | set(ir)}


def _all_prod(i):
    r, p, ir, ip = _entry(i)
    return {k: p.get(k, 0) + ip.get(k, 0) for k in set(p) | set(ip)}


def model_equilibria(seq, subs):
    """each reaction is paired with the first later reaction that is its exact reverse (over the system's substances:
    a system built with checks=() may contain a reaction with a key that is not one of its substances)"""
    eq = []
    R = lambda i: {k: v for k, v in _all_reac(i).items() if k in subs}
    P = lambda i: {k: v for k, v in _all_prod(i).items() if k in subs}
    for a in range(len(seq)):
        for b in range(a + 1, len(seq)):
            if R(seq[a]) == P(seq[b]) and P(seq[a]) == R(seq[b]):
                eq.append((a, b))
                break
    return eq


def mk_rxn(i):
    from chempy import Reaction

    r, p, ir, ip = POOL[i]
    return Reaction(r, p, PARAMS[i], inact_reac=ir, inact_prod=ip, checks=())


def mk_sys(seq, subs, rx=None):
    from chempy import ReactionSystem

    rx = rx or {}
    return ReactionSystem([rx.get(i) or mk_rxn(i) for i in seq], OrderedDict((s, _subst(s)) for s in subs), checks=())


_SUBST = {}


def _subst(s):
    from chempy import Substance

    if s not in _SUBST:
        _SUBST[s] = Substance(s)
    return _SUBST[s]


def ids_of(rs, rx):
    """reaction ids of a real system (by object identity first, then by equality incl. param)"""
    out = []
    for r in rs.rxns:
        for i, q in rx.items():
            if r is q:
                out.append(i)
                break
        else:
            for i, q in rx.items():
                if r == q:
                    out.append(i)
                    break
            else:
                out.append(None)
    return tuple(out)


# ------------------------------------------------------------------------------------------------ queries
def check_queries(res, rs, seq, subs, case, light=False):
    """compare every structural query of the real system `rs` with the model of (seq, subs)"""
    rx = {i: r for i, r in zip(seq, rs.rxns)}
    bad = []

    def cmp(name, got, exp):
        res.evaluations += 1
        if got != exp:
            bad.append((name, got, exp))

    # split
    try:
        parts = rs.split(checks=())
        got = set()
        for part in parts:
            poss = tuple(sorted(p for p, r in enumerate(rs.rxns) if any(r is q for q in part.rxns)))
            got.add((poss, tuple(part.substances)))
        if len(parts) != len(got) or sum(len(p.rxns) for p in parts) != len(seq):
            got = ("not a partition", sorted(got))
    except Exception as e:
        got = "EXC %s" % type(e).__name__
    cmp("split", got, model_split(seq, subs))
    # categorize
    try:
        got = rs.categorize_substances(checks=())
    except Exception as e:
        got = "EXC %s" % type(e).__name__
    cmp("categorize_substances", got, model_categories(seq, subs))
    if not light:
        # keyword arguments are handed on to the temporary system the categories are computed on: they must not change the answer
        try:
            got = rs.categorize_substances(checks=(), sort_substances=True)
        except Exception as e:
            got = "EXC %s" % type(e).__name__
        cmp("categorize_substances:sort_substances=True", got, model_categories(seq, subs))
    # forward/backward pairs
    try:
        got = [tuple(p) for p in rs.identify_equilibria()]
    except Exception as e:
        got = "EXC %s" % type(e).__name__
    cmp("identify_equilibria", got, model_equilibria(seq, subs))
    if not light:
        for s in subs:
            try:
                got = list(rs.substance_participation(s))
            except Exception as e:
                got = "EXC %s" % type(e).__name__
            cmp("substance_participation", got, [p for p, i in enumerate(seq) if s in keys_of(i)])
            try:
                got = dict(rs.per_reaction_effect_on_substance(s))
            except Exception as e:
                got = "EXC %s" % type(e).__name__
            cmp("per_reaction_effect_on_substance", got, {p: net_of(i, s) for p, i in enumerate(seq) if net_of(i, s) != 0})
        for pname, pred in PREDS + PREDS_TRUTHY:
            try:
                yes, no = rs.subset(pred)
                got = [(ids_of(x, rx), tuple(x.substances)) for x in (yes, no)]
            except Exception as e:
                got = "EXC %s" % type(e).__name__
            exp = []
            for want in (True, False):
                sel = [i for i in seq if bool(pred(rx[i])) == want]
                ks = set().union(*[keys_of(i) for i in sel]) if sel else set()
                exp.append((tuple(sel), tuple(s for s in subs if s in ks)))
            cmp("subset:" + pname, got, exp)
    for name, got, exp in bad:
        res.violation("C15|%s|mismatch" % name.split(":")[0], "system %r (substances %s): %s = %r, reaction graph says %r" % (list(seq), "".join(subs), name, got, exp), dict(case, query=name), got, exp)
    res.outcomes["queries-ok" if not bad else "queries-WRONG"] += 1
    return not bad


# ------------------------------------------------------------------------------------------------ layers
def run_lists(res, LMAX, first, order):
    subs = SUBS if order == "sorted" else SUBS[::-1]
    others = [i for i in range(len(POOL)) if i != first]
    for n in range(1, LMAX + 1):
        for rest in itertools.permutations(others, n - 1):
            seq = (first,) + rest
            res.states += 1
            res.transitions += n
            if n >= 2:
                res.nontrivial += 1
            rs = mk_sys(seq, subs)
            check_queries(res, rs, seq, subs, dict(layer="L", seq=list(seq), order=order), light=(n == LMAX and LMAX >= 5))
            ncomp = len(model_split(seq, subs))
            res.outcomes["components=%d" % ncomp] += 1
            if res.states % 499 == 1:
                res.sample(dict(layer="L", reactions=[_rxn_text(i) for i in seq], components=ncomp, categories={k: sorted(v) for k, v in model_categories(seq, subs).items()}), limit=1)
    res.symbols["first=%d" % first] += 1


def _rxn_text(i):
    r, p, ir, ip = POOL[i]
    f = lambda d: " + ".join(("%d " % v if v != 1 else "") + k for k, v in sorted(d.items()))
    return "%s%s -> %s%s" % (f(r), (" + (%s)" % f(ir)) if ir else "", f(p), (" + (%s)" % f(ip)) if ip else "")


BFS_STARTS = [((0, 3), "ABCD"), ((2, 9, 13), "HGFEDCBA"), ((7,), "ACE"), ((5, 10, 1), "ABEFG")]


OTHER_SYSTEMS = [((4, 5), tuple("DEF")), ((12, 6), tuple("FBA"))]


def _build(start_idx, hist):
    """a fresh real system (fresh Reaction and Substance objects) reached by replaying `hist` from the start state, with
    the model advanced in lock-step: nothing is shared between two states of the search, so every observation depends
    on the state's own history only and is reproduced by replaying that history"""
    seq, subs = BFS_STARTS[start_idx]
    subs = tuple(subs)
    _SUBST.clear()
    rx = {i: mk_rxn(i) for i in range(len(POOL))}
    obj = mk_sys(seq, subs, rx)
    for op in hist:
        obj, seq, subs = _apply(obj, seq, subs, op, rx, OTHER_SYSTEMS)
    return obj, seq, subs, rx


def _ops_of(seq, subs):
    ops = []
    for j in (1, 3, 8, 11, 12):
        if j not in seq:
            ops.append(("add_rxn", j))
    for oi, (oseq, osubs) in enumerate(OTHER_SYSTEMS):
        if not set(oseq) & set(seq):
            ops.append(("add_sys", oi))
            ops.append(("iadd_sys", oi))
    for pi in range(len(PREDS)):
        ops.append(("subset", pi, 0))
        ops.append(("subset", pi, 1))
    ncomp = len(model_split(seq, subs)) if seq else 0
    for ci in range(min(ncomp, 3)):
        ops.append(("split", ci))
    return ops


def check_transition(res, start_idx, hist, op, light=False):
    """rebuild the parent from its history, apply one operation, compare result and operand with the model;
    returns the model state of the successor or None"""
    h2 = hist + (op,)
    case = dict(layer="H", start=start_idx, hist=[list(o) for o in h2])
    obj, seq, subs, rx = _build(start_idx, hist)
    try:
        new, mseq, msubs = _apply(obj, seq, subs, op, rx, OTHER_SYSTEMS)
    except Exception as e:
        res.outcomes["op-raises"] += 1
        res.violation("C15|%s|raises" % op[0], "history %r raised %s" % (h2, type(e).__name__), case, "EXC %s" % type(e).__name__, None)
        return None
    res.evaluations += 1
    now = (ids_of(obj, rx), tuple(obj.substances))
    if now != (seq, subs):
        res.outcomes["OPERAND-mutated"] += 1
        res.violation("C15|%s|operand-mutated" % op[0], "history %r: the operation changed the system it was applied to: %r, was %r" % (h2, now, (seq, subs)), dict(case, query="operand"), now, (seq, subs))
    if not mseq:
        res.outcomes["empty-system"] += 1
        return None
    res.evaluations += 1
    got = (ids_of(new, rx), tuple(new.substances))
    if got != (mseq, msubs):
        res.outcomes["op-WRONG"] += 1
        res.violation("C15|%s|result" % op[0], "history %r from %r gives reactions/substances %r, definition says %r" % (h2, BFS_STARTS[start_idx], got, (mseq, msubs)), case, got, (mseq, msubs))
        return None
    # operating on the successor must not reach back into the operand either (aliased containers):
    if op[0] in ("add_rxn", "add_sys", "subset", "split"):
        try:
            new += [rx[13]] if 13 not in mseq else []
            new.substances["Zz"] = _subst("Zz")
        except Exception:
            pass
        now = (ids_of(obj, rx), tuple(obj.substances))
        if now != (seq, subs):
            res.outcomes["OPERAND-aliased"] += 1
            res.violation("C15|%s|result-aliases-operand" % op[0], "history %r: extending the result changed the operand: %r, was %r" % (h2, now, (seq, subs)), dict(case, query="alias"), now, (seq, subs))
    return mseq, msubs


def run_bfs(res, start_idx, depth):
    """explicit-state search over histories; a state is the history reaching it, canonicalised by the model state
    (reaction-id tuple, substance tuple); every transition rebuilds fresh real objects from the history"""
    seq0, subs0 = BFS_STARTS[start_idx]
    subs0 = tuple(subs0)
    seen = {(seq0, subs0): ()}
    frontier = [((seq0, subs0), ())]
    res.states += 1
    for d in range(depth):
        nxt = []
        for (seq, subs), hist in frontier:
            for op in _ops_of(seq, subs):
                res.transitions += 1
                res.symbols[op[0]] += 1
                k = check_transition(res, start_idx, hist, op)
                if k is None:
                    continue
                h2 = hist + (op,)
                if k in seen:
                    res.dedup_hits += 1
                    continue
                seen[k] = h2
                res.states += 1
                res.nontrivial += 1
                new, mseq, msubs, rx = _build(start_idx, h2)
                check_queries(res, new, mseq, msubs, dict(layer="H", start=start_idx, hist=[list(o) for o in h2]))
                nxt.append((k, h2))
                if res.states % 97 == 1:
                    res.sample(dict(layer="H", history=[list(o) for o in h2], reactions=list(mseq), substances="".join(msubs)), limit=2)
        frontier = nxt
    res.extra["max_depth"] = depth


def _apply(obj, seq, subs, op, rx, other_systems):
    if op[0] == "add_rxn":
        new = obj + [rx[op[1]]]
        return new, seq + (op[1],), subs
    if op[0] in ("add_sys", "iadd_sys"):
        oseq, osubs = other_systems[op[1]]
        other = mk_sys(oseq, osubs, rx)
        msubs = subs + tuple(s for s in osubs if s not in subs)
        if op[0] == "add_sys":
            return obj + other, seq + oseq, msubs
        import copy

        new = mk_sys(seq, subs, rx)  # += mutates: work on a fresh equal object, not on the shared parent
        assert new == obj
        new += other
        return new, seq + oseq, msubs
    if op[0] == "subset":
        pname, pred = PREDS[op[1]]
        new = obj.subset(pred)[op[2]]
        sel = tuple(i for i in seq if bool(pred(rx[i])) == (op[2] == 0))
        ks = set().union(*[keys_of(i) for i in sel]) if sel else set()
        return new, sel, tuple(s for s in subs if s in ks)
    if op[0] == "split":
        parts = obj.split(checks=())
        comps = sorted(model_split(seq, subs))
        # parts come in order of their first reaction
        comps.sort(key=lambda c: c[0][0])
        poss, csubs = comps[op[1]]
        # pick the real part that contains the first reaction of this component
        first = rx[seq[poss[0]]]
        new = [p for p in parts if any(r is first for r in p.rxns)][0]
        mseq = tuple(seq[p] for p in poss)
        real_ids = ids_of(new, rx)
        if sorted(real_ids, key=lambda x: (x is None, x)) == sorted(mseq):
            mseq = real_ids  # order inside a part is not specified by the statement: adopt the implementation's
        return new, mseq, csubs
    raise ValueError(op)


# composed species for the elemental upper bound
BOUND_SYSTEMS = [
    [("X", {1: 1}), ("Y", {2: 1}), ("XY", {1: 1, 2: 1}), ("X2Y", {1: 2, 2: 1})],
    [("X2", {1: 2}), ("XY3", {1: 1, 2: 3}), ("Y+", {2: 1, 0: 1}), ("e-", {0: -1}), ("X", {1: 1})],
    [("XY", {1: 1, 2: 1}), ("X3", {1: 3}), ("Y2", {2: 2})],
    # hand-written compositions with the charge key written first or between the elements
    [("X+", {0: 1, 1: 1}), ("XY-", {1: 1, 0: -1, 2: 1}), ("Y2", {2: 2}), ("X2Y+2", {0: 2, 1: 2, 2: 1})],
]


def run_bounds(res, idx):
    from chempy import ReactionSystem, Substance
    import numpy as np

    spec = BOUND_SYSTEMS[idx]
    subst = OrderedDict((n, Substance(n, composition=dict(c))) for n, c in spec)
    rs = ReactionSystem([], subst, checks=())
    names = [n for n, c in spec]
    lattice = list(itertools.product((0, 1, 2), repeat=len(spec)))
    totals_of = lambda c: tuple(sum(ci * comp.get(k, 0) for ci, (n, comp) in zip(c, spec)) for k in (1, 2))
    by_tot = {}
    for c in lattice:
        by_tot.setdefault(totals_of(c), []).append(c)
    for c in lattice:
        res.states += 1
        res.transitions += 1
        res.evaluations += 1
        tot = totals_of(c)
        if any(tot):
            res.nontrivial += 1
        exp = []
        for n, comp in spec:
            cands = [tot[k - 1] / comp[k] for k in (1, 2) if comp.get(k)]
            exp.append(min(cands) if cands else float("inf"))
        try:
            got = [float(x) for x in rs.upper_conc_bounds(dict(zip(names, c)))]
        except Exception as e:
            got = "EXC %s" % type(e).__name__
        ok = got == exp
        if ok:  # no non-negative lattice state with the same element totals exceeds the bound
            for c2 in by_tot[tot]:
                if any(x > b + 1e-12 for x, b in zip(c2, got)):
                    ok = False
        if ok:
            # the same state handed in as an array (substance order) of other number types and magnitudes: the bound is the one of the
            # numbers the array holds
            for tname, arr in (("float32*0.1", np.array(c, dtype=np.float32) * np.float32(0.1)), ("float64*0.1", np.array(c, dtype=np.float64) * 0.1),
                               ("int16*15000", np.array(c, dtype=np.int16) * np.int16(15000)), ("int64*15000", np.array(c, dtype=np.int64) * 15000),
                               ("uint8*100", np.array(c, dtype=np.uint8) * np.uint8(100)), ("list*0.1", [0.1 * x for x in c])):
                res.evaluations += 1
                vals = [float(x) for x in arr]
                tot2 = tuple(sum(v * comp.get(k, 0) for v, (n, comp) in zip(vals, spec)) for k in (1, 2))
                exp2 = []
                for n, comp in spec:
                    cands = [tot2[k - 1] / comp[k] for k in (1, 2) if comp.get(k)]
                    exp2.append(min(cands) if cands else float("inf"))
                try:
                    got2 = [float(x) for x in rs.upper_conc_bounds(arr)]
                except Exception as e:
                    got2 = "EXC %s" % type(e).__name__
                if isinstance(got2, str) or any(abs(g - e) > 1e-12 * abs(e) if e != float("inf") else g != e for g, e in zip(got2, exp2)):
                    res.outcomes["bounds-array-WRONG"] += 1
                    res.violation("C15|upper_conc_bounds|value|array-%s" % tname.split("*")[0], "upper_conc_bounds(%s array %r) = %r, least (element total)/(atoms per molecule) = %r" % (tname, vals, got2, exp2),
                                  dict(layer="U", idx=idx, c=list(c)), got2, exp2)
                else:
                    res.outcomes["bounds-array-ok"] += 1
        res.outcomes["bounds-ok" if ok else "bounds-WRONG"] += 1
        if not ok:
            res.violation("C15|upper_conc_bounds|value", "upper_conc_bounds(%r) = %r, least (element total)/(atoms per molecule) = %r" % (dict(zip(names, c)), got, exp), dict(layer="U", idx=idx, c=list(c)), got, exp)
    res.sample(dict(layer="U", species=names, lattice=len(lattice)))


def run_arrays(res):
    import numpy as np

    for seq, subs in (((0, 3), tuple("ABCD")), ((2, 9), tuple("GFECBA")), ((7, 11), tuple("EDCA"))):
        rs = mk_sys(seq, subs)
        for vals in itertools.permutations([2, 3, 5, 7, 11, 13][: len(subs)]):
            res.states += 1
            res.transitions += 1
            res.evaluations += 4
            res.nontrivial += 1
            d = dict(zip(sorted(subs), vals))
            bad = []
            try:
                arr = rs.as_per_substance_array(d)
                if list(arr) != [d[s] for s in subs]:
                    bad.append(("as_per_substance_array", list(arr)))
                # the same mapping as OrderedDict (insertion order = sorted names, not substance order), defaultdict and Counter
                import collections

                dd = collections.defaultdict(float)
                dd.update(d)
                for tname, dv in (("OrderedDict", collections.OrderedDict(sorted(d.items()))), ("reversed-OrderedDict", collections.OrderedDict(sorted(d.items(), reverse=True))),
                                  ("defaultdict", dd), ("Counter", collections.Counter(d))):
                    if list(rs.as_per_substance_array(dv)) != [d[s] for s in subs]:
                        bad.append(("as_per_substance_array[%s]" % tname, list(rs.as_per_substance_array(dv))))
                back = rs.as_per_substance_dict(arr)
                if back != d or list(back) != list(subs):
                    bad.append(("as_per_substance_dict", back))
                if [rs.as_substance_index(s) for s in subs] != list(range(len(subs))):
                    bad.append(("as_substance_index", [rs.as_substance_index(s) for s in subs]))
                vk = subs[-1], subs[0]
                out, keys = rs.per_substance_varied(d, {vk[0]: [17, 19], vk[1]: [23, 29, 31]})
                okv = tuple(keys) == tuple(s for s in subs if s in vk) and out.shape == tuple(len({vk[0]: [17, 19], vk[1]: [23, 29, 31]}[k]) for k in keys) + (len(subs),)
                if okv:
                    for i0, i1 in itertools.product(range(out.shape[0]), range(out.shape[1])):
                        e = dict(d)
                        lv = {vk[0]: [17, 19], vk[1]: [23, 29, 31]}
                        e[keys[0]] = lv[keys[0]][i0]
                        e[keys[1]] = lv[keys[1]][i1]
                        if list(out[i0, i1]) != [e[s] for s in subs]:
                            okv = False
                if not okv:
                    bad.append(("per_substance_varied", keys))
            except Exception as e:
                bad.append(("EXC", type(e).__name__))
            if not bad:
                # the same system after its substances were re-ordered in place: every conversion follows the new order
                try:
                    rs.sort_substances_inplace(key=lambda kv: -ord(kv[0]) if subs[0] < subs[-1] else ord(kv[0]))
                    subs2 = tuple(rs.substances)
                    if list(rs.as_per_substance_array(d)) != [d[s] for s in subs2] or [rs.as_substance_index(s) for s in subs2] != list(range(len(subs2))):
                        bad.append(("as_substance_index/array after sort_substances_inplace", [rs.as_substance_index(s) for s in subs2]))
                    out2, keys2 = rs.per_substance_varied(d, {subs2[0]: [17, 19]})
                    if [list(r) for r in out2] != [[17 if s == subs2[0] else d[s] for s in subs2], [19 if s == subs2[0] else d[s] for s in subs2]]:
                        bad.append(("per_substance_varied after sort_substances_inplace", [list(r) for r in out2]))
                    rs.sort_substances_inplace(key=lambda kv: subs.index(kv[0]))
                except Exception as e:
                    bad.append(("EXC after sort_substances_inplace", type(e).__name__))
            res.outcomes["arrays-ok" if not bad else "arrays-WRONG"] += 1
            if bad:
                res.violation("C15|%s|order" % bad[0][0], "per-substance conversion %r on substances %r with %r" % (bad, subs, d), dict(layer="A", seq=list(seq), subs="".join(subs), vals=list(vals)), bad, None)
        # containers of the wrong length are refused (ValueError), whatever their type: they cannot be converted "in substance order"
        ns = len(subs)
        for n in (ns - 1, ns + 1):
            for tname, make in (("list", list), ("tuple", tuple), ("ndarray-int", lambda v: np.array(v)), ("ndarray-float64", lambda v: np.array(v, dtype=np.float64)),
                                ("ndarray-float32", lambda v: np.array(v, dtype=np.float32))):
                res.states += 1
                res.transitions += 1
                res.evaluations += 1
                res.nontrivial += 1
                vals = [2, 3, 5, 7, 11, 13, 17][:n]
                try:
                    got = "accepted: %r" % (list(rs.as_per_substance_array(make(vals))),)
                except ValueError:
                    got = "ValueError"
                except Exception as e:
                    got = "EXC %s" % type(e).__name__
                res.outcomes["arrays-wrong-length:%s" % ("refused" if got == "ValueError" else "NOT-REFUSED")] += 1
                if got != "ValueError":
                    res.violation("C15|as_per_substance_array|wrong-length-accepted", "as_per_substance_array(%s of length %d) on %d substances %r: %s" % (tname, n, ns, subs, got),
                                  dict(layer="A", seq=list(seq), subs="".join(subs), vals=None, wrong=[tname, n]), got, "ValueError")
    res.sample(dict(layer="A", example="as_per_substance_array({'A': 2, ...}) in substance order 'GFECBA'"))


def run_containers(res):
    """the substances handed in as tuple / list / str / OrderedDict / tuple of Substance objects, with the sorting switch left out, off
    and on: left out or off the substance order is the given one, on it is sorted; every conversion follows it"""
    from chempy import ReactionSystem, Substance

    for order in ("GFECBA", "BAC", "CAB", "ACB"):
        rxns = [mk_rxn(0)] if "G" not in order else [mk_rxn(0), mk_rxn(9)]
        conts = [("tuple", lambda: tuple(order)), ("list", lambda: list(order)), ("str", lambda: " ".join(order)),
                 ("OrderedDict", lambda: OrderedDict((s_, Substance(s_)) for s_ in order)), ("tuple-of-Substance", lambda: tuple(Substance(s_) for s_ in order))]
        for (cname, make), (kname, kw) in itertools.product(conts, (("left out", {}), ("False", dict(sort_substances=False)), ("True", dict(sort_substances=True)))):
            res.states += 1
            res.transitions += 1
            res.evaluations += 1
            res.nontrivial += 1
            exp = sorted(order) if kname == "True" else list(order)
            d = {s_: 2 + i for i, s_ in enumerate(sorted(order))}
            try:
                rs = ReactionSystem(rxns, make(), checks=(), **kw)
                got = [list(rs.substances), list(rs.as_per_substance_array(d)), list(rs.as_per_substance_dict([d[s_] for s_ in exp]).items()), [rs.as_substance_index(s_) for s_ in exp]]
            except Exception as e:
                got = "EXC %s" % type(e).__name__
            want = [exp, [d[s_] for s_ in exp], [(s_, d[s_]) for s_ in exp], list(range(len(exp)))]
            res.outcomes["containers-%s" % ("ok" if got == want else "WRONG")] += 1
            if got != want:
                res.violation("C15|ReactionSystem|substance-order|%s|sort_substances %s" % (cname, kname), "ReactionSystem(..., substances as %s %r, sort_substances %s): [substances, array of %r, dict, indices] = %r, expected %r" % (
                    cname, order, kname, d, got, want), dict(layer="A", seq=None, subs=order, vals=None, container=[cname, kname]), got, want)


def run_chains(res, n, k):
    """a path of n isomerisations X0-X1-...-Xn listed in EVERY order: one component whatever the order (the grouping in
    split is greedy and must keep fusing until nothing is left to fuse)"""
    from chempy import Reaction, ReactionSystem

    names = [chr(ord("A") + i) for i in range(n + 1)]
    perms = list(itertools.permutations(range(n)))
    for pi in range(k, len(perms), 4):
        perm = perms[pi]
        res.states += 1
        res.transitions += n
        res.nontrivial += 1
        res.evaluations += 1
        case = dict(layer="CH", n=n, perm=list(perm))
        try:
            rs = ReactionSystem([Reaction({names[e]: 1}, {names[e + 1]: 1}, e + 2) for e in perm], names, checks=())
            parts = rs.split(checks=())
            got = sorted((sorted(str(r) for r in p.rxns), list(p.substances)) for p in parts)
        except Exception as e:
            got = "EXC %s" % type(e).__name__
        ok = isinstance(got, list) and len(got) == 1 and len(got[0][0]) == n and got[0][1] == names
        res.outcomes["chain-ok" if ok else "chain-WRONG"] += 1
        if not ok:
            res.violation("C15|split|mismatch|chain", "the chain %s listed in order %r splits into %r; it is one connected component" % ("-".join(names), list(perm), got), case, got, "one sub-system")
    res.sample(dict(layer="CH", chain="-".join(names), orders=len(perms)))


CONCAT_SYSTEMS = [((0, 3), "ABCD"), ((1, 2), "ABC"), ((12, 4), "ABDE"), ((0, 5, 7), "ABCEF"), ((3, 8, 1), "ABCD")]


def run_add_iterables(res):
    """rsys + <iterable of reactions> for every kind of iterable (list, tuple, iterator, generator, map, reversed, dict view): the
    sum holds the system's reactions followed by the added ones, and the operand system is unchanged"""
    kinds = [("list", list), ("tuple", tuple), ("iterator", iter), ("generator", lambda x: (y for y in x)), ("map", lambda x: map(lambda y: y, x)),
             ("reversed-twice", lambda x: reversed(list(reversed(x)))), ("dict-values", lambda x: dict(enumerate(x)).values())]
    for seq, subs in (((0, 3), tuple("ABCD")), ((2, 9), tuple("ABCEFG"))):
        for add in ((1,), (4, 5), (6, 8, 13)):
            for kname, mk in kinds:
                res.states += 1
                res.transitions += 1
                res.evaluations += 1
                res.nontrivial += 1
                case = dict(layer="AI", seq=list(seq), add=list(add), kname=kname)
                try:
                    rx = {i: mk_rxn(i) for i in range(len(POOL))}
                    rs = mk_sys(seq, subs, rx)
                    tot = rs + mk([rx[i] for i in add])
                    got = (ids_of(tot, rx), ids_of(rs, rx))
                    # the in-place form with the same kind of operand extends the system itself
                    rs2 = mk_sys(seq, subs, rx)
                    rs2 += mk([rx[i] for i in add])
                    if ids_of(rs2, rx) != tuple(seq) + tuple(add):
                        got = ("+= gave %r" % (ids_of(rs2, rx),), got[1])
                except Exception as e:
                    got = "EXC %s" % type(e).__name__
                exp = (tuple(seq) + tuple(add), tuple(seq))
                res.outcomes["add-iterable-ok" if got == exp else "add-iterable-WRONG"] += 1
                if got != exp:
                    res.violation("C15|__add__|iterable-operand|%s" % kname, "system %r + <%s of reactions %r> holds %r (the operand afterwards %r); expected %r" % (
                        list(seq), kname, list(add), got[0] if isinstance(got, tuple) else got, got[1] if isinstance(got, tuple) else None, exp), case, got, exp)
    res.sample(dict(layer="AI", kinds=[k for k, _ in kinds]))


def run_many_reactions(res, nblocks):
    """systems of 3*nblocks reactions (up to 60): blocks of a catalysed step A_i + C -> B_i + C, the plain step A_i -> B_i and
    its reverse B_i -> A_i.  Only the plain step and its reverse are forward/backward pairs; no A_i or B_i is only produced or
    only consumed; the catalyst takes part in every block's first reaction with zero net effect"""
    from chempy import Reaction, ReactionSystem, Substance

    rxns, names = [], ["C"]
    for i in range(nblocks):
        a, b = "A%02d" % i, "B%02d" % i
        names += [a, b]
        rxns += [Reaction({a: 1, "C": 1}, {b: 1, "C": 1}, 2, checks=()), Reaction({a: 1}, {b: 1}, 3, checks=()), Reaction({b: 1}, {a: 1}, 5, checks=())]
    case = dict(layer="MR", nblocks=nblocks)
    res.states += 1
    res.transitions += len(rxns)
    res.evaluations += 3
    res.nontrivial += 1
    bad = []
    try:
        rs = ReactionSystem(rxns, OrderedDict((n, Substance(n)) for n in names), checks=())
        got = [tuple(p) for p in rs.identify_equilibria()]
        exp = [(3 * i + 1, 3 * i + 2) for i in range(nblocks)]
        if got != exp:
            bad.append(("identify_equilibria", got, exp))
        cat = rs.categorize_substances(checks=())
        expc = dict(accumulated=set(), depleted=set(), unaffected={"C"}, nonparticipating=set())
        if cat != expc:
            bad.append(("categorize_substances", cat, expc))
        part = list(rs.substance_participation("C"))
        if part != [3 * i for i in range(nblocks)]:
            bad.append(("substance_participation", part, [3 * i for i in range(nblocks)]))
        parts = rs.split(checks=())
        if len(parts) != 1 or len(parts[0].rxns) != len(rxns):
            bad.append(("split", [len(p.rxns) for p in parts], [len(rxns)]))
    except Exception as e:
        bad.append(("EXC", type(e).__name__, None))
    res.outcomes["many-reactions-ok" if not bad else "many-reactions-WRONG"] += 1
    for name, got, exp in bad:
        res.violation("C15|%s|mismatch|many-reactions" % name, "%d-reaction system of catalysed / plain / reverse blocks: %s = %r, reaction graph says %r" % (len(rxns), name, got if not isinstance(got, list) or len(got) < 12 else got[:12], exp if not isinstance(exp, list) or len(exp) < 12 else exp[:12]),
                      dict(case, query=name), repr(got)[:400], repr(exp)[:400])


def run_concat(res, first):
    """ReactionSystem.concatenate over every ordered selection of 2-4 of five small systems that share stoichiometries:
    (sum, duplicates) against the definition (a reaction whose four stoichiometry dicts equal those of a reaction already
    in the sum when its system is processed goes to the duplicates)"""
    from chempy import ReactionSystem

    others = [i for i in range(len(CONCAT_SYSTEMS)) if i != first]
    for n in (2, 3, 4):
        for rest in itertools.permutations(others, n - 1):
            sel = (first,) + rest
            res.states += 1
            res.transitions += n
            res.nontrivial += 1
            res.evaluations += 1
            case = dict(layer="CC", sel=list(sel))
            _SUBST.clear()
            rx = {i: mk_rxn(i) for i in range(len(POOL))}
            systems = [mk_sys(CONCAT_SYSTEMS[i][0], tuple(CONCAT_SYSTEMS[i][1]), rx) for i in sel]
            stoich = lambda i: POOL[i]
            msum = list(CONCAT_SYSTEMS[sel[0]][0])
            mskip = []
            for i in sel[1:]:
                cur = list(msum)
                for r in CONCAT_SYSTEMS[i][0]:
                    (mskip if any(stoich(r) == stoich(q) for q in cur) else msum).append(r)
            try:
                tot, dup = ReactionSystem.concatenate(systems)
                got = (ids_of(tot, rx), ids_of(dup, rx))
            except Exception as e:
                got = "EXC %s" % type(e).__name__
            exp = (tuple(msum), tuple(mskip))
            res.outcomes["concat-ok" if got == exp else "concat-WRONG"] += 1
            if got != exp:
                res.violation("C15|concatenate|sum-and-duplicates", "concatenate(%r) = (sum %r, duplicates %r); by the definition %r" % ([CONCAT_SYSTEMS[i][0] for i in sel], got[0] if isinstance(got, tuple) else got, got[1] if isinstance(got, tuple) else None, exp), case, got, exp)
    res.sample(dict(layer="CC", first=list(CONCAT_SYSTEMS[first][0])))


EQ_POOL = [0, 2, 3, 4, 6, 7, 8, 9, 11, 13]  # pool reactions written as equilibria (7 and 11 carry inactive parts)


def run_equilibria(res, first):
    """systems assembled from equilibria expanded into their forward and backward reactions (Equilibrium.as_reactions):
    the backward half has every part on the other side, so each pair is recognised as an equilibrium and no species of
    an equilibrium is only produced or only consumed"""
    from chempy import Equilibrium, ReactionSystem

    others = [j for j in EQ_POOL if j != first]
    for sel in [(first,)] + [(first, j) for j in others] + [(j, first) for j in others]:
        for order in ("sorted", "reversed"):
            subs = SUBS if order == "sorted" else SUBS[::-1]
            seq = tuple(x for i in sel for x in (i, REV + i))
            case = dict(layer="EQ", sel=list(sel), order=order)
            res.states += 1
            res.transitions += len(seq)
            res.nontrivial += 1
            try:
                rxns = []
                for i in sel:
                    r, p, ir, ip = POOL[i]
                    rxns += list(Equilibrium(r, p, 4, inact_reac=ir, inact_prod=ip, checks=()).as_reactions(kf=PARAMS[i], checks=()))
                rs = ReactionSystem(rxns, OrderedDict((s_, _subst(s_)) for s_ in subs), checks=())
            except Exception as e:
                res.violation("C15|as_reactions|raises", "equilibria %r expanded into reactions: %s: %s" % (list(sel), type(e).__name__, e), case, "EXC %s" % type(e).__name__, None)
                continue
            check_queries(res, rs, seq, subs, case, light=len(sel) > 1)
    res.sample(dict(layer="EQ", first=_rxn_text(first), systems="this equilibrium alone and with every other one, both listing orders, expanded with as_reactions"))


def run_chunk(chunk, tier):
    res = Result()
    if chunk[0] == "AI":
        run_add_iterables(res)
    elif chunk[0] == "MR":
        for nblocks in (3, 13, 14, 15, 20):
            run_many_reactions(res, nblocks)
        res.sample(dict(layer="MR", reactions=[9, 39, 42, 45, 60]))
    elif chunk[0] == "EQ":
        run_equilibria(res, chunk[1])
    elif chunk[0] == "CH":
        run_chains(res, chunk[1], chunk[2])
    elif chunk[0] == "CC":
        run_concat(res, chunk[1])
    elif chunk[0] == "L":
        run_lists(res, chunk[1], chunk[2], chunk[3])
    elif chunk[0] == "H":
        run_bfs(res, chunk[1], chunk[2])
    elif chunk[0] == "U":
        run_bounds(res, chunk[1])
    else:
        run_arrays(res)
        run_containers(res)
    return res


def replay(case):
    res = Result()
    L = case["layer"]
    if L == "L":
        subs = SUBS if case["order"] == "sorted" else SUBS[::-1]
        seq = tuple(case["seq"])
        check_queries(res, mk_sys(seq, subs), seq, subs, case)
        res.violations = [v for v in res.violations if v["case"].get("query") == case.get("query")] or res.violations
    elif L == "H":
        hist = tuple(tuple(o) for o in case["hist"])
        if case.get("query") in (None, "operand", "alias"):
            check_transition(res, case["start"], hist[:-1], hist[-1])
            want = {"operand": "operand-mutated", "alias": "result-aliases-operand"}.get(case.get("query"))
            res.violations = [v for v in res.violations if want is None or v["key"].endswith(want)] or res.violations
        else:
            new, mseq, msubs, rx = _build(case["start"], hist)
            check_queries(res, new, mseq, msubs, case)
            res.violations = [v for v in res.violations if v["case"].get("query") == case.get("query")] or res.violations
    elif L == "AI":
        sub = Result()
        run_add_iterables(sub)
        res.violations = [v for v in sub.violations if v["case"] == case]
    elif L == "MR":
        run_many_reactions(res, case["nblocks"])
        res.violations = [v for v in res.violations if v["case"].get("query") == case.get("query")] or res.violations
    elif L == "EQ":
        sub = Result()
        run_equilibria(sub, case["sel"][0])
        run_equilibria(sub, case["sel"][-1])
        res.violations = [v for v in sub.violations if v["case"].get("sel") == case["sel"] and v["case"].get("order") == case["order"] and v["case"].get("query") == case.get("query")]
    elif L == "CH":
        sub = Result()
        run_chains(sub, case["n"], 0)
        for k in (1, 2, 3):
            run_chains(sub, case["n"], k)
        res.violations = [v for v in sub.violations if v["case"]["perm"] == case["perm"]]
    elif L == "CC":
        sub = Result()
        run_concat(sub, case["sel"][0])
        res.violations = [v for v in sub.violations if v["case"]["sel"] == case["sel"]]
    elif L == "U":
        sub = Result()
        run_bounds(sub, case["idx"])
        res.violations = [v for v in sub.violations if v["case"]["c"] == case["c"]]
    else:
        sub = Result()
        run_containers(sub) if case.get("container") else run_arrays(sub)
        res.violations = [v for v in sub.violations if v["case"] == case]
    if res.violations:
        v = res.violations[0]
        return dict(key=v["key"], what=v["what"], observed=v["observed"], expected=v["expected"])
    return None

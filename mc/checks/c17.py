"""C17 — closed-form integrated rate laws satisfy their rate equations from the stated start, under every backend.

State space (DESIGN.md §3 C17): the complete product
    7 closed forms x rational parameter lattice (every parameter of the form, incl. initial product = 0 and != 0,
    major > = < minor, reactant below / at / above its steady state, n, t0) x time lattice
    x every way of choosing the backend (omitted, "numpy", numpy, "math", math, numpy with an array of times,
      "sympy"/sympy with symbols, sympy with rational numbers)
Oracle (mc/ref/ratelaws.py: the mechanisms, written from the documentation, never from the closed forms):
  (1) the form is called ONCE with sympy symbols; c_i(t), dc_i/dt are lambdified to mpmath (60 digits) and at every
      lattice point  |dc_i/dt - RHS_i(c, params)| <= 1e-30*scale  and  |c_i(t_start) - c_i0| <= 1e-30*scale;
  (2) every numeric backend spelling returns a finite value equal to the symbolic one (fixed relative tolerance).
chempy raising, or returning a non-finite number, where a concentration is expected is an observation -> violation.
"""
import itertools
import re
from fractions import Fraction as Fr

from mc.core import Result
from mc.ref.ratelaws import MECH, ORDER, nonconstant

META = dict(
    title="Closed-form integrated rate laws solve their rate equations from the given start",
    level="model_checking",
    technique="bounded-exhaustive product-lattice sweep: every closed form x every backend spelling x every point of a rational "
    "parameter/time lattice; the form is obtained once symbolically from the real function and its ODE residual and initial value "
    "are evaluated in 60-digit arithmetic at every lattice point; every numeric backend is compared with it point by point",
    rule="states = distinct (closed form, parameter lattice point); each state is evaluated at every time of the time lattice under every "
    "backend spelling; non-trivial = states whose exact solution is not constant in time (the mechanism's rate at the initial state is non-zero)",
    assumptions=[
        "sympy (diff, lambdify, cse), mpmath, numpy and math are trusted",
        "real-valued parameters and times are covered on the stated rational lattice only; values between lattice points are outside the bound",
        "binary_irrev at major == minor (0/0, 'major' is documented as the MORE abundant reactant) is not enumerated",
        "the mechanism of dimerization_irrev (no docstring) is taken as 2A->P with chempy's mass-action convention dA/dt = -2 kf A^2",
    ],
    design_ref="DESIGN.md §3 C17",
    hashseed_sensitive=False,
)

DPS = 60
TOL_SYM = 1e-30  # 60-digit arithmetic; the worst cancellation on the thorough lattice (exp(+fv t) * exp(-fv t), e^33) costs < 20 digits
TOL_NUM = 1e-10  # double precision closed forms; measured worst case: see coverage['max_num_relerr_x1e16'] in the evidence
TOL_SYMNUM = 1e-25  # sympy numbers evaluated to 40 digits

_F = lambda *xs: tuple(Fr(x) for x in xs)
LATTICE = dict(
    quick=dict(K=_F("1/5", "1/3", 1, 2, 5), V=_F("1/5", "1/3", 1, 2, 5), P=_F(0, "1/2", 2), N=_F(1, 2), S=_F(0, "1/2"), T=_F(0, "1/7", 1, 3)),
    thorough=dict(K=_F("1/11", "1/5", "1/3", "1/2", 1, 2, 3, 5, 11), V=_F("1/11", "1/5", "1/3", "1/2", 1, 2, 3, 5, 11), P=_F(0, "1/9", "1/2", 2, 7),
                  N=_F(1, 2, 3), S=_F(0, "1/2", 2), T=_F(0, "1/7", "1/2", 1, 2, 3)),
)
# max kf*|major-minor|*t on the thorough lattice is 11*(11-1/11)*3 = 360 < 709: no exp() overflow in doubles anywhere on the lattice
# the (slow) "sympy backend called with rational numbers" spelling is enumerated on this sub-lattice, in both tiers
SN_LATTICE = dict(K=_F("1/3", 1, 5), V=_F("1/3", 1, 5), P=_F(0, "1/2"), N=_F(1, 2), S=_F(0, "1/2"), T=_F(0, "1/7", 3))
NUM_SPELLINGS = ("default", '"numpy"', "numpy", '"math"', "math", "math[positional]", "numpy[array t]", "default[array t]", "numpy[array params]x2", "sympy[numbers]")
DIMER_SPELLINGS = ("float", "numpy[array t]", "sympy[numbers]")


def bounds(tier):
    L = LATTICE[tier]
    b = {k: [str(x) for x in v] for k, v in L.items()}
    b["closed_forms"] = list(ORDER)
    b["backend_spellings"] = ["sympy symbols via 'sympy'", "sympy symbols via module"] + list(NUM_SPELLINGS)
    b["sympy[numbers] lattice"] = {k: [str(x) for x in v] for k, v in SN_LATTICE.items()}
    b["tolerances"] = dict(symbolic=TOL_SYM, numeric=TOL_NUM, sympy_numbers=TOL_SYMNUM, digits=DPS)
    return b


def _lat(tier, name):
    L = LATTICE[tier]
    return [L[k] for k in MECH[name]["kinds"]]


# long times ("identically in time"): the exponentials are far beyond exp(709); with `major` the more abundant reactant, as
# documented, the closed forms of the batch mechanisms must still return the finite limit (numeric spellings only: the
# symbolic form, evaluated with 60 digits and unbounded exponent, is the reference)
LT_TIMES = _F(0, 100, 1000)
LT_POINTS = dict(
    pseudo_irrev=[dict(kf=5, prod="1/2", major=5, minor="1/3"), dict(kf=2, prod=0, major=2, minor=1)],
    pseudo_rev=[dict(kf=5, kb="1/3", prod="1/2", major=5, minor="1/3"), dict(kf=2, kb=2, prod=0, major=2, minor=1)],
    binary_irrev=[dict(kf=5, prod="1/2", major=5, minor="1/3"), dict(kf=2, prod=0, major=2, minor=1), dict(kf="1/3", prod=2, major=11, minor=5)],
    binary_rev=[dict(kf=5, kb="1/3", prod="1/2", major=5, minor="1/3"), dict(kf=2, kb=2, prod=0, major=2, minor=1)],
    dimerization_irrev=[dict(kf=5, initial_C=5, t0=0), dict(kf=2, initial_C="1/3", t0="1/2")],
    # stirred tank, first order: fast reaction, slow feed (k t far beyond 709 while fv t stays small)
    unary_irrev_cstr=[dict(k=100, r=1, p=0, fr=1, fp=0, fv="1/1000"), dict(k=11, r="1/2", p=2, fr=2, fp="1/2", fv="1/100")],
)
LT_SPELLINGS = ("default", '"numpy"', '"math"', "math", "numpy[array t]")


def chunks(tier):
    out = [("S", name) for name in ORDER if name != "binary_irrev_cstr"]
    out += [("LT", name) for name in ORDER if name in LT_POINTS]
    for name in ORDER:
        lat = _lat(tier, name)
        if name == "dimerization_irrev":
            out.append(("L", name, None, None))
        else:
            out += [("L", name, i, j) for i in range(len(lat[0])) for j in range(len(lat[1]))]
    return out


# ------------------------------------------------------------------------------------------------ helpers
def _s(x):
    return str(x)


def _mp(x):
    import mpmath

    return mpmath.mpf(x.numerator) / x.denominator


def _fl(x):
    return x.numerator / x.denominator if x.denominator != 1 else float(x.numerator)


def _call(name, t, p, spelling_kw):
    """call the real chempy function; p maps parameter name -> value; spelling_kw is the dict of extra keyword arguments"""
    from chempy.kinetics import integrated as I

    m = MECH[name]
    f = getattr(I, name)
    if name == "dimerization_irrev":
        if spelling_kw.get("omit_defaults") and p["t0"] == 0:
            return f(t, p["kf"], p["initial_C"])
        return f(t, p["kf"], p["initial_C"], t0=p["t0"])
    kw = {}
    if "backend" in spelling_kw:
        kw["backend"] = spelling_kw["backend"]
    args = [p[q] for q in m["params"] if q != "n"]
    if spelling_kw.get("positional"):
        # every argument in its documented position, the backend last (as the example notebooks call these functions)
        if name == "binary_irrev_cstr":
            args.append(p["n"])
        return f(t, *(args + [kw["backend"]]))
    if name == "binary_irrev_cstr" and not (spelling_kw.get("omit_defaults") and p["n"] == 1):
        kw["n"] = p["n"]
    return f(t, *args, **kw)


def _exc_tag(e):
    """class of an exception raised by chempy (an observation)"""
    tag = "EXC %s" % type(e).__name__
    if isinstance(e, AttributeError):
        mo = re.search(r"has no attribute '(\w+)'", str(e))
        if mo:
            tag += ":" + mo.group(1)
    return tag


_SYM = {}


def _symbolic(name):
    """the closed form obtained ONCE from the real function with sympy symbols; cached per worker process"""
    if name in _SYM:
        return _SYM[name]
    import types
    import sympy as sp

    m = MECH[name]
    t = sp.Symbol("t", real=True)
    syms = {}
    for q, kind in zip(m["params"], m["kinds"]):
        if kind in "KV":
            syms[q] = sp.Symbol(q, positive=True)
        elif kind == "N":
            syms[q] = sp.Symbol(q, positive=True, integer=True)
        else:
            syms[q] = sp.Symbol(q, nonnegative=True)
    out = dict(name=name, builds=[], expr=None, how=None, F=None, t=t, syms=syms)

    def attempt(how, kw):
        try:
            e = _call(name, t, syms, kw)
            es = tuple(e) if isinstance(e, (tuple, list)) else (e,)
            if len(es) != m["ncomp"]:
                return "EXC wrong-number-of-components(%d)" % len(es), None
            return "ok", es
        except Exception as ex:  # observation
            return _exc_tag(ex), None

    if m["has_backend"]:
        tries = [('"sympy"', dict(backend="sympy")), ("sympy", dict(backend=sp))]
    else:
        tries = [("symbols", dict())]
    for how, kw in tries:
        tag, es = attempt(how, kw)
        out["builds"].append((how, tag, es))
        if es is not None and out["expr"] is None:
            out["expr"], out["how"] = es, how
    if out["expr"] is None and m["has_backend"]:
        # the advertised symbolic backend cannot be used at all (reported by the caller).  So that the closed form itself is
        # still model-checked, call the real function with a user-supplied backend namespace that offers every sympy function
        # under both its sympy and its numpy name (backend: "module or str")
        ns = types.SimpleNamespace(**{k: getattr(sp, k) for k in ("sqrt", "exp", "log", "tanh", "cos", "sin", "atanh", "pi")})
        ns.arctanh = sp.atanh
        tag, es = attempt("sympy-namespace+arctanh", dict(backend=ns))
        out["builds"].append(("sympy-namespace+arctanh", tag, es))
        if es is not None:
            out["expr"], out["how"] = es, "sympy-namespace+arctanh"
    if out["expr"] is not None:
        es = [sp.sympify(e) for e in out["expr"]]
        args = [t] + [syms[q] for q in m["params"]]
        out["F"] = sp.lambdify(args, es + [sp.diff(e, t) for e in es], modules="mpmath", cse=True)
    _SYM[name] = out
    return out


def _leq(x, tol):
    try:
        return bool(abs(x) <= tol)
    except Exception:
        return False


def _num_spelling_kw(sp_name):
    import math
    import numpy

    return {
        "default": dict(omit_defaults=True),
        "float": dict(omit_defaults=True),
        '"numpy"': dict(backend="numpy"),
        "numpy": dict(backend=numpy),
        '"math"': dict(backend="math"),
        "math": dict(backend=math),
        "math[positional]": dict(backend=math, positional=True),
        "numpy[array t]": dict(backend=numpy),
        "default[array t]": dict(omit_defaults=True),
        "numpy[array params]x2": dict(backend=numpy),
        "sympy[numbers]": dict(backend="sympy"),
    }[sp_name]


def _coarse(regime):
    """regime as it appears in keys: reactant at-or-above vs below steady state; major vs minor"""
    r = regime.split(",")[-1]
    return {"r>ss": "r>=ss", "r=ss": "r>=ss"}.get(r, r)


def _family(sp_name):
    if sp_name.startswith("default"):
        return "default"
    return "numpy" if sp_name == "float" or "numpy" in sp_name else ("math" if "math" in sp_name else "sympy-numbers")


# ------------------------------------------------------------------------------------------------ one state
def _eval_symbolic(S, name, p, T):
    """60-digit evaluation of (c_i, dc_i/dt) at every time; returns list over T of (c list, d list) or 'EXC ...'"""
    import mpmath

    m = MECH[name]
    pm = {q: _mp(p[q]) for q in m["params"]}
    t0 = pm[m["tstart"]] if m["tstart"] else mpmath.mpf(0)
    rows = []
    for tv in T:
        try:
            o = S["F"](t0 + _mp(tv), *[pm[q] for q in m["params"]])
            o = [mpmath.mpmathify(x) for x in o]
            rows.append((o[: m["ncomp"]], o[m["ncomp"]:]))
        except Exception as ex:
            rows.append("EXC %s" % type(ex).__name__)
    return pm, rows


def _check_symbolic(res, name, p, T, S, case):
    """clause (1): ODE residual at every time, initial value at the first.  Returns reference values per time (or None)."""
    import mpmath

    m = MECH[name]
    pm, rows = _eval_symbolic(S, name, p, T)
    init = m["init"](pm)
    fails = []  # (class, component, time, value)
    shifted_fails = 0
    can_shift = "prod" in pm and pm["prod"] != 0
    refs = []
    for k, (tv, row) in enumerate(zip(T, rows)):
        res.evaluations += 1
        if isinstance(row, str):
            fails.append(("symbolic-evaluation " + row, 0, tv, row))
            res.outcomes["sym:" + row] += 1
            refs.append(None)
            shifted_fails += 1
            continue
        c, d = row
        rhs = m["rhs"](c, pm)
        ok = True
        for i in range(m["ncomp"]):
            r = d[i] - rhs[i]
            if not _leq(r, TOL_SYM * (1 + abs(d[i]) + abs(rhs[i]))):
                ok = False
                fails.append(("ode-residual[%s]" % m["species"][i], i, tv, mpmath.nstr(r, 8)))
            if k == 0:
                r0 = c[i] - init[i]
                if not _leq(r0, TOL_SYM * (1 + abs(init[i]))):
                    ok = False
                    fails.append(("initial-value[%s]" % m["species"][i], i, tv, mpmath.nstr(c[i], 12)))
        res.outcomes["sym:ode+init-ok" if (ok and k == 0) else ("sym:ode-ok" if ok else "sym:NOT-A-SOLUTION")] += 1
        if not ok and can_shift:
            # diagnosis only (decides the key, never the verdict): is the returned value the extent P - prod?
            c2 = [c[0] + pm["prod"]]
            rhs2 = m["rhs"](c2, pm)
            if not _leq(d[0] - rhs2[0], TOL_SYM * (1 + abs(d[0]) + abs(rhs2[0]))) or (k == 0 and not _leq(c2[0] - init[0], TOL_SYM * (1 + abs(init[0])))):
                shifted_fails += 1
        vals = []
        for x in c:
            if _leq(mpmath.im(x), TOL_SYM * (1 + abs(x))) and mpmath.isfinite(x):
                vals.append(mpmath.re(x))
            else:
                vals.append(None)
        refs.append(vals)
    if fails:
        classes = sorted(set(f[0] for f in fails))
        if can_shift and shifted_fails == 0:
            key = "C17|%s|symbolic|returns-extent-not-concentration(value+prod is the solution)" % name
            what = ("%s(t, %s): the returned expression is not the product concentration: value(0) = %s but the stated initial concentration "
                    "is prod = %s, and d/dt differs from the rate equation; value + prod satisfies both" % (name, _pstr(p), fails[-1][3] if fails[-1][0].startswith("init") else "0", p["prod"]))
            res.violation(key, what, dict(case, mode="symbolic"), observed=[list(map(str, f[:1] + f[2:])) for f in fails[:4]], expected="residual and initial value 0")
        else:
            for cl in classes:
                f = [x for x in fails if x[0] == cl][0]
                key = "C17|%s|symbolic|%s" % (name, cl)
                what = "%s(t, %s) [%s]: %s at t = %s: %s (tolerance %g, regime %s)" % (name, _pstr(p), S["how"], cl, f[2], f[3], TOL_SYM, m["regime"](p))
                res.violation(key, what, dict(case, mode="symbolic"), observed=f[3], expected="0" if cl.startswith("ode") else str([str(x) for x in m["init"](p)]))
    return refs


def _pstr(p):
    return ", ".join("%s=%s" % (k, v) for k, v in p.items())


def _check_numeric(res, name, p, T, refs, sp_name, case):
    """clause (2): the backend spelling returns finite values equal to the symbolic form at every time"""
    import numpy as np

    m = MECH[name]
    kw = _num_spelling_kw(sp_name)
    fam = _family(sp_name)
    t0 = p[m["tstart"]] if m["tstart"] else Fr(0)
    if sp_name == "sympy[numbers]":
        return _check_sympy_numbers(res, name, p, T, refs, case, kw, t0)
    pf = {q: (int(p[q]) if q == "n" else _fl(p[q])) for q in m["params"]}
    obs = []  # per time: list of component values or an 'EXC' tag
    if sp_name == "numpy[array params]x2":
        # every parameter handed in as a numpy array (as a fitting driver does), the SAME array objects used for two calls:
        # the second call must see unchanged inputs and return the same values
        res.transitions += 2
        ain = {q: (pf[q] if q == "n" else np.array([pf[q], pf[q]], dtype=float)) for q in pf}
        keep = {q: (v.copy() if hasattr(v, "copy") else v) for q, v in ain.items()}
        tv0 = T[min(1, len(T) - 1)]
        try:
            with np.errstate(all="ignore"):
                _call(name, np.array([_fl(t0 + tv0)] * 2), ain, kw)
                o = _call(name, np.array([_fl(t0 + tv0)] * 2), ain, kw)
            o = o if isinstance(o, tuple) else (o,)
            second = [float(np.broadcast_to(np.asarray(x, dtype=float), (2,))[0]) for x in o]
        except Exception as ex:
            second = _exc_tag(ex)
        changed = [q for q in ain if hasattr(ain[q], "shape") and not np.array_equal(ain[q], keep[q], equal_nan=True)]
        if changed:
            res.outcomes["num:numpy:CALLERS-ARRAY-MODIFIED"] += 1
            res.violation("C17|%s|numpy|callers-array-modified" % name, "%s(t, %s) with array-valued parameters: after two calls the caller's array(s) %r hold %r (were %r)" % (
                name, _pstr(p), changed, [ain[q].tolist() for q in changed], [keep[q].tolist() for q in changed]), dict(case, mode=sp_name), [ain[q].tolist() for q in changed], [keep[q].tolist() for q in changed])
        obs = [second if k == min(1, len(T) - 1) else None for k in range(len(T))]
    elif sp_name.endswith("[array t]"):
        res.transitions += 1
        try:
            # the caller's time array is evaluated twice (as a fitting loop does): it is left as it is, and the second
            # evaluation is the one compared
            tarr = np.array([_fl(t0 + tv) for tv in T])
            tkeep = tarr.copy()
            with np.errstate(all="ignore"):
                _call(name, tarr, pf, kw)
                o = _call(name, tarr, pf, kw)
            if not np.array_equal(tarr, tkeep):
                res.outcomes["num:numpy:CALLERS-TIME-ARRAY-MODIFIED"] += 1
                res.violation("C17|%s|numpy|callers-time-array-modified" % name, "%s(t, %s) with an array of times: after two calls the caller's array holds %r (was %r)" % (
                    name, _pstr(p), tarr.tolist(), tkeep.tolist()), dict(case, mode=sp_name), tarr.tolist(), tkeep.tolist())
            o = o if isinstance(o, tuple) else (o,)
            arrs = [np.broadcast_to(np.asarray(x, dtype=float), (len(T),)) for x in o]
            obs = [[float(a[k]) for a in arrs] for k in range(len(T))]
        except Exception as ex:
            obs = [_exc_tag(ex)] * len(T)
    else:
        for tv in T:
            res.transitions += 1
            try:
                with np.errstate(all="ignore"):
                    o = _call(name, _fl(t0 + tv), pf, kw)
                o = o if isinstance(o, tuple) else (o,)
                obs.append([float(x) for x in o])
            except Exception as ex:
                obs.append(_exc_tag(ex))
    bad = {}
    for k, tv in enumerate(T):
        o = obs[k]
        if o is None:
            continue
        res.evaluations += 1
        if isinstance(o, str):
            if o in ("EXC ValueError", "EXC OverflowError", "EXC ZeroDivisionError"):
                cl = "no-finite-value|" + _coarse(m["regime"](p))
                res.outcomes["num:%s:NO-VALUE" % fam] += 1
            else:
                cl = o
                res.outcomes["num:%s:%s" % (fam, o)] += 1
            bad.setdefault(cl, (tv, o))
            continue
        if len(o) != m["ncomp"]:
            bad.setdefault("wrong-number-of-components", (tv, o))
            continue
        if not all(x == x and abs(x) != float("inf") for x in o):
            cl = "no-finite-value|" + _coarse(m["regime"](p))
            res.outcomes["num:%s:NO-VALUE" % fam] += 1
            bad.setdefault(cl, (tv, o))
            continue
        if refs[k] is None or any(r is None for r in refs[k]):
            res.outcomes["num:%s:no-reference" % fam] += 1
            continue
        worst = 0.0
        for x, r in zip(o, refs[k]):
            rf = float(r)
            worst = max(worst, abs(x - rf) / (1 + abs(rf)))
        res.extra["max_num_relerr_x1e16"] = max(res.extra.get("max_num_relerr_x1e16", 0.0), worst * 1e16)
        if worst <= TOL_NUM:
            res.outcomes["num:%s:agrees" % fam] += 1
        else:
            res.outcomes["num:%s:DIFFERS" % fam] += 1
            bad.setdefault("value-differs-from-symbolic-form", (tv, dict(got=o, symbolic=[float(r) for r in refs[k]])))
    for cl, (tv, o) in sorted(bad.items()):
        if cl.startswith("no-finite-value"):
            key = "C17|%s|real-backend|%s" % (name, cl)
        elif cl.startswith("EXC AttributeError"):
            key = "C17|%s|call|%s" % (name, cl)
        else:
            key = "C17|%s|%s|%s" % (name, fam, cl)
        what = "%s(t=%s, %s) with backend spelling %s: %s: %r" % (name, t0 + tv, _pstr(p), sp_name, cl, o)
        res.violation(key, what, dict(case, mode=sp_name), observed=o, expected="finite value(s) equal to the symbolic form" )


def _check_sympy_numbers(res, name, p, T, refs, case, kw, t0):
    import sympy as sp
    import mpmath

    m = MECH[name]
    ps = {q: sp.Rational(p[q].numerator, p[q].denominator) for q in m["params"]}
    bad = {}
    for k, tv in enumerate(T):
        res.transitions += 1
        res.evaluations += 1
        tt = t0 + tv
        try:
            o = _call(name, sp.Rational(tt.numerator, tt.denominator), ps, kw)
            o = o if isinstance(o, tuple) else (o,)
            vals = []
            for e in o:
                v = sp.N(e, 40)
                re_, im_ = v.as_real_imag()
                vals.append(mpmath.mpc(mpmath.mpf(str(re_)), mpmath.mpf(str(im_))))
        except Exception as ex:
            tag = _exc_tag(ex)
            res.outcomes["num:sympy-numbers:%s" % tag] += 1
            bad.setdefault(tag, (tv, tag))
            continue
        if refs[k] is None or any(r is None for r in refs[k]) or len(vals) != m["ncomp"]:
            res.outcomes["num:sympy-numbers:no-reference"] += 1
            continue
        ok = all(_leq(v - r, TOL_SYMNUM * (1 + abs(r))) for v, r in zip(vals, refs[k]))
        if ok:
            res.outcomes["num:sympy-numbers:agrees"] += 1
        else:
            res.outcomes["num:sympy-numbers:DIFFERS"] += 1
            bad.setdefault("value-differs-from-symbolic-form", (tv, dict(got=[mpmath.nstr(v, 20) for v in vals], symbolic=[mpmath.nstr(r, 20) for r in refs[k]])))
    for cl, (tv, o) in sorted(bad.items()):
        key = ("C17|%s|call|%s" if cl.startswith("EXC AttributeError") else "C17|%s|sympy-numbers|%s") % (name, cl)
        res.violation(key, "%s(t=%s, %s) with sympy rationals, backend='sympy': %s: %r" % (name, t0 + tv, _pstr(p), cl, o),
                      dict(case, mode="sympy[numbers]"), observed=o, expected="value equal to the symbolic form")


def _in_sn(name, p):
    L = SN_LATTICE
    return all(p[q] in L[k] for q, k in zip(MECH[name]["params"], MECH[name]["kinds"]))


def _check_state(res, name, p, T, S, modes=None, snT=None):
    """all observations of one state (closed form, parameter point)"""
    import mpmath

    mpmath.mp.dps = DPS
    m = MECH[name]
    case = dict(fn=name, p={k: _s(v) for k, v in p.items()}, T=[_s(x) for x in T])
    refs = [None] * len(T)
    if S["F"] is not None:
        # the symbolic form is also the reference of the numeric spellings: always evaluated, reported unless a replay asks for one mode
        quiet = Result() if (modes is not None and "symbolic" not in modes) else res
        refs = _check_symbolic(quiet, name, p, T, S, case)
    else:
        res.outcomes["sym:no-symbolic-form"] += len(T)
    spellings = NUM_SPELLINGS if m["has_backend"] else DIMER_SPELLINGS
    for sp_name in spellings:
        if modes is not None and sp_name not in modes:
            continue
        if sp_name == "sympy[numbers]":
            if not _in_sn(name, p):
                continue
            TT = [x for x in T if x in (snT or T)]
            idx = [T.index(x) for x in TT]
            _check_numeric(res, name, p, TT, [refs[i] for i in idx], sp_name, dict(case, T=[_s(x) for x in TT]))
        else:
            _check_numeric(res, name, p, T, refs, sp_name, case)
        res.symbols["backend:" + sp_name] += 1


def _report_builds(res, name, S):
    """the symbolic backend spellings: each must produce the form; both must produce the same one"""
    exprs = []
    for how, tag, es in S["builds"]:
        res.transitions += 1
        res.evaluations += 1
        res.symbols["backend:sympy symbols via " + how] += 1
        if es is None:
            res.outcomes["build:" + tag] += 1
            if how == "sympy-namespace+arctanh":
                key = "C17|%s|symbolic|namespace-backend %s" % (name, tag)
            elif tag.startswith("EXC AttributeError"):
                key = "C17|%s|call|%s" % (name, tag)
            else:
                key = "C17|%s|sympy|%s" % (name, tag)
            res.violation(key, "%s(t, <sympy symbols>, backend=%s) cannot be evaluated: %s" % (name, how, tag),
                          dict(fn=name, mode="build", how=how), observed=tag, expected="a sympy expression")
        else:
            res.outcomes["build:ok"] += 1
            if how != "sympy-namespace+arctanh":
                exprs.append((how, es))
    if len(exprs) == 2 and exprs[0][1] != exprs[1][1]:
        res.violation("C17|%s|sympy|string-and-module-spelling-give-different-forms" % name, "backend='sympy' and backend=sympy give different expressions",
                      dict(fn=name, mode="build", how="both"), observed=str(exprs[0][1])[:200], expected=str(exprs[1][1])[:200])


# ------------------------------------------------------------------------------------------------ chunks
def _points(tier, name, i, j):
    lat = _lat(tier, name)
    m = MECH[name]
    if i is not None:
        lat = [[lat[0][i]], [lat[1][j]]] + lat[2:]
    for vals in itertools.product(*lat):
        yield dict(zip(m["params"], vals))


TRACE_POINTS = [  # slow reaction in a fast-flushed tank: the product stays many orders of magnitude below the reactant
    (dict(k="1/1000000000", r=2, p=0, fr="3/2", fp=0, fv=50), 3),
    (dict(k="1/1000000000000", r=2, p=0, fr="3/2", fp=0, fv=1000), 3),
    (dict(k="1/1000000", r=1, p=0, fr=1, fp=0, fv=1), "1/1000"),
]
TOL_TRACE = 1e-9  # relative, per component (measured on the pinned tree: < 1e-14)


NANO_POINTS = [  # every concentration at the nanomolar level (fast second-order steps of trace species); kf * conc * t of order one
    ("binary_irrev", dict(kf=1000000000, prod=0, major="3/1000000000", minor="2/1000000000"), 1),
    ("binary_irrev", dict(kf=1000000000, prod="1/1000000000", major="5/10000000000", minor="1/10000000000"), 2),
    ("binary_rev", dict(kf=1000000000, kb="1/2", prod=0, major="3/1000000000", minor="2/1000000000"), 1),
    ("pseudo_irrev", dict(kf=1000000000, prod=0, major="3/1000000000", minor="2/1000000000"), 1),
    ("pseudo_rev", dict(kf=1000000000, kb="1/2", prod=0, major="3/1000000000", minor="2/1000000000"), 1),
    ("dimerization_irrev", dict(kf=1000000000, initial_C="3/1000000000", t0=0), 1),
]


def _check_nano(res):
    """the batch closed forms with every concentration at the nanomolar level: each float backend gives the value of the 60-digit symbolic
    form to a relative 1e-9 (no absolute floor: an absolute comparison sees nothing at 1e-9)"""
    import mpmath
    import numpy as np

    mpmath.mp.dps = DPS
    for ipt, (name, pt, tv) in enumerate(NANO_POINTS):
        S = _symbolic(name)
        p = {q: Fr(pt[q]) for q in MECH[name]["params"]}
        pm, rows = _eval_symbolic(S, name, p, [Fr(tv)])
        ref = [float(x) for x in rows[0][0]]
        pf = {q: _fl(p[q]) for q in MECH[name]["params"]}
        t0 = p[MECH[name]["tstart"]] if MECH[name]["tstart"] else Fr(0)
        for sp_name in (LT_SPELLINGS if MECH[name]["has_backend"] else ("float", "numpy[array t]")):
            res.states += 1
            res.transitions += 1
            res.evaluations += 1
            res.nontrivial += 1
            kw = _num_spelling_kw(sp_name)
            try:
                tval = np.array([_fl(t0 + Fr(tv))] * 2) if sp_name.endswith("[array t]") else _fl(t0 + Fr(tv))
                o = _call(name, tval, pf, kw)
                o = o if isinstance(o, tuple) else (o,)
                got = [float(np.broadcast_to(np.asarray(x, dtype=float), (2,))[0]) for x in o]
            except Exception as ex:
                got = _exc_tag(ex)
            ok = not isinstance(got, str) and all(abs(g - r) <= TOL_TRACE * abs(r) for g, r in zip(got, ref))
            res.outcomes["nanomolar:%s" % ("agrees" if ok else "DIFFERS")] += 1
            if not ok:
                res.violation("C17|%s|%s|nanomolar-value-differs-from-symbolic-form" % (name, _family(sp_name)), "%s(t=%s, %s) [%s] = %r, symbolic form %r (relative tolerance %g)" % (
                    name, tv, _pstr(p), sp_name, got, ref, TOL_TRACE), dict(layer="NM", point=ipt, spelling=sp_name), got, ref)


def _check_trace(res, S):
    """unary_irrev_cstr where the product is a trace: every float backend gives each component to a relative 1e-9 of the 60-digit
    symbolic value (a mixed absolute/relative comparison would not see the product at all)"""
    import mpmath
    import numpy as np

    mpmath.mp.dps = DPS
    name = "unary_irrev_cstr"
    for ipt, (pt, tv) in enumerate(TRACE_POINTS):
        p = {q: Fr(pt[q]) for q in MECH[name]["params"]}
        pm, rows = _eval_symbolic(S, name, p, [Fr(tv)])
        ref = [float(x) for x in rows[0][0]]
        pf = {q: _fl(p[q]) for q in MECH[name]["params"]}
        for sp_name in LT_SPELLINGS:
            res.states += 1
            res.transitions += 1
            res.evaluations += 1
            res.nontrivial += 1
            kw = _num_spelling_kw(sp_name)
            try:
                tval = np.array([_fl(Fr(tv))] * 2) if sp_name.endswith("[array t]") else _fl(Fr(tv))
                o = _call(name, tval, pf, kw)
                got = [float(np.broadcast_to(np.asarray(x, dtype=float), (2,))[0]) for x in o]
            except Exception as ex:
                got = _exc_tag(ex)
            ok = not isinstance(got, str) and all(abs(g - r) <= TOL_TRACE * abs(r) for g, r in zip(got, ref))
            res.outcomes["trace-product:%s" % ("agrees" if ok else "DIFFERS")] += 1
            if not ok:
                res.violation("C17|%s|%s|trace-product-differs-from-symbolic-form" % (name, _family(sp_name)), "%s(t=%s, %s) [%s] = %r, symbolic form %r (relative tolerance %g per component)" % (
                    name, tv, _pstr(p), sp_name, got, ref, TOL_TRACE), dict(layer="TR", point=ipt, spelling=sp_name), got, ref)


def _check_identity(res):
    """each offered closed form is the function its name says (the name is what fitting drivers key results and files by, and what
    a pickle of the function stores)"""
    import pickle
    from chempy.kinetics import integrated as I

    for name in ORDER:
        res.states += 1
        res.transitions += 1
        res.evaluations += 1
        f = getattr(I, name)
        try:
            got = (f.__name__, pickle.loads(pickle.dumps(f)) is f)
        except Exception as ex:
            got = (getattr(f, "__name__", None), _exc_tag(ex))
        res.outcomes["identity:%s" % ("ok" if got == (name, True) else "WRONG")] += 1
        if got != (name, True):
            res.violation("C17|%s|identity" % name, "chempy.kinetics.integrated.%s: (__name__, pickle round trip gives the same function) = %r" % (name, got), dict(layer="ID", fn=name), list(got), [name, True])


def run_chunk(chunk, tier):
    res = Result()
    if chunk[0] == "S":
        _simplify_chunk(res, chunk[1])
        return res
    if chunk[0] == "LT":
        name = chunk[1]
        S = _symbolic(name)
        for pt in LT_POINTS[name]:
            p = {q: Fr(pt[q]) for q in MECH[name]["params"]}
            res.states += 1
            res.nontrivial += 1
            res.symbols["long-time:" + name] += 1
            _check_state(res, name, p, list(LT_TIMES), S, modes=list(LT_SPELLINGS) if MECH[name]["has_backend"] else ["float", "numpy[array t]"])
        if name == "unary_irrev_cstr":
            _check_trace(res, S)
            _check_identity(res)
            _check_nano(res)
        res.sample(dict(layer="LT", fn=name, times=[_s(x) for x in LT_TIMES], points=len(LT_POINTS[name])), limit=1)
        return res
    _, name, i, j = chunk
    m = MECH[name]
    L = LATTICE[tier]
    T = list(L["T"])
    S = _symbolic(name)
    if i in (None, 0) and j in (None, 0):
        _report_builds(res, name, S)
    for p in _points(tier, name, i, j):
        if m.get("excluded") and m["excluded"](p):
            res.extra["excluded_major_eq_minor"] = res.extra.get("excluded_major_eq_minor", 0) + 1
            continue
        res.states += 1
        if nonconstant(name, p):
            res.nontrivial += 1
        res.symbols["form:" + name] += 1
        res.symbols["regime:%s:%s" % (name, m["regime"](p))] += 1
        for q, kind in zip(m["params"], m["kinds"]):
            res.symbols["%s=%s" % (kind, p[q])] += 1
        _check_state(res, name, p, T, S, snT=list(SN_LATTICE["T"]))
        if res.states % 97 == 1:
            res.sample(dict(fn=name, p={k: _s(v) for k, v in p.items()}, T=[_s(x) for x in T], regime=m["regime"](p)), limit=2)
    for tv in T:
        res.symbols["t=%s" % tv] += res.states
    return res


def _simplify_chunk(res, name):
    """recorded, not the verdict: does sympy.simplify prove the identities symbolically?"""
    import sympy as sp

    S = _symbolic(name)
    m = MECH[name]
    res.evaluations += 1
    if S["expr"] is None:
        res.outcomes["simplify:no-symbolic-form"] += 1
        return
    t, syms = S["t"], S["syms"]
    es = [sp.sympify(e) for e in S["expr"]]
    rhs = m["rhs"](es, syms)
    init = m["init"](syms)
    tstart = syms[m["tstart"]] if m["tstart"] else 0
    for i in range(m["ncomp"]):
        a = sp.simplify(sp.diff(es[i], t) - rhs[i]) == 0
        b = sp.simplify(es[i].subs(t, tstart) - init[i]) == 0
        res.outcomes["simplify:identity-proved-symbolically" if (a and b) else "simplify:identity-not-proved (lattice decides)"] += 1
    res.sample(dict(fn=name, symbolic_form=[str(e)[:300] for e in es]), limit=1)


# ------------------------------------------------------------------------------------------------ replay
def replay(case):
    res = Result()
    if case.get("layer") in ("TR", "ID", "NM"):
        sub = Result()
        if case["layer"] == "NM":
            _check_nano(sub)
        else:
            _check_trace(sub, _symbolic("unary_irrev_cstr")) if case["layer"] == "TR" else _check_identity(sub)
        res.violations = [v for v in sub.violations if all(v["case"].get(k) == case.get(k) for k in ("point", "spelling", "fn"))]
        if res.violations:
            v = res.violations[0]
            return dict(key=v["key"], what=v["what"], observed=v["observed"], expected=v["expected"])
        return None
    name = case["fn"]
    S = _symbolic(name)
    if case.get("mode") == "build":
        _report_builds(res, name, S)
    else:
        p = {k: Fr(v) for k, v in case["p"].items()}
        p = {q: p[q] for q in MECH[name]["params"]}
        T = [Fr(x) for x in case["T"]]
        _check_state(res, name, p, T, S, modes=[case["mode"]])
    if res.violations:
        v = res.violations[0]
        return dict(key=v["key"], what=v["what"], observed=v["observed"], expected=v["expected"])
    return None

"""C09 — unit conversion is exact, reversible, and refuses incompatible dimensions (chempy/units.py).

State space (DESIGN.md §3 C09), a complete product lattice:
  layer L  every exponent vector e over (length, mass, time, current, temperature, amount), |e_i|<=2, |e|_1<=k
           x every spelling (one unit choice per non-zero dimension) x every target spelling x 3 magnitudes:
           to_unitless / multiply back / rescale / dimensionality / unit_of; every spelling triple: composition
           q->t->t' and additivity; every one-off incompatible target (12 neighbours x unit choices) must raise
  layer Z  the zero vector: plain numbers, dimensionless quantities, unit ratios a/b of every dimension
  layer R  every base registry (216) x every spelling: default_unit_in_registry, unitless_in_registry
  layer D  every registry x every derived key + base key; human-readable round trip of every registry
  layer C  containers (list, tuple, quantity array, object array, dict, nested) with mixed-unit elements
  layer B  Backend / patched_numpy transcendental wrappers: ratios accepted, every e != 0 rejected
  layer U  chemistry units on default_units against their definitions
  layer H  array helpers vs numpy on SI magnitudes
Oracle: mc/ref/unitalg.py (Fractions); real objects are observed through `quantities` only (unitalg.si).
"""
import math
import itertools
from fractions import Fraction as Fr

from mc.core import Result
from mc.ref import unitalg as A

META = dict(
    title="Unit conversion is exact, reversible, and refuses incompatible dimensions",
    level="model_checking",
    technique="bounded-exhaustive sweep of the unit-exponent lattice x unit spellings x targets x base registries x container "
    "shapes, every point executed on chempy.units and compared with an exact rational unit algebra",
    rule="states = distinct (operation, quantity spelling, target spelling / registry / container shape, magnitude) points of the "
    "lattice; non-trivial = points whose expected conversion ratio differs from 1, or whose expectation is a refusal, or "
    "whose expectation is a non-empty dimensionality / a derived unit / a helper result on mixed units",
    assumptions=[
        "the `quantities` package (unit multiplication, .simplified, .rescale) and numpy are trusted; real objects are observed "
        "through quantities only, never through the chempy function under test",
        "relative tolerance 1e-12 for conversions (double rounding of products of <=4 unit factors; measured worst 4e-16), "
        "1e-11 for logspace, 1e-8 for polyfit (least squares), 1e-6 for per100eV (CODATA release embedded in quantities)",
        "exponent vectors with 1-norm above the bound or |e_i|>2, units outside the alphabet (m cm nm | kg g | s min h | A mA | "
        "K degR | mol mmol umol | cd), offset temperature scales and UncertainQuantity are outside the bound",
    ],
    design_ref="DESIGN.md §3 C09",
    hashseed_sensitive=False,
)

RTOL = 1e-12
MAGS = ["1", "3", "2.5e-7"]
SHAPES = ["list", "tuple", "qarray", "objarray", "dict", "nested_list", "dict_of_list", "list_of_qarray", "qarray2d"]
SPECIAL_TARGETS = ["one", "none", "dimensionless"]


def bounds(tier):
    q = tier == "quick"
    return dict(
        max_abs_exponent=2,
        k_pairs=2 if q else 4,
        k_all_magnitudes=2 if q else 3,  # vectors above this cost are converted with the magnitude 2.5e-7 only
        k_triples=2 if q else 3,
        k_registry_all_spellings=1 if q else 2,
        k_registry=2 if q else 3,  # above k_registry_all_spellings: one spelling per (registry, vector), rotating through all
        k_containers=2 if q else 3,
        k_backend=2 if q else 3,
        magnitudes=MAGS,
        units={d: [n for n, _ in A.UNITS[d]] for d in A.DIMS},
        registries=len(A.registries()),
        human_readable_registries=len(A.registries(A.HR_UNITS)),
        human_readable_units={d: [n for n, _ in A.HR_UNITS[d]] for d in A.DIMS},
        container_shapes=SHAPES,
        derived_keys=sorted(A.DERIVED),
        chem_units=sorted(A.CHEM),
    )


def chunks(tier):
    b = bounds(tier)
    q = tier == "quick"
    out = [("Z",), ("U",), ("D", 0, 4), ("D", 1, 4), ("D", 2, 4), ("D", 3, 4)]
    out += [("H", h) for h in ("linspace", "logspace", "concatenate", "tile", "uniform", "allclose", "polyfit", "polyval", "compare_equality")]
    JB = 4 if q else 12
    out += [("B", j, JB) for j in range(JB)]
    JL = 40 if q else 120
    out += [("L", b["k_pairs"], b["k_triples"], b["k_all_magnitudes"], j, JL) for j in range(JL)]
    JC = 24 if q else 60
    out += [("C", b["k_containers"], j, JC) for j in range(JC)]
    nreg = b["registries"]
    step = 6 if q else 3
    out += [("R", b["k_registry"], b["k_registry_all_spellings"], lo, min(nreg, lo + step)) for lo in range(0, nreg, step)]
    return out


# --------------------------------------------------------------------------------------------- environment
_E = {}


_VIA = [None]  # "patched_numpy": the array helpers are taken from chempy.units.patched_numpy (the numpy stand-in) instead
_PATCHED = ("allclose", "concatenate", "linspace", "tile", "polyfit", "polyval")


class _ViaPatched(object):
    """chempy.units with the six array helpers looked up on its `patched_numpy` namespace"""

    def __init__(self, cu):
        self._cu = cu

    def __getattr__(self, name):
        if name in _PATCHED:
            return getattr(self._cu.patched_numpy, name)
        return getattr(self._cu, name)


def E():
    if not _E:
        import numpy as np
        import quantities as pq
        import chempy.units as cu

        _E.update(cu_module=cu, u=cu.default_units, pq=pq, np=np)
    _E["cu"] = _ViaPatched(_E["cu_module"]) if _VIA[0] else _E["cu_module"]
    return _E


_REAL = {}


def _real(sp):
    """the real unit for a spelling (cached); the empty spelling is the plain number 1"""
    sp = _sp(sp)
    if sp not in _REAL:
        _REAL[sp] = A.real_of(sp, E()["u"]) if sp else 1
    return _REAL[sp]


def _sp(sp):
    return tuple(tuple(x) for x in sp)


def _l(sp):
    return [list(x) for x in sp]


def _obs(f):
    try:
        return f()
    except Exception as e:  # chempy raising is an observation
        return "EXC %s" % type(e).__name__


def _isexc(x):
    return isinstance(x, str) and x.startswith("EXC ")


def _count_units(res, sp):
    for d, i, x in sp:
        res.symbols["unit:" + A.UNITS[A.DIMS[d]][i][0]] += 1
        res.symbols["exp:%+d" % x] += 1


def _ratio_class(r):
    return "ratio=1" if r == 1 else ("ratio<1" if r < 1 else "ratio>1")


def _special(name):
    return {"one": 1, "none": None, "dimensionless": E()["pq"].dimensionless}[name]


def _tu(q, tname_or_unit):
    cu = E()["cu"]
    if isinstance(tname_or_unit, str):
        if tname_or_unit == "none":
            return cu.to_unitless(q)
        return cu.to_unitless(q, _special(tname_or_unit))
    return cu.to_unitless(q, tname_or_unit)


# --------------------------------------------------------------------------------------------- layer L ops
def op_conv(res, qs, ts, mag):
    """to_unitless(q, t) = mag * f_q / f_t ; (that number) * t reproduces q ; rescale(q, t) agrees"""
    cu = E()["cu"]
    qs, ts = _sp(qs), _sp(ts)
    qm, tm = A.model_of(qs), A.model_of(ts)
    q, t = float(mag) * _real(qs), _real(ts)
    ratio = qm.f / tm.f
    ref = float(Fr(mag) * ratio)
    case = dict(op="conv", args=[_l(qs), _l(ts), mag], q="%s %s" % (mag, A.text_of(qs)), t=A.text_of(ts))
    got = _obs(lambda: cu.to_unitless(q, t))
    res.states += 1
    res.transitions += 3
    res.evaluations += 1
    if ratio != 1:
        res.nontrivial += 1
    if _isexc(got):
        res.outcomes["conv-RAISED"] += 1
        res.violation("C09|to_unitless|scalar|raises-on-compatible-target", "to_unitless(%s, %s) raised %s; both have dimension %r"
                      % (case["q"], case["t"], got, qm.dimdict()), case, got, ref)
        return
    if not A.close(got, ref, RTOL):
        res.outcomes["conv-WRONG"] += 1
        res.violation("C09|to_unitless|scalar|wrong-ratio", "to_unitless(%s, %s) = %r, exact ratio gives %r" % (case["q"], case["t"], got, ref), case, got, ref)
        return
    res.outcomes["conv-ok|" + _ratio_class(ratio)] += 1
    res.extra["max_rel_err_in_1e-16"] = max(res.extra.get("max_rel_err_in_1e-16", 0.0), abs(float(got) - ref) / abs(ref) * 1e16)
    # multiplying back by the target unit reproduces the original quantity (observed through quantities only)
    m, e = A.si(got * t)
    res.evaluations += 1
    ref_si = float(Fr(mag) * qm.f)
    if e != qm.e or not A.close(m, ref_si, RTOL):
        res.outcomes["back-WRONG"] += 1
        res.violation("C09|to_unitless|scalar|times-target-does-not-reproduce-quantity", "to_unitless(q, t)*t = %r %r in SI, q = %r %r (q=%s, t=%s)"
                      % (m.tolist(), e, ref_si, qm.e, case["q"], case["t"]), case, [m.tolist(), list(e)], [ref_si, list(qm.e)])
    else:
        res.outcomes["back-ok"] += 1
    r = _obs(lambda: cu.rescale(q, t))
    res.evaluations += 1
    if _isexc(r):
        res.outcomes["rescale-RAISED"] += 1
        res.violation("C09|rescale|scalar|raises-on-compatible-target", "rescale(%s, %s) raised %s" % (case["q"], case["t"], r), case, r, ref)
    else:
        m, e = A.si(r)
        okmag = A.close(getattr(r, "magnitude", r), ref, RTOL)
        if e != qm.e or not A.close(m, ref_si, RTOL) or not okmag:
            res.outcomes["rescale-WRONG"] += 1
            res.violation("C09|rescale|scalar|wrong-value", "rescale(%s, %s) = %r" % (case["q"], case["t"], r), case, repr(r), ref)
        else:
            res.outcomes["rescale-ok"] += 1


def op_triple(res, s1, s2, s3, mag):
    """composition q(s1) -> s2 -> s3 equals q -> s3;  additivity: 3 q(s1) + 2 q(s2) expressed in s3"""
    cu = E()["cu"]
    s1, s2, s3 = _sp(s1), _sp(s2), _sp(s3)
    m1, m2, m3 = A.model_of(s1), A.model_of(s2), A.model_of(s3)
    u1, u2, u3 = _real(s1), _real(s2), _real(s3)
    q = float(mag) * u1
    case = dict(op="triple", args=[_l(s1), _l(s2), _l(s3), mag], s1=A.text_of(s1), s2=A.text_of(s2), s3=A.text_of(s3))
    res.states += 1
    res.transitions += 4
    if not (m1.f == m2.f == m3.f):
        res.nontrivial += 1
    ref = float(Fr(mag) * m1.f / m3.f)

    def comp():
        r1 = cu.to_unitless(q, u2)
        return cu.to_unitless(r1 * u2, u3), cu.to_unitless(q, u3)

    got = _obs(comp)
    res.evaluations += 1
    if _isexc(got):
        res.outcomes["comp-RAISED"] += 1
        res.violation("C09|to_unitless|composition|raises", "%s -> %s -> %s raised %s" % (case["s1"], case["s2"], case["s3"], got), case, got, ref)
    elif not (A.close(got[0], ref, RTOL) and A.close(got[0], got[1], RTOL)):
        res.outcomes["comp-WRONG"] += 1
        res.violation("C09|to_unitless|composition|via-intermediate-differs-from-direct", "%s %s -> %s -> %s = %r, direct = %r, exact = %r"
                      % (mag, case["s1"], case["s2"], case["s3"], got[0], got[1], ref), case, list(got), ref)
    else:
        res.outcomes["comp-ok"] += 1
    # additivity (the sum is formed by quantities; each term is stripped by chempy)
    a, b = 3.0, 2.0
    refsum = float((3 * m1.f + 2 * m2.f) / m3.f)

    def lin():
        return cu.to_unitless(a * u1 + b * u2, u3), a * cu.to_unitless(1.0 * u1, u3) + b * cu.to_unitless(1.0 * u2, u3)

    got = _obs(lin)
    res.evaluations += 1
    if _isexc(got):
        res.outcomes["lin-RAISED"] += 1
        res.violation("C09|to_unitless|linearity|raises", "3*%s + 2*%s in %s raised %s" % (case["s1"], case["s2"], case["s3"], got), case, got, refsum)
    elif not (A.close(got[0], refsum, RTOL) and A.close(got[1], refsum, RTOL)):
        res.outcomes["lin-WRONG"] += 1
        res.violation("C09|to_unitless|linearity|sum-differs-from-sum-of-parts", "to_unitless(3*%s + 2*%s, %s) = %r, sum of parts = %r, exact = %r"
                      % (case["s1"], case["s2"], case["s3"], got[0], got[1], refsum), case, list(got), refsum)
    else:
        res.outcomes["lin-ok"] += 1


def op_dim(res, qs, mag):
    """reported physical dimensionality = exponent vector; is_unitless; unit_of"""
    cu = E()["cu"]
    qs = _sp(qs)
    qm = A.model_of(qs)
    q = float(mag) * _real(qs)
    case = dict(op="dim", args=[_l(qs), mag], q="%s %s" % (mag, A.text_of(qs)))
    res.states += 1
    res.transitions += 3
    res.nontrivial += 1
    ref = qm.dimdict()
    got = _obs(lambda: cu.get_physical_dimensionality(q))
    res.evaluations += 1
    ok = isinstance(got, dict) and set(got) == set(ref) and all(got[k] == ref[k] for k in ref)
    if not ok:
        res.outcomes["dim-WRONG"] += 1
        res.violation("C09|get_physical_dimensionality|scalar|wrong-dimensionality", "get_physical_dimensionality(%s) = %r, written exponents are %r"
                      % (case["q"], got, ref), case, {k: int(v) for k, v in got.items()} if isinstance(got, dict) else got, ref)
    else:
        res.outcomes["dim-ok|%d-dims" % len(ref)] += 1
    if ok and all(hasattr(cu, k) for k in ref):
        # the library's own dimension algebra (units.length, units.time, ... and their ==): the reported dimensionality
        # equals the sum n_i * dimension_i and differs from every one-off neighbour of it, asked from either side
        def dimsum(d):
            acc = 0 * cu.length
            for k, n in d.items():
                acc = acc + n * getattr(cu, k)
            return acc

        gotd = cu.get_physical_dimensionality(q)
        verdicts = _obs(lambda: (bool(gotd == dimsum(ref)), bool(dimsum(ref) == gotd)))
        bad = None if verdicts == (True, True) else ("own dimensionality", verdicts)
        # the same dimension reached along two routes that leave cancelled (zero) entries under different keys
        va = _obs(lambda: (bool(dimsum(ref) + cu.time - cu.time == dimsum(ref) + cu.mass - cu.mass), bool(gotd + cu.current - cu.current == dimsum(ref) + cu.amount - cu.amount)))
        if bad is None and va != (True, True):
            bad = ("own dimensionality written with cancelled entries under different keys", va)
        for k in A.DIMS[:6]:
            for step in (1, -1):
                nb = dict(ref)
                nb[k] = nb.get(k, 0) + step
                v = _obs(lambda: (bool(gotd == dimsum(nb)), bool(dimsum(nb) == gotd)))
                res.evaluations += 1
                if v != (False, False) and bad is None:
                    bad = ("neighbour %s%+d" % (k, step), v)
        if bad:
            res.outcomes["dim-algebra-WRONG"] += 1
            res.violation("C09|get_physical_dimensionality|scalar|inconsistent-with-dimension-algebra", "get_physical_dimensionality(%s) compared (==, reversed ==) with the %s built from units.length, units.time, ...: %r"
                          % (case["q"], bad[0], bad[1]), case, list(bad[1]) if isinstance(bad[1], tuple) else bad[1], "equal to its own exponents only")
        else:
            res.outcomes["dim-algebra-ok"] += 1
    got = _obs(lambda: cu.is_unitless(q))
    res.evaluations += 1
    if _isexc(got) or bool(got):
        res.outcomes["is_unitless-WRONG"] += 1
        res.violation("C09|is_unitless|scalar|dimensional-quantity-reported-unitless", "is_unitless(%s) = %r" % (case["q"], got), case, got, False)
    else:
        res.outcomes["is_unitless-false-ok"] += 1
    got = _obs(lambda: cu.unit_of(q))
    res.evaluations += 1
    if _isexc(got):
        m, e = None, None
    else:
        m, e = A.si(got)
    if e != qm.e or not A.close(m, float(qm.f), RTOL):
        res.outcomes["unit_of-WRONG"] += 1
        res.violation("C09|unit_of|scalar|wrong-unit", "unit_of(%s) = %r" % (case["q"], got), case, repr(got), [float(qm.f), list(qm.e)])
    else:
        res.outcomes["unit_of-ok"] += 1


def _incompat_targets(e, qs):
    """(target, description) for every one-off neighbour of e: the changed dimension in every unit choice, the
    other dimensions spelled as in qs; the zero vector as the three unitless targets"""
    chosen = {d: i for d, i, x in qs}
    out = []
    for i, e2 in A.one_off(e):
        if abs(e2[i]) > 3:
            continue
        if not any(e2):
            out += [(name, None) for name in SPECIAL_TARGETS]
            continue
        choices = range(len(A.UNITS[A.DIMS[i]])) if e2[i] else [None]
        for c in choices:
            sp = tuple((d, (c if d == i else chosen[d]), x) for d, x in enumerate(e2) if x)
            out.append((None, sp))
    return out


def op_incompat(res, qs, special, ts):
    """asking for a target whose dimension differs by one exponent raises instead of returning a number"""
    cu = E()["cu"]
    qs = _sp(qs)
    q = 3.0 * _real(qs) if qs else 3.0
    if special:
        tdesc = special
    else:
        ts = _sp(ts)
        tdesc = A.text_of(ts)
    case = dict(op="incompat", args=[_l(qs), special, _l(ts) if not special else None], q="3 " + A.text_of(qs), t=tdesc)
    res.states += 1
    res.transitions += 2
    res.nontrivial += 1
    got = _obs(lambda: _tu(q, special if special else _real(ts)))
    res.evaluations += 1
    if _isexc(got):
        res.outcomes["incompat-refused|" + got[4:]] += 1
    else:
        res.outcomes["incompat-ACCEPTED"] += 1
        res.violation("C09|to_unitless|incompatible-target|returned-a-number", "to_unitless(%s, %s) returned %r for incompatible dimensions"
                      % (case["q"], tdesc, got), case, got, "exception")
    if not special:
        got = _obs(lambda: cu.rescale(q, _real(ts)))
        res.evaluations += 1
        if _isexc(got):
            res.outcomes["rescale-refused"] += 1
        else:
            res.outcomes["rescale-ACCEPTED"] += 1
            res.violation("C09|rescale|incompatible-target|returned-a-quantity", "rescale(%s, %s) returned %r" % (case["q"], tdesc, got), case, repr(got), "exception")


def _layer_L(res, kp, kt, km, j, J):
    vecs = [e for e in A.vectors(kp) if any(e)]
    for idx, e in enumerate(vecs):
        if idx % J != j:
            continue
        cost = sum(map(abs, e))
        sps = A.spellings(e)
        res.symbols["vector-cost-%d" % cost] += 1
        for qs in sps:
            _count_units(res, qs)
            op_dim(res, qs, "3")
            for ts in sps:
                for mag in (MAGS if cost <= km else MAGS[2:]):
                    op_conv(res, qs, ts, mag)
            for special, ts in _incompat_targets(e, qs):
                op_incompat(res, qs, special, ts)
        if cost <= kt:
            for s1 in sps:
                for s2 in sps:
                    for s3 in sps:
                        op_triple(res, s1, s2, s3, "2.5e-7")
        if idx % 37 == 0:
            res.sample(dict(layer="L", vector=list(e), spellings=len(sps), example=A.text_of(sps[-1])), limit=2)


# --------------------------------------------------------------------------------------------- layer Z
def _ratios():
    """dimensionless spellings: (description, real value builder, exact value of '1 of it')"""
    out = [("float", None, Fr(1)), ("int", None, Fr(1)), ("dimensionless", None, Fr(1))]
    for d in range(A.NLAT):
        n = len(A.UNITS[A.DIMS[d]])
        for a in range(n):
            for b in range(n):
                if a != b:
                    out.append(("ratio", (d, a, b), A.base(d, a).f / A.base(d, b).f))
    return out


def _zero_value(kind, spec, mag):
    env = E()
    if kind == "float":
        return float(mag)
    if kind == "int":
        return int(mag)
    if kind == "dimensionless":
        return float(mag) * env["pq"].dimensionless
    d, a, b = spec
    return float(mag) * _real(((d, a, 1),)) / _real(((d, b, 1),))


def _zero_target(kind, spec):
    if kind in SPECIAL_TARGETS:
        return kind
    d, a, b = spec
    return _real(((d, a, 1),)) / _real(((d, b, 1),))


def op_zero(res, qkind, qspec, tkind, tspec, mag):
    """dimensionless values: numbers, dimensionless quantities and unit ratios convert by the exact ratio"""
    qspec = tuple(qspec) if qspec else None
    tspec = tuple(tspec) if tspec else None
    fq = Fr(1) if qkind != "ratio" else A.base(qspec[0], qspec[1]).f / A.base(qspec[0], qspec[2]).f
    ft = Fr(1) if tkind != "ratio" else A.base(tspec[0], tspec[1]).f / A.base(tspec[0], tspec[2]).f
    q = _zero_value(qkind, qspec, mag)
    ref = float(Fr(mag) * fq / ft)
    case = dict(op="zero", args=[qkind, list(qspec) if qspec else None, tkind, list(tspec) if tspec else None, mag])
    res.states += 1
    res.transitions += 1
    if fq != ft:
        res.nontrivial += 1
    got = _obs(lambda: _tu(q, _zero_target(tkind, tspec)))
    res.evaluations += 1
    res.symbols["zero:" + qkind] += 1
    res.symbols["zero-target:" + tkind] += 1
    if _isexc(got) or not A.close(got, ref, RTOL):
        res.outcomes["zero-WRONG"] += 1
        res.violation("C09|to_unitless|dimensionless-value|%s" % ("raises" if _isexc(got) else "wrong-ratio"),
                      "to_unitless(%s %s%r, %s%r) = %r, exact %r" % (mag, qkind, qspec, tkind, tspec, got, ref), case, got, ref)
    else:
        res.outcomes["zero-ok|" + _ratio_class(fq / ft)] += 1


def op_zero_dim(res, qkind, qspec, mag):
    cu = E()["cu"]
    qspec = tuple(qspec) if qspec else None
    q = _zero_value(qkind, qspec, mag)
    case = dict(op="zero_dim", args=[qkind, list(qspec) if qspec else None, mag])
    res.states += 1
    res.transitions += 2
    got = _obs(lambda: (cu.get_physical_dimensionality(q), bool(cu.is_unitless(q))))
    res.evaluations += 2
    if got != ({}, True):
        res.outcomes["zero-dim-WRONG"] += 1
        res.violation("C09|get_physical_dimensionality|dimensionless-value|not-empty", "(get_physical_dimensionality, is_unitless)(%s %s%r) = %r"
                      % (mag, qkind, qspec, got), case, repr(got), "({}, True)")
    else:
        res.outcomes["zero-dim-ok"] += 1


def op_zero_incompat(res, qkind, qspec, ts):
    qspec = tuple(qspec) if qspec else None
    ts = _sp(ts)
    q = _zero_value(qkind, qspec, "3")
    case = dict(op="zero_incompat", args=[qkind, list(qspec) if qspec else None, _l(ts)])
    res.states += 1
    res.transitions += 1
    res.nontrivial += 1
    got = _obs(lambda: _tu(q, _real(ts)))
    res.evaluations += 1
    if _isexc(got):
        res.outcomes["incompat-refused|" + got[4:]] += 1
    else:
        res.outcomes["incompat-ACCEPTED"] += 1
        res.violation("C09|to_unitless|incompatible-target|returned-a-number", "to_unitless(3 %s%r, %s) returned %r" % (qkind, qspec, A.text_of(ts), got),
                      case, got, "exception")


def op_zero_reg(res, qkind, qspec, mag, ridx):
    """a dimensionless value (number, dimensionless quantity, ratio of two units of one dimension such as metre/kilometre) in a
    base registry: its magnitude is the pure number, whatever the registry"""
    cu = E()["cu"]
    qspec = tuple(qspec) if qspec else None
    fq = Fr(1) if qkind != "ratio" else A.base(qspec[0], qspec[1]).f / A.base(qspec[0], qspec[2]).f
    q = _zero_value(qkind, qspec, mag)
    regs = A.registries()
    choice = regs[ridx % len(regs)]
    reg = A.registry_real(choice, E()["u"])
    ref = float(Fr(mag) * fq)
    case = dict(op="zero_reg", args=[qkind, list(qspec) if qspec else None, mag, ridx])
    res.states += 1
    res.transitions += 1
    res.evaluations += 1
    if fq != 1:
        res.nontrivial += 1
    got = _obs(lambda: cu.unitless_in_registry(q, reg))
    if _isexc(got) or not A.close(got, ref, RTOL):
        res.outcomes["zero-reg-WRONG"] += 1
        res.violation("C09|unitless_in_registry|dimensionless-value|%s" % ("raises" if _isexc(got) else "wrong-magnitude"),
                      "unitless_in_registry(%s %s%r, registry #%d) = %r, the pure number is %r" % (mag, qkind, qspec, ridx, got, ref), case, got, ref)
    else:
        res.outcomes["zero-reg-ok|" + _ratio_class(fq)] += 1


def _layer_Z(res):
    rs = _ratios()
    targets = [(k, None) for k in SPECIAL_TARGETS] + [(k, s) for k, s, _ in rs if k == "ratio"]
    singles = [((d, i, x),) for d in range(A.NLAT) for i in range(len(A.UNITS[A.DIMS[d]])) for x in (1, -1)]
    for qkind, qspec, _ in rs:
        for mag in MAGS:
            if qkind == "int" and mag != "3":
                continue
            op_zero_dim(res, qkind, qspec, mag)
            for ridx in (0, 77, 215):
                op_zero_reg(res, qkind, qspec, mag, ridx)
            for tkind, tspec in targets:
                op_zero(res, qkind, qspec, tkind, tspec, mag)
        for ts in singles:
            op_zero_incompat(res, qkind, qspec, ts)
    res.sample(dict(layer="Z", values=len(rs), targets=len(targets), incompatible_targets=len(singles)))


# --------------------------------------------------------------------------------------------- layer R / D
_REG = {}


def op_reg(res, choice, qs, mag):
    """default unit and magnitude of a quantity in a base registry"""
    cu = E()["cu"]
    qs = _sp(qs)
    choice = tuple(choice)
    if choice not in _REG:
        _REG.clear()
        _REG[choice] = (A.registry_real(choice, E()["u"]), A.registry_model(choice))
    reg, regm = _REG[choice]
    qm = A.model_of(qs)
    q = float(mag) * _real(qs) if qs else float(mag)
    dm = A.in_registry(qm.e, regm)
    ref = float(Fr(mag) * qm.f / dm.f)
    case = dict(op="reg", args=[list(choice), _l(qs), mag], q="%s %s" % (mag, A.text_of(qs)),
                registry=[A.UNITS[A.DIMS[i]][c][0] for i, c in enumerate(choice)])
    res.states += 1
    res.transitions += 2
    if qm.f != dm.f:
        res.nontrivial += 1
    got = _obs(lambda: cu.default_unit_in_registry(q, reg))
    res.evaluations += 1
    if _isexc(got):
        m, e = None, None
    else:
        m, e = A.si(got)
    if e != dm.e or not A.close(m, float(dm.f), RTOL):
        res.outcomes["default_unit-WRONG"] += 1
        res.violation("C09|default_unit_in_registry|scalar|wrong-unit", "default_unit_in_registry(%s, %s) = %r, registry product is %r x SI %r"
                      % (case["q"], case["registry"], got, float(dm.f), dm.dimdict()), case, repr(got), [float(dm.f), list(dm.e)])
    else:
        res.outcomes["default_unit-ok"] += 1
    got = _obs(lambda: cu.unitless_in_registry(q, reg))
    res.evaluations += 1
    if _isexc(got) or not A.close(got, ref, RTOL):
        res.outcomes["unitless_in_registry-WRONG"] += 1
        res.violation("C09|unitless_in_registry|scalar|%s" % ("raises" if _isexc(got) else "wrong-magnitude"),
                      "unitless_in_registry(%s, %s) = %r, exact ratio gives %r" % (case["q"], case["registry"], got, ref), case, got, ref)
    else:
        res.outcomes["unitless_in_registry-ok|" + _ratio_class(qm.f / dm.f)] += 1


def _layer_R(res, k, kall, lo, hi):
    regs = A.registries()
    vecs = A.vectors(k)
    for ridx in range(lo, hi):
        choice = regs[ridx]
        for i, c in enumerate(choice):
            res.symbols["reg:%s=%s" % (A.DIMS[i], A.UNITS[A.DIMS[i]][c][0])] += 1
        for e in vecs:
            sps = A.spellings(e) if any(e) else [()]
            if sum(map(abs, e)) > kall:
                sps = [sps[ridx % len(sps)]]
            for qs in sps:
                _count_units(res, qs)
                op_reg(res, choice, qs, "2.5e-7")
    res.sample(dict(layer="R", registries=[lo, hi], vectors=len(vecs)))


def op_derived(res, choice, key):
    """derived (and base) units of a registry against the SI definition of the quantity"""
    cu = E()["cu"]
    choice = tuple(choice)
    reg = A.registry_real(choice, E()["u"])
    regm = A.registry_model(choice)
    if key in A.DERIVED:
        ev = A.DERIVED[key]
    else:
        ev = tuple(1 if d == key else 0 for d in A.DIMS)
    dm = A.in_registry(ev, regm)
    case = dict(op="derived", args=[list(choice), key], registry=[A.UNITS[A.DIMS[i]][c][0] for i, c in enumerate(choice)])
    res.states += 1
    res.transitions += 1
    res.nontrivial += 1
    res.symbols["derived:" + key] += 1
    got = _obs(lambda: cu.get_derived_unit(reg, key))
    res.evaluations += 1
    if _isexc(got):
        m, e = None, None
    else:
        m, e = A.si(got)
    if e != dm.e or not A.close(m, float(dm.f), RTOL):
        res.outcomes["derived-WRONG"] += 1
        res.violation("C09|get_derived_unit|%s|wrong-unit" % key, "get_derived_unit(%s, %r) = %r = %r x SI %r; the definition gives %r x SI %r"
                      % (case["registry"], key, got, None if m is None else m.tolist(), e, float(dm.f), dm.e), case, repr(got), [float(dm.f), list(dm.e)])
    else:
        res.outcomes["derived-ok|" + key] += 1


def op_derived_seq(res, choices, key):
    """ONE registry dict whose base units are re-assigned in place between the requests: every answer is the derived unit of
    the registry as it stands (the whole sequence is one case)"""
    cu = E()["cu"]
    reg = dict(A.registry_real(tuple(choices[0]), E()["u"]))
    for n, choice in enumerate(choices):
        choice = tuple(choice)
        if n:
            for k_, v_ in A.registry_real(choice, E()["u"]).items():
                reg[k_] = v_  # in place, key by key
        regm = A.registry_model(choice)
        ev = A.DERIVED[key] if key in A.DERIVED else tuple(1 if d == key else 0 for d in A.DIMS)
        dm = A.in_registry(ev, regm)
        case = dict(op="derived_seq", args=[[list(c) for c in choices], key])
        res.states += 1
        res.transitions += 1
        res.nontrivial += 1
        res.evaluations += 1
        got = _obs(lambda: cu.get_derived_unit(reg, key))
        m, e = (None, None) if _isexc(got) else A.si(got)
        if e != dm.e or not A.close(m, float(dm.f), RTOL):
            res.outcomes["derived-seq-WRONG"] += 1
            res.violation("C09|get_derived_unit|%s|registry-edited-in-place|wrong-unit" % key, "get_derived_unit(reg, %r) after %d in-place change(s) of reg (now %s) = %r; the definition gives %r x SI %r"
                          % (key, n, [A.UNITS[A.DIMS[i]][c][0] for i, c in enumerate(choice)], got, float(dm.f), dm.e), case, repr(got), [float(dm.f), list(dm.e)])
            return
        res.outcomes["derived-seq-ok"] += 1


def op_hr(res, choice, scale):
    """human-readable round trip of a registry: every entry comes back with ratio 1 to the original"""
    cu = E()["cu"]
    choice = tuple(choice)
    reg = A.registry_real(choice, E()["u"], A.HR_UNITS)
    regm = A.registry_model(choice, A.HR_UNITS)
    int_spelling = scale.endswith("[int]")  # the factor of every entry written as an integer in the human-readable form
    scale = scale.replace("[int]", "")
    sc = Fr(scale)
    if sc != 1:
        reg = {k: float(sc) * v for k, v in reg.items()}
    case = dict(op="hr", args=[list(choice), scale + ("[int]" if int_spelling else "")], registry=[A.HR_UNITS[A.DIMS[i]][c][0] for i, c in enumerate(choice)])
    for n in case["registry"]:
        res.symbols["hr-unit:" + n] += 1
    res.states += 1
    res.transitions += 2
    res.nontrivial += 1
    hr = _obs(lambda: cu.unit_registry_to_human_readable(reg))
    res.evaluations += 1
    if _isexc(hr):
        res.outcomes["hr-to-RAISED"] += 1
        res.violation("C09|unit_registry_to_human_readable|registry|raises", "unit_registry_to_human_readable(%s x %s) raised %s" % (scale, case["registry"], hr), case, hr, "dict")
        return
    if int_spelling:
        # a hand-written (or JSON) human-readable registry spells whole factors as integers: 1000, not 1000.0
        hr = {k: ((int(v[0]) if float(v[0]) == int(float(v[0])) else v[0]), v[1]) for k, v in hr.items()}
    back = _obs(lambda: cu.unit_registry_from_human_readable(hr))
    res.evaluations += 1
    if int_spelling and not _isexc(back):
        # the registry read back is usable: a concentration converts into it with the exact ratio
        q = 0.125 * E()["u"].molar
        conc_f = float(sc) ** (1 - 3) * float(regm["amount"].f / regm["length"].f ** 3)
        got = _obs(lambda: float(cu.unitless_in_registry(q, back)))
        want = 125.0 / conc_f
        if _isexc(got) or not A.close(got, want, 1e-10):
            res.outcomes["hr-int-spelling-registry-UNUSABLE"] += 1
            res.violation("C09|unit_registry_from_human_readable|integer-factors|registry-unusable", "registry read from %r (whole factors written as integers): unitless_in_registry(0.125 molar) = %r, exact ratio gives %r" % (
                hr, got, want), dict(op="hr", args=[list(choice), scale + "[int]"]), got, want)
            return
    if _isexc(back):
        # which entry is it?  (diagnosis only: each entry alone inside the human-readable SI registry)
        si_hr = cu.unit_registry_to_human_readable(cu.SI_base_registry)
        bad = [str(hr[d][1]) for d in A.DIMS if d in hr and _isexc(_obs(lambda: cu.unit_registry_from_human_readable(dict(si_hr, **{d: hr[d]}))))]
        res.outcomes["hr-from-RAISED"] += 1
        res.violation("C09|unit_registry_from_human_readable|round-trip|raises-on-own-output|symbol=%s" % (bad[0] if bad else "whole-registry"),
                      "unit_registry_from_human_readable(unit_registry_to_human_readable(%s x %s)) raised %s; human-readable form %r"
                      % (scale, case["registry"], back, hr), case, back, "the registry")
        return
    wrong = []
    for d in A.DIMS:
        if d not in back:
            wrong.append((d, "missing"))
            continue
        m, e = A.si(back[d])
        if e != regm[d].e or not A.close(m, float(sc * regm[d].f), RTOL):
            wrong.append((d, repr(back[d])))
    if wrong or set(back) != set(A.DIMS):
        res.outcomes["hr-WRONG"] += 1
        res.violation("C09|unit_registry_from_human_readable|round-trip|entry-changed", "round trip of %s x %s changed %r" % (scale, case["registry"], wrong), case, wrong, "ratio 1")
    else:
        res.outcomes["hr-ok"] += 1


def _layer_D(res, j, J):
    cu = E()["cu"]
    keys = sorted(A.DERIVED) + list(A.DIMS)
    for idx, choice in enumerate(A.registries()):
        if idx % J != j:
            continue
        for key in keys:
            op_derived(res, choice, key)
    for idx, choice in enumerate(A.registries(A.HR_UNITS)):
        if idx % J != j:
            continue
        for scale in ("1", "1/10", "1000[int]", "10000000[int]"):
            op_hr(res, choice, scale)
    if j == 0:
        regs = A.registries()
        picks = [regs[0], regs[len(regs) // 3], regs[-1], regs[len(regs) // 2]]
        for a_, b_ in itertools.permutations(picks, 2):
            for key in keys:
                op_derived_seq(res, [a_, b_], key)
        for key in keys:
            res.states += 1
            res.evaluations += 1
            got = _obs(lambda: cu.get_derived_unit(None, key))
            if got != 1.0:
                res.violation("C09|get_derived_unit|no-registry|not-1", "get_derived_unit(None, %r) = %r" % (key, got), dict(op="derived_none", args=[key]), got, 1.0)
            else:
                res.outcomes["derived-none-ok"] += 1
        got = _obs(lambda: (cu.unit_registry_to_human_readable(None), cu.unit_registry_from_human_readable(None)))
        res.states += 1
        res.evaluations += 1
        res.outcomes["hr-none-ok" if got == (None, None) else "hr-none-WRONG"] += 1
        if got != (None, None):
            res.violation("C09|unit_registry_to_human_readable|no-registry|not-None", "human readable of None = %r" % (got,), dict(op="hr_none", args=[]), repr(got), None)
    res.sample(dict(layer="D", keys=keys))


def op_derived_none(res, key):
    cu = E()["cu"]
    got = _obs(lambda: cu.get_derived_unit(None, key))
    if got != 1.0:
        res.violation("C09|get_derived_unit|no-registry|not-1", "get_derived_unit(None, %r) = %r" % (key, got), dict(op="derived_none", args=[key]), got, 1.0)


def op_hr_none(res):
    cu = E()["cu"]
    got = _obs(lambda: (cu.unit_registry_to_human_readable(None), cu.unit_registry_from_human_readable(None)))
    if got != (None, None):
        res.violation("C09|unit_registry_to_human_readable|no-registry|not-None", "human readable of None = %r" % (got,), dict(op="hr_none", args=[]), repr(got), None)


# --------------------------------------------------------------------------------------------- layer C
_CM = [Fr(3), Fr(1), Fr(5, 2), Fr(1, 4)]  # element magnitudes (dyadic)


def _build(shape, sps, bad=None):
    """container of mixed-unit elements + the model: same structure of (Fraction SI value)"""
    np = E()["np"]
    us = [_real(s) for s in sps]
    ms = [A.model_of(s) for s in sps]
    n = len(us)

    def el(i):
        if bad is not None and i == bad:
            return float(_CM[i % 4]) * us[i % n] * E()["u"].second
        return float(_CM[i % 4]) * us[i % n]

    def mo(i):
        return _CM[i % 4] * ms[i % n].f

    if shape == "list":
        return [el(0), el(1), el(2)], [mo(0), mo(1), mo(2)]
    if shape == "tuple":
        return (el(0), el(1), el(2)), [mo(0), mo(1), mo(2)]
    if shape == "objarray":
        a = np.empty(3, dtype=object)
        for i in range(3):
            a[i] = el(i)
        return a, [mo(0), mo(1), mo(2)]
    if shape == "dict":
        return {"a": el(0), "b": el(1), "c": el(2)}, {"a": mo(0), "b": mo(1), "c": mo(2)}
    if shape == "nested_list":
        return [[el(0), el(1)], [el(2), el(3)]], [[mo(0), mo(1)], [mo(2), mo(3)]]
    if shape == "dict_of_list":
        return {"a": [el(0), el(1)], "b": el(2)}, {"a": [mo(0), mo(1)], "b": mo(2)}
    # homogeneous quantity arrays: the unit of position i applies to the whole array i
    u0 = us[0] * E()["u"].second if bad == 0 else us[0]
    u1 = us[1 % n] * E()["u"].second if bad == 1 else us[1 % n]
    if shape == "qarray":
        return np.array([3.0, 1.0, 2.5]) * u0, [3 * ms[0].f, ms[0].f, Fr(5, 2) * ms[0].f]
    if shape == "qarray2d":
        return np.array([[3.0, 1.0], [2.5, 0.25]]) * u0, [[3 * ms[0].f, ms[0].f], [Fr(5, 2) * ms[0].f, Fr(1, 4) * ms[0].f]]
    if shape == "list_of_qarray":
        return [np.array([3.0, 1.0]) * u0, np.array([2.5, 0.25]) * u1], [[3 * ms[0].f, ms[0].f], [Fr(5, 2) * ms[1 % n].f, Fr(1, 4) * ms[1 % n].f]]
    raise ValueError(shape)


def _scale(model, ft):
    if isinstance(model, dict):
        return {k: _scale(v, ft) for k, v in model.items()}
    if isinstance(model, list):
        return [_scale(v, ft) for v in model]
    return float(model / ft)


def _same_struct(got, ref, rtol=RTOL):
    if isinstance(ref, dict):
        return isinstance(got, dict) and set(got) == set(ref) and all(_same_struct(got[k], ref[k], rtol) for k in ref)
    return A.close(got, ref, rtol)


def _tolist(x):
    if isinstance(x, dict):
        return {k: _tolist(v) for k, v in x.items()}
    return x.tolist() if hasattr(x, "tolist") else x


def op_cont(res, shape, sps, ts, bad):
    """element-wise conversion of containers with mixed-unit elements; one wrong-dimension element => raises"""
    cu = E()["cu"]
    sps = [_sp(s) for s in sps]
    ts = _sp(ts)
    val, model = _build(shape, sps, bad)
    tm = A.model_of(ts)
    case = dict(op="cont", args=[shape, [_l(s) for s in sps], _l(ts), bad], elems=[A.text_of(s) for s in sps], t=A.text_of(ts))
    res.states += 1
    res.transitions += 1
    res.nontrivial += 1
    res.symbols["shape:" + shape] += 1
    got = _obs(lambda: cu.to_unitless(val, _real(ts)))
    res.evaluations += 1
    if bad is not None:
        if _isexc(got):
            res.outcomes["cont-bad-element-refused|" + shape] += 1
        else:
            res.outcomes["cont-bad-element-ACCEPTED"] += 1
            res.violation("C09|to_unitless|%s|incompatible-element-returned-numbers" % shape, "to_unitless(%s of %r with element %d x second, %s) = %r"
                          % (shape, case["elems"], bad, case["t"], got), case, repr(got), "exception")
        return
    ref = _scale(model, tm.f)
    if _isexc(got) or not _same_struct(got, ref):
        res.outcomes["cont-WRONG"] += 1
        res.violation("C09|to_unitless|%s|%s" % (shape, "raises" if _isexc(got) else "wrong-elements"), "to_unitless(%s of %r, %s) = %r, exact %r"
                      % (shape, case["elems"], case["t"], got, ref), case, got if _isexc(got) else _tolist(got), ref)
    else:
        res.outcomes["cont-ok|" + shape] += 1
        # the caller's container must come through untouched: converting the very same object a second time gives the
        # same numbers (an in-place conversion would leave bare magnitudes behind)
        again = _obs(lambda: cu.to_unitless(val, _real(ts)))
        res.evaluations += 1
        if _isexc(again) or not _same_struct(again, ref):
            res.outcomes["cont-ARGUMENT-MODIFIED"] += 1
            res.violation("C09|to_unitless|%s|second-conversion-of-the-same-container-differs" % shape, "to_unitless(%s of %r, %s) called twice on the same object: second result %r, exact %r"
                          % (shape, case["elems"], case["t"], again if _isexc(again) else _tolist(again), ref), dict(case, twice=True), again if _isexc(again) else _tolist(again), ref)


def _layer_C(res, k, j, J):
    vecs = [e for e in A.vectors(k) if any(e)]
    for idx, e in enumerate(vecs):
        if idx % J != j:
            continue
        sps = A.spellings(e)
        n = len(sps)
        for i in range(n):
            elems = [sps[i], sps[(i + 1) % n], sps[(i + 2) % n], sps[(i + 3) % n]]
            for s in elems:
                _count_units(res, s)
            for shape in SHAPES:
                for ts in sps:
                    op_cont(res, shape, elems, ts, None)
                npos = 2 if shape in ("qarray", "qarray2d") else 3
                for bad in range(npos):
                    if shape in ("qarray", "qarray2d") and bad == 1:
                        continue
                    if shape == "list_of_qarray" and bad == 2:
                        continue
                    op_cont(res, shape, elems, sps[i], bad)
    res.sample(dict(layer="C", shapes=SHAPES, chunk=[j, J]))


# --------------------------------------------------------------------------------------------- layer B
BACKENDS = ["math", "numpy", "default", "patched_numpy"]
FUNCS1 = ["exp", "log", "log10", "log2", "log1p", "expm1"]
FUNCS2 = ["logaddexp", "logaddexp2"]


def _backend(which):
    cu = E()["cu"]
    if which == "patched_numpy":
        return cu.patched_numpy
    if which == "default":
        return cu.Backend()
    return cu.Backend(which)


def _ref_fn(fn, *x):
    if fn == "logaddexp":
        return math.log(math.exp(x[0]) + math.exp(x[1]))
    if fn == "logaddexp2":
        return math.log2(2.0 ** x[0] + 2.0 ** x[1])
    return getattr(math, fn)(*x)


def op_backend_ratio(res, which, fn, d, a, b):
    """transcendental wrappers accept a dimensionless ratio of units and see its exact value"""
    ratio = A.base(d, a).f / A.base(d, b).f
    mag = float(Fr(3, 4) / ratio)  # so that the argument is ~0.75 whatever the ratio
    q = mag * _real(((d, a, 1),)) / _real(((d, b, 1),))
    x = float(Fr(mag) * ratio)
    case = dict(op="backend_ratio", args=[which, fn, d, a, b])
    res.states += 1
    res.transitions += 1
    res.nontrivial += 1
    res.symbols["backend:%s.%s" % (which, fn)] += 1
    if fn in FUNCS2:
        ref = _ref_fn(fn, x, 0.5)
        got = _obs(lambda: getattr(_backend(which), fn)(q, 0.5))
    else:
        ref = _ref_fn(fn, x)
        got = _obs(lambda: getattr(_backend(which), fn)(q))
    res.evaluations += 1
    if _isexc(got) or not A.close(got, ref, 1e-12):
        res.outcomes["backend-ratio-WRONG"] += 1
        res.violation("C09|Backend|%s.%s|dimensionless-ratio-%s" % (which, fn, "rejected" if _isexc(got) else "wrong-value"),
                      "%s.%s(%r %s/%s) = %r, value of the ratio gives %r" % (which, fn, mag, A.UNITS[A.DIMS[d]][a][0], A.UNITS[A.DIMS[d]][b][0], got, ref), case, got, ref)
    else:
        res.outcomes["backend-ratio-ok|" + fn] += 1


def op_backend_dim(res, which, fn, qs):
    """... and raise on every quantity with a dimension"""
    qs = _sp(qs)
    q = 0.75 * _real(qs)
    case = dict(op="backend_dim", args=[which, fn, _l(qs)], q="0.75 " + A.text_of(qs))
    res.states += 1
    res.transitions += 1
    res.nontrivial += 1
    res.symbols["backend:%s.%s" % (which, fn)] += 1
    if fn in FUNCS2:
        got = _obs(lambda: getattr(_backend(which), fn)(0.5, q))
    else:
        got = _obs(lambda: getattr(_backend(which), fn)(q))
    res.evaluations += 1
    if _isexc(got):
        res.outcomes["backend-dim-refused|" + got[4:]] += 1
    else:
        res.outcomes["backend-dim-ACCEPTED"] += 1
        res.violation("C09|Backend|%s.%s|dimensional-argument-accepted" % (which, fn), "%s.%s(%s) = %r" % (which, fn, case["q"], got), case, repr(got), "exception")


def _layer_B(res, k, j, J):
    combos = [(w, f) for w in BACKENDS for f in FUNCS1 + FUNCS2 if not (w == "math" and f in FUNCS2)]
    if j == 0:
        for w, f in combos:
            for d in range(A.NLAT):
                n = len(A.UNITS[A.DIMS[d]])
                for a in range(n):
                    for b in range(n):
                        if a != b:
                            op_backend_ratio(res, w, f, d, a, b)
    vecs = [e for e in A.vectors(k) if any(e)]
    main = [("math", "exp"), ("numpy", "log"), ("default", "exp"), ("patched_numpy", "exp"), ("patched_numpy", "logaddexp")]
    for idx, e in enumerate(vecs):
        if idx % J != j:
            continue
        for qs in A.spellings(e):
            for w, f in (combos if sum(map(abs, e)) == 1 else main):
                op_backend_dim(res, w, f, qs)
    res.sample(dict(layer="B", combos=len(combos)))


# --------------------------------------------------------------------------------------------- layer U
def op_chem(res, name):
    cu, u = E()["cu"], E()["u"]
    f, ev, tol = A.CHEM[name]
    case = dict(op="chem", args=[name])
    res.states += 1
    res.transitions += 2
    res.nontrivial += 1
    res.symbols["chem:" + name] += 1
    unit = getattr(u, name, None)
    if unit is None:
        res.outcomes["chem-MISSING"] += 1
        res.violation("C09|default_units|%s|missing" % name, "default_units has no %r" % name, case, None, float(f))
        return
    m, e = A.si(1 * unit)
    res.evaluations += 1
    si_unit = A.real_of(tuple((d, 0, x) for d, x in enumerate(ev) if x), u)
    got = _obs(lambda: cu.to_unitless(2.5 * unit, si_unit))
    res.evaluations += 1
    if e != tuple(ev) or not A.close(m, float(f), tol) or _isexc(got) or not A.close(got, float(Fr(5, 2) * f), tol):
        res.outcomes["chem-WRONG"] += 1
        res.violation("C09|default_units|%s|differs-from-definition" % name, "1 %s = %r x SI %r (to_unitless: 2.5 -> %r); definition %r x SI %r"
                      % (name, m.tolist(), e, got, float(f), tuple(ev)), case, [m.tolist(), list(e), got], [float(f), list(ev)])
    else:
        res.outcomes["chem-ok"] += 1


def op_chem_pair(res, a, b):
    cu, u = E()["cu"], E()["u"]
    fa, ea, ta = A.CHEM[a]
    fb, eb, tb = A.CHEM[b]
    case = dict(op="chem_pair", args=[a, b])
    res.states += 1
    res.transitions += 1
    res.nontrivial += 1
    got = _obs(lambda: cu.to_unitless(3 * getattr(u, a), getattr(u, b)))
    res.evaluations += 1
    if tuple(ea) == tuple(eb):
        ref = float(3 * fa / fb)
        if _isexc(got) or not A.close(got, ref, max(ta, tb)):
            res.outcomes["chem-pair-WRONG"] += 1
            res.violation("C09|default_units|pair-of-chemistry-units|wrong-ratio", "to_unitless(3 %s, %s) = %r, definitions give %r" % (a, b, got, ref), case, got, ref)
        else:
            res.outcomes["chem-pair-ok"] += 1
    else:
        if _isexc(got):
            res.outcomes["chem-pair-refused"] += 1
        else:
            res.outcomes["chem-pair-ACCEPTED"] += 1
            res.violation("C09|to_unitless|incompatible-target|returned-a-number", "to_unitless(3 %s, %s) = %r for different dimensions" % (a, b, got), case, got, "exception")


def _layer_U(res):
    names = sorted(A.CHEM)
    for n in names:
        op_chem(res, n)
    for a in names:
        for b in names:
            op_chem_pair(res, a, b)
    res.sample(dict(layer="U", units=names))


# --------------------------------------------------------------------------------------------- layer H
def _families():
    """helper inputs: (name, exponent vector, [(description, real unit, model U)])"""
    u = E()["u"]
    fams = []
    for e in [(1, 0, 0, 0, 0, 0), (0, 1, 0, 0, 0, 0), (0, 0, 1, 0, 0, 0), (0, 0, 0, 0, 1, 0), (0, 0, 0, 0, 0, 1), (1, 0, -1, 0, 0, 0)]:
        sps = A.spellings(e)
        if len(sps) > 4:
            sps = sps[:: 2]
        fams.append(("".join("%s%+d" % (A.DIMS[i][0].upper(), x) for i, x in enumerate(e) if x), e + (0,), [(A.text_of(s), _real(s), A.model_of(s)) for s in sps]))
    conc = [(n, getattr(u, n), A.U(A.CHEM[n][0], A.CONC)) for n in ("molar", "millimolar", "nanomolar")]
    sp = ((0, 1, -3), (5, 2, 1))
    conc.append((A.text_of(sp), _real(sp), A.model_of(sp)))
    fams.append(("conc", A.CONC, conc))
    return fams


def _fam(name):
    for f in _families():
        if f[0] == name:
            return f
    raise KeyError(name)


def _helper_result(res, helper, ok, case, what, got, ref):
    if _VIA[0]:
        helper, what = "%s.%s" % (_VIA[0], helper), "[helpers taken from chempy.units.%s] %s" % (_VIA[0], what)
        case["via"] = _VIA[0]
    res.evaluations += 1
    res.symbols["helper:" + helper] += 1
    if ok:
        res.outcomes["%s-ok" % helper] += 1
    else:
        res.outcomes["%s-WRONG" % helper] += 1
        res.violation("C09|%s|mixed-units|%s" % (helper, "raises" if _isexc(got) else "differs-from-numpy-on-common-unit"), what, case, got, ref)


def _si_ok(got, ref_vals, ev, rtol, atol_scale=None):
    """got is a quantity (array) whose SI value must equal ref_vals with exponent vector ev"""
    np = E()["np"]
    if _isexc(got):
        return False, got
    m, e = A.si(got)
    r = np.asarray(ref_vals, dtype=float)
    shown = [m.tolist(), list(e)]
    if tuple(e) != tuple(ev) or m.shape != r.shape or not np.all(np.isfinite(m)):
        return False, shown
    scale = np.abs(r) if atol_scale is None else atol_scale
    return bool(np.all(np.abs(m - r) <= rtol * scale)), shown


def op_spacing(res, helper, fam, ia, ib, num):
    cu, np = E()["cu"], E()["np"]
    name, ev, units = _fam(fam)
    (da, ua, ma), (db, ub, mb) = units[ia], units[ib]
    start, stop = 1.5 * ua, 4.0 * ub
    p0, p1 = float(Fr(3, 2) * ma.f), float(4 * mb.f)
    case = dict(op="spacing", args=[helper, fam, ia, ib, num])
    res.states += 1
    res.transitions += 1
    res.nontrivial += 1
    if helper == "linspace":
        ref = np.linspace(p0, p1, num)
        got = _obs(lambda: cu.linspace(start, stop, num))
        ok, shown = _si_ok(got, ref, ev, 1e-12, max(abs(p0), abs(p1)))
    else:
        ref = np.exp2(np.linspace(np.log2(p0), np.log2(p1), num))
        got = _obs(lambda: cu.logspace_from_lin(start, stop, num))
        ok, shown = _si_ok(got, ref, ev, 1e-11)
    _helper_result(res, helper, ok, case, "%s(1.5 %s, 4 %s, %d) = %r; numpy on SI magnitudes gives %r" % (helper, da, db, num, shown, ref.tolist()), shown, ref.tolist())


def op_spacing_plain(res, helper, num):
    cu, np = E()["cu"], E()["np"]
    case = dict(op="spacing_plain", args=[helper, num])
    res.states += 1
    res.transitions += 1
    if helper == "linspace":
        ref = np.linspace(2, 8, num)
        got = _obs(lambda: cu.linspace(2, 8, num))
    else:
        ref = np.exp2(np.linspace(1, 3, num))
        got = _obs(lambda: cu.logspace_from_lin(2, 8, num))
    ok, shown = _si_ok(got, ref, (0,) * 7, 1e-12)
    _helper_result(res, helper, ok, case, "%s(2, 8, %d) = %r; numpy gives %r" % (helper, num, shown, ref.tolist()), shown, ref.tolist())


_HV = [Fr(3, 2), Fr(9, 4), Fr(4), Fr(1, 2), Fr(5), Fr(7, 4)]


def op_concat(res, fam, idxs, ndim, axis):
    cu, np = E()["cu"], E()["np"]
    name, ev, units = _fam(fam)
    arrays, ref = [], []
    for pos, i in enumerate(idxs):
        d, ur, um = units[i]
        vals = [_HV[(2 * pos) % 6], _HV[(2 * pos + 1) % 6]]
        a = np.array([float(v) for v in vals])
        r = np.array([float(v * um.f) for v in vals])
        if ndim == 0:
            # the piece is a plain list of two scalar quantities written in two different units of the family
            d2, ur2, um2 = units[(i + 1) % len(units)]
            arrays.append([float(vals[0]) * ur, float(vals[1]) * ur2])
            ref.append(np.array([float(vals[0] * um.f), float(vals[1] * um2.f)]))
            continue
        if ndim == 2:
            a, r = a.reshape(1, 2), r.reshape(1, 2)
        arrays.append(a * ur)
        ref.append(r)
    case = dict(op="concat", args=[fam, list(idxs), ndim, axis])
    res.states += 1
    res.transitions += 1
    res.nontrivial += 1
    refv = np.concatenate(ref, axis=axis)
    got = _obs(lambda: cu.concatenate(tuple(arrays), axis=axis))
    ok, shown = _si_ok(got, refv, ev, RTOL)
    _helper_result(res, "concatenate", ok, case, "concatenate(arrays in %r, axis=%d) = %r; numpy on SI magnitudes gives %r"
                   % ([units[i][0] for i in idxs], axis, shown, refv.tolist()), shown, refv.tolist())


def op_tile(res, fam, kind, ia, ib, reps):
    cu, np = E()["cu"], E()["np"]
    name, ev, units = _fam(fam)
    (da, ua, ma), (db, ub, mb) = units[ia], units[ib]
    reps = tuple(reps) if isinstance(reps, list) else reps
    if kind == "qarray":
        arr, ref = np.array([1.5, 2.25]) * ua, np.array([float(Fr(3, 2) * ma.f), float(Fr(9, 4) * ma.f)])
    elif kind == "qarray2d":
        arr, ref = np.array([[1.5, 2.25]]) * ua, np.array([[float(Fr(3, 2) * ma.f), float(Fr(9, 4) * ma.f)]])
    else:
        arr, ref = [1.5 * ua, 2.25 * ub], np.array([float(Fr(3, 2) * ma.f), float(Fr(9, 4) * mb.f)])
    case = dict(op="tile", args=[fam, kind, ia, ib, list(reps) if isinstance(reps, tuple) else reps])
    res.states += 1
    res.transitions += 1
    res.nontrivial += 1
    refv = np.tile(ref, reps)
    got = _obs(lambda: cu.tile(arr, reps))
    ok, shown = _si_ok(got, refv, ev, RTOL)
    _helper_result(res, "tile", ok, case, "tile(%s [1.5 %s, 2.25 %s], %r) = %r; numpy on SI magnitudes gives %r" % (kind, da, db if kind == "list" else da, reps, shown, refv.tolist()),
                   shown, refv.tolist())


def op_long(res, fam, kind, n, pattern):
    """long containers (n = 16..40 scalar quantities in the units of one family, by several placement patterns): converted
    element-wise with the exact ratio, through to_unitless (target: the first unit of the family) and uniform"""
    cu, np = E()["cu"], E()["np"]
    name, ev, units = _fam(fam)
    nu = len(units)
    if pattern == "cycle":
        idxs = [p % nu for p in range(n)]
    elif pattern == "ends-equal":  # first and last element in one unit, the others in another
        idxs = [0] + [1 % nu] * (n - 2) + [0]
    else:  # "one-odd": all in one unit except a single element in the middle
        idxs = [0] * n
        idxs[n // 2] = nu - 1
    els = [float(_HV[p % 6]) * units[i][1] for p, i in enumerate(idxs)]
    ref_si = [float(_HV[p % 6] * units[i][2].f) for p, i in enumerate(idxs)]
    case = dict(op="long", args=[fam, kind, n, pattern])
    res.states += 1
    res.transitions += n
    res.nontrivial += 1
    cont = list(els) if kind == "list" else tuple(els)
    target = units[0]
    got = _obs(lambda: cu.to_unitless(cont, target[1]))
    want = [r / float(target[2].f) for r in ref_si]
    ok = (not _isexc(got)) and len(got) == n and all(A.close(float(g), w, RTOL) for g, w in zip(got, want))
    _helper_result(res, "to_unitless[long %s]" % kind, ok, case, "to_unitless(%s of %d quantities, units by pattern %r, %s) = %r; element-wise %r" % (
        kind, n, pattern, target[0], got if _isexc(got) else [float(g) for g in got][:6], want[:6]), got if _isexc(got) else [float(g) for g in got], want)
    got = _obs(lambda: cu.uniform(cont))
    ok2, shown = _si_ok(got, ref_si, ev, RTOL)
    _helper_result(res, "uniform[long %s]" % kind, ok2, case, "uniform(%s of %d quantities, pattern %r) = %r; SI values %r" % (kind, n, pattern, shown if _isexc(shown) else "...", ref_si[:6]), shown, ref_si)


def op_uniform(res, fam, kind, idxs):
    """uniform(): every element keeps its physical value and all end up in the unit of the first"""
    cu = E()["cu"]
    name, ev, units = _fam(fam)
    els = [float(_HV[p]) * units[i][1] for p, i in enumerate(idxs)]
    ref = [float(_HV[p] * units[i][2].f) for p, i in enumerate(idxs)]
    case = dict(op="uniform", args=[fam, kind, list(idxs)])
    res.states += 1
    res.transitions += 1
    res.nontrivial += 1
    if kind == "dict":
        keys = "abc"[: len(els)]
        got = _obs(lambda: cu.uniform(dict(zip(keys, els))))
        ok = isinstance(got, dict) and sorted(got) == sorted(keys)
        shown = got if _isexc(got) else repr(got)
        if ok:
            factors = set()
            for k, r in zip(keys, ref):
                o, s_ = _si_ok(got[k], r, ev, RTOL)
                ok = ok and o
                m1, e1 = A.si(cu.unit_of(got[k]))
                factors.add((float(m1), e1))
            first = (float(units[idxs[0]][2].f), tuple(ev))
            ok = ok and len(factors) == 1 and A.close(list(factors)[0][0], first[0], RTOL)
    else:
        cont = list(els) if kind == "list" else tuple(els)
        got = _obs(lambda: cu.uniform(cont))
        ok, shown = _si_ok(got, ref, ev, RTOL)
        if ok:
            m1, e1 = A.si(1 * got.units)
            ok = A.close(m1, float(units[idxs[0]][2].f), RTOL)
    _helper_result(res, "uniform", ok, case, "uniform(%s in %r) = %r; SI values %r" % (kind, [units[i][0] for i in idxs], shown, ref), shown, ref)


_REL = {"same": Fr(0), "zeros": Fr(0), "near": Fr(1, 10 ** 10), "far": Fr(1, 10 ** 6)}


def op_allclose(res, fam, shape, ia, ib, rel, atol, rtol=None):
    """allclose on the same physical values written in different units; rtol=1e-8: 'near' differs by 1e-10 (close),
    'far' by 1e-6 (not close unless an absolute tolerance of 1e-5 x value, given in a third unit, is supplied),
    'confused' has the same numbers in the other unit (close only if the units are equal)"""
    cu, np = E()["cu"], E()["np"]
    name, ev, units = _fam(fam)
    (da, ua, ma), (db, ub, mb) = units[ia], units[ib]
    dc, uc, mc = units[(ib + 1) % len(units)]
    vals = [Fr(9, 4), Fr(3, 2), Fr(4)]
    if rel == "zeros":  # exact zeros at the same positions: |0 - 0| <= rtol*0 holds (numpy.allclose is inclusive)
        vals = [Fr(0), Fr(3, 2), Fr(0)]
    if rel == "lengths-differ":
        # three values against the first two / the first one / none of them (the same physical values, other unit): never "close"
        for nb in (2, 1, 0):
            av = [float(v) for v in vals]
            bv = [float(v * ma.f / mb.f) for v in vals][:nb]
            a, b = (np.array(av) * ua, np.array(bv) * ub) if shape == "qarray" else ([x * ua for x in av], [x * ub for x in bv])
            case = dict(op="allclose", args=[fam, shape, ia, ib, rel, atol])
            res.states += 1
            res.transitions += 1
            res.nontrivial += 1
            got = _obs(lambda: cu.allclose(a, b))
            got2 = _obs(lambda: cu.allclose(b, a))
            ok = all(_isexc(g) or not bool(g) for g in (got, got2))
            _helper_result(res, "allclose", ok, case, "allclose(%s of 3 values in %s, its first %d values in %s) = %r (other way round: %r): containers of different length are not close" % (shape, da, nb, db, got, got2),
                           [got if _isexc(got) else bool(got), got2 if _isexc(got2) else bool(got2)], [False, False])
            if ok:
                res.outcomes["allclose-lengths-differ-not-close"] += 1
        return
    if rel == "at-atol":
        # rtol = 0 and a difference of exactly the absolute tolerance (dyadic numbers, one common unit): inclusive, True
        a = (1.0 * ua) if shape == "scalar" else (np.array([1.0, 2.0, 0.0]) * ua if shape == "qarray" else [1.0 * ua, 2.0 * ua, 0.0 * ua])
        b = (1.5 * ua) if shape == "scalar" else (np.array([1.5, 1.5, 0.5]) * ua if shape == "qarray" else [1.5 * ua, 1.5 * ua, 0.5 * ua])
        case = dict(op="allclose", args=[fam, shape, ia, ib, rel, atol])
        res.states += 1
        res.transitions += 1
        res.nontrivial += 1
        got = _obs(lambda: cu.allclose(a, b, rtol=0, atol=0.5 * ua))
        ok = (not _isexc(got)) and bool(got)
        _helper_result(res, "allclose", ok, case, "allclose(%s, differing by exactly 0.5 %s, rtol=0, atol=0.5 %s) = %r, numpy.allclose on the magnitudes is True" % (shape, da, da, got),
                       got if _isexc(got) else bool(got), True)
        if ok:
            res.outcomes["allclose-at-atol-True"] += 1
        return
    if rel == "confused":
        bvals = [float(v) for v in vals]
        expect = ma.f == mb.f
    else:
        bvals = [float(v * ma.f / mb.f * (1 + _REL[rel])) for v in vals]
        expect = rel in ("same", "near", "zeros") or atol
        if rtol is not None:  # a caller-chosen relative tolerance: 'far' differs by 1e-6, 'near' by 1e-10
            expect = _REL[rel] <= rtol or atol
    avals = [float(v) for v in vals]
    kw = {} if rtol is None else dict(rtol=rtol)
    if atol:
        kw["atol"] = float(Fr(1, 10 ** 5) * vals[1] * ma.f / mc.f) * uc
    if shape == "scalar":
        a, b = avals[0] * ua, bvals[0] * ub
    elif shape == "qarray":
        a, b = np.array(avals) * ua, np.array(bvals) * ub
    else:  # lists whose elements alternate between the two units
        a = [avals[0] * ua, float(vals[1] * ma.f / mb.f) * ub, avals[2] * ua]
        if rel == "confused":
            b = [avals[0] * ub, float(vals[1] * ma.f / mb.f) * ua, avals[2] * ub]
        else:
            k = 1 + _REL[rel]
            b = [float(vals[0] * ma.f / mb.f * k) * ub, float(vals[1] * k) * ua, float(vals[2] * ma.f / mb.f * k) * ub]
    case = dict(op="allclose", args=[fam, shape, ia, ib, rel, atol] + ([rtol] if rtol is not None else []))
    res.states += 1
    res.transitions += 1
    res.nontrivial += 1
    got = _obs(lambda: cu.allclose(a, b, **kw))
    ok = (not _isexc(got)) and bool(got) == bool(expect)
    _helper_result(res, "allclose", ok, case, "allclose(%s in %s, %s-values in %s%s) = %r, on a common unit the answer is %r"
                   % (shape, da, rel, db, ", atol in %s" % dc if atol else "", got, bool(expect)), got if _isexc(got) else bool(got), bool(expect))
    if ok:
        res.outcomes["allclose-%s" % bool(expect)] += 1


_PC = [Fr(1, 2), Fr(9, 4), Fr(3, 2)]  # c2, c1, c0 in SI units of y / x**n


def _poly_units(xfam, yfam):
    xn, xe, xu = _fam(xfam)
    yn, ye, yu = _fam(yfam)
    return xe, xu, ye, yu


def op_polyfit(res, xfam, yfam, deg, xi, yi, kind):
    """data lying exactly on c0 + c1 x + c2 x^2 (SI), every point written in its own unit"""
    cu, np = E()["cu"], E()["np"]
    xe, xu, ye, yu = _poly_units(xfam, yfam)
    coef = _PC[2 - deg:]  # highest power first, length deg+1
    npts = len(xi)
    xs_si = [Fr(i + 1) for i in range(npts)]
    ys_si = [sum(c * x ** (deg - n) for n, c in enumerate(coef)) for x in xs_si]
    if kind == "qarray":
        x = np.array([float(v / xu[xi[0]][2].f) for v in xs_si]) * xu[xi[0]][1]
        y = np.array([float(v / yu[yi[0]][2].f) for v in ys_si]) * yu[yi[0]][1]
    else:
        x = [float(v / xu[i][2].f) * xu[i][1] for v, i in zip(xs_si, xi)]
        y = [float(v / yu[i][2].f) * yu[i][1] for v, i in zip(ys_si, yi)]
    case = dict(op="polyfit", args=[xfam, yfam, deg, list(xi), list(yi), kind])
    res.states += 1
    res.transitions += 1
    res.nontrivial += 1
    got = _obs(lambda: cu.polyfit(x, y, deg))
    ok = (not _isexc(got)) and len(got) == deg + 1
    shown = got
    if ok:
        shown = []
        for n, (p, c) in enumerate(zip(got, coef)):
            e_n = tuple(a - (deg - n) * b for a, b in zip(ye, xe))
            o, s_ = _si_ok(p, float(c), e_n, 1e-8)
            shown.append(s_)
            ok = ok and o
    _helper_result(res, "polyfit", ok, case, "polyfit(x in %r, y in %r, %d) = %r; coefficients of the generating polynomial (SI) %r"
                   % ([xu[i][0] for i in xi], [yu[i][0] for i in yi], deg, shown, [float(c) for c in coef]), shown, [float(c) for c in coef])


def op_polyval(res, xfam, yfam, deg, pi, xkind, xi):
    cu, np = E()["cu"], E()["np"]
    xe, xu, ye, yu = _poly_units(xfam, yfam)
    coef = _PC[2 - deg:]
    p = []
    for n, c in enumerate(coef):
        dy, uy, my = yu[pi[n] % len(yu)]
        dx, ux, mx = xu[(pi[n] + n) % len(xu)]
        unit = uy / ux ** (deg - n) if deg - n else uy
        f = my.f / mx.f ** (deg - n)
        p.append(float(c / f) * unit)
    xs_si = [Fr(3, 2), Fr(5, 2)]
    if xkind == "scalar":
        x = float(xs_si[0] / xu[xi[0]][2].f) * xu[xi[0]][1]
        xs = xs_si[:1]
    elif xkind == "qarray":
        x = np.array([float(v / xu[xi[0]][2].f) for v in xs_si]) * xu[xi[0]][1]
        xs = xs_si
    else:
        x = [float(v / xu[i][2].f) * xu[i][1] for v, i in zip(xs_si, xi)]
        xs = xs_si
    ref = [float(sum(c * xv ** (deg - n) for n, c in enumerate(coef))) for xv in xs]
    if xkind == "scalar":
        ref = ref[0]
    case = dict(op="polyval", args=[xfam, yfam, deg, list(pi), xkind, list(xi)])
    res.states += 1
    res.transitions += 1
    res.nontrivial += 1
    got = _obs(lambda: cu.polyval(p, x))
    ok, shown = _si_ok(got, ref, ye, 1e-12)
    _helper_result(res, "polyval", ok, case, "polyval(%r, %r) = %r; the polynomial (SI) gives %r" % (p, x, shown, ref), shown, ref)


def op_cmp(res, which):
    cu, u = E()["cu"], E()["u"]
    cases = {
        "km-vs-m": (lambda: cu.compare_equality(3 * u.kilometre, 3000 * u.metre), True),
        "km-vs-number": (lambda: cu.compare_equality(3 * u.kilometre, 3), False),
        "same-unit-equal": (lambda: cu.compare_equality(3 * u.minute, 3 * u.minute), True),
        "same-unit-unequal": (lambda: cu.compare_equality(3 * u.minute, 4 * u.minute), False),
        "min-vs-s": (lambda: cu.compare_equality(3 * u.minute, 180 * u.second), True),
        "confused": (lambda: cu.compare_equality(3 * u.minute, 3 * u.second), False),
        "other-dimension": (lambda: cu.compare_equality(3 * u.metre, 3 * u.second), False),
        "h-vs-s-list": (lambda: cu.compare_equality([1 * u.hour, 2 * u.minute], [3600 * u.second, 120 * u.second]), True),
    }
    f, expect = cases[which]
    case = dict(op="cmp", args=[which])
    res.states += 1
    res.transitions += 1
    res.nontrivial += 1
    got = _obs(f)
    ok = (not _isexc(got)) and bool(E()["np"].all(got)) == expect
    _helper_result(res, "compare_equality", ok, case, "compare_equality case %s = %r, expected %r" % (which, got, expect), got if _isexc(got) else repr(got), expect)


CMP_CASES = ["km-vs-m", "km-vs-number", "same-unit-equal", "same-unit-unequal", "min-vs-s", "confused", "other-dimension", "h-vs-s-list"]


def _layer_H(res, helper):
    _layer_H1(res, helper)
    if helper in ("linspace", "concatenate", "tile", "allclose", "polyfit", "polyval"):
        _VIA[0] = "patched_numpy"
        try:
            _layer_H1(res, helper)
        finally:
            _VIA[0] = None


def _layer_H1(res, helper):
    fams = _families()
    if helper in ("linspace", "logspace"):
        for num in (1, 2, 3, 5):
            if helper == "logspace" or num > 1:
                op_spacing_plain(res, helper, num)
        for name, ev, units in fams:
            for ia in range(len(units)):
                for ib in range(len(units)):
                    for num in (2, 3, 5):
                        op_spacing(res, helper, name, ia, ib, num)
    elif helper == "concatenate":
        for name, ev, units in fams:
            n = range(len(units))
            for idxs in list(itertools.product(n, repeat=2)) + list(itertools.product(n, repeat=3)):
                op_concat(res, name, idxs, 1, 0)
            for idxs in itertools.product(n, repeat=2):
                for axis in (0, 1):
                    op_concat(res, name, idxs, 2, axis)
                op_concat(res, name, idxs, 0, 0)
    elif helper == "tile":
        for name, ev, units in fams:
            n = range(len(units))
            for reps in (1, 2, 3, (2, 2), (2, 1)):
                for ia in n:
                    op_tile(res, name, "qarray", ia, ia, reps)
                    op_tile(res, name, "qarray2d", ia, ia, reps)
                    for ib in n:
                        op_tile(res, name, "list", ia, ib, reps)
    elif helper == "uniform":
        for name, ev, units in fams:
            n = range(len(units))
            for kind in ("list", "tuple", "dict"):
                for idxs in list(itertools.product(n, repeat=2)) + list(itertools.product(n, repeat=3)):
                    op_uniform(res, name, kind, idxs)
            for kind in ("list", "tuple"):
                for ln in (16, 17, 18, 33, 40):
                    for pattern in ("cycle", "ends-equal", "one-odd"):
                        op_long(res, name, kind, ln, pattern)
    elif helper == "allclose":
        for target in PLAIN_TARGETS:
            for shape in ("scalar", "list", "tuple", "ndarray-float", "ndarray-int", "ndarray-object"):
                op_plain(res, target, shape)
        for name, ev, units in fams:
            n = range(len(units))
            for shape in ("scalar", "qarray", "list"):
                for ia in n:
                    for ib in n:
                        for rel in ("same", "near", "far", "confused", "zeros"):
                            op_allclose(res, name, shape, ia, ib, rel, False)
                        if ia == ib:
                            op_allclose(res, name, shape, ia, ib, "at-atol", False)
                        if shape != "scalar":
                            op_allclose(res, name, shape, ia, ib, "lengths-differ", False)
                        op_allclose(res, name, shape, ia, ib, "far", True)
                        op_allclose(res, name, shape, ia, ib, "far", False, 1e-4)
                        op_allclose(res, name, shape, ia, ib, "near", False, 1e-12)
    elif helper == "polyfit":
        for xfam, yfam in (("T+1", "L+1"), ("T+1", "conc"), ("L+1", "M+1"), ("conc", "L+1T-1")):
            xe, xu, ye, yu = _poly_units(xfam, yfam)
            for deg in (0, 1, 2):
                for npts in (deg + 1, deg + 2):
                    for xi in itertools.product(range(len(xu)), repeat=npts):
                        # y units: rotate through the choices so that every one is used in every position
                        for r in range(len(yu)):
                            yi = tuple((r + p) % len(yu) for p in range(npts))
                            op_polyfit(res, xfam, yfam, deg, xi, yi, "list")
                    for a in range(len(xu)):
                        for b in range(len(yu)):
                            op_polyfit(res, xfam, yfam, deg, (a,) * npts, (b,) * npts, "qarray")
    elif helper == "polyval":
        for xfam, yfam in (("T+1", "L+1"), ("T+1", "conc"), ("L+1", "M+1"), ("conc", "L+1T-1")):
            xe, xu, ye, yu = _poly_units(xfam, yfam)
            for deg in (0, 1, 2):
                for pi in itertools.product(range(len(yu)), repeat=deg + 1):
                    for a in range(len(xu)):
                        op_polyval(res, xfam, yfam, deg, pi, "scalar", (a,))
                        op_polyval(res, xfam, yfam, deg, pi, "qarray", (a,))
                        for b in range(len(xu)):
                            op_polyval(res, xfam, yfam, deg, pi, "list", (a, b))
    elif helper == "compare_equality":
        for c in CMP_CASES:
            op_cmp(res, c)
    res.sample(dict(layer="H", helper=helper, families=[f[0] for f in fams]))


# --------------------------------------------------------------------------------------------- driver
def run_chunk(chunk, tier):
    res = Result()
    kind = chunk[0]
    if kind == "L":
        _layer_L(res, *chunk[1:])
    elif kind == "Z":
        _layer_Z(res)
    elif kind == "R":
        _layer_R(res, *chunk[1:])
    elif kind == "D":
        _layer_D(res, *chunk[1:])
    elif kind == "C":
        _layer_C(res, *chunk[1:])
    elif kind == "B":
        _layer_B(res, bounds(tier)["k_backend"], *chunk[1:])
    elif kind == "U":
        _layer_U(res)
    elif kind == "H":
        _layer_H(res, chunk[1])
    else:
        raise ValueError(chunk)
    return res


PLAIN_TARGETS = ["1e-9", "1000*dimensionless", "percent", "metre/kilometre", "dimensionless", "1", "millimolar/molar", "0.125*dimensionless"]


def op_plain(res, target, shape):
    """plain numbers (no unit) converted to a dimensionless target that carries a scale (1e-9, percent, metre/kilometre, ...): the result is
    the number divided by that scale - the same for a scalar, a list, a tuple, a float array, an integer array and an object array"""
    cu, np, u = E()["cu"], E()["np"], E()["u"]
    tgt, scale = {"1e-9": (1e-9, Fr(1, 10 ** 9)), "1000*dimensionless": (1000 * u.dimensionless, Fr(1000)), "percent": (u.percent, Fr(1, 100)),
                  "metre/kilometre": (u.metre / u.kilometre, Fr(1, 1000)), "dimensionless": (u.dimensionless, Fr(1)), "1": (1, Fr(1)),
                  "millimolar/molar": (u.millimolar / u.molar, Fr(1, 1000)), "0.125*dimensionless": (0.125 * u.dimensionless, Fr(1, 8))}[target]
    vals = [1.0, 2.5, 0.0, -4.0]
    arg = {"scalar": lambda: vals[1], "list": lambda: list(vals), "tuple": lambda: tuple(vals), "ndarray-float": lambda: np.array(vals), "ndarray-int": lambda: np.array([1, 2, 0, -4]),
           "ndarray-object": lambda: np.array(vals, dtype=object)}[shape]()
    want = [float(Fr(v) / scale) for v in ([vals[1]] if shape == "scalar" else ([1, 2, 0, -4] if shape == "ndarray-int" else vals))]
    case = dict(op="plain", args=[target, shape])
    res.states += 1
    res.transitions += 1
    res.nontrivial += 1
    keep = arg.copy() if hasattr(arg, "copy") and shape != "scalar" else arg
    got = _obs(lambda: cu.to_unitless(arg, tgt))
    if not _isexc(got):
        try:
            got = [float(x) for x in np.atleast_1d(np.asarray(got, dtype=float))]
        except Exception as e:
            got = "EXC %s" % type(e).__name__
    ok = (not _isexc(got)) and len(got) == len(want) and all(abs(g - w) <= 1e-12 * abs(w) for g, w in zip(got, want))
    if ok and shape.startswith("ndarray") and not np.array_equal(arg, keep):
        ok, got = False, "caller's array changed to %r" % (arg.tolist(),)
    _helper_result(res, "to_unitless", ok, case, "to_unitless(plain %s %r, %s) = %r, the numbers divided by the scale of the target are %r" % (shape, [1, 2, 0, -4] if shape == "ndarray-int" else (vals[1] if shape == "scalar" else vals), target, got, want), got, want)
    if ok:
        res.outcomes["plain-numbers-to-scaled-dimensionless-ok"] += 1


OPS = dict(plain=op_plain, conv=op_conv, triple=op_triple, dim=op_dim, incompat=op_incompat, zero=op_zero, zero_reg=op_zero_reg, zero_dim=op_zero_dim, zero_incompat=op_zero_incompat,
           reg=op_reg, derived=op_derived, derived_seq=op_derived_seq, hr=op_hr, derived_none=op_derived_none, hr_none=op_hr_none, cont=op_cont,
           backend_ratio=op_backend_ratio, backend_dim=op_backend_dim, chem=op_chem, chem_pair=op_chem_pair,
           spacing=op_spacing, spacing_plain=op_spacing_plain, concat=op_concat, tile=op_tile, uniform=op_uniform, long=op_long, allclose=op_allclose,
           polyfit=op_polyfit, polyval=op_polyval, cmp=op_cmp)


def replay(case):
    res = Result()
    _VIA[0] = case.get("via")
    try:
        OPS[case["op"]](res, *case["args"])
    finally:
        _VIA[0] = None
    if res.violations:
        v = res.violations[0]
        return dict(key=v["key"], what=v["what"], observed=v["observed"], expected=v["expected"])
    return None

"""C13 — LaTeX / Unicode / HTML names show the same formula that was given.

State space: the C01 derivation space (mc/ref/formula.py, cost ≤ N) × {latex, unicode, html}; all 24 greek
prefixes; Substance/Species.from_formula on every state of cost ≤ NS × phase tables; reactions/equilibria over a
formula pool printed in the three formats.
Oracle: (1) a tree renderer written from the statement — string equality; (2) the inverse presentation mapping
applied to chempy's *actual* output must give back the input formula (hydrate separator normalised);
(3) names / composition / phase index carried by Substance / Species; (4) coefficient + rendered name in stored
order around the format's arrow.
"""
import itertools
from collections import OrderedDict

from mc.core import Result
from mc.ref import formula as F

META = dict(
    title="LaTeX, Unicode and HTML names show the same formula that was given",
    level="model_checking",
    technique="bounded-exhaustive enumeration of all grammar derivations up to a cost bound x 3 output formats on the real printers, compared with a derivation-tree renderer and its inverse mapping",
    rule="states = distinct (formula, format) pairs + (formula, phase table) pairs + printed reactions; non-trivial = the rendering differs "
    "from the input string (a subscript, superscript, prefix, separator or escape had to be produced), or a phase suffix selects an index, or a reaction has >=2 terms",
    assumptions=["re and the interpreter are trusted", "formulas of cost > N and alphabets outside mc/ref/formula.py are outside the bound"],
    design_ref="DESIGN.md §3 C13",
    hashseed_sensitive=False,
)

FMTS = ("latex", "unicode", "html")
PHASE_TABLES = [
    ("default", None),
    ("aq-only", ["(aq)"]),
    ("dict", OrderedDict([("(aq)", 0), ("(s)", 1), ("(g)", 2)])),
    ("four", ("(s)", "(l)", "(g)", "(aq)")),
    ("inner", ("(s)", "(O)")),  # a phase token that can also occur *inside* a formula of the grammar
]
import copy as _copy

_PRISTINE = {n: _copy.deepcopy(t) for n, t in PHASE_TABLES}
ARROWS = {
    ("latex", "Reaction"): "\\rightarrow",
    ("latex", "Equilibrium"): "\\rightleftharpoons",
    ("unicode", "Reaction"): "→",
    ("unicode", "Equilibrium"): "⇌",
    ("html", "Reaction"): "&rarr;",
    ("html", "Equilibrium"): "&harr;",
}
RXN_POOL = ["H2O", "H+", "OH-", "Fe+3", "[Fe(CN)6]-3", "CO2(g)", ".OH", "Na2CO3..10H2O", "alpha-Al2O3(s)", "NO3-", "e-", "O2"]


def bounds(tier):
    return dict(N=5 if tier == "quick" else 6, NS=3 if tier == "quick" else 4, rxn_terms_per_side=2, rxn_coeffs=[1, 2, 10, 0.5], rxn_pool=RXN_POOL)


def _J(a):
    return {1: 1, 2: 1, 3: 2, 4: 8, 5: 24}.get(a, 96)


def chunks(tier):
    b = bounds(tier)
    out = [("G",), ("N",), ("HH", 0), ("HH", 1)]
    for a in range(1, b["N"] + 1):
        out += [("B", b["N"], a, j, _J(a)) for j in range(_J(a))]
    for a in range(1, b["NS"] + 1):
        out += [("S", b["NS"], a, j, _J(a)) for j in range(_J(a))]
    out += [("R", cls, i) for cls in ("Reaction", "Equilibrium") for i in range(len(RXN_POOL))]
    return out


def _fn(fmt):
    from chempy.util import parsing

    return getattr(parsing, "formula_to_" + fmt)


def canonical_input(s, fmt):
    # '..' and '·' are two spellings of the same hydrate separator; every format prints one symbol for both
    # ... and a charge of magnitude 1 is printed without the 1 ("1 omitted"), so '+1' and '+' coincide
    import re

    s = re.sub(r"([+-])1(?![0-9])", r"\1", s)
    return s.replace("..", "·") if fmt == "unicode" else s.replace("·", "..")


def _check_render(res, st, s, case_base):
    for fmt in FMTS:
        res.states += 1
        res.transitions += 1
        res.evaluations += 1
        exp = F.render(st, fmt)
        try:
            got = _fn(fmt)(s)
        except Exception as e:
            got = "EXC %s" % type(e).__name__
        if exp != s:
            res.nontrivial += 1
        case = dict(case_base, fmt=fmt, expected=exp)
        if got != exp:
            res.outcomes[fmt + "-WRONG"] += 1
            res.violation("C13|formula_to_%s|rendering" % fmt, "formula_to_%s(%r) = %r, the statement's presentation is %r" % (fmt, s, got, exp), case, got, exp)
        else:
            res.outcomes[fmt + ("-changed" if exp != s else "-verbatim")] += 1
        if not got.startswith("EXC"):
            back = F.unrender(got, fmt)
            want = canonical_input(s, fmt)
            res.evaluations += 1
            if back != want:
                res.violation("C13|formula_to_%s|inverse" % fmt, "undoing the %s presentation of %r (%r) gives %r, not the input" % (fmt, s, got, back), case, back, want)


def _check_two_prefixes(res, p1, p2, rest, s):
    from chempy import Substance

    for fmt in FMTS:
        res.states += 1
        res.transitions += 1
        res.evaluations += 1
        res.nontrivial += 1
        exp = F.prefix_render(p1, fmt) + F.prefix_render(p2, fmt) + F.render(rest, fmt)
        try:
            got = _fn(fmt)(s)
        except Exception as e:
            got = "EXC %s" % type(e).__name__
        res.outcomes[fmt + ("-two-prefixes-ok" if got == exp else "-two-prefixes-WRONG")] += 1
        if got != exp:
            res.violation("C13|formula_to_%s|rendering|two-prefixes" % fmt, "formula_to_%s(%r) = %r, the statement's presentation is %r" % (fmt, s, got, exp),
                          dict(layer="G2", s=s, p1=p1, p2=p2, fmt=fmt), got, exp)
    res.evaluations += 1
    try:
        sub = Substance.from_formula(s)
        got = (sub.latex_name, dict(sub.composition))
    except Exception as e:
        got = "EXC %s" % type(e).__name__
    exp = (F.prefix_render(p1, "latex") + F.prefix_render(p2, "latex") + F.render(rest, "latex"), F.composition_of(rest))
    if got != exp:
        res.violation("C13|Substance.from_formula|names-composition|two-prefixes", "Substance.from_formula(%r) carries %r, expected %r" % (s, got, exp), dict(layer="G2", s=s, p1=p1, p2=p2, fmt="substance"), got, exp)


DEFAULTS = (0, 7, None)  # default_phase_idx: None means "refuse (ValueError) when no phase suffix is found"


def _phase_idx_model(s, table, dflt=0):
    if table is None:
        table = ("(s)", "(l)", "(g)")
    if isinstance(table, dict):
        for k, v in table.items():
            if s.endswith(k):
                return v
    else:
        for i, k in enumerate(table):
            if s.endswith(k):
                return i + 1
    return "EXC ValueError" if dflt is None else dflt


def _ambiguous(s, st, table):
    """True when trailing text that the derivation wrote as a bracket group coincides with a phase token of the
    table (possible only with the 'inner' table): what is composition and what is phase marker is then undefined"""
    toks = list(table or ()) + F.SUF
    t, stripped = s, []
    while True:
        for k in toks:
            if t.endswith(k):
                stripped.append(k)
                t = t[: -len(k)]
                break
        else:
            break
    return stripped != ([st[4]] if st[4] else [])


def _check_substance(res, st, s, case_base):
    from chempy import Substance, Species

    ref = F.composition_of(st)
    res.states += 1
    res.transitions += 1
    res.evaluations += 1
    res.nontrivial += 1
    try:
        sub = Substance.from_formula(s)
        got = dict(name=sub.name, latex=sub.latex_name, unicode=sub.unicode_name, html=sub.html_name, composition=dict(sub.composition))
    except Exception as e:
        got = "EXC %s" % type(e).__name__
    exp = dict(name=s, latex=F.render(st, "latex"), unicode=F.render(st, "unicode"), html=F.render(st, "html"), composition=ref)
    if isinstance(got, dict) and got == exp:
        # the carried composition belongs to this object: giving it a charge (or editing it) must not show in an object
        # created from the same formula afterwards
        try:
            sub.composition[0] = 99
            Substance.from_formula(s, charge=3) if 0 not in ref else None
            again = Substance.from_formula(s).composition
        except Exception as e:
            again = "EXC %s" % type(e).__name__
        res.evaluations += 1
        if again != ref:
            res.violation("C13|Substance.from_formula|composition-shared-between-objects", "after editing one Substance created from %r, a new one carries %r (formula says %r)" % (s, again, ref), dict(case_base, what="substance"), again, ref)
    if got != exp:
        res.outcomes["substance-WRONG"] += 1
        res.violation("C13|Substance.from_formula|names-composition", "Substance.from_formula(%r) carries %r, expected %r" % (s, got, exp), dict(case_base, what="substance"), got, exp)
    else:
        res.outcomes["substance-ok"] += 1
    for (tname, table), dflt in itertools.product(PHASE_TABLES, DEFAULTS):
        res.states += 1
        res.transitions += 1
        res.evaluations += 1
        # the table object handed to chempy is the caller's and is re-used for every call; the model reads a pristine copy
        pristine = _PRISTINE[tname]
        if table is not None and (list(table) != list(pristine) or (isinstance(table, dict) and dict(table) != dict(pristine))):
            res.violation("C13|Species.from_formula|callers-phases-modified", "the caller's phases object %s now reads %r (given as %r) after earlier Species.from_formula calls; next formula %r" % (
                tname, table, pristine, s), dict(case_base, what="species", table=tname), repr(table), repr(pristine))
            if isinstance(table, list):
                table[:] = list(pristine)
        exp_idx = _phase_idx_model(s, pristine, dflt)
        if exp_idx:
            res.nontrivial += 1
        tname = tname if dflt == 0 else "%s,default_phase_idx=%r" % (tname, dflt)
        try:
            kw = {} if dflt == 0 else dict(default_phase_idx=dflt)
            sp = Species.from_formula(s, **kw) if table is None else Species.from_formula(s, phases=table, **kw)
            got_idx = sp.phase_idx
            # a phase token of the table that the string ends with but that the derivation wrote as a bracket group
            # (only possible with the 'inner' table) makes the composition ambiguous: compare the index only
            amb = _ambiguous(s, st, table)
            if not amb and (sp.composition != ref or sp.latex_name != exp["latex"]):
                got_idx = ("composition/name", sp.composition, sp.latex_name)
        except Exception as e:
            got_idx = "EXC %s" % type(e).__name__
            if exp_idx == "EXC ValueError" and got_idx == exp_idx:
                res.outcomes["no-phase-refused"] += 1
                continue
            if _ambiguous(s, st, table):
                res.outcomes["ambiguous-token-rejected"] += 1
                continue  # e.g. the whole formula '(O)' read as a phase token: the statement defines nothing here
        if isinstance(got_idx, int) and got_idx == exp_idx:
            # the index belongs to the object: copies of it (copy, deepcopy, a pickle round trip) carry the same one
            import copy
            import pickle

            for cname, cp in (("copy.copy", copy.copy), ("copy.deepcopy", copy.deepcopy), ("pickle round trip", lambda o: pickle.loads(pickle.dumps(o)))):
                res.evaluations += 1
                try:
                    c = cp(sp)
                    cgot = (c.phase_idx, c.name, dict(c.composition))
                except Exception as e:
                    cgot = "EXC %s" % type(e).__name__
                if cgot != (got_idx, sp.name, dict(sp.composition)):
                    res.outcomes["species-copy-WRONG"] += 1
                    res.violation("C13|Species.from_formula|copy-differs|%s" % cname, "%s of Species.from_formula(%r, phases=%s) carries (phase_idx, name, composition) = %r, the original %r" % (
                        cname, s, tname, cgot, (got_idx, sp.name, dict(sp.composition))), dict(case_base, what="species", table=tname), repr(cgot), repr((got_idx, sp.name, dict(sp.composition))))
        res.outcomes["phase_idx=%r" % (got_idx,) if isinstance(got_idx, int) else ("phase-WRONG" if got_idx != exp_idx else "no-phase-refused")] += 1
        if got_idx != exp_idx:
            res.violation("C13|Species.from_formula|phase_idx|%s" % tname, "Species.from_formula(%r, phases=%s).phase_idx = %r, its suffix selects %r" % (s, tname, got_idx, exp_idx),
                          dict(case_base, what="species", table=tname), got_idx, exp_idx)


# ------------------------------------------------------------------------------------------- reactions
def _simple_state(key):
    """derivation state of a pool key (flat formulas only) so that the tree renderer can be used"""
    import re

    s = key
    pre = suf = chg = pr = None
    for p in F.PRE + [g + "-" for g in F.GREEK]:
        if s.startswith(p):
            pre, s = p, s[len(p):]
            break
    for x in F.SUF:
        if s.endswith(x):
            suf, s = x, s[: -len(x)]
    m = re.search(r"([+-]\d*)$", s)
    if m:
        chg, s = m.group(1), s[: m.start()]
    hyd = None
    if ".." in s:
        s, h = s.split("..")
        mm = re.match(r"\d+", h)
        hk = mm.group(0) if mm else ""
        hyd = ("..", hk, _flat_part(h[len(hk):]))
    return (_flat_part(s), hyd, chg, pre, suf, pr)


def _flat_part(s):
    import re

    out = []
    pos = 0
    while pos < len(s):
        if s[pos] in "([{":
            close = {"(": ")", "[": "]", "{": "}"}[s[pos]]
            depth, j = 0, pos
            while True:
                if s[j] == s[pos]:
                    depth += 1
                elif s[j] == close:
                    depth -= 1
                    if depth == 0:
                        break
                j += 1
            m = re.match(r"\d+(\.\d+)?", s[j + 1:])
            cnt = m.group(0) if m else ""
            out.append(("gr", s[pos] + close, _flat_part(s[pos + 1: j]), cnt))
            pos = j + 1 + len(cnt)
        else:
            m = re.match(r"([A-Z][a-z]?|e)(\d+(\.\d+)?)?", s[pos:])
            out.append(("el", m.group(1), m.group(2) or ""))
            pos += m.end()
    return tuple(out)


def _rxn_cases(first):
    """all reactions with `first` as the first-listed reactant: ≤2 terms per side, coefficients {1,2,10}, both
    sorted-dict and explicit (reverse) OrderedDict storage"""
    others = [k for k in RXN_POOL if k != first]
    for nr in (1, 2):
        for rest in itertools.combinations(others, nr - 1):
            reac = (first,) + rest
            remaining = [k for k in others if k not in rest]
            for np_ in (1, 2):
                for prod in itertools.combinations(remaining[:6], np_):
                    for coeffs in itertools.product([1, 2, 10, 0.5], repeat=nr + np_):
                        if nr + np_ == 4 and coeffs.count(1) < 2:
                            continue  # keep the product space small: at most two non-unit coefficients on 4 terms
                        if nr + np_ >= 3 and coeffs.count(0.5) > 1:
                            continue
                        for order in ("sorted", "reversed"):
                            yield reac, prod, coeffs, order
                        if nr + np_ == 2 and coeffs == (1, 1):
                            # non-integral coefficients with many digits print as the number they are
                            for longc in ((1 / 3, 1), (1, 0.1 + 0.2), (12345678.125, 2 / 3), (1 / 7, 1e-10 / 3)):
                                yield reac, prod, longc, "sorted"
                        if nr + np_ <= 3 and 0.5 not in coeffs:
                            yield reac, prod, coeffs, "typed"  # the same integers as sympy / numpy / float / Fraction numbers
                        if nr + np_ <= 3 and coeffs.count(1) >= nr + np_ - 1:
                            for inact in ("ir", "ip", "both"):
                                if not (set(INACT[inact][0]) | set(INACT[inact][1])) & (set(reac) | set(prod)):
                                    yield reac, prod, coeffs, "sorted+" + inact


INACT = {"none": ({}, {}), "ir": ({"O2": 2}, {}), "ip": ({}, {"e-": 1, "NO3-": 3}), "both": ({"NO3-": 1}, {"O2": 1})}


def _build_rxn(cls, reac, prod, coeffs, order):
    """order is 'sorted' | 'reversed', optionally followed by '+<inactive variant>'"""
    import chempy

    order, _, inact = order.partition("+")
    ir, ip = INACT[inact or "none"]
    C = getattr(chempy, cls)
    rc = list(zip(reac, coeffs[: len(reac)]))
    pc = list(zip(prod, coeffs[len(reac):]))
    if order == "typed":
        # coefficients as they come out of other functions: sympy Integers (balance_stoichiometry), numpy integers (a row of a
        # stoichiometry matrix), integer-valued floats (text with '2.0'), Fractions — a one is still a one
        import fractions
        import numpy
        import sympy

        kinds = [sympy.Integer, numpy.int64, float, fractions.Fraction]
        rt = [(k, kinds[(n_ + len(k)) % 4](c)) for n_, (k, c) in enumerate(sorted(rc))]
        pt = [(k, kinds[(n_ + 2 + len(k)) % 4](c)) for n_, (k, c) in enumerate(sorted(pc))]
        r = C(dict(rt), dict(pt), inact_reac=dict(ir), inact_prod=dict(ip), checks=())
        return r, [(k, c) for k, c in rt], [(k, c) for k, c in pt], sorted(ir.items()), sorted(ip.items())
    if order == "sorted":
        r = C(dict(rc), dict(pc), inact_reac=dict(ir), inact_prod=dict(ip), checks=())
        exp_r, exp_p = sorted(rc), sorted(pc)
    else:
        rr, pp = sorted(rc, reverse=True), sorted(pc, reverse=True)
        r = C(OrderedDict(rr), OrderedDict(pp), inact_reac=dict(ir), inact_prod=dict(ip), checks=())
        exp_r, exp_p = rr, pp
    return r, exp_r, exp_p, sorted(ir.items()), sorted(ip.items())


def _check_rxn(res, cls, reac, prod, coeffs, order, subst, names):
    r, exp_r, exp_p, exp_ir, exp_ip = _build_rxn(cls, reac, prod, coeffs, order)
    for fmt in FMTS:
        res.states += 1
        res.transitions += len(exp_r) + len(exp_p)
        res.evaluations += 1
        res.nontrivial += 1
        side = lambda terms: " + ".join((("%s " % c) if c != 1 else "") + names[k][fmt] for k, c in terms)
        # inactive species stay on their own side of the arrow, in a parenthesised group after the active terms
        grp = lambda terms: (" + ( %s)" % side(terms)) if terms else ""
        exp = "%s%s %s %s%s" % (side(exp_r), grp(exp_ir), ARROWS[(fmt, cls)], side(exp_p), grp(exp_ip))
        try:
            got = getattr(r, fmt)(subst)
        except Exception as e:
            got = "EXC %s" % type(e).__name__
        res.outcomes["rxn-%s-%s" % (fmt, "ok" if got == exp else "WRONG")] += 1
        if got != exp:
            res.violation("C13|%s.%s|printed-terms" % (cls, fmt), "%s(%r -> %r).%s() = %r, expected %r" % (cls, exp_r, exp_p, fmt, got, exp),
                          dict(layer="R", cls=cls, reac=list(reac), prod=list(prod), coeffs=list(coeffs), order=order), got, exp)


def _rxn_env():
    from chempy import Substance

    subst = OrderedDict((k, Substance.from_formula(k)) for k in RXN_POOL)
    names = {k: {fmt: F.render(_simple_state(k), fmt) for fmt in FMTS} for k in RXN_POOL}
    return subst, names


# ------------------------------------------------------------------------------------------- chunks
def run_chunk(chunk, tier):
    res = Result()
    kind = chunk[0]
    if kind == "G":
        for g in F.GREEK + ["."]:
            pre = g if g == "." else g + "-"
            for core, chg, suf in (((("el", "Fe", ""), ("el", "O", ""), ("el", "O", ""), ("el", "H", "")), None, "(s)"),
                                   ((("el", "Al", "2"), ("el", "O", "3")), None, None),
                                   ((("el", "N", ""), ("el", "H", ""), ("el", "O", "")), "-", "(aq)")):
                st = (core, None, chg, pre, suf, None)
                s = F.string_of(st)
                _check_render(res, st, s, dict(layer="G", s=s))
                res.symbols[pre] += 1
        # two prefixes (a greek prefix followed by the radical dot or by another greek prefix): each maps to its symbol, in
        # the written order
        core = (("el", "N", ""), ("el", "O", "2"))
        for i, g in enumerate(F.GREEK):
            # (chempy strips prefixes in one pass over its table — greek letters in alphabet order, then the radical dot — so
            # only sequences written in that order are part of the accepted notation; the others are refused, not misread)
            for second in [".", F.GREEK[i + 5] + "-"] if i + 5 < len(F.GREEK) else ["."]:
                for chg, suf in ((None, None), ("-", "(aq)")):
                    rest = (core, None, chg, None, suf, None)
                    s = g + "-" + second + F.string_of(rest)
                    _check_two_prefixes(res, g + "-", second, rest, s)
        res.sample(dict(layer="G", s="gamma-FeOOH(s)", latex=F.render((((("el", "Fe", ""),)), None, None, "gamma-", "(s)", None), "latex")))
    elif kind == "HH":
        for i, st in enumerate(F.multi_hydrate_states()):
            if i % 2 == chunk[1]:
                s = F.string_of(st)
                _check_render(res, st, s, dict(layer="B", s=s, st=st))
        res.sample(dict(layer="HH", s="Na..7H..C", latex="Na\\cdot 7H\\cdot C"))
    elif kind == "N":
        for st in F.numeral_states():
            s = F.string_of(st)
            _check_render(res, st, s, dict(layer="B", s=s, st=st))
        res.sample(dict(layer="N", s="Fe+17", unicode=F.render(((("el", "Fe", ""),), None, "+17", None, None, None), "unicode")))
    elif kind in ("B", "S"):
        _, N, a, j, J = chunk
        seen = set()
        for st in F.states(N, a, j, J):
            s = F.string_of(st)
            if s in seen:
                res.dedup_hits += 1
                continue
            seen.add(s)
            if kind == "B":
                _check_render(res, st, s, dict(layer="B", s=s, st=st))
                if len(seen) % 1499 == 1:
                    res.sample(dict(s=s, latex=F.render(st, "latex"), unicode=F.render(st, "unicode"), html=F.render(st, "html")), limit=2)
            else:
                _check_substance(res, st, s, dict(layer="S", s=s, st=st))
                if len(seen) % 499 == 1:
                    res.sample(dict(s=s, phase_idx={t: _phase_idx_model(s, tab) for t, tab in PHASE_TABLES}), limit=1)
    elif kind == "R":
        _, cls, i = chunk
        subst, names = _rxn_env()
        for reac, prod, coeffs, order in _rxn_cases(RXN_POOL[i]):
            _check_rxn(res, cls, reac, prod, coeffs, order, subst, names)
        res.symbols[RXN_POOL[i]] += 1
        res.sample(dict(layer="R", cls=cls, first=RXN_POOL[i]))
    return res


def _tup(x):
    return tuple(_tup(y) for y in x) if isinstance(x, (list, tuple)) else x


def replay(case):
    res = Result()
    if case["layer"] == "R":
        subst, names = _rxn_env()
        _check_rxn(res, case["cls"], tuple(case["reac"]), tuple(case["prod"]), tuple(case["coeffs"]), case["order"], subst, names)
    elif case["layer"] == "G2":
        sub = run_chunk(("G",), "quick")
        res.violations = [v for v in sub.violations if v["case"].get("s") == case["s"] and v["case"].get("fmt") == case.get("fmt")]
    elif case["layer"] == "G":
        for g in F.GREEK + ["."]:
            pre = g if g == "." else g + "-"
            if case["s"].startswith(pre):
                sub = Result()
                for ch in (("G",),):
                    sub = run_chunk(ch, "quick")
                res = sub
                res.violations = [v for v in res.violations if v["case"].get("s") == case["s"] and v["case"].get("fmt") == case.get("fmt")]
                break
    else:
        st = _tup(case["st"])
        if case["layer"] == "B":
            _check_render(res, st, case["s"], dict(layer="B", s=case["s"]))
            res.violations = [v for v in res.violations if v["case"].get("fmt") == case.get("fmt")] or res.violations
        else:
            _check_substance(res, st, case["s"], dict(layer="S", s=case["s"]))
    if res.violations:
        v = res.violations[0]
        return dict(key=v["key"], what=v["what"], observed=v["observed"], expected=v["expected"])
    return None

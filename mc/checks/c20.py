"""C20 — printed numbers and parameters denote the value they were given.

State space
  S  scientific forms: every 3-digit mantissa 1.00..9.99 + carry boundaries × exponents × sign × precision 1..10 × {latex, unicode, html}
  Q  the same printers on quantities in 6 compound units (unit rendered after the number)
  U  uncertainty form: mantissas × exponents (incl. ±300) × relative uncertainty 1e-8..0.5 × leading digit × precision 1..3 (× the 3 wrappers)
  R  roman numerals 1..3999
  P  Reaction.string/latex/unicode/html(with_param=True) over a lattice of parameter magnitudes × 5 units
Oracle: an inverse parser per format, exact rounding with `decimal`; the statement's layout rules.
"""
import re
from decimal import Decimal, ROUND_HALF_EVEN, getcontext

from mc.core import Result

getcontext().prec = 80

META = dict(
    title="Printed numbers and parameters denote the value they were given",
    level="model_checking",
    technique="complete enumeration of a decimal lattice (3-digit mantissas x exponents x sign x precision x format; uncertainty lattice; all integers 1..3999), each printed by the real formatters and read back by an independent inverse parser, compared with exact decimal rounding",
    rule="states = distinct (value, precision, format[, uncertainty, unit]) tuples; non-trivial = the printed text is in exponent notation, carries an uncertainty or a unit, or required rounding "
    "(i.e. everything except plain numbers that print as themselves)",
    assumptions=["the `decimal` module is the reference for correctly rounded decimal representations of binary floats", "values off the lattice (mantissas with more than 3 digits other than the listed carry boundaries) are outside the bound"],
    design_ref="DESIGN.md §3 C20",
    hashseed_sensitive=False,
)

SUPD = {c: str(i) for i, c in enumerate("⁰¹²³⁴⁵⁶⁷⁸⁹")}
SUPD["⁻"] = "-"
SUPD["⁺"] = "+"
EXTRA_MANT = ["9.995", "9.9995", "9.99995", "9.9996", "1.0000001", "1.05", "1.5", "9.95", "9.5", "1.0049", "1.005", "2.675", "1.45", "1.25"]
FMTS = ("latex", "unicode", "html")


def bounds(tier):
    if tier == "quick":
        exps = sorted(set(list(range(-300, 301, 15)) + [-5, -4, -3, -2, -1, 0, 1, 2, 3, 4, 5, 6, 9, 10, 16, 17]))
    else:
        exps = list(range(-300, 301))
    return dict(mantissas="1.00..9.99 step 0.01 + %d carry boundaries" % len(EXTRA_MANT), exponents=exps, precisions=list(range(1, 11)), signs=[1, -1],
                uncert_rel=[1e-8, 1e-6, 1e-5, 1e-3, 1e-2, 0.1, 0.5], uncert_lead=[1.0, 2.9, 9.6, 0.96], uncert_prec=[1, 2, 3], roman=[1, 3999])


def chunks(tier):
    out = [("S", d) for d in range(1, 10)] + [("S", "x")]
    out += [("U", i) for i in range(8)] + [("R",), ("Q",), ("P",), ("PS",), ("T", 0), ("T", 1), ("T", 2), ("T", 3)]
    return out


def _fn(fmt):
    from chempy.printing import numbers

    return getattr(numbers, "number_to_scientific_" + fmt)


def round_sig(x, p):
    d = Decimal(x)
    e = d.adjusted()
    return d.quantize(Decimal(1).scaleb(e - p + 1), rounding=ROUND_HALF_EVEN)


def parse_sci(fmt, s):
    """(significand Decimal | None, exponent) of a printed number in one of the three formats; plain numbers have exponent 0"""
    if fmt == "latex":
        m = re.fullmatch(r"(?:(-?[0-9.]+)\\cdot )?10\^\{(-?\d+)\}", s)
    elif fmt == "html":
        m = re.fullmatch(r"(?:(-?[0-9.]+)&sdot;)?10<sup>(-?\d+)</sup>", s)
    else:
        m = re.fullmatch(r"(?:(-?[0-9.]+)·)?10([⁰¹²³⁴⁵⁶⁷⁸⁹⁻⁺]+)", s)
    if m:
        sig, ex = m.group(1), m.group(2)
        if fmt == "unicode":
            ex = "".join(SUPD[c] for c in ex)
        return (Decimal(sig) if sig is not None else None), int(ex)
    return Decimal(s), 0


def check_sci(res, xs, p, fmt):
    x = float(xs)
    res.states += 1
    res.transitions += 1
    res.evaluations += 1
    try:
        s = _fn(fmt)(x, fmt=p)
    except Exception as e:
        s = "EXC %s" % type(e).__name__
    ref = round_sig(x, p)
    case = dict(layer="S", x=xs, p=p, fmt=fmt)
    if s != repr(x) and s != str(x):
        res.nontrivial += 1
    try:
        sig, ex = parse_sci(fmt, s)
    except Exception:
        res.outcomes["UNPARSEABLE"] += 1
        res.violation("C20|number_to_scientific_%s|unparseable" % fmt, "number_to_scientific_%s(%s, fmt=%d) = %r cannot be read back" % (fmt, xs, p, s), case, s, str(ref))
        return
    val = (sig if sig is not None else Decimal(1)).scaleb(ex)
    if val != ref:
        res.outcomes["WRONG-value"] += 1
        res.violation("C20|number_to_scientific_%s|value" % fmt, "number_to_scientific_%s(%s, fmt=%d) = %r denotes %s, the value to %d significant digits is %s" % (fmt, xs, p, s, val, p, ref), case, s, str(ref))
    elif sig is not None and ex != 0 and sig == 1:
        res.outcomes["WRONG-significand-1-shown"] += 1
        res.violation("C20|number_to_scientific_%s|significand-1-shown" % fmt, "%r shows a significand that is exactly 1" % s, case, s, None)
    elif sig is None and abs(ref.scaleb(-ex)) != 1:
        res.outcomes["WRONG-significand-omitted"] += 1
        res.violation("C20|number_to_scientific_%s|significand-omitted" % fmt, "%r omits a significand that is not 1" % s, case, s, str(ref))
    else:
        res.outcomes["sci-" + ("exponent" if ex else "plain") + ("-no-significand" if sig is None else "")] += 1


# ------------------------------------------------------------------------------------------------ uncertainty
_W = re.compile(r"(-?)(\d+)(?:\.(\d+))?\((\d+)\)(?:e(-?\d+))?")


def check_uncert(res, xs, xes, p, via):
    from chempy.printing.numbers import _float_str_w_uncert

    x, xe = float(xs), float(xes)
    res.states += 1
    res.transitions += 1
    res.evaluations += 1
    res.nontrivial += 1
    case = dict(layer="U", x=xs, xe=xes, p=p, via=via)
    try:
        if via == "core":
            s = _float_str_w_uncert(x, xe, p)
        else:
            s = _fn(via)(x, xe, fmt=p)
    except Exception as e:
        res.outcomes["RAISES-" + type(e).__name__] += 1
        un_exp = Decimal(xe).adjusted() - p + 1
        cond = "last-kept-digit-below-1e-308" if un_exp < -308 else "other"
        res.violation("C20|_float_str_w_uncert|%s|%s" % (type(e).__name__, cond), "printing %s +- %s to %d digits (%s) raised %s" % (xs, xes, p, via, type(e).__name__), case, "EXC %s" % type(e).__name__, None)
        return
    t = s
    ee_wrapped = None
    if via != "core":
        # undo the power-of-ten presentation of the wrapper: 'd.ddd(uu)' + pow10
        for pat in (r"(.*)\\cdot 10\^\{(-?\d+)\}", r"(.*)&sdot;10<sup>(-?\d+)</sup>", r"(.*)·10([⁰¹²³⁴⁵⁶⁷⁸⁹⁻⁺]+)"):
            m = re.fullmatch(pat, s)
            if m:
                ex = m.group(2)
                if "⁰" <= ex[-1] <= "⁹" or ex[-1] in "¹²³":
                    ex = "".join(SUPD[c] for c in ex)
                t = m.group(1) + "e" + ex
                break
    mm = _W.fullmatch(t)
    if not mm:
        res.outcomes["UNPARSEABLE"] += 1
        res.violation("C20|uncertainty|unparseable|%s" % via, "%s +- %s printed as %r" % (xs, xes, s), case, s, None)
        return
    sg, ip, fp, un, ee = mm.groups()
    fp = fp or ""
    ee = int(ee or 0)
    val = Decimal(sg + ip + ("." + fp if fp else "")).scaleb(ee)
    unit = Decimal(1).scaleb(ee - len(fp))
    unc = Decimal(un) * unit if (fp or mm.group(5) is not None) else Decimal(un)
    dx, dxe = Decimal(x), Decimal(xe)
    un_exp = dxe.adjusted() - p + 1
    q = Decimal(1).scaleb(un_exp)
    bad = None
    if abs(val - dx) > q / 2 * (1 + Decimal("1e-9")):
        bad = ("value", val)
    elif (val / q) != (val / q).to_integral_value():
        # "the value rounded AT the uncertainty's last kept digit": no digits beyond it are shown
        bad = ("value-shown-beyond-the-last-kept-digit", val)
    elif abs(unc - dxe) > q / 2 * (1 + Decimal("1e-9")):
        # a carry in the uncertainty (9.96 -> 10) may legitimately move the last kept digit up by one
        if not (abs(unc - dxe) <= q * 5 * (1 + Decimal("1e-9")) and str(int(unc / q)).startswith("1")):
            bad = ("uncertainty", unc)
    if bad is None and via == "core":
        # "in whichever of plain or exponent form is shorter": both layouts rebuilt from exactly rounded digits; the
        # choice is checked where the two lengths differ by >= 2 (a carry such as 9.9996 -> 10.000 can shift either
        # candidate by one character, and ties go to the plain form)
        x_exp = dx.adjusted()
        no_int = int((dx / q).to_integral_value(rounding=ROUND_HALF_EVEN))
        un_int = int((dxe / q).to_integral_value(rounding=ROUND_HALF_EVEN))
        f1 = x_exp - un_exp
        len1 = len(("-" if no_int < 0 else "") + _fixed(abs(no_int), f1)) + len("(%d)e%d" % (un_int, x_exp))
        f2 = max(0, -un_exp)
        len2 = len(("-" if no_int < 0 else "") + _fixed(abs(no_int) * 10 ** max(0, un_exp), f2)) + len("(%d)" % (un_int * 10 ** max(0, un_exp)))
        chose_exp = mm.group(5) is not None
        if len2 <= len1 - 2 and chose_exp:
            bad = ("layout-not-shortest", "plain form has %d characters, exponent form %d" % (len2, len1))
        elif len1 <= len2 - 2 and not chose_exp:
            bad = ("layout-not-shortest", "exponent form has %d characters, plain form %d" % (len1, len2))
    if bad:
        res.outcomes["WRONG-" + bad[0]] += 1
        res.violation("C20|uncertainty|%s|%s" % (bad[0], via), "%s +- %s to %d digits printed as %r: %s %s" % (xs, xes, p, s, bad[0], bad[1]), case, s, [str(dx), str(dxe)])
    else:
        res.outcomes["uncert-" + ("exponent" if mm.group(5) is not None else "plain")] += 1


def _fixed(n, decimals):
    """the digits of the non-negative integer n with `decimals` of them after the decimal point"""
    d = str(n)
    if decimals <= 0:
        return d
    d = d.rjust(decimals + 1, "0")
    return d[:-decimals] + "." + d[-decimals:]


# ------------------------------------------------------------------------------------------------ roman
def unroman(s):
    v = {"I": 1, "V": 5, "X": 10, "L": 50, "C": 100, "D": 500, "M": 1000}
    t = 0
    for a, b in zip(s, s[1:] + " "):
        t += -v[a] if b != " " and v[b] > v[a] else v[a]
    return t


def check_roman(res):
    from chempy.printing.numbers import roman

    for n in range(1, 4000):
        res.states += 1
        res.transitions += 1
        res.evaluations += 1
        res.nontrivial += 1
        try:
            s = roman(n)
            ok = re.fullmatch(r"M{0,3}(CM|CD|D?C{0,3})(XC|XL|L?X{0,3})(IX|IV|V?I{0,3})", s) is not None and unroman(s) == n
        except Exception as e:
            s, ok = "EXC %s" % type(e).__name__, False
        res.outcomes["roman-ok" if ok else "roman-WRONG"] += 1
        if not ok:
            res.violation("C20|roman|value", "roman(%d) = %r" % (n, s), dict(layer="R", n=n), s, n)
    res.sample(dict(layer="R", n=1994, roman="MCMXCIV"))


# ------------------------------------------------------------------------------------------------ units
def _units():
    from chempy.units import default_units as u

    return [("m/s", u.m / u.s), ("mol/dm3", u.mol / u.dm3), ("1/M/s", 1 / u.molar / u.s), ("kg*m2/s2", u.kg * u.m ** 2 / u.s ** 2), ("J/mol/K", u.joule / u.mol / u.kelvin), ("1/s", 1 / u.s),
            # dimensionless but scaled units, as they come out of dividing two quantities written with different prefixes
            ("cm/m", u.cm / u.m), ("mM/M", u.mM / u.molar), ("ms/s", u.ms / u.s)]


def check_quantity(res, xs, p, fmt, uname, unit):
    from chempy import units as U

    x = float(xs)
    res.states += 1
    res.transitions += 1
    res.evaluations += 1
    res.nontrivial += 1
    case = dict(layer="Q", x=xs, p=p, fmt=fmt, unit=uname)
    unit_fmt = {"latex": U.latex_of_unit, "unicode": U.unicode_of_unit, "html": U.html_of_unit}[fmt]
    sep = "\\," if fmt == "latex" else " "
    try:
        got = _fn(fmt)(x * unit, fmt=p)
        bare = _fn(fmt)(x, fmt=p)
        utxt = unit_fmt(unit)
    except Exception as e:
        res.outcomes["quantity-RAISES"] += 1
        res.violation("C20|number_to_scientific_%s|quantity-raises" % fmt, "printing %s %s raised %s" % (xs, uname, type(e).__name__), case, "EXC %s" % type(e).__name__, None)
        return
    ok = got == bare + sep + utxt and utxt.strip() != ""
    res.outcomes["quantity-ok" if ok else "quantity-WRONG"] += 1
    if not ok:
        res.violation("C20|number_to_scientific_%s|unit-after-number" % fmt, "%s %s printed as %r, expected %r followed by %r" % (xs, uname, got, bare, utxt), case, got, bare + sep + utxt)


UQ_PAIRS = [("km", "m", 1000.0), ("minute", "second", 60.0), ("m", "m", 1.0)]


def check_uncertain_quantity(res, xs, xes, p, fmt, pair, how):
    """a quantity carrying its own uncertainty (quantities.UncertainQuantity), or given one as a quantity, printed in a requested
    unit: value AND uncertainty are converted to that unit — the text is the one printed for the converted plain numbers,
    followed by the unit"""
    import quantities as pq
    from chempy import units as U

    ua, ub, f = UQ_PAIRS[pair]
    qa, qb = getattr(U.default_units, ua), getattr(U.default_units, ub)
    x, xe = float(xs), float(xes)
    res.states += 1
    res.transitions += 1
    res.evaluations += 1
    res.nontrivial += 1
    case = dict(layer="UQ", x=xs, xe=xes, p=p, fmt=fmt, pair=pair, how=how)
    unit_fmt = {"latex": U.latex_of_unit, "unicode": U.unicode_of_unit, "html": U.html_of_unit}[fmt]
    sep = "\\," if fmt == "latex" else " "
    try:
        if how == "UncertainQuantity":
            got = _fn(fmt)(pq.UncertainQuantity(x, qa, xe), unit=qb, fmt=p)
        else:
            got = _fn(fmt)(x * qa, xe * qa, unit=qb, fmt=p)
        want = _fn(fmt)(x * f, xe * f, fmt=p) + sep + unit_fmt(qb)
    except Exception as e:
        res.outcomes["uncertain-quantity-RAISES"] += 1
        res.violation("C20|number_to_scientific_%s|uncertain-quantity|raises" % fmt, "printing (%s +- %s) %s in %s (%s) raised %s" % (xs, xes, ua, ub, how, type(e).__name__), case, "EXC %s" % type(e).__name__, None)
        return
    ok = got == want
    res.outcomes["uncertain-quantity-ok" if ok else "uncertain-quantity-WRONG"] += 1
    if not ok:
        res.violation("C20|number_to_scientific_%s|uncertain-quantity|%s" % (fmt, how), "(%s +- %s) %s printed in %s (%s, %d digits) as %r; the converted numbers print as %r" % (xs, xes, ua, ub, how, p, got, want), case, got, want)


def check_callable_fmt(res, xs, fmt, pair):
    """fmt given as a callable (documented: int or callable) together with a requested unit: the callable formats the value as
    converted to that unit"""
    from chempy import units as U

    ua, ub, f = UQ_PAIRS[pair]
    qa, qb = getattr(U.default_units, ua), getattr(U.default_units, ub)
    x = float(xs)
    res.states += 1
    res.transitions += 1
    res.evaluations += 1
    res.nontrivial += 1
    case = dict(layer="CF", x=xs, fmt=fmt, pair=pair)
    unit_fmt = {"latex": U.latex_of_unit, "unicode": U.unicode_of_unit, "html": U.html_of_unit}[fmt]
    sep = "\\," if fmt == "latex" else " "
    cb = lambda v: "%.3f" % v  # (no exponent form: an 'e' in the text would be re-typeset as a power of ten)
    try:
        got = _fn(fmt)(x * qa, unit=qb, fmt=cb)
        want = cb(x * f) + sep + unit_fmt(qb)
        plain = _fn(fmt)(x, fmt=cb)
    except Exception as e:
        res.outcomes["callable-fmt-RAISES"] += 1
        res.violation("C20|number_to_scientific_%s|callable-fmt|raises" % fmt, "printing %s %s in %s with a callable fmt raised %s" % (xs, ua, ub, type(e).__name__), case, "EXC %s" % type(e).__name__, None)
        return
    ok = got == want and plain == cb(x)
    res.outcomes["callable-fmt-ok" if ok else "callable-fmt-WRONG"] += 1
    if not ok:
        res.violation("C20|number_to_scientific_%s|callable-fmt" % fmt, "%s %s printed in %s with fmt=<'%%.3f' callable> as %r (plain number: %r); the converted value formats as %r" % (xs, ua, ub, got, plain, want), case, got, want)


def _eng(v):
    """engineering notation: exponent a multiple of three, significand 1 <= s < 1000 written with %g"""
    import math

    if v == 0:
        return "0"
    e3 = int(math.floor(math.log10(abs(v)) / 3.0 + 1e-9)) * 3
    sig = Decimal(repr(v)).scaleb(-e3)
    txt = format(sig.normalize(), "f")
    return "%se%d" % (txt, e3)


def check_engineering_fmt(res, xs, fmt):
    """fmt given as a callable that writes engineering notation (10e-9, 250e3, 1e6): the typeset text denotes the number, and the
    significand is left out only when it is exactly 1"""
    x = float(xs)
    res.states += 1
    res.transitions += 1
    res.evaluations += 1
    res.nontrivial += 1
    case = dict(layer="EF", x=xs, fmt=fmt)
    txt = _eng(x)
    try:
        got = _fn(fmt)(x, fmt=_eng)
        sig, ex = parse_sci(fmt, got)
        val = (sig if sig is not None else Decimal(1)).scaleb(ex)
        bad = None
        if val != Decimal(xs):
            bad = "denotes %s" % val
        elif sig is None and Decimal(xs).scaleb(-ex) != 1:
            bad = "omits a significand that is not 1"
    except Exception as e:
        got, bad = "EXC %s" % type(e).__name__, "raises / cannot be read back"
    res.outcomes["engineering-fmt-%s" % ("ok" if bad is None else "WRONG")] += 1
    if bad:
        res.violation("C20|number_to_scientific_%s|callable-fmt-engineering|%s" % (fmt, bad.split(" ")[0]), "%s printed with a callable fmt that writes %r: %r %s" % (xs, txt, got, bad), case, got, xs)


def check_param(res, mag, uname, unit, order, fmtname):
    """Reaction printed with its parameter shows magnitude (printed precision) and unit"""
    from chempy import Reaction, Substance
    from chempy import units as U
    from chempy.printing import numbers

    res.states += 1
    res.transitions += 1
    res.evaluations += 1
    res.nontrivial += 1
    case = dict(layer="P", mag=mag, unit=uname, order=order, fmt=fmtname)
    reac = {0: {"A": 1}, 1: {"A": 1}, 2: {"A": 1, "B": 1}}[order]
    subst = {k: Substance(k, latex_name=k, unicode_name=k, html_name=k) for k in "ABC"}
    if order == 0:
        # an equilibrium A = C whose constant is a ratio written in two different units (mM per M, cm per m): dimensionless, but not 1 -
        # the text shows the magnitude together with the unit it is in
        from chempy import Equilibrium

        Reaction = lambda reac_, prod_, param_: Equilibrium(reac_, prod_, param_, checks=())
    try:
        r = Reaction(reac, {"C": 1}, float(mag) * unit)
        got = getattr(r, fmtname)(subst, with_param=True) if fmtname != "string" else r.string(with_param=True)
        stoich = getattr(r, fmtname)(subst, with_param=False) if fmtname != "string" else r.string(with_param=False)
        if fmtname == "string":
            mtxt, utxt, sep = "%.3g" % float(mag), str(r.param.dimensionality), "; "
        elif fmtname == "latex":
            mtxt, utxt, sep = numbers.number_to_scientific_latex(float(mag)), U._latex_from_dimensionality(r.param.dimensionality), "; "
        elif fmtname == "unicode":
            mtxt, utxt, sep = numbers.number_to_scientific_unicode(float(mag)), r.param.dimensionality.unicode, "; "
        else:
            mtxt, utxt, sep = numbers.number_to_scientific_html(float(mag)), str(r.param.dimensionality), "&#59; "
        exp = stoich + sep + mtxt + " " + utxt
    except Exception as e:
        res.outcomes["param-RAISES"] += 1
        res.violation("C20|Reaction.%s|with_param-raises" % fmtname, "printing a reaction with k = %s %s raised %s" % (mag, uname, type(e).__name__), case, "EXC %s" % type(e).__name__, None)
        return
    ok = got == exp and utxt != ""
    res.outcomes["param-ok" if ok else "param-WRONG"] += 1
    if not ok:
        res.violation("C20|Reaction.%s|param-magnitude-and-unit" % fmtname, "reaction with k = %s %s printed as %r, expected %r" % (mag, uname, got, exp), case, got, exp)
        return
    # the parameter of the SAME reaction object is re-assigned and the reaction printed again: the text shows the new one
    # (i.e. equals the print of a fresh reaction carrying it)
    res.evaluations += 1
    try:
        newp = 2.5 * float(mag) * unit  # same dimension, other magnitude
        r.param = newp
        again = getattr(r, fmtname)(subst, with_param=True) if fmtname != "string" else r.string(with_param=True)
        fresh = Reaction(reac, {"C": 1}, newp)
        want = getattr(fresh, fmtname)(subst, with_param=True) if fmtname != "string" else fresh.string(with_param=True)
    except Exception as e:
        again, want = "EXC %s" % type(e).__name__, None
    if again != want or again == got:
        res.outcomes["param-reassigned-STALE"] += 1
        res.violation("C20|Reaction.%s|param-reassigned|stale-text" % fmtname, "after r.param = 2.5 x (%s %s) the reaction prints as %r, a fresh reaction with that parameter as %r" % (mag, uname, again, want), case, again, want)
    else:
        res.outcomes["param-reassigned-ok"] += 1


def check_param_system(res, units_seq, fmtname):
    """several reactions printed by ONE printer (a ReactionSystem): every line shows its own reaction's magnitude and unit,
    i.e. equals what printing that reaction alone gives"""
    import itertools as it
    from chempy import Reaction, ReactionSystem, Substance
    from chempy import printing

    res.states += 1
    res.transitions += len(units_seq)
    res.evaluations += 1
    res.nontrivial += 1
    case = dict(layer="PS", units=[u for u, _ in units_seq], fmt=fmtname)
    subst = {k: Substance(k, latex_name=k, unicode_name=k, html_name=k) for k in "ABCD"}
    chain = [("A", "B"), ("B", "C"), ("C", "D")]
    fn = {"string": printing.str_, "latex": printing.latex, "unicode": printing.unicode_, "html": printing.html}[fmtname]
    try:
        rxns = [Reaction({a: 1}, {b: 1}, (3.0 + i) * unit) for i, ((a, b), (uname, unit)) in enumerate(zip(chain, units_seq))]
        rs = ReactionSystem(rxns, subst, checks=())
        got = fn(rs, with_param=True, with_name=False, substances=subst)
        sep = "<br>\n" if fmtname == "html" else "\n"
        exp = sep.join(fn(r, with_param=True, with_name=False, substances=subst) for r in rxns) + sep
    except Exception as e:
        res.outcomes["param-system-RAISES"] += 1
        res.violation("C20|ReactionSystem.%s|with_param-raises" % fmtname, "printing a system with k units %r raised %s" % (case["units"], type(e).__name__), case, "EXC %s" % type(e).__name__, None)
        return
    ok = got == exp
    res.outcomes["param-system-ok" if ok else "param-system-WRONG"] += 1
    if not ok:
        res.violation("C20|ReactionSystem.%s|line-differs-from-single-reaction-print" % fmtname, "system with k units %r printed as %r, its reactions alone print as %r" % (case["units"], got, exp), case, got, exp)


TABLE_KEYS = ["H2O", "Fe+3", "SO4-2", "NaCl"]


def check_table(res, mants, exps, form):
    """per-substance HTML table: every cell denotes the value it was given (5 significant digits), next to its substance;
    rendering the same table again, or changing the container afterwards, does not change what it shows"""
    from chempy.printing.table import as_per_substance_html_table
    from chempy import Substance

    vals = [float("%se%d" % (m, e)) for m, e in zip(mants, exps)]
    case = dict(layer="T", mants=list(mants), exps=list(exps), form=form)
    res.states += 1
    res.transitions += 3
    res.evaluations += 3
    res.nontrivial += 1
    names = {k: Substance.from_formula(k).html_name for k in TABLE_KEYS}
    row_keys = list(TABLE_KEYS)
    try:
        OD = __import__("collections").OrderedDict
        cont = dict(zip(TABLE_KEYS, vals)) if form.startswith("dict") else list(vals)
        if form == "dict":
            kw = {}
        elif form == "dict+substances-reversed":  # rows follow `substances`; every value is looked up by its key
            row_keys = TABLE_KEYS[::-1]
            kw = dict(substances=OD((k, Substance.from_formula(k)) for k in row_keys))
        elif form == "dict+substances-subset":  # the mapping holds more keys than the table shows
            row_keys = [TABLE_KEYS[2], TABLE_KEYS[0]]
            kw = dict(substances=OD((k, Substance.from_formula(k)) for k in row_keys))
        else:
            kw = dict(substances=OD((k, Substance.from_formula(k)) for k in TABLE_KEYS))
        tab = as_per_substance_html_table(cont, header="c", **kw)
        first = tab._repr_html_()
        second = tab._repr_html_()
        if form.startswith("dict"):
            cont[TABLE_KEYS[0]] = 123.0
        else:
            cont[0] = 123.0
        third = tab._repr_html_()
    except Exception as e:
        res.outcomes["table-RAISES"] += 1
        res.violation("C20|as_per_substance_html_table|raises", "table of %r (%s) raised %s" % (vals, form, type(e).__name__), case, "EXC %s" % type(e).__name__, None)
        return
    bad = None
    cells = re.findall(r"<tr><td>(.*?)</td>\s*<td>(.*?)</td></tr>", first, re.S)
    by_key = dict(zip(TABLE_KEYS, vals))
    if [c[0] for c in cells] != [names[k] for k in row_keys]:
        bad = ("substances", [c[0] for c in cells])
    else:
        for (nm, txt), x in zip(cells, [by_key[k] for k in row_keys]):
            try:
                sig, ex = parse_sci("html", txt)
                val = (sig if sig is not None else Decimal(1)).scaleb(ex)
            except Exception:
                val = None
            if val != round_sig(x, 5):
                bad = ("value", "%s shown for %r" % (txt, x))
                break
    if bad is None and second != first:
        bad = ("second-rendering-differs", second[:200])
    if bad is None and third != first:
        bad = ("changes-with-the-container-after-construction", third[:200])
    res.outcomes["table-ok" if bad is None else "table-WRONG"] += 1
    if bad:
        res.violation("C20|as_per_substance_html_table|%s" % bad[0], "table of %r (%s): %s: %s" % (vals, form, bad[0], bad[1]), case, bad[1], first[:200])


def _param_units():
    from chempy.units import default_units as u

    return {0: [("mM/M", (u.mol / u.m ** 3) / u.molar), ("cm/m", u.cm / u.m)], 1: [("1/s", 1 / u.s), ("1/min", 1 / u.minute)], 2: [("1/M/s", 1 / u.molar / u.s), ("m3/mol/s", u.m ** 3 / u.mol / u.s), ("dm3/mol/hour", u.dm3 / u.mol / u.hour)]}


# ------------------------------------------------------------------------------------------------ chunks
def _mantissas(lead):
    if lead == "x":
        return EXTRA_MANT
    return ["%d.%02d" % (lead, f) for f in range(100)]


def run_chunk(chunk, tier):
    res = Result()
    b = bounds(tier)
    if chunk[0] == "S":
        for m in _mantissas(chunk[1]):
            for e in b["exponents"]:
                for sgn in ("", "-"):
                    xs = "%s%se%d" % (sgn, m, e)
                    for p in b["precisions"]:
                        for fmt in FMTS:
                            check_sci(res, xs, p, fmt)
            res.symbols["mantissa-lead-%s" % m[0]] += 1
        res.sample(dict(layer="S", x="%se-7" % _mantissas(chunk[1])[0], p=3, latex=_fn("latex")(float("%se-7" % _mantissas(chunk[1])[0]), fmt=3)))
    elif chunk[0] == "U":
        mants = ["1.0", "1.2345", "3.1416", "9.5", "9.9996", "9.96", "5.0", "2.5"]
        m = mants[chunk[1]]
        exps = (-300, -150, -20, -5, -1, 0, 1, 3, 10, 100, 300) if tier == "quick" else tuple(range(-300, 301, 10))
        for e in exps:
            for sgn in ("", "-"):
                xs = "%s%se%d" % (sgn, m, e)
                for rel in b["uncert_rel"]:
                    for lead in b["uncert_lead"]:
                        xe = abs(float(xs)) * rel * lead
                        if xe > 0.5 * abs(float(xs)) or xe == 0:
                            continue
                        for p in b["uncert_prec"]:
                            check_uncert(res, xs, repr(xe), p, "core")
                            if rel in (1e-5, 0.1) and lead in (1.0, 9.6):
                                for via in FMTS:
                                    check_uncert(res, xs, repr(xe), p, via)
        if chunk[1] == 0:
            # uncertainties that are exact powers of ten, every decade 0 .. 21 (the negative powers are not exactly representable as
            # doubles - 1e-12 is stored slightly below 1e-12 - so which decade "the uncertainty's last kept digit" is in is not defined
            # sharply there; they stay with the general lattice)
            for k in range(0, 22):
                for xs in ("1.23456e%d" % (k + 4), "-9.87654321e%d" % (k + 6), "5e%d" % (k + 1), "1.23456e%d" % (k + 2)):
                    for p in b["uncert_prec"]:
                        for via in ("core",) + FMTS:
                            check_uncert(res, xs, "1e%d" % k, p, via)
            for xs, k0 in (("123456", 3), ("1234560.0", 3), ("7.5e6", 6), ("3.3e9", 9)):
                for p in b["uncert_prec"]:
                    for via in ("core",) + FMTS:
                        check_uncert(res, xs, "1e%d" % k0, p, via)
        res.sample(dict(layer="U", x=m + "e3", xe=repr(float(m) * 1e3 * 1e-3 * 2.9), p=2))
    elif chunk[0] == "R":
        check_roman(res)
    elif chunk[0] == "Q":
        for uname, unit in _units():
            for xs in ("1e13", "3.14159e-7", "-2.5e17", "1.4142", "9.9996e5", "12345.678", "1e-300", "7e0"):
                for p in (1, 3, 5):
                    for fmt in FMTS:
                        check_quantity(res, xs, p, fmt, uname, unit)
            res.symbols[uname] += 1
        for xs in ("1.5", "315.25", "-7.25e4", "1.4142e-7"):
            for fmt in FMTS:
                for pair in range(len(UQ_PAIRS)):
                    check_callable_fmt(res, xs, fmt, pair)
        for e in range(-12, 13):
            for mant in ("1", "2.5", "-1", "9.75"):
                for fmt in FMTS:
                    check_engineering_fmt(res, "%se%d" % (mant, e), fmt)
        for xs, xes in (("315.0", "1.79e-3"), ("2.5", "0.125"), ("1.4142e-7", "3e-10"), ("-7.25e4", "12.5")):
            for p in (1, 2):
                for fmt in FMTS:
                    for pair in range(len(UQ_PAIRS)):
                        for how in ("UncertainQuantity", "uncertainty-as-quantity"):
                            check_uncertain_quantity(res, xs, xes, p, fmt, pair, how)
        res.sample(dict(layer="Q", x="3.14159e-7", unit="m/s"))
    elif chunk[0] == "T":
        form = ("dict", "list", "dict+substances-reversed", "dict+substances-subset")[chunk[1]]
        mants = ["1.00", "3.14159", "9.99996", "2.5"]
        for e0 in b["exponents"][::3]:
            for rot in range(4):
                ms = mants[rot:] + mants[:rot]
                check_table(res, ms, [e0, -e0 // 2, 0, 7], form)
        res.sample(dict(layer="T", form=form, keys=TABLE_KEYS))
    elif chunk[0] == "PS":
        import itertools as it
        from chempy.units import default_units as u

        pool = [("1/s", 1 / u.s), ("1/min", 1 / u.minute), ("1/hour", 1 / u.hour), ("1/ms", 1 / u.ms)]
        for n in (2, 3):
            for seq in it.permutations(pool, n):
                for fmtname in ("string", "latex", "unicode", "html"):
                    check_param_system(res, seq, fmtname)
        res.sample(dict(layer="PS", units=["1/s", "1/min"], fmt="string"))
    else:
        for order, units in sorted(_param_units().items()):
            for uname, unit in units:
                for mag in ("1e10", "2.5e17", "3.14159", "1e-4", "7", "123456", "0.00012345", "9.996e5"):
                    for fmtname in ("string", "latex", "unicode", "html"):
                        check_param(res, mag, uname, unit, order, fmtname)
        res.sample(dict(layer="P", reaction="A + B -> C", k="2.5e17 1/M/s"))
    return res


def replay(case):
    res = Result()
    L = case["layer"]
    if L == "S":
        check_sci(res, case["x"], case["p"], case["fmt"])
    elif L == "U":
        check_uncert(res, case["x"], case["xe"], case["p"], case["via"])
    elif L == "R":
        sub = Result()
        check_roman(sub)
        res.violations = [v for v in sub.violations if v["case"]["n"] == case["n"]]
    elif L == "T":
        check_table(res, case["mants"], case["exps"], case["form"])
    elif L == "PS":
        from chempy.units import default_units as u

        pool = dict([("1/s", 1 / u.s), ("1/min", 1 / u.minute), ("1/hour", 1 / u.hour), ("1/ms", 1 / u.ms)])
        check_param_system(res, [(n, pool[n]) for n in case["units"]], case["fmt"])
    elif L == "CF":
        check_callable_fmt(res, case["x"], case["fmt"], case["pair"])
    elif L == "EF":
        check_engineering_fmt(res, case["x"], case["fmt"])
    elif L == "UQ":
        check_uncertain_quantity(res, case["x"], case["xe"], case["p"], case["fmt"], case["pair"], case["how"])
    elif L == "Q":
        check_quantity(res, case["x"], case["p"], case["fmt"], case["unit"], dict(_units())[case["unit"]])
    else:
        unit = dict(_param_units()[case["order"]])[case["unit"]]
        check_param(res, case["mag"], case["unit"], unit, case["order"], case["fmt"])
    if res.violations:
        v = res.violations[0]
        return dict(key=v["key"], what=v["what"], observed=v["observed"], expected=v["expected"])
    return None

"""C12 — reaction text is read exactly as written; printing and parsing are inverse.

State space: every reaction / equilibrium line derivable from the line grammar up to cost N

    line := side ARROW side [ '; ' param [ "; name='x'" ] ]         ARROW: ' -> ' (Reaction) | ' = ' (Equilibrium)
    side := term (' + ' term){0,2}
    term := [coef] key  |  '(' [coef] key ')'                         (the parenthesised form is an inactive group)

cost: term 1, coefficient +1, inactive +1, param 1, keyword 1.  Layer K: all 12 keys, cost ≤ NK; layer S: the 6 keys
that collide with the syntax (charges, quote, brackets, bracket-leading), cost ≤ N.  Allowed-key list absent / complete
/ one key missing.  Multi-line systems: every ordered selection of ≤3 lines from a pool × comment/blank interleavings.
Oracle: the derivation's own dicts (repeats summed); from_string(str(r)) == r; r.copy() == r.
"""
import itertools

from mc.core import Result

META = dict(
    title="Reaction text is read exactly as written and printing/parsing are inverse",
    level="model_checking",
    technique="bounded-exhaustive enumeration of all reaction lines derivable from the line grammar up to a cost bound (and all small multi-line systems), executed on the real parser/printer, compared with the derivation's own stoichiometry dicts and a print-parse round trip on every state",
    rule="states = distinct (line text, class, allowed-key mode) triples and system texts; non-trivial = lines with a coefficient, a repeated key, an inactive group, a parameter, "
    "a bracket-leading key or an allowed-key list (i.e. anything beyond 'X -> Y')",
    assumptions=["eval() of the parameter part is trusted (Python literals only are generated)", "lines of cost > N, more than 3 terms per side and keys outside the alphabet are outside the bound"],
    design_ref="DESIGN.md §3 C12",
    hashseed_sensitive=False,
)

KEYS12 = ["A", "H2O", "H+", "OH-", "e-", "Fe+3", "NO3-'", "CO2(g)", ".OH", "[Fe(CN)6]-3", "(NH4)2SO4", "(NH4)2(SO4)"]
KEYS6 = ["A", "H+", "e-", "NO3-'", "[Fe(CN)6]-3", "(NH4)2SO4"]
COEFS = [("", 1), ("2 ", 2), ("3 * ", 3), ("2.0 ", 2.0), ("10 ", 10), ("1000 ", 1000)]
ICOEFS = [("", 1), ("2 ", 2)]
PARAMS = [("7", 7), ("1e-30", 1e-30), ("2.5e17", 2.5e17), ("'k1'", "k1"), ("0", 0)]
ARROWS = {"Reaction": " -> ", "Equilibrium": " = "}

SYS_POOL = [
    "H2O -> H+ + OH-; 1e-4",
    "H+ + OH- -> H2O; 1e10",
    "Fe+3 + e- -> Fe+2; 3",
    "NH4+ -> NH3 + H+; 0.5",
    "NH3 + H+ -> NH4+; 2.5e17",
    "2 H2O2 -> 2 H2O + O2; 7",
    "CO2(g) + H2O -> H2CO3",
    "Fe+2 + H2O2 -> Fe+3 + OH- + .OH; 76",
    "(NH4)2SO4 -> 2 NH4+ + SO4-2; 1e-30",
    "H2O + H2O -> H3O+ + OH-; 1e-30",
]
INTERLEAVE = ["plain", "comment-first", "blank-between", "comment-between", "trailing", "slashes", "two-markers"]
# caller-chosen comment markers (comment_tokens=): "slashes" uses ('//',), "two-markers" ('#', '--') with both in the text
COMMENT_TOKENS = {"slashes": ("//",), "two-markers": ("#", "--")}


KEYS4 = ["A", "H+", "NO3-'", "(NH4)2SO4"]
KEYSETS = {"K": KEYS12, "S": KEYS6, "D": KEYS4}
# (class, layer) -> cost bound; layer K: 12 keys, S: the 6 syntax-colliding keys, D ("deep"): 4 of them
LAYERS = {
    "quick": {("Reaction", "K"): 4, ("Reaction", "D"): 5, ("Equilibrium", "K"): 3, ("Equilibrium", "S"): 4},
    "thorough": {("Reaction", "K"): 4, ("Reaction", "S"): 5, ("Reaction", "D"): 6, ("Equilibrium", "K"): 4, ("Equilibrium", "S"): 5},
}


def bounds(tier):
    return dict(cost_bound_per_class_and_key_layer={"%s/%s" % k: v for k, v in LAYERS[tier].items()}, keys={k: v for k, v in KEYSETS.items()},
                decimal_coefficients=DEC, coef_spellings=[c[0] for c in COEFS], params=[p[0] for p in PARAMS], terms_per_side=3, system_lines=3, system_pool=len(SYS_POOL), interleavings=INTERLEAVE)


# --------------------------------------------------------------------------------------------- grammar
def terms_by_cost(keys):
    """cost -> list of (text, key, coefficient, inactive)"""
    out = {1: [], 2: [], 3: []}
    for k in keys:
        for txt, c in COEFS:
            out[1 if not txt else 2].append((txt + k, k, c, False))
        for txt, c in ICOEFS:
            out[2 if not txt else 3].append(("(" + txt + k + ")", k, c, True))
    return out


def sides_by_cost(keys, maxcost):
    """cost -> list of sides (tuples of ≤3 terms), canonical order"""
    T = terms_by_cost(keys)
    out = {c: [] for c in range(1, maxcost + 1)}
    for n in (1, 2, 3):
        for costs in itertools.product((1, 2, 3), repeat=n):
            if sum(costs) > maxcost:
                continue
            for combo in itertools.product(*[T[c] for c in costs]):
                out[sum(costs)].append(combo)
    return out


def decorations(budget):
    """(text, param value or None, name or None, cost)"""
    out = [("", None, None, 0)]
    if budget >= 1:
        out += [("; " + t, v, None, 1) for t, v in PARAMS]
    if budget >= 2:
        out += [("; " + t + "; name='x'", v, "x", 2) for t, v in PARAMS[:2]]
    return out


def side_text(side):
    return " + ".join(t[0] for t in side)


def side_model(side):
    act, inact = {}, {}
    for txt, k, c, ina in side:
        d = inact if ina else act
        d[k] = d.get(k, 0) + c
    return act, inact


def lines(keys, N, lc, j, J):
    """all lines of cost ≤ N whose left side has exact cost lc (left-side index ≡ j mod J)"""
    S = sides_by_cost(keys, N - 1)
    left = S[lc]
    for li in range(j, len(left), J):
        L = left[li]
        for rc in range(1, N - lc + 1):
            for R in S[rc]:
                for dtxt, pv, name, dc in decorations(N - lc - rc):
                    yield L, R, dtxt, pv, name, lc + rc + dc


# --------------------------------------------------------------------------------------------- oracle
def _param_obs(p):
    if p is None or isinstance(p, (int, float)):
        return p
    try:
        return ("MassAction", tuple(p.args[0].unique_keys))
    except Exception:
        return repr(p)


_CTX = []


def _observe(cls_name, text, substance_keys=None, default_globals=True):
    """default_globals=False passes one cached copy of chempy's own parsing context as `globals_` (the context is
    only used to eval() the parameter part; rebuilding it on every call costs 85 % of from_string's time)"""
    import chempy

    cls = getattr(chempy, cls_name)
    try:
        if default_globals:
            r = cls.from_string(text, substance_keys)
        else:
            if not _CTX:
                from chempy.util.parsing import get_parsing_context

                _CTX.append(get_parsing_context())
            r = cls.from_string(text, substance_keys, globals_=_CTX[0])
    except Exception as e:
        return None, "EXC %s" % type(e).__name__
    return r, dict(reac=dict(r.reac), prod=dict(r.prod), inact_reac=dict(r.inact_reac), inact_prod=dict(r.inact_prod), param=_param_obs(r.param), name=r.name)


def _expected(L, R, pv, name):
    ra, ri = side_model(L)
    pa, pi = side_model(R)
    keys = set(ra) | set(ri) | set(pa) | set(pi)
    net = {k: pa.get(k, 0) + pi.get(k, 0) - ra.get(k, 0) - ri.get(k, 0) for k in keys}
    if not any(net.values()):
        return "REJECT (no net effect)"
    param = ("MassAction", (pv,)) if isinstance(pv, str) else pv
    return dict(reac=ra, prod=pa, inact_reac=ri, inact_prod=pi, param=param, name=name)


def _eqdict(a, b):
    return a == b and all(type(a[k]) is type(b[k]) or a[k] == b[k] for k in a)


def _bracket_led(L, R):
    return any(t[1].startswith("(") for t in L + R)


def check_line(res, cls_name, L, R, dtxt, pv, name, cost, modes):
    text = side_text(L) + ARROWS[cls_name] + side_text(R) + dtxt
    exp = _expected(L, R, pv, name)
    allkeys = sorted({t[1] for t in L + R})
    nontrivial = cost > 2 or _bracket_led(L, R)
    case = dict(cls=cls_name, text=text, L=[list(t) for t in L], R=[list(t) for t in R], dtxt=dtxt, pv=pv, name=name, cost=cost)
    tag = "bracket-led" if _bracket_led(L, R) else "plain"
    for mode in modes:
        res.states += 1
        res.transitions += cost
        res.evaluations += 1
        if nontrivial or mode != "none":
            res.nontrivial += 1
        if mode == "none":
            sk, e = None, exp
        elif mode == "full":
            sk, e = allkeys, exp
        else:  # one used key missing from the allowed list
            sk, e = allkeys[1:] + ["Zz"], "REJECT (unknown key)"
        r, got = _observe(cls_name, text, sk, default_globals=cost <= 3)
        c = dict(case, mode=mode)
        if isinstance(e, str):
            ok = isinstance(got, str)
            res.outcomes["rejected" if ok else "ACCEPTED-but-must-reject"] += 1
            if not ok:
                res.violation("C12|%s.from_string|%s|%s" % (cls_name, "unknown-key-accepted" if mode == "missing" else "no-effect-accepted", tag),
                              "%s.from_string(%r, %r) returned %r, expected rejection: %s" % (cls_name, text, sk, got, e), c, got, e)
            continue
        if isinstance(got, str):
            res.outcomes["REJECTED-valid-line"] += 1
            res.violation("C12|%s.from_string|rejected|%s" % (cls_name, tag), "%s.from_string(%r, %r) raised %s; written: %r" % (cls_name, text, sk, got, e), c, got, e)
            continue
        bad = [f for f in ("reac", "prod", "inact_reac", "inact_prod", "param", "name") if got[f] != e[f]]
        if bad:
            res.outcomes["MISREAD"] += 1
            res.violation("C12|%s.from_string|misread-%s|%s" % (cls_name, "+".join(bad), tag), "%s.from_string(%r) read %r, written %r" % (cls_name, text, {f: got[f] for f in bad}, {f: e[f] for f in bad}), c, got, e)
            continue
        res.outcomes["read-ok"] += 1
        if mode != "none":
            continue
        # copy
        res.evaluations += 1
        try:
            cp = r.copy()
            okc = (cp == r) and all(dict(getattr(cp, a)) == dict(getattr(r, a)) for a in ("reac", "prod", "inact_reac", "inact_prod")) and type(cp) is type(r) and cp.name == r.name
        except Exception as ex:
            okc = "EXC %s" % type(ex).__name__
        if okc is True and len(L) + len(R) >= 3:
            # the same reaction built from explicitly ordered (reverse-sorted) mappings: its copy keeps that order
            try:
                from collections import OrderedDict
                import chempy

                rev = lambda d: OrderedDict(sorted(d.items(), reverse=True))
                ro = getattr(chempy, cls_name)(rev(e["reac"]), rev(e["prod"]), r.param, inact_reac=rev(e["inact_reac"]), inact_prod=rev(e["inact_prod"]), name=r.name)
                cp = ro.copy()
                okc = (cp == ro) and all(list(getattr(cp, a).items()) == list(getattr(ro, a).items()) for a in ("reac", "prod", "inact_reac", "inact_prod"))
            except Exception as ex:
                okc = "EXC %s" % type(ex).__name__
            res.evaluations += 1
        if okc is not True:
            res.violation("C12|%s.copy|not-equal" % cls_name, "copy of %r does not compare equal to the original (%r)" % (text, okc), dict(c, what="copy"), okc, True)
        # print -> parse (only without inactive groups, as the statement says)
        if e["inact_reac"] or e["inact_prod"]:
            continue
        for how in ("str", "string-noparam"):
            res.evaluations += 1
            try:
                printed = str(r) if how == "str" else r.string()
            except Exception as ex:
                res.violation("C12|%s.%s|print-raises" % (cls_name, how), "printing %r raised %s" % (text, type(ex).__name__), dict(c, what=how), "EXC", None)
                continue
            r2, got2 = _observe(cls_name, printed, default_globals=cost <= 3)
            e2 = dict(e)
            if how == "string-noparam":
                e2["param"], e2["name"] = None, None
            elif isinstance(e2["param"], (int, float)):
                e2["param"] = float("%.3g" % e2["param"])
            if isinstance(got2, str) or any(got2[f] != e2[f] for f in ("reac", "prod", "inact_reac", "inact_prod", "param")) or \
                    (how == "string-noparam" and isinstance(e["param"], type(None)) and not (r2 == r)):
                kind = "named" if name else "unnamed"
                res.outcomes["ROUNDTRIP-broken"] += 1
                res.violation("C12|%s|%s-roundtrip|%s" % (cls_name, how, kind if name else kind + "|" + tag), "%s printed as %r parses back as %r, expected %r" % (text, printed, got2, e2), dict(c, what=how), got2, e2)
            else:
                res.outcomes["roundtrip-ok"] += 1
    return text


# --------------------------------------------------------------------------------------------- systems
def _sys_text(sel, how):
    ls = [SYS_POOL[i] for i in sel]
    if how == "plain":
        out = ls
    elif how == "comment-first":
        out = ["# model"] + ls
    elif how == "blank-between":
        out = [x for l in ls for x in (l, "")][:-1]
    elif how == "comment-between":
        out = [x for l in ls for x in (l, "  # " + l)][:-1]
    elif how == "slashes":
        out = ["// model"] + [x for l in ls for x in (l, "//" + l)]
    elif how == "two-markers":
        out = ["-- model"] + [x for l in ls for x in (l, "# " + l, "--" + l)]
    else:
        out = ls + ["", "# end", ""]
    return "\n".join(out)


def check_named_system(res, sel):
    """reactions that carry names: the system printed without names (string(with_name=False)) parses back to an equal
    system; printed with names it shows each name after its own reaction"""
    from chempy import ReactionSystem, Reaction

    case = dict(kind="named-system", sel=list(sel))
    res.states += 1
    res.transitions += len(sel)
    res.evaluations += 2
    res.nontrivial += 1
    try:
        rxns = []
        for n, i in enumerate(sel):
            line = SYS_POOL[i] if ";" in SYS_POOL[i] else SYS_POOL[i] + "; 7"
            rxns.append(Reaction.from_string(line + "; name='r%d'" % n))
        rs = ReactionSystem(rxns, substance_factory=__import__("chempy").Substance.from_formula)
        printed = rs.string(with_name=False)
        rs2 = ReactionSystem.from_string(printed)
        same = [(dict(a.reac), dict(a.prod), float("%.3g" % a.param)) for a in rs.rxns] == [(dict(a.reac), dict(a.prod), a.param) for a in rs2.rxns]
        withn = rs.string(with_name=True).strip().split("\n")
        names_ok = len(withn) == len(sel) and all(l.endswith("; r%d" % n) for n, l in enumerate(withn)) and not any("r%d" % n in l for n, l in enumerate(printed.strip().split("\n")))
    except Exception as e:
        printed, same, names_ok = locals().get("printed"), "EXC %s" % type(e).__name__, True
    ok = same is True and names_ok
    res.outcomes["named-system-ok" if ok else "NAMED-system-broken"] += 1
    if not ok:
        res.violation("C12|ReactionSystem|string(with_name=False)-roundtrip", "system of named reactions printed without names as %r does not parse back to an equal system (%r; names placed correctly: %r)" % (printed, same, names_ok), case, same, True)


def check_system(res, sel, how):
    from chempy import ReactionSystem, Reaction

    text = _sys_text(sel, how)
    case = dict(kind="system", sel=list(sel), how=how)
    res.states += 1
    res.transitions += len(sel)
    res.evaluations += 1
    res.nontrivial += 1
    try:
        rs = ReactionSystem.from_string(text, comment_tokens=COMMENT_TOKENS[how]) if how in COMMENT_TOKENS else ReactionSystem.from_string(text)
    except Exception as e:
        res.outcomes["SYSTEM-rejected"] += 1
        res.violation("C12|ReactionSystem.from_string|rejected", "ReactionSystem.from_string(%r) raised %s" % (text, type(e).__name__), case, "EXC %s" % type(e).__name__, "accepted")
        return
    exp = [Reaction.from_string(SYS_POOL[i]) for i in sel]
    if list(rs.rxns) != exp or [dict(r.reac) for r in rs.rxns] != [dict(r.reac) for r in exp]:
        res.outcomes["SYSTEM-misread"] += 1
        res.violation("C12|ReactionSystem.from_string|misread", "system text %r was read as %r" % (text, [str(r) for r in rs.rxns]), case, [str(r) for r in rs.rxns], [str(r) for r in exp])
        return
    res.evaluations += 1
    try:
        printed = rs.string()
        rs2 = ReactionSystem.from_string(printed)
        same = [(dict(a.reac), dict(a.prod), float("%.3g" % a.param) if a.param is not None else None) for a in rs.rxns] == \
               [(dict(a.reac), dict(a.prod), a.param) for a in rs2.rxns] and list(rs2.substances) == list(rs.substances) and rs2.substances == rs.substances
    except Exception as e:
        printed, same = None, "EXC %s" % type(e).__name__
    res.outcomes["system-roundtrip-ok" if same is True else "SYSTEM-roundtrip-broken"] += 1
    if same is not True:
        res.violation("C12|ReactionSystem|string-roundtrip", "system %r printed as %r does not parse back to an equal system (%r)" % (text, printed, same), dict(case, what="roundtrip"), same, True)


# --------------------------------------------------------------------------------------------- chunks
# --------------------------------------------------------------------------------------------- layer DC: decimal coefficients
DEC = ["0.5", "0.25", "0.125", "0.75", "1.5", "2.5", "1.25"]
DC_SHAPES = [  # (reactants, products) with one marked slot "@" taking the decimal coefficient
    (["@ O2", "H2"], ["H2O"]), (["H2", "@ O2"], ["H2O"]), (["H2O2"], ["@ O2", "H2O"]), (["H2O2"], ["H2O", "@ O2"]),
    (["@ (NH4)2SO4(s)", "Ba+2"], ["BaSO4(s)", "2 NH4+"]), (["@ A", "(@ A)"], ["B"]),
]


def check_decimal(res, cls_name, shape, dec, ptxt):
    """lines with a decimal coefficient (below and above one), read with the all-integral check off: the coefficient is
    read as written, printed (left out only when it is exactly 1) and read back equal"""
    import chempy

    cls = getattr(chempy, cls_name)
    arrow = "->" if cls_name == "Reaction" else "="
    L, R = DC_SHAPES[shape]
    text = "%s %s %s%s" % (" + ".join(L).replace("@", dec), arrow, " + ".join(R).replace("@", dec), ptxt)
    case = dict(kind="decimal", cls=cls_name, shape=shape, dec=dec, ptxt=ptxt)
    checks = [c for c in cls.default_checks if c != "all_integral"]
    res.states += 1
    res.transitions += 2
    res.nontrivial += 1
    res.evaluations += 1

    def model(side):
        act, ina = {}, {}
        for t in side:
            d = act
            if t.startswith("("):
                t, d = t[1:-1], ina
            c, _, k = t.rpartition(" ")
            c = float(dec) if c == "@" else (int(c) if c else 1)
            d[k] = d.get(k, 0) + c
        return act, ina

    ra, ri = model(L)
    pa, pi = model(R)
    exp = dict(reac=ra, prod=pa, inact_reac=ri, inact_prod=pi)
    try:
        r = cls.from_string(text, checks=checks)
        got = dict(reac=dict(r.reac), prod=dict(r.prod), inact_reac=dict(r.inact_reac), inact_prod=dict(r.inact_prod))
    except Exception as e:
        r, got = None, "EXC %s" % type(e).__name__
    if got != exp:
        res.outcomes["decimal-misread"] += 1
        res.violation("C12|%s.from_string|decimal-coefficient|misread" % cls_name, "%s.from_string(%r, checks without all_integral) read %r, written %r" % (cls_name, text, got, exp), case, got, exp)
        return
    res.evaluations += 1
    try:
        printed = str(r)
        back = cls.from_string(printed, checks=checks)
        same = bool(back == r) and dict(back.reac) == ra and dict(back.prod) == pa and dict(back.inact_reac) == ri
    except Exception as e:
        printed, same = locals().get("printed"), "EXC %s" % type(e).__name__
    res.outcomes["decimal-roundtrip-ok" if same is True else "decimal-roundtrip-WRONG"] += 1
    if same is not True:
        res.violation("C12|%s|str-roundtrip|decimal-coefficient" % cls_name, "%r prints as %r, which does not parse back to an equal %s (%r)" % (text, printed, cls_name, same), case, printed, text)


WS_LINES = ["A + (2 B) -> C + 2 D; 7", "2 H2O + (H+) -> H3O+ + (H2O); 1e-30", "(NH4)2SO4 + 3 A -> (2 NO3-') + B; 'k1'", "A -> B"]


def _ws_variants(text):
    """the same line with blanks doubled at every single position where one blank stands, blanks added around the outermost
    parentheses' inside, around the arrow and the semicolons, and leading / trailing blanks and a trailing newline (blanks only:
    a tab is refused by chempy, which is a refusal and not a misreading)"""
    out = []
    for i, ch in enumerate(text):
        if ch == " ":
            out.append(text[:i] + "  " + text[i + 1:])
    out += ["  " + text, text + "  ", text + "\n", " " + text + " \n"]
    out += [text.replace(";", " ;"), text.replace(";", ";  ")]
    if " + (" in text and not text.startswith("("):  # (blanks inside the parentheses of an inactive group — not inside a species key)
        i = text.index(" + (") + 3
        j = text.index(")", i)
        out += [text[: i + 1] + " " + text[i + 1:], text[:j] + " " + text[j:]]
    return sorted(set(v for v in out if v != text))


def check_whitespace(res, cls_name, li):
    import chempy

    cls = getattr(chempy, cls_name)
    base_text = WS_LINES[li] if cls_name == "Reaction" else WS_LINES[li].replace("->", "=")
    if cls_name == "Equilibrium" and "'k1'" in base_text:
        return
    try:
        base = cls.from_string(base_text)
    except Exception as e:
        res.violation("C12|%s.from_string|whitespace|base-line-rejected" % cls_name, "%r raised %s" % (base_text, type(e).__name__), dict(kind="whitespace", cls=cls_name, li=li, v=-1), "EXC", None)
        return
    exp = (dict(base.reac), dict(base.prod), dict(base.inact_reac), dict(base.inact_prod), _param_obs(base.param))
    for n, text in enumerate(_ws_variants(base_text)):
        res.states += 1
        res.transitions += 1
        res.evaluations += 1
        res.nontrivial += 1
        try:
            r = cls.from_string(text)
            got = (dict(r.reac), dict(r.prod), dict(r.inact_reac), dict(r.inact_prod), _param_obs(r.param))
        except Exception as e:
            got = "EXC %s" % type(e).__name__
        res.outcomes["whitespace-ok" if got == exp else "whitespace-WRONG"] += 1
        if got != exp:
            res.violation("C12|%s.from_string|whitespace|%s" % (cls_name, "rejected" if isinstance(got, str) else "misread"), "%s.from_string(%r) read %r; the line without the extra blanks reads %r" % (cls_name, text, got, exp),
                          dict(kind="whitespace", cls=cls_name, li=li, v=n), repr(got), repr(exp))


def check_system_unknown_key(res):
    """a system text read against a list of allowed keys that lacks one of the keys used: refused, whatever the settings of the
    constructor checks"""
    from chempy import ReactionSystem

    text = "H2O -> H+ + OH-; 1e-4\nH+ + OH- -> H2O; 1e10"
    for subs in ("H2O H+", "H2O OH-", "H+ OH-"):
        for kname, kw in (("default", {}), ("checks=()", dict(checks=())), ("dont_check={'substance_keys'}", dict(dont_check={"substance_keys"})),
                          ("checks=(),missing_substances_from_keys=False", dict(checks=(), missing_substances_from_keys=False))):
            res.states += 1
            res.transitions += 1
            res.evaluations += 1
            res.nontrivial += 1
            try:
                rs = ReactionSystem.from_string(text, subs, **kw)
                got = "accepted with substances %r" % (list(rs.substances),)
            except Exception as e:
                got = "EXC %s" % type(e).__name__
            res.outcomes["system-unknown-key-%s" % ("refused" if got.startswith("EXC") else "ACCEPTED")] += 1
            if not got.startswith("EXC"):
                res.violation("C12|ReactionSystem.from_string|unknown-key-accepted|%s" % kname, "ReactionSystem.from_string(%r, %r, %s): %s" % (text, subs, kname, got), dict(kind="system-unknown-key", subs=subs, kname=kname), got, "an exception")


MARKED_KEYS = ["O2*", "CH3*", "N2*", "Pt4*", "H2O*", "OH*", "O2'", "H2O2*", "C60*"]


def check_marked_keys(res, cls_name):
    """species keys that end in an excitation mark after a digit or a letter (O2*, CH3*, H2O*): read as written in every position and
    with every coefficient spelling, and printed text reads back as the same reaction"""
    import chempy

    cls = getattr(chempy, cls_name)
    arrow = "->" if cls_name == "Reaction" else "="
    for key in MARKED_KEYS:
        for (ctxt, cval), pos in itertools.product(COEFS[:4], ("reac-first", "reac-second", "prod")):
            res.states += 1
            res.transitions += 1
            res.evaluations += 1
            res.nontrivial += 1
            term = ctxt + key
            if pos == "reac-first":
                text, want = "%s + B %s C" % (term, arrow), ({key: cval, "B": 1}, {"C": 1})
            elif pos == "reac-second":
                text, want = "B + %s %s C" % (term, arrow), ({"B": 1, key: cval}, {"C": 1})
            else:
                text, want = "B %s C + %s" % (arrow, term), ({"B": 1}, {"C": 1, key: cval})
            try:
                r = cls.from_string(text)
                got = (dict(r.reac), dict(r.prod))
                back = cls.from_string(r.string())
                again = (dict(back.reac), dict(back.prod))
            except Exception as e:
                got = again = "EXC %s" % type(e).__name__
            ok = got == want and again == want
            res.outcomes["marked-keys-%s" % ("ok" if ok else "WRONG")] += 1
            if not ok:
                res.violation("C12|%s.from_string|marked-key|%s" % (cls_name, "misread" if got != want else "print-parse"), "%s.from_string(%r) read %r (printed and read again: %r), written %r" % (cls_name, text, got, again, want),
                              dict(kind="marked-key", cls=cls_name, key=key), [got, again], want)


def check_copy_overrides(res, cls_name):
    """copy(param=...) / copy(name=...) replace exactly what is named, also by a falsy value (0, 0.0, '', None)"""
    import chempy

    cls = getattr(chempy, cls_name)
    arrow = "->" if cls_name == "Reaction" else "="
    r = cls.from_string("2 A + B %s C; 7.5; name='r1'" % arrow)
    for field, val in (("param", 0), ("param", 0.0), ("param", None), ("param", 3.5), ("name", ""), ("name", None), ("name", "other")):
        res.states += 1
        res.transitions += 1
        res.evaluations += 1
        res.nontrivial += 1
        case = dict(kind="copy-override", cls=cls_name, field=field, val=repr(val))
        try:
            cp = r.copy(**{field: val})
            got = (cp.param, cp.name, dict(cp.reac), dict(cp.prod))
            exp = (val if field == "param" else r.param, val if field == "name" else r.name, dict(r.reac), dict(r.prod))
            ok = got == exp and (type(got[0]) is type(exp[0])) and (r.param, r.name) == (7.5, "r1")
        except Exception as e:
            got, exp, ok = "EXC %s" % type(e).__name__, None, False
        res.outcomes["copy-override-ok" if ok else "copy-override-WRONG"] += 1
        if not ok:
            res.violation("C12|%s.copy|override-%s" % (cls_name, field), "%s.from_string(...; 7.5; name='r1').copy(%s=%r) carries (param, name, reac, prod) = %r, expected %r" % (cls_name, field, val, got, exp), case, repr(got), repr(exp))


def check_context_history(res, cls_name):
    """a caller takes chempy's parsing context, redefines names in ITS copy and reads a line with it; a line read afterwards
    with the default context is read exactly as written (the caller's redefinitions stay the caller's)"""
    import chempy
    from chempy.util.parsing import get_parsing_context

    cls = getattr(chempy, cls_name)
    arrow = "->" if cls_name == "Reaction" else "="
    text = "A %s B; exp(log(2e-3))" % arrow
    case = dict(kind="context-history", cls=cls_name)
    res.states += 1
    res.transitions += 3
    res.nontrivial += 1
    res.evaluations += 3
    try:
        first = float(cls.from_string(text).param)
        ctx = get_parsing_context()
        ctx["log"] = lambda x: 1.0
        ctx["exp"] = lambda x: 42.0
        mine = float(cls.from_string(text, globals_=ctx).param)
        after = float(cls.from_string(text).param)
        obs = (first, mine, after)
    except Exception as e:
        obs = "EXC %s: %s" % (type(e).__name__, str(e)[:80])
    ok = isinstance(obs, tuple) and abs(obs[0] - 2e-3) < 1e-15 and obs[1] == 42.0 and abs(obs[2] - 2e-3) < 1e-15
    res.outcomes["context-history-ok" if ok else "context-history-WRONG"] += 1
    if not ok:
        res.violation("C12|%s.from_string|parsing-context-history" % cls_name, "%r read with the default context, with a caller-modified copy of the context, and with the default context again: %r (expected 0.002, 42, 0.002)" % (text, obs), case, repr(obs), [2e-3, 42.0, 2e-3])


def check_dont_check_history(res, cls_name):
    """the same decimal line read four times in a row with dont_check={'all_integral'} (and a two-line system carrying that
    keyword on both lines): every reading succeeds and gives the written coefficients; the class-level defaults stay as they were"""
    import chempy

    cls = getattr(chempy, cls_name)
    arrow = "->" if cls_name == "Reaction" else "="
    text = "H2O2 %s 0.5 O2 + H2O; 4.2e-3" % arrow
    before = set(cls.default_checks)
    case = dict(kind="dont-check-history", cls=cls_name)
    res.states += 1
    res.transitions += 4
    res.nontrivial += 1
    obs = []
    for n in range(4):
        res.evaluations += 1
        try:
            r = cls.from_string(text, dont_check={"all_integral"})
            obs.append(dict(r.prod) == {"O2": 0.5, "H2O": 1} and dict(r.reac) == {"H2O2": 1})
        except Exception as e:
            obs.append("EXC %s" % type(e).__name__)
    try:
        other = chempy.Reaction if cls_name == "Equilibrium" else chempy.Equilibrium
        obs.append(dict(other.from_string(text.replace(arrow, "=" if arrow == "->" else "->"), dont_check={"all_integral"}).prod) == {"O2": 0.5, "H2O": 1})
    except Exception as e:
        obs.append("EXC %s" % type(e).__name__)
    after = set(cls.default_checks)
    ok = obs == [True] * 5 and after == before
    res.outcomes["dont-check-history-ok" if ok else "dont-check-history-WRONG"] += 1
    if not ok:
        res.violation("C12|%s.from_string|dont_check-history" % cls_name, "%r read four times with dont_check={'all_integral'} (then once as the other class): %r; default_checks before %r, after %r" % (
            text, obs, sorted(before), sorted(after)), case, [obs, sorted(after)], [[True] * 5, sorted(before)])


def chunks(tier):
    out = [("DC", cls) for cls in ("Reaction", "Equilibrium")]
    for (cls, layer), N in sorted(LAYERS[tier].items(), key=lambda kv: (kv[1], kv[0])):
        keys = KEYSETS[layer]
        for lc in range(1, N):
            nleft = len(sides_by_cost(keys, N - 1)[lc])
            J = max(1, min(48, nleft // 6))
            out += [(layer, cls, N, lc, j, J) for j in range(J)]
    out += [("Y", i) for i in range(len(SYS_POOL))]
    return out


def run_chunk(chunk, tier):
    res = Result()
    if chunk[0] == "DC":
        for shape in range(len(DC_SHAPES)):
            for dec in DEC:
                for ptxt in ("", "; 4.2e-3"):
                    check_decimal(res, chunk[1], shape, dec, ptxt)
        check_dont_check_history(res, chunk[1])
        check_context_history(res, chunk[1])
        check_copy_overrides(res, chunk[1])
        check_marked_keys(res, chunk[1])
        if chunk[1] == "Reaction":
            check_system_unknown_key(res)
        for li in range(len(WS_LINES)):
            check_whitespace(res, chunk[1], li)
        res.sample(dict(layer="DC", cls=chunk[1], coefficients=DEC, example="H2O2 -> 0.5 O2 + H2O; 4.2e-3"))
        return res
    if chunk[0] == "Y":
        first = chunk[1]
        others = [i for i in range(len(SYS_POOL)) if i != first]
        for n in (1, 2, 3):
            for rest in itertools.permutations(others, n - 1):
                for how in INTERLEAVE:
                    check_system(res, (first,) + rest, how)
                if n <= 2:
                    check_named_system(res, (first,) + rest)
        res.sample(dict(system=_sys_text((first, others[0]), "comment-between")))
        return res
    layer, cls, N, lc, j, J = chunk
    keys = KEYSETS[layer]
    seen = set()
    for L, R, dtxt, pv, name, cost in lines(keys, N, lc, j, J):
        if cls == "Equilibrium" and isinstance(pv, str):
            continue  # a named mass-action rate constant is not an equilibrium constant
        modes = ("none", "full", "missing") if cost <= 3 else ("none",)
        text = check_line(res, cls, L, R, dtxt, pv, name, cost, modes)
        if text in seen:
            res.dedup_hits += 1
        seen.add(text)
        for t in L + R:
            res.symbols[t[1]] += 1
        if len(seen) % 2999 == 1:
            res.sample(dict(cls=cls, text=text, cost=cost), limit=2)
    return res


def replay(case):
    res = Result()
    if case.get("kind") == "marked-key":
        sub = Result()
        check_marked_keys(sub, case["cls"])
        res.violations = [v for v in sub.violations if v["case"] == case]
    elif case.get("kind") == "system-unknown-key":
        sub = Result()
        check_system_unknown_key(sub)
        res.violations = [v for v in sub.violations if v["case"] == case]
    elif case.get("kind") == "whitespace":
        sub = Result()
        check_whitespace(sub, case["cls"], case["li"])
        res.violations = [v for v in sub.violations if v["case"] == case]
    elif case.get("kind") == "copy-override":
        sub = Result()
        check_copy_overrides(sub, case["cls"])
        res.violations = [v for v in sub.violations if v["case"] == case]
    elif case.get("kind") == "context-history":
        check_context_history(res, case["cls"])
    elif case.get("kind") == "dont-check-history":
        check_dont_check_history(res, case["cls"])
    elif case.get("kind") == "decimal":
        check_decimal(res, case["cls"], case["shape"], case["dec"], case["ptxt"])
    elif case.get("kind") == "named-system":
        check_named_system(res, tuple(case["sel"]))
    elif case.get("kind") == "system":
        check_system(res, tuple(case["sel"]), case["how"])
    else:
        L = tuple(tuple(t) for t in case["L"])
        R = tuple(tuple(t) for t in case["R"])
        check_line(res, case["cls"], L, R, case["dtxt"], case["pv"], case["name"], case["cost"], (case.get("mode", "none"),))
        if case.get("what"):
            res.violations = [v for v in res.violations if v["case"].get("what") == case["what"]] or res.violations
    if res.violations:
        v = res.violations[0]
        return dict(key=v["key"], what=v["what"], observed=v["observed"], expected=v["expected"])
    return None

"""Run one function of a check module in a brand-new interpreter and return its JSON result.

Used by "process-history" layers: sequences of calls that may leave state behind in the library (class-level sets,
module-level caches, shared defaults).  Running the sequence in its own process keeps such state from leaking into the
cases the worker explores afterwards, and makes the sequence trivially reproducible (the replay runs it the same way).

    result = run("mc.checks.c05", "seq_dont_check", [args...])      # -> whatever the function returns (JSON-able)
"""
import json
import os
import subprocess
import sys

from . import env


def run(module, func, args, timeout=600):
    p = subprocess.run([sys.executable, "-m", "mc.isolated", module, func, json.dumps(args)], cwd=env.VERIF, env=env.child_env(env.hashseed() if env.hashseed() != "random" else 0),
                       capture_output=True, text=True, timeout=timeout)
    for line in p.stdout.splitlines():
        if line.startswith("ISOLATED-RESULT "):
            return json.loads(line[len("ISOLATED-RESULT "):])
    raise env.HarnessError("isolated %s.%s failed: %s" % (module, func, (p.stdout + p.stderr)[-800:]))


if __name__ == "__main__":
    import importlib

    env.setup()
    mod = importlib.import_module(sys.argv[1])
    out = getattr(mod, sys.argv[2])(*json.loads(sys.argv[3]))
    print("ISOLATED-RESULT " + json.dumps(out, default=repr))

"""Result: what one chunk of exploration reports back (picklable, mergeable)."""
import collections

from . import env


class Result(object):
    """What one chunk of exploration reports back (picklable, mergeable)."""

    def __init__(self):
        self.states = 0  # distinct states of the explored space (distinct by construction or by canon())
        self.transitions = 0  # productions / operations applied to reach them
        self.evaluations = 0  # calls into the implementation that were compared with the model
        self.nontrivial = 0  # distinct states whose expectation is non-trivial (rule in META['rule'])
        self.dedup_hits = 0
        self.outcomes = collections.Counter()
        self.symbols = collections.Counter()
        self.samples = []
        self.violations = []
        self.nviol = 0
        self.viol_keys = collections.Counter()
        self.extra = {}  # numeric extras, merged with max() for keys starting 'max_' / min_ else summed
        self.hashseed = env.hashseed()

    def sample(self, x, limit=3):
        if len(self.samples) < limit:
            self.samples.append(x)

    def violation(self, key, what, case, observed=None, expected=None):
        self.nviol += 1
        self.viol_keys[key] += 1
        # keep the first few per distinct key so that a rare class is never crowded out by a frequent one
        if self.viol_keys[key] <= 2 and len(self.violations) < 60000:
            self.violations.append(
                dict(key=key, what=what, case=case, observed=_j(observed), expected=_j(expected), hashseed=self.hashseed)
            )

    def merge(self, o):
        self.states += o.states
        self.transitions += o.transitions
        self.evaluations += o.evaluations
        self.nontrivial += o.nontrivial
        self.dedup_hits += o.dedup_hits
        self.outcomes.update(o.outcomes)
        self.symbols.update(o.symbols)
        self.nviol += o.nviol
        if len(self.samples) < 40:
            self.samples.extend(o.samples[: 40 - len(self.samples)])
        for k, n in o.viol_keys.items():
            before = self.viol_keys[k]
            self.viol_keys[k] += n
            if before < 2:
                for v in o.violations:
                    if v["key"] == k and before < 2 and len(self.violations) < 60000:
                        self.violations.append(v)
                        before += 1
        for k, v in o.extra.items():
            if k.startswith("max_"):
                self.extra[k] = max(self.extra.get(k, v), v)
            elif k.startswith("min_"):
                self.extra[k] = min(self.extra.get(k, v), v)
            else:
                self.extra[k] = self.extra.get(k, 0) + v


def _j(x):
    """JSON-able rendering of an observation."""
    if x is None or isinstance(x, (bool, int, str)):
        return x
    if isinstance(x, float):
        return x if x == x and abs(x) != float("inf") else repr(x)
    if isinstance(x, dict):
        return {str(k): _j(v) for k, v in sorted(x.items(), key=lambda kv: str(kv[0]))}
    if isinstance(x, (list, tuple)):
        return [_j(v) for v in x]
    return repr(x)



"""check runner: enumerate chunks of a check's bounded state space, explore them exhaustively on a pool of
long-lived workers (fresh interpreters, pinned PYTHONHASHSEED), merge results, write evidence, report.

exit 0  everything explored satisfied the oracle (known findings are printed as KNOWN-FINDING lines)
exit 1  at least one violation that /verif/known_findings.json does not list (VIOLATION lines)
exit 2  internal error of the machinery (never prints VIOLATION)
"""
import os
import sys
import json
import time
import random
import hashlib
import argparse
import importlib
import traceback
import subprocess
import collections
import itertools

from . import env
from .core import Result, _j

OUT = os.environ.get("VERIF_OUT") or env.VERIF  # mutant/seeded runs write their evidence elsewhere
EVIDENCE_DIR = os.path.join(OUT, "evidence")
REPLAY_DIR = os.path.join(OUT, "replays")
KNOWN = os.path.join(env.VERIF, "known_findings.json")
EVIDENCE_SCHEMA = "/root/.vp/EVIDENCE.schema.json"
MAX_REPLAY_FILES = 20
VERIFY_REPLAYS = 3


# ---------------------------------------------------------------------------------------------- workers
def _run_job(args):
    """explore one chunk in its own fresh interpreter (see mc/worker.py)"""
    check_id, tier, idx, chunk, hs, tmpdir = args
    import pickle

    job = os.path.join(tmpdir, "job_%d_%s.pickle" % (idx, hs))
    out = os.path.join(tmpdir, "res_%d_%s.pickle" % (idx, hs))
    with open(job, "wb") as f:
        pickle.dump((idx, chunk), f)
    p = subprocess.run([sys.executable, "-m", "mc.worker", check_id, tier, job, out], cwd=env.VERIF, env=env.child_env(hs), capture_output=True, text=True)
    try:
        with open(out, "rb") as f:
            payload = pickle.load(f)
    except Exception:
        payload = (idx, None, "worker died (exit %s): %s" % (p.returncode, (p.stderr or "")[-1500:]), 0.0)
    for fn in (job, out):
        try:
            os.unlink(fn)
        except OSError:
            pass
    return payload


# ---------------------------------------------------------------------------------------------- findings
def load_known(pid):
    if not os.path.exists(KNOWN):
        return []
    data = json.load(open(KNOWN))
    return [f for f in data.get("findings", []) if f.get("property") == pid]


def _replay_path(pid, v):
    h = hashlib.sha1(json.dumps([v["key"], v["case"]], sort_keys=True, default=repr).encode()).hexdigest()[:12]
    d = os.path.join(REPLAY_DIR, pid)
    os.makedirs(d, exist_ok=True)
    return os.path.join(d, "%s.json" % h)


def _fresh_replay(pid, path, hs):
    p = subprocess.run(
        [sys.executable, "-m", "mc.runner", pid, "--replay", path, "--quiet"],
        cwd=env.VERIF,
        env=env.child_env(hs),
        capture_output=True,
        text=True,
        timeout=900,
    )
    lines = [l for l in p.stdout.splitlines() if l.startswith("REPLAY ")]
    return p.returncode, (lines[-1] if lines else p.stdout[-500:] + p.stderr[-500:])


def do_replay(pid, path, quiet=False):
    env.setup()
    mod = importlib.import_module("mc.checks.%s" % pid.lower())
    rec = json.load(open(path))
    if rec.get("chunk_replay"):
        # history-dependent violation: it shows only after the cases explored before it in the same worker process;
        # the replay re-executes that chunk's whole (deterministic) sequence in this fresh process and looks for it
        chunk = [c for c in mod.chunks(rec["tier"]) if repr(c) == rec["chunk"]][0]
        res = mod.run_chunk(chunk, rec["tier"])
        got = None
        for v in res.violations:
            if v["key"] == rec["key"] and json.dumps(v["case"], sort_keys=True, default=repr) == json.dumps(rec["case"], sort_keys=True, default=repr):
                got = dict(key=v["key"], what=v["what"], observed=v["observed"], expected=v["expected"])
                break
    else:
        got = mod.replay(rec["case"])  # None (holds) or dict(key, what, observed, expected)
    if got is None:
        print("REPLAY %s" % json.dumps(dict(property=pid, reproduced=False)))
        if not quiet:
            print("property %s holds on the recorded case: %s" % (pid, json.dumps(rec["case"])[:400]))
        return 0
    out = dict(property=pid, reproduced=True, key=got["key"], observed=_j(got.get("observed")))
    print("REPLAY %s" % json.dumps(out, sort_keys=True, default=repr))
    if not quiet:
        print("case:     %s" % json.dumps(rec["case"])[:1000])
        print("what:     %s" % got["what"])
        print("observed: %s" % (_j(got.get("observed")),))
        print("expected: %s" % (_j(got.get("expected")),))
    return 1


# ---------------------------------------------------------------------------------------------- main
def main(argv=None):
    ap = argparse.ArgumentParser(prog="check")
    ap.add_argument("property_id")
    ap.add_argument("--tier", default=os.environ.get("VERIF_TIER") or "quick", choices=["quick", "thorough"])
    ap.add_argument("--replay")
    ap.add_argument("--quiet", action="store_true")
    ap.add_argument("--workers", type=int, default=int(os.environ.get("VERIF_WORKERS", "0")) or (os.cpu_count() or 4))
    ap.add_argument("--only", help="restrict to chunks whose repr contains this text (debugging; marks exhaustive=false)")
    a = ap.parse_args(argv)
    pid = a.property_id.upper()
    if a.replay:
        return do_replay(pid, a.replay, a.quiet)
    try:
        seed = int(os.environ.get("VERIF_SEED", "0") or 0)
    except ValueError:
        seed = 0
    t0 = time.time()
    try:
        return _explore(pid, a.tier, seed, a.workers, a.only, t0)
    except env.HarnessError as e:
        print("HARNESS-ERROR property=%s %s" % (pid, e))
        return 2
    except Exception:
        traceback.print_exc()
        print("HARNESS-ERROR property=%s unexpected exception in the runner" % pid)
        return 2


def _explore(pid, tier, seed, nworkers, only, t0):
    env.setup()
    mod = importlib.import_module("mc.checks.%s" % pid.lower())
    meta = mod.META
    chunks = list(mod.chunks(tier))
    if only:
        chunks = [c for c in chunks if only in repr(c)]
    if not chunks:
        raise env.HarnessError("no chunks")
    hs_a, hs_b = 0, 1 + seed % 997
    both = tier == "thorough" and meta.get("hashseed_sensitive", False)
    jobs_a, jobs_b = [], []
    for i, c in enumerate(chunks):
        if both:
            jobs_a.append((i, c, tier))
            jobs_b.append((i, c, tier))
        elif (i + seed) % 2 == 0:
            jobs_a.append((i, c, tier))
        else:
            jobs_b.append((i, c, tier))
    rnd = random.Random(seed)
    rnd.shuffle(jobs_a)
    rnd.shuffle(jobs_b)
    results = {}
    errors = []
    chunk_time = 0.0
    import concurrent.futures
    import tempfile
    import shutil

    tmpdir = tempfile.mkdtemp(prefix="mc_%s_" % pid)
    try:
        jobs = [(pid, tier, i, c, hs_a, tmpdir) for i, c, _ in jobs_a] + [(pid, tier, i, c, hs_b, tmpdir) for i, c, _ in jobs_b]
        # interleave the two hash seeds so that both are in flight from the start
        jobs = [j for pair in itertools.zip_longest(jobs[: len(jobs_a)], jobs[len(jobs_a):]) for j in pair if j is not None]
        with concurrent.futures.ThreadPoolExecutor(max_workers=max(1, nworkers)) as ex:
            for idx, res, err, dt in ex.map(_run_job, jobs):
                chunk_time += dt
                if err:
                    errors.append((idx, err))
                else:
                    results.setdefault(idx, []).append(res)
    finally:
        shutil.rmtree(tmpdir, ignore_errors=True)
    if errors:
        for idx, err in errors[:3]:
            sys.stderr.write("chunk %r failed inside the harness:\n%s\n" % (chunks[idx], err))
        raise env.HarnessError("%d chunk(s) crashed inside the harness" % len(errors))
    total = Result()
    passes = 0
    # records of violations whose key is a listed known finding are not kept (their counts are): with thousands of listed
    # instance keys they would crowd a new key out of the record cap
    known_keys_early = {f["key"] for f in load_known(pid)}
    for idx in sorted(results):
        for r_ in results[idx]:
            r_.violations = [v for v in r_.violations if v["key"] not in known_keys_early]
    for idx in sorted(results):
        rs = results[idx]
        passes = max(passes, len(rs))
        # when a chunk ran under both hash seeds, count the space once but keep violations of both passes
        total.merge(rs[0])
        for extra in rs[1:]:
            v = Result()
            v.violations, v.nviol, v.viol_keys = extra.violations, extra.nviol, extra.viol_keys
            if (extra.states, extra.outcomes) != (rs[0].states, rs[0].outcomes):
                v.violation(
                    "%s|hashseed-dependent-observation" % pid,
                    "chunk %r explored under PYTHONHASHSEED=%s and %s gave different outcome counts" % (chunks[idx], rs[0].hashseed, extra.hashseed),
                    dict(kind="chunk", chunk=_j(chunks[idx])),
                    observed=dict(extra.outcomes),
                    expected=dict(rs[0].outcomes),
                )
            total.merge(v)
            total.evaluations += extra.evaluations

    # ------------------------------------------------------------------ triage: known vs new
    known = load_known(pid)
    known_keys = {f["key"]: f for f in known}
    new, seen_known = [], collections.Counter()
    for k, n in total.viol_keys.items():
        if k in known_keys:
            seen_known[k] += n
    for v in total.violations:
        if v["key"] not in known_keys:
            new.append(v)
    n_new = sum(n for k, n in total.viol_keys.items() if k not in known_keys)

    if os.environ.get("VERIF_DUMP"):  # maintenance aid (tools/list_findings.py): every violation kept by this run
        with open(os.environ["VERIF_DUMP"], "w") as f:
            recs = {}
            for v in total.violations:
                recs.setdefault(v["key"], v["what"])
            json.dump([dict(key=k, what=recs.get(k, ""), known=k in known_keys, count=n) for k, n in sorted(total.viol_keys.items())], f, indent=1, default=repr)

    lines = []
    unreproduced = 0
    reproduced = 0
    history_dependent = 0
    written = 0
    seen_new_keys = collections.Counter()
    for v in new:
        seen_new_keys[v["key"]] += 1
        if seen_new_keys[v["key"]] > 2 or written >= MAX_REPLAY_FILES:
            continue
        path = _replay_path(pid, v)
        rec = dict(property=pid, key=v["key"], what=v["what"], case=v["case"], observed=v["observed"], expected=v["expected"],
                   hashseed=v["hashseed"], tier=tier, seed=seed, replay_cmd="./check %s --replay %s" % (pid, path))
        with open(path, "w") as f:
            json.dump(rec, f, indent=1, sort_keys=True, default=repr)
        written += 1
        if written <= VERIFY_REPLAYS and v["case"].get("kind") != "chunk":
            r1 = _fresh_replay(pid, path, v["hashseed"])
            r2 = _fresh_replay(pid, path, v["hashseed"])
            if r1 != r2 or r1[0] != 1:
                # not reproduced from the single case: does it depend on the cases explored before it (a cache, a shared
                # default, an aliased container)?  Re-execute its whole chunk, twice, in fresh processes.
                rec.update(chunk_replay=True, chunk_index=v.get("chunk_index"), chunk=repr(chunks[v["chunk_index"]]) if v.get("chunk_index") is not None else None,
                           what="[history-dependent: reproduces only after the cases explored before it in its chunk] " + v["what"])
                with open(path, "w") as f:
                    json.dump(rec, f, indent=1, sort_keys=True, default=repr)
                c1 = _fresh_replay(pid, path, v["hashseed"]) if v.get("chunk_index") is not None else (0, "")
                c2 = _fresh_replay(pid, path, v["hashseed"]) if v.get("chunk_index") is not None else (0, "")
                if c1 != c2 or c1[0] != 1:
                    unreproduced += 1
                    sys.stderr.write("replay of %s not reproducible: case %r vs %r; chunk %r vs %r\n" % (path, r1, r2, c1, c2))
                    os.remove(path)
                    continue  # never reported as a VIOLATION: see below
                else:
                    history_dependent += 1
                    reproduced += 1
            else:
                reproduced += 1
        lines.append("VIOLATION property=%s replay=%s" % (pid, path))
        if not os.environ.get("VERIF_QUIET"):
            sys.stderr.write("  [%s] %s\n" % (v["key"], v["what"][:300]))

    wall = time.time() - t0
    cov = dict(
        states=total.states,
        transitions=total.transitions,
        traces_validated_against_impl=total.evaluations,
        evaluations=total.evaluations,
        distinct_nontrivial=total.nontrivial,
        rule=meta["rule"],
        samples=total.samples[:12],
        exhaustive=not only,
        bounds=mod.bounds(tier) if hasattr(mod, "bounds") else {},
        chunks=len(chunks),
        hashseeds=[hs_a, hs_b],
        hashseed_passes=passes,
        dedup_hits=total.dedup_hits,
        distinct_outcomes=len(total.outcomes),
        outcomes=dict(total.outcomes.most_common(40)),
        alphabet_hits=dict(sorted(total.symbols.items())[:200]),
        caps_hit=[],
        known_findings_observed={k: n for k, n in seen_known.items()},
        cpu_s=round(chunk_time, 2),
    )
    cov.update({k: (round(v, 6) if isinstance(v, float) else v) for k, v in total.extra.items()})
    ev = dict(
        property_id=pid,
        tier=tier,
        seed=seed,
        level=meta.get("level", "model_checking"),
        coverage=cov,
        assumptions=meta.get("assumptions", []),
        wall_s=round(wall, 2),
        violations=n_new,
    )
    os.makedirs(EVIDENCE_DIR, exist_ok=True)
    _validate(ev)
    with open(os.path.join(EVIDENCE_DIR, "%s.json" % pid), "w") as f:
        json.dump(ev, f, indent=1, sort_keys=True, default=repr)
        f.write("\n")

    print(
        "%s tier=%s seed=%d states=%d transitions=%d evaluations=%d nontrivial=%d outcomes=%d chunks=%d wall=%.1fs cpu=%.1fs"
        % (pid, tier, seed, total.states, total.transitions, total.evaluations, total.nontrivial, len(total.outcomes), len(chunks), wall, chunk_time)
    )
    for k, n in sorted(seen_known.items()):
        print("KNOWN-FINDING: property=%s %s [%s; %d case(s) in this run]" % (pid, known_keys[k]["what"], k, n))
    if total.states < 1 or total.evaluations < 1:
        raise env.HarnessError("vacuous exploration")
    if unreproduced and not reproduced:
        raise env.HarnessError("%d violation(s) did not reproduce identically in a fresh process" % unreproduced)
    if unreproduced:
        # some observations of this run could not be reproduced (e.g. behaviour depending on object addresses) while others
        # replay identically, twice, in fresh processes: only the latter are reported
        print("NOTE: %d further observation(s) did not reproduce in a fresh process and are not reported" % unreproduced)
    if n_new and not lines:
        # (cannot happen unless the record cap was hit by new keys alone: still name the classes)
        path = os.path.join(REPLAY_DIR, pid, "unrecorded-keys.json")
        os.makedirs(os.path.dirname(path), exist_ok=True)
        with open(path, "w") as f:
            json.dump(dict(property=pid, keys={k: n for k, n in total.viol_keys.items() if k not in known_keys}), f, indent=1)
        lines.append("VIOLATION property=%s replay=%s" % (pid, path))
    if n_new:
        for l in lines:
            print(l)
        print("%s: %d violating case(s) in %d distinct class(es) not listed in known_findings.json" % (pid, n_new, len(seen_new_keys)))
        return 1
    print("%s: OK" % pid)
    return 0


def _validate(ev):
    try:
        import jsonschema
    except ImportError:
        return
    if os.path.exists(EVIDENCE_SCHEMA):
        schema = json.load(open(EVIDENCE_SCHEMA))
    else:
        schema = json.load(open(os.path.join(env.VERIF, "mc", "EVIDENCE.schema.json")))
    try:
        jsonschema.validate(json.loads(json.dumps(ev, default=repr)), schema)
    except jsonschema.ValidationError as e:
        raise env.HarnessError("evidence does not validate: %s" % e.message)


if __name__ == "__main__":
    sys.exit(main())

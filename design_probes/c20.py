import sys, re, time, warnings, collections
sys.path.insert(0,'/repo'); warnings.simplefilter('ignore')
from decimal import Decimal, ROUND_HALF_EVEN, getcontext
getcontext().prec=60
from chempy.printing.numbers import number_to_scientific_latex as L, number_to_scientific_unicode as U, number_to_scientific_html as H, _float_str_w_uncert as W, roman
SUPD={c:str(i) for i,c in enumerate('⁰¹²³⁴⁵⁶⁷⁸⁹')}; SUPD['⁻']='-'; SUPD['⁺']='+'
def round_sig(x,p):
    d=Decimal(x)
    if d==0: return d
    e=d.adjusted()
    q=Decimal(1).scaleb(e-p+1)
    return d.quantize(q, rounding=ROUND_HALF_EVEN)
def parse(fmt,s):
    # returns (significand Decimal or None, exponent int)
    if fmt=='latex':
        m=re.fullmatch(r'(?:(-?[0-9.]+)\\cdot )?10\^\{(-?\d+)\}',s)
    elif fmt=='html':
        m=re.fullmatch(r'(?:(-?[0-9.]+)&sdot;)?10<sup>(-?\d+)</sup>',s)
    else:
        m=re.fullmatch(r'(?:(-?[0-9.]+)·)?10([⁰¹²³⁴⁵⁶⁷⁸⁹⁻⁺]+)',s)
    if m:
        sig=m.group(1); ex=m.group(2)
        if fmt=='unicode': ex=''.join(SUPD[c] for c in ex)
        return (Decimal(sig) if sig is not None else None), int(ex)
    return Decimal(s), 0
bad=[]; n=0; t0=time.time()
mants=[i/100 for i in range(100,1000)]+[9.995,9.9995,9.99995,9.9996,1.0000001,1.05,1.5]
exps=list(range(-300,301,15))+[-5,-4,-3,-2,-1,0,1,2,3,4,5,6,16,17]
for m in mants:
    for e in exps:
        for sgn in (1,-1):
            x=sgn*float('%re%d'%(m,e))
            for p in (1,2,3,5,10):
                ref=round_sig(x,p)
                for fmt,fn in (('latex',L),('unicode',U),('html',H)):
                    s=fn(x,fmt=p); n+=1
                    try:
                        sig,ex=parse(fmt,s)
                        val=(sig if sig is not None else Decimal(1)).scaleb(ex)
                        if val!=ref: bad.append((x,p,fmt,s,str(val),str(ref)))
                        if sig is not None and ex!=0 and sig==1: bad.append((x,p,fmt,s,'sig 1 shown'))
                    except Exception as ex_: bad.append((x,p,fmt,s,repr(ex_)))
print(n,len(bad),time.time()-t0); 
for b in bad[:10]: print(b)
# roman
def unroman(s):
    v={'I':1,'V':5,'X':10,'L':50,'C':100,'D':500,'M':1000}; t=0
    for a,b in zip(s,s[1:]+' '):
        t+= -v[a] if b!=' ' and v[b]>v[a] else v[a]
    return t
print('roman', sum(1 for n_ in range(1,4000) if unroman(roman(n_))!=n_ or not re.fullmatch(r'M{0,3}(CM|CD|D?C{0,3})(XC|XL|L?X{0,3})(IX|IV|V?I{0,3})',roman(n_))))
# uncertainty
bad=[]; n=0
for m in [1.0,1.2345,3.1416,9.5,9.9996,9.96,5.0,2.5]:
  for e in (-300,-20,-5,-1,0,1,3,10,100,300):
    for sgn in (1,-1):
      x=sgn*float('%re%d'%(m,e))
      for rel in (1e-8,1e-5,1e-3,1e-2,0.1,0.5):
        for lead in (1.0,2.9,9.6,0.96):
          xe=abs(x)*rel*lead
          if xe>0.5*abs(x) or xe==0: continue
          for p in (1,2,3):
            n+=1
            try: s=W(x,xe,p)
            except Exception as ex_: bad.append((x,xe,p,repr(ex_)[:60])); continue
            mm=re.fullmatch(r'(-?)(\d+)(?:\.(\d+))?\((\d+)\)(?:e(-?\d+))?',s)
            if not mm: bad.append((x,xe,p,s,'noparse')); continue
            sg,ip,fp,un,ee=mm.groups(); fp=fp or ''; ee=int(ee or 0)
            val=Decimal(sg+ip+('.'+fp if fp else '')).scaleb(ee)
            unit=Decimal(1).scaleb(ee-len(fp))
            # uncertainty digits apply to last digits
            unc=Decimal(un)*unit if fp or ee else Decimal(un)
            dx=Decimal(x); dxe=Decimal(xe)
            # expected un_exp
            xe_exp=dxe.adjusted(); un_exp=xe_exp-p+1
            q=Decimal(1).scaleb(un_exp)
            if abs(val-dx)>q/2*(1+Decimal('1e-9')): bad.append((x,xe,p,s,'value',str(val)))
            if abs(unc-dxe)>q/2*(1+Decimal('1e-9')): bad.append((x,xe,p,s,'unc',str(unc)))
print('uncert',n,len(bad))
import collections as C_
print(C_.Counter((b[3] if len(b)==4 else b[4]) for b in bad))
for b in [b for b in bad if len(b)>4][:20]: print(b)

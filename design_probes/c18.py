import sys, itertools, warnings, collections, math
sys.path.insert(0,'/repo')
from chempy.electrolytes import ionic_strength, A, B, limiting_log_gamma, extended_log_gamma, davies_log_gamma
from chempy.units import default_units as u, default_constants as const, to_unitless
bad=collections.Counter(); ex={}; n=0
ZS=[z for z in range(-4,5) if z]
MS=[2.0**-k for k in (0,10,20,30,40)]
for r in (1,2,3):
    for zs in itertools.combinations_with_replacement(ZS,r):
        for ms in itertools.product(MS[:3],repeat=r):
            n+=1
            net=sum(m*z for m,z in zip(ms,zs)); ref=0.5*sum(m*z*z for m,z in zip(ms,zs))
            with warnings.catch_warnings(record=True) as w:
                warnings.simplefilter('always')
                got=ionic_strength(list(ms),list(zs))
            warned=any('charge neutral' in str(x.message) for x in w)
            if got!=ref: bad['value']+=1; ex.setdefault('value',(zs,ms,got,ref))
            if warned!=(net!=0): bad['warn']+=1; ex.setdefault('warn',(zs,ms,net,warned))
            for perm in itertools.permutations(range(r)):
                with warnings.catch_warnings():
                    warnings.simplefilter('ignore')
                    g2=ionic_strength([ms[i] for i in perm],[zs[i] for i in perm])
                if g2!=got: bad['perm']+=1; ex.setdefault('perm',(zs,ms,got,g2))
print(n,dict(bad),ex)
# A,B paths
worst=collections.defaultdict(float)
for T in range(250,651,50):
    for eps in (5,20,78.4,100):
        for rho in (500,1000,1500):
            a0=A(eps,T,rho); b0=B(eps,T,rho)
            a1=A(eps,T*u.K,rho*u.kg/u.m**3, constants=const, units=u); b1=B(eps,T*u.K,rho*u.kg/u.m**3, constants=const, units=u)
            a2=A(eps,T*u.K,rho*u.kg/u.m**3, units=u); b2=B(eps,T*u.K,rho*u.kg/u.m**3, units=u)
            worst['A const']=max(worst['A const'],abs(to_unitless(a1)/a0-1)); worst['B const']=max(worst['B const'],abs(to_unitless(b1,1/u.m)/b0-1))
            worst['A units']=max(worst['A units'],abs(to_unitless(a2)/a0-1)); worst['B units']=max(worst['B units'],abs(to_unitless(b2,1/u.m)/b0-1))
print(dict(worst))
print(a1.simplified, b1.simplified, a2, b2)

import sys, itertools, time, warnings, collections, math
sys.path.insert(0,'/repo'); warnings.simplefilter('ignore')
from fractions import Fraction as Fr
import sympy
from chempy import Reaction, ReactionSystem, Substance
S='ABC'
VAL={'A':2,'B':3,'C':5}
bad=[]; n=0; nz=0; t0=time.time()
sym={k:sympy.Symbol(k) for k in S}; ksym=sympy.Symbol('k')
for ap in itertools.product(itertools.product(range(3),range(3)),repeat=3):
    for who in [None]+list(range(3)):
        for ia in ([(0,0)] if who is None else [(1,0),(0,1),(1,1)]):
            reac={s:ap[i][0] for i,s in enumerate(S) if ap[i][0]}
            prod={s:ap[i][1] for i,s in enumerate(S) if ap[i][1]}
            ir={S[who]:1} if who is not None and ia[0] else {}
            ip={S[who]:1} if who is not None and ia[1] else {}
            net={s:prod.get(s,0)+ip.get(s,0)-reac.get(s,0)-ir.get(s,0) for s in S}
            n+=1
            try:
                r=Reaction(reac,prod,7,inact_reac=ir,inact_prod=ip)
            except ValueError as e:
                if any(net.values()): bad.append(('rejected',reac,prod,ir,ip,str(e)))
                continue
            if not any(net.values()): bad.append(('accepted-noeffect',reac,prod,ir,ip)); continue
            nz+=1
            prodc=1
            for s,v in reac.items(): prodc*=VAL[s]**v
            exp={s:net[s]*7*prodc for s in S}
            got=r.rate(VAL, substance_keys=list(S))
            if got!=exp: bad.append(('rate',reac,prod,ir,ip,got,exp))
            got2=r.rate(VAL)
            if got2!={s:exp[s] for s in r.keys()}: bad.append(('rate-keys',reac,prod,ir,ip,got2))
            # symbolic
            r2=Reaction(reac,prod,ksym,inact_reac=ir,inact_prod=ip)
            gs=r2.rate(sym, substance_keys=list(S))
            pe=ksym
            for s,v in reac.items(): pe=pe*sym[s]**v
            for s in S:
                if sympy.expand(gs[s]-net[s]*pe)!=0: bad.append(('sym',reac,prod,ir,ip,s,gs[s]))
print(n,nz,len(bad),time.time()-t0); print(collections.Counter(b[0] for b in bad))
for b in bad[:8]: print(b)

import sys, itertools, time, warnings, collections
sys.path.insert(0,'/repo'); warnings.simplefilter('ignore')
from chempy import Reaction, Equilibrium, ReactionSystem
from chempy.util.parsing import get_parsing_context
G=get_parsing_context()
KEYS=['A','H2O','H+','OH-','e-','Fe+3',"NO3-'",'CO2(g)','.OH','[Fe(CN)6]-3','(NH4)2SO4','(NH4)2(SO4)']
COEF=[('',1),('2 ',2),('3 * ',3),('2.0 ',2.0),('10 ',10),('1000 ',1000)]
PAR=[('',None),('; 7',7),('; 1e-30',1e-30),('; 2.5e17',2.5e17)]
def sides(maxterms):
    out=[]
    for n in range(0,maxterms+1):
        for ks in itertools.product(range(len(KEYS)),repeat=n):
            for cs in itertools.product(range(len(COEF)),repeat=n):
                if sum(1 for c in cs if c)>1: continue   # deviation bound: at most 1 non-default coefficient spelling
                out.append(tuple(zip(ks,cs)))
    return out
S=sides(2)
print(len(S))
bad=[]; n=0; t0=time.time()
for cls,arrow in ((Reaction,'->'),(Equilibrium,'=')):
  for L in S:
    for R in S:
        if not L and not R: continue
        for ptxt,pval in PAR[:2] if (len(L)+len(R)>2) else PAR:
            def txt(side): return ' + '.join(COEF[c][0]+KEYS[k] for k,c in side)
            def dct(side):
                d={}
                for k,c in side: d[KEYS[k]]=d.get(KEYS[k],0)+COEF[c][1]
                return d
            line=txt(L)+' '+arrow+' '+txt(R)+ptxt
            n+=1
            er,ep=dct(L),dct(R)
            try:
                r=cls.from_string(line, globals_=G, checks=())
                if dict(r.reac)!=er or dict(r.prod)!=ep or r.inact_reac or r.inact_prod or r.param!=pval:
                    bad.append(('parse',line,dict(r.reac),dict(r.prod)))
                else:
                    s=str(r)
                    r2=cls.from_string(s, globals_=G, checks=())
                    if not (r2==r): bad.append(('roundtrip',line,s))
            except Exception as e: bad.append(('exc',line,repr(e)[:60]))
print(n,len(bad),time.time()-t0)
c=collections.Counter()
for b in bad:
    c[(b[0], tuple(k for k in KEYS if k in b[1] and k.startswith('(')))]+=1
print(c)
oth=[b for b in bad if '(NH4)' not in b[1]]
print(len(oth)); 
for b in oth[:15]: print(b)

import sys, itertools, time, warnings, collections
sys.path.insert(0,'/repo'); warnings.simplefilter('ignore')
from chempy import Reaction, ReactionSystem, Substance, Equilibrium
import multiprocessing as mp
SUBS='A B C D E F G'.split()
POOL=[({'A':1},{'B':1},{},{}),({'B':1},{'A':1},{},{}),({'A':1,'B':1},{'C':1},{},{}),({'C':1},{'D':1},{},{}),
      ({'D':1,'X':1} if False else {'D':1},{'E':2},{},{}),({'E':1},{'F':1},{},{}),({'F':1,'A':1},{'F':1,'B':1},{},{}),
      ({'C':2},{'A':1},{'E':1},{'E':1}),({'B':1},{'B':1,'D':1},{},{}),({'E':1,'F':1},{'G':1},{},{}),({'G':1},{'E':1,'F':1},{},{}),
      ({'D':1},{'C':1},{'A':1},{})]
def mk(i):
    r,p,ir,ip=POOL[i]; return Reaction(r,p,inact_reac=ir,inact_prod=ip, checks=())
def model(seq):
    # components via union-find over substances
    par={s:s for s in SUBS}
    def find(x):
        while par[x]!=x: par[x]=par[par[x]]; x=par[x]
        return x
    keysets=[]
    for i in seq:
        r,p,ir,ip=POOL[i]; ks=set(r)|set(p)|set(ir)|set(ip); keysets.append(ks)
        ks=sorted(ks)
        for k in ks[1:]: par[find(k)]=find(ks[0])
    comps=collections.defaultdict(list)
    for idx,(i,ks) in enumerate(zip(seq,keysets)): comps[find(sorted(ks)[0])].append(idx)
    return sorted((tuple(sorted(v)) , frozenset(s for s in SUBS if find(s)==k and any(s in keysets[j] for j in v))) for k,v in comps.items())
def cat_model(seq):
    acc,dep,una,non=set(),set(),set(),set()
    for s in SUBS:
        nets=[]; appears=False
        for i in seq:
            r,p,ir,ip=POOL[i]
            allr=r.get(s,0)+ir.get(s,0); allp=p.get(s,0)+ip.get(s,0)
            if allr or allp: appears=True
            nets.append(allp-allr)
        neg=any(n<0 for n in nets); pos=any(n>0 for n in nets)
        if neg and pos: pass
        elif neg: dep.add(s)
        elif pos: acc.add(s)
        elif appears: una.add(s)
        else: non.add(s)
    return dict(accumulated=acc,depleted=dep,unaffected=una,nonparticipating=non)
def run(seq):
    rxns=[mk(i) for i in seq]
    rs=ReactionSystem(rxns, SUBS, checks=())
    bad=[]
    try:
        parts=rs.split(checks=())
        got=sorted((tuple(sorted(seq_idx for seq_idx,r in enumerate(rxns) if any(r is q for q in part.rxns))), frozenset(part.substances)) for part in parts)
        m=model(seq)
        if got!=m: bad.append(('split',seq,got,m))
    except Exception as e: bad.append(('split-exc',seq,repr(e)))
    try:
        c=rs.categorize_substances(checks=())
        m=cat_model(seq)
        if c!=m: bad.append(('cat',seq,c,m))
    except Exception as e: bad.append(('cat-exc',seq,repr(e)[:80]))
    return bad
if __name__=='__main__':
    L=int(sys.argv[1])
    seqs=[s for l in range(1,L+1) for s in itertools.permutations(range(len(POOL)),l)]
    t0=time.time(); bad=[]
    with mp.Pool(16) as pool:
        for b in pool.imap_unordered(run,seqs,chunksize=200): bad+=b
    print(len(seqs),len(bad),time.time()-t0)
    print(collections.Counter(b[0] for b in bad))
    for b in bad[:10]: print(b)

import sys, os, shutil, subprocess, json, re, concurrent.futures as cf
BASE_FAIL = {"test_QuantityDict","test_Solution__add","test_Solution__isclose","test_Solution__dissolve","test_Solution__withdraw","test_to_unitless__sympy"}
def run(m):
    name, path, old, new = m
    d = f"/tmp/mutscreen_w_{name}"
    if os.path.exists(d): shutil.rmtree(d)
    shutil.copytree("/repo", d, ignore=shutil.ignore_patterns(".git","build","__pycache__","*.ipynb","examples","joss-paper","benchmarks"))
    p = os.path.join(d, path)
    s = open(p).read()
    if s.count(old) != 1:
        shutil.rmtree(d); return name, f"PATTERN count={s.count(old)}", []
    open(p,"w").write(s.replace(old,new))
    r = subprocess.run(["/venv/bin/python","-m","pytest","-q","-p","no:cacheprovider","--timeout=900","-x" if False else "-q","--no-header","-rf"],cwd=d,capture_output=True,text=True,env=dict(os.environ,PYTHONDONTWRITEBYTECODE="1"))
    fails = sorted(set(re.findall(r"^FAILED \S+::(\S+)", r.stdout, re.M)) | set(re.findall(r"^ERROR \S+", r.stdout, re.M)))
    fails = [f for f in fails if f.split('[')[0] not in BASE_FAIL]
    tail = r.stdout.strip().splitlines()[-1] if r.stdout.strip() else r.stderr[-200:]
    shutil.rmtree(d)
    return name, tail, fails
if __name__ == "__main__":
    muts = json.load(open(sys.argv[1]))
    with cf.ThreadPoolExecutor(8) as ex:
        for name, tail, fails in ex.map(run, muts):
            print(("SURVIVES " if not fails and 'PATTERN' not in tail else "killed   "), name, "|", tail, "|", fails[:4], flush=True)

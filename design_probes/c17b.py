import sys, itertools, time, warnings, collections, types
sys.path.insert(0,'/repo'); warnings.simplefilter('ignore')
import sympy as sp, numpy as np, mpmath
mpmath.mp.dps=40
from chempy.kinetics import integrated as I
R=sp.Rational
LAT=[R(1,3),R(2),R(5)]
TS=[0,mpmath.mpf(1)/7,1,3]
def chk(name, fn, rhs_fn, init_fn, params, be):
    t0=time.time()
    syms=sp.symbols(' '.join(params), positive=True); t=sp.Symbol('t', nonnegative=True)
    d=dict(zip(params,syms))
    try: e=fn(t,be,**d)
    except Exception as ex: print(name,'BUILD EXC',type(ex).__name__,ex); return
    es=e if isinstance(e,tuple) else (e,)
    rhs=rhs_fn(es,**d); ini=init_fn(**d)
    res=[sp.lambdify((t,)+tuple(syms), sp.diff(ei,t)-ri, 'mpmath') for ei,ri in zip(es,rhs)]
    sc=[sp.lambdify((t,)+tuple(syms), ri, 'mpmath') for ri in rhs]
    i0=[sp.lambdify(tuple(syms), ei.subs(t,0)-ii, 'mpmath') for ei,ii in zip(es,ini)]
    bad=collections.Counter(); ex1={}; n=0
    for vals in itertools.product(LAT, repeat=len(params)):
        dd=dict(zip(params,vals))
        if 'Y' in dd and dd['Y']==dd['Z']: continue
        mv=[mpmath.mpf(v.p)/v.q for v in vals]
        for i in range(len(es)):
            for tv in TS:
                n+=1
                try:
                    v=res[i](tv,*mv); s=1+abs(sc[i](tv,*mv))
                    if not (abs(v)<=mpmath.mpf(10)**-30*s): bad['ode%d'%i]+=1; ex1.setdefault('ode%d'%i,(dd,tv,mpmath.nstr(v,5)))
                except Exception as ex: bad['exc']+=1; ex1.setdefault('exc',(dd,tv,repr(ex)[:50]))
            try:
                v=i0[i](*mv)
                if not (abs(v)<=mpmath.mpf(10)**-30): bad['init%d'%i]+=1; ex1.setdefault('init%d'%i,(dd,mpmath.nstr(v,5)))
            except Exception as ex: bad['exc0']+=1
    print(name,n,dict(bad),'%.1fs'%(time.time()-t0),flush=True)
    for k,v in ex1.items(): print('    ',k,v,flush=True)
besp=types.SimpleNamespace(sqrt=sp.sqrt,exp=sp.exp,tanh=sp.tanh,cos=sp.cos,atanh=sp.atanh,arctanh=sp.atanh)
chk('dimerization', lambda t,be,kf,C0: I.dimerization_irrev(t,kf,C0), lambda es,kf,C0:(-2*kf*es[0]**2,), lambda kf,C0:(C0,), ['kf','C0'], sp)
chk('pseudo_irrev', lambda t,be,kf,P,Y,Z: I.pseudo_irrev(t,kf,P,Y,Z,backend=be), lambda es,kf,P,Y,Z:(kf*Y*(Z-(es[0]-P)),), lambda kf,P,Y,Z:(P,), ['kf','P','Y','Z'], sp)
chk('pseudo_rev', lambda t,be,kf,kb,P,Y,Z: I.pseudo_rev(t,kf,kb,P,Y,Z,backend=be), lambda es,kf,kb,P,Y,Z:(kf*Y*(Z-(es[0]-P))-kb*es[0],), lambda kf,kb,P,Y,Z:(P,), ['kf','kb','P','Y','Z'], sp)
chk('binary_irrev', lambda t,be,kf,P,Y,Z: I.binary_irrev(t,kf,P,Y,Z,backend=be), lambda es,kf,P,Y,Z:(kf*(Y-(es[0]-P))*(Z-(es[0]-P)),), lambda kf,P,Y,Z:(P,), ['kf','P','Y','Z'], sp)
chk('binary_rev', lambda t,be,kf,kb,P,Y,Z: I.binary_rev(t,kf,kb,P,Y,Z,backend=be), lambda es,kf,kb,P,Y,Z:(kf*(Y-(es[0]-P))*(Z-(es[0]-P))-kb*es[0],), lambda kf,kb,P,Y,Z:(P,), ['kf','kb','P','Y','Z'], sp)
chk('unary_cstr', lambda t,be,k,r,p,fr,fp,fv: I.unary_irrev_cstr(t,k,r,p,fr,fp,fv,backend=be), lambda es,k,r,p,fr,fp,fv:(fv*(fr-es[0])-k*es[0], fv*(fp-es[1])+k*es[0]), lambda k,r,p,fr,fp,fv:(r,p), ['k','r','p','fr','fp','fv'], sp)
chk('binary_cstr(sympy as shipped)', lambda t,be,k,r,p,fr,fp,fv: I.binary_irrev_cstr(t,k,r,p,fr,fp,fv,backend=be), lambda es,k,r,p,fr,fp,fv:(fv*(fr-es[0])-2*k*es[0]**2, fv*(fp-es[1])+k*es[0]**2), lambda k,r,p,fr,fp,fv:(r,p), ['k','r','p','fr','fp','fv'], sp)
chk('binary_cstr(patched ns)', lambda t,be,k,r,p,fr,fp,fv: I.binary_irrev_cstr(t,k,r,p,fr,fp,fv,backend=besp), lambda es,k,r,p,fr,fp,fv:(fv*(fr-es[0])-2*k*es[0]**2, fv*(fp-es[1])+k*es[0]**2), lambda k,r,p,fr,fp,fv:(r,p), ['k','r','p','fr','fp','fv'], besp)
nn=nan=0
for vals in itertools.product([1/3,2.,5.],repeat=6):
    with np.errstate(all='ignore'):
        a,b=I.binary_irrev_cstr(1.0,*vals)
    nn+=1; nan+= (not np.isfinite(a)) or (not np.isfinite(b))
print('numpy binary_cstr non-finite', nan,'of',nn)

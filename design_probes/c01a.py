import sys, itertools, string, time
sys.path.insert(0,'/repo')
import chempy; assert chempy.__file__.startswith('/repo/')
from chempy.util.parsing import formula_to_composition as f
from chempy.util.periodic import symbols
t0=time.time()
bad=[]
n=0
for L in (1,2,3):
    for cap in string.ascii_uppercase:
        for low in itertools.product(string.ascii_lowercase, repeat=L-1):
            s=cap+''.join(low); n+=1
            try: r=f(s); ok=True
            except Exception as e: ok=False
            if s in symbols:
                if not ok or r!={symbols.index(s)+1:1}: bad.append((s,'should accept',ok and r))
            else:
                if ok: bad.append((s,'should reject',r))
print(n, len(bad), bad[:20], time.time()-t0)
bad=[]
for a in symbols:
    for b in symbols:
        s=a+b
        exp={}
        exp[symbols.index(a)+1]=exp.get(symbols.index(a)+1,0)+1
        exp[symbols.index(b)+1]=exp.get(symbols.index(b)+1,0)+1
        try: r=f(s)
        except Exception as e: r=repr(e)[:40]
        if r!=exp: bad.append((s,r))
        s2=a+'2'+b+'3'
        exp2={}
        exp2[symbols.index(a)+1]=exp2.get(symbols.index(a)+1,0)+2
        exp2[symbols.index(b)+1]=exp2.get(symbols.index(b)+1,0)+3
        try: r=f(s2)
        except Exception as e: r=repr(e)[:40]
        if r!=exp2: bad.append((s2,r))
print(len(bad), bad[:20], time.time()-t0)

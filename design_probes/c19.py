import sys, warnings, collections
sys.path.insert(0,'/repo')
import numpy as np
from chempy.units import default_units as u, to_unitless
from chempy.properties.water_density_tanaka_2001 import water_density
from chempy.properties.water_diffusivity_holz_2000 import water_self_diffusion_coefficient as wd
from chempy.properties.water_permittivity_bradley_pitzer_1979 import water_permittivity
from chempy.properties.water_viscosity_korson_1969 import water_viscosity
from chempy.properties.sulfuric_acid_density_myhre_1998 import sulfuric_acid_density
def warned(f):
    with warnings.catch_warnings(record=True) as w:
        warnings.simplefilter('always'); v=f()
    return v, len(w)>0
res=collections.Counter(); ex={}
def grid(lo,hi,step): 
    n=int(round((hi-lo)/step)); return [lo+i*step for i in range(n+1)]
for name,fn,lo,hi,unit in [('dens',water_density,273.15,313.15,u.kg/u.m**3),('diff',wd,273.15,373.15,u.m**2/u.s),('visc',water_viscosity,273.15,373.15,None),('perm',water_permittivity,273.15,623.15,None)]:
    worst=0
    for T in grid(lo-10,hi+10,0.5)+[lo,hi,lo-1e-9,hi+1e-9]:
        inside = lo<=T<=hi
        v,w=warned(lambda: fn(T))
        if w==inside: res[name+' warn']+=1; ex.setdefault(name+' warn',(T,w))
        if unit is not None or name=='perm':
            try:
                v2,w2=warned(lambda: fn(T*u.K, units=u))
                m=to_unitless(v2,unit) if unit is not None else to_unitless(v2)
                worst=max(worst,abs(m/v-1))
                if w2!=w: res[name+' warn-units']+=1; ex.setdefault(name+' warn-units',(T,w,w2))
                v3,w3=warned(lambda: fn((T*1.8)*u.rankine, units=u))
                m3=to_unitless(v3,unit) if unit is not None else to_unitless(v3)
                worst=max(worst,abs(m3/v-1))
                if w3!=w: res[name+' warn-R']+=1; ex.setdefault(name+' warn-R',(T,w,w3))
            except Exception as e: res[name+' exc']+=1; ex.setdefault(name+' exc',(T,repr(e)[:80]))
    print(name,'worst rel',worst)
print(dict(res)); print(ex)
Ts=np.array(grid(273.15,313.15,0.01)); r=water_density(Ts, warn=False); print('rho max at', Ts[np.argmax(r)]-273.15, r.max())
print(water_viscosity(293.15), water_permittivity(298.15), wd(298.15))

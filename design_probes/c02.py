import sys, itertools, time, os, warnings
sys.path.insert(0,'/repo')
warnings.simplefilter('ignore')
from fractions import Fraction as Fr
from math import gcd
from functools import reduce
import multiprocessing as mp

VEC = [(a,b,0) for a in (0,1,2) for b in (0,1,2) if (a,b)!=(0,0)] + [(1,0,1),(0,1,-1),(1,1,-1),(0,0,-1)]
NAMES = ['S%d'%i for i in range(len(VEC))]

def nullspace(M, ncols):
    # M: list of rows (Fractions). returns basis of nullspace (list of vectors)
    M=[list(r) for r in M]; piv=[]; r=0
    for c in range(ncols):
        p=None
        for i in range(r,len(M)):
            if M[i][c]!=0: p=i;break
        if p is None: continue
        M[r],M[p]=M[p],M[r]
        pv=M[r][c]; M[r]=[x/pv for x in M[r]]
        for i in range(len(M)):
            if i!=r and M[i][c]!=0:
                fct=M[i][c]; M[i]=[x-fct*y for x,y in zip(M[i],M[r])]
        piv.append(c); r+=1
        if r==len(M): break
    free=[c for c in range(ncols) if c not in piv]
    basis=[]
    for fc in free:
        v=[Fr(0)]*ncols; v[fc]=Fr(1)
        for i,pc in enumerate(piv): v[pc]=-M[i][fc]
        basis.append(v)
    return basis

def primitive(v):
    den=reduce(lambda a,b:a*b//gcd(a,b),[x.denominator for x in v],1)
    iv=[int(x*den) for x in v]; g=reduce(gcd,[abs(x) for x in iv],0) or 1
    return [x//g for x in iv]

def analyse(A, n):
    ns=nullspace(A,n)
    # extreme rays: subsets of columns of size<=rank+1 whose restricted nullspace is 1-dim and same-sign
    rank=n-len(ns)
    support=set(); rays=[]
    for k in range(1,min(n,rank+1)+1):
        for cols in itertools.combinations(range(n),k):
            sub=[[row[c] for c in cols] for row in A]
            b=nullspace(sub,k)
            if len(b)!=1: continue
            v=primitive(b[0])
            if all(x>0 for x in v) or all(x<0 for x in v):
                support|=set(cols)
                rays.append((cols,[abs(x) for x in v]))
    feasible = len(support)==n
    return ns, feasible, rays

def min_sum_exists_below(A, n, s):
    # is there positive integer x with A x = 0 and sum(x) < s ?
    def rec(i, rem, x):
        if i==n:
            return all(sum(r[j]*x[j] for j in range(n))==0 for r in A)
        for v in range(1, rem-(n-i-1)+1):
            x.append(v)
            if rec(i+1, rem-v, x): return True
            x.pop()
        return False
    for tot in range(n, s):
        # exact total tot
        def rec2(i, rem, x):
            if i==n-1:
                if rem<1: return False
                x.append(rem); ok=all(sum(r[j]*x[j] for j in range(n))==0 for r in A); 
                if ok: return list(x)
                x.pop(); return False
            for v in range(1, rem-(n-i-1)+1):
                x.append(v); r=rec2(i+1, rem-v, x)
                if r: return r
                x.pop()
            return False
        r=rec2(0,tot,[])
        if r: return r
    return None

def run(task):
    import sympy
    from chempy import Substance, balance_stoichiometry
    R,P=task
    subs={NAMES[i]:Substance(NAMES[i],composition={k:v for k,v in zip((1,2,0),VEC[i]) if v!=0}) for i in R+P}
    keys=[NAMES[i] for i in R+P]; n=len(keys)
    A=[[Fr(VEC[i][row])*(-1 if i in R else 1) for i in R+P] for row in range(3)]
    A=[r for r in A if any(r)]
    ns,feasible,rays=analyse(A,n)
    out=[]
    for mode in (True,False,None):
        try:
            r,p=balance_stoichiometry([NAMES[i] for i in R],[NAMES[i] for i in P],substances=subs,underdetermined=mode)
            res=('ok',dict(r),dict(p))
        except ValueError as e: res=('ValueError',str(e)[:50])
        except Exception as e: res=('EXC '+type(e).__name__,str(e)[:50])
        v=[]
        if res[0]=='ok':
            x=[res[1].get(k,res[2].get(k)) for k in keys]
            if list(res[1])!=[NAMES[i] for i in R] or list(res[2])!=[NAMES[i] for i in P]: v.append('keys')
            resid=[sympy.expand(sum(sympy.Rational(r_[j].numerator,r_[j].denominator)*x[j] for j in range(n))) for r_ in A]
            if any(e!=0 for e in resid): v.append('unbalanced')
            if mode is not True or not any(getattr(e,'free_symbols',None) for e in x):
                ints=all(sympy.sympify(e).is_Integer for e in x)
                if mode is not True:
                    if not ints: v.append('nonint')
                    elif any(e<=0 for e in x): v.append('nonpositive')
                    elif reduce(gcd,[int(e) for e in x])!=1: v.append('noncoprime')
            if not feasible: v.append('infeasible-but-returned')
            if feasible and len(ns)==1:
                g=primitive(ns[0]); g=[abs(t) for t in g]
                if [sympy.sympify(e) for e in x]!=[sympy.Integer(t) for t in g]: v.append('not-unique-minimal %s'%g)
            if mode is None and 'nonint' not in v and 'nonpositive' not in v and feasible:
                s=sum(int(e) for e in x)
                b=min_sum_exists_below(A,n,s)
                if b: v.append('not-min-sum %s'%b)
        else:
            if res[0]!='ValueError': v.append('wrong-exc')
            if feasible and not (mode is False and len(ns)>1): v.append('refused-feasible')
        if v: out.append((R,P,mode,res,v))
    return (feasible,len(ns)),out

if __name__=='__main__':
    tasks=[]
    idx=list(range(len(VEC)))
    for nr,np_ in [(1,1),(1,2),(2,1),(2,2),(1,3),(3,1)]:
        for R in itertools.combinations(idx,nr):
            rest=[i for i in idx if i not in R]
            for P in itertools.combinations(rest,np_):
                tasks.append((R,P))
    t0=time.time()
    import collections
    cnt=collections.Counter(); viol=[]
    with mp.Pool(16) as pool:
        for st,out in pool.imap_unordered(run,tasks,chunksize=20):
            cnt[st]+=1; viol+=out
    print(len(tasks), time.time()-t0, cnt)
    c2=collections.Counter((str(v[2]),tuple(x.split(' ')[0] for x in v[4])) for v in viol)
    for k,n in sorted(c2.items(), key=lambda kv:-kv[1]): print(n,k)
    seen=set()
    for v in viol:
        k=(str(v[2]),tuple(x.split(' ')[0] for x in v[4]))
        if k in seen: continue
        seen.add(k)
        print([VEC[i] for i in v[0]],'->',[VEC[i] for i in v[1]],v[2:])
    sym=[v for v in viol if v[2] is True and any(getattr(e,'free_symbols',None) for e in list(v[3][1].values())+list(v[3][2].values()))]
    print('True-mode violations with free symbols:', len(sym), 'without:', sum(1 for v in viol if v[2] is True)-len(sym))
    for v in sym[:6]: print([VEC[i] for i in v[0]],'->',[VEC[i] for i in v[1]],v[3])

import sys, itertools, time, warnings, collections
sys.path.insert(0,'/repo'); warnings.simplefilter('ignore')
from fractions import Fraction as Fr
from chempy import Equilibrium as E
KEYS='A B C D X'.split(); PR=[2,3,5,7]
BASE=[({'A':1,'B':2},{'C':1}),({'C':1},{'D':2,'A':1}),({'A':1,'X':1},{'B':1,'X':1}),({'D':3},{'B':1})]
base=[E(r,p,Fr(PR[i])) for i,(r,p) in enumerate(BASE)]
def vec(r,p): return tuple(p.get(k,0)-r.get(k,0) for k in KEYS)
bvec=[vec(r,p) for r,p in BASE]
def expo(fr):
    out=[]
    n,d=fr.numerator,fr.denominator
    for pr in PR:
        e=0
        while n%pr==0: n//=pr; e+=1
        while d%pr==0: d//=pr; e-=1
        out.append(e)
    assert n==1 and d==1, fr
    return tuple(out)
# state: (netvec, expvec) -> real object ; start from bases
front={}
for i,b in enumerate(base): front[(bvec[i], tuple(1 if j==i else 0 for j in range(4)))]=(b,('b%d'%i,))
seen=dict(front); bad=[]; trans=0
D=int(sys.argv[1])
for depth in range(D):
    new={}
    for (nv,ev),(obj,hist) in front.items():
        ops=[]
        for n in (-3,-2,-1,2,3): ops.append(('%d*'%n, lambda o,n=n:n*o, tuple(n*x for x in nv), tuple(n*x for x in ev)))
        for i,b in enumerate(base):
            ops.append(('+b%d'%i, lambda o,b=b:o+b, tuple(x+y for x,y in zip(nv,bvec[i])), tuple(x+(1 if j==i else 0) for j,x in enumerate(ev))))
            ops.append(('-b%d'%i, lambda o,b=b:o-b, tuple(x-y for x,y in zip(nv,bvec[i])), tuple(x-(1 if j==i else 0) for j,x in enumerate(ev))))
        for name,fn,mv,me in ops:
            trans+=1
            try: r=fn(obj)
            except ValueError as e:
                if any(mv): bad.append(('raised',hist+(name,),str(e)))
                continue
            except Exception as e:
                bad.append(('exc',hist+(name,),repr(e))); continue
            if not any(mv): bad.append(('zero-returned',hist+(name,))); continue
            got=r.net_stoich(KEYS)
            if tuple(got)!=mv: bad.append(('net',hist+(name,),got,mv))
            if any(v<=0 for d in (r.reac,r.prod,r.inact_reac,r.inact_prod) for v in d.values()): bad.append(('nonpos',hist+(name,),dict(r.reac),dict(r.prod)))
            if name[0] in '+-' and name[1]=='b' and (set(r.reac)&set(r.prod)): bad.append(('both-sides',hist+(name,)))
            try:
                if expo(Fr(r.param))!=me: bad.append(('param',hist+(name,),r.param,me))
            except Exception as e: bad.append(('param-exc',hist+(name,),repr(e)))
            k=(mv,me)
            if k in seen:
                o2=seen[k][0]
                if name[0] in '+-' and name[1]=='b' and not set(o2.reac)&set(o2.prod) and not (r==o2): bad.append(('diff',hist+(name,),seen[k][1]))
            else:
                seen[k]=(r,hist+(name,)); new[k]=(r,hist+(name,))
    front=new
    print('depth',depth+1,'states',len(seen),'trans',trans,'bad',len(bad))
print(collections.Counter(b[0] for b in bad)); 
for b in bad[:10]:
    print(b)
# eliminate
badE=[]; n=0
for a in range(-6,7):
    for b in range(-6,7):
        if a==0 or b==0: continue
        e1=E({'A':-a} if a<0 else {'Q':1},{'A':a} if a>0 else {'Q':1}) if False else E(({'A':-a,'P':1} if a<0 else {'P':1}),({'A':a,'Q':1} if a>0 else {'Q':1}))
        e2=E(({'A':-b,'R':1} if b<0 else {'R':1}),({'A':b,'S':1} if b>0 else {'S':1}))
        n+=1
        try:
            m=E.eliminate([e1,e2],'A')
            ok=all(int(x)==x and x!=0 for x in m) and m[0]*a+m[1]*b==0
            if not ok: badE.append((a,b,m))
        except Exception as ex: badE.append((a,b,type(ex).__name__))
print('eliminate',n,len(badE),badE[:12])

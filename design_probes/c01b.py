import sys, itertools, time
from fractions import Fraction as Fr
sys.path.insert(0,'/repo')
import chempy; assert chempy.__file__.startswith('/repo/')
from chempy.util.parsing import formula_to_composition as f, formula_to_latex as TL, formula_to_unicode as TU, formula_to_html as TH
from chempy.util.periodic import symbols
EL=['H','C','O','Co','Na']; CNT=['2','10','1.5']; BR=['()','[]','{}']
CHG=['+','-','+2','-3','+10','-12']; PRE=['.','alpha-']; SUF=['(s)','(aq)']; PRIME=['*',"'"]; HYD=['..','·']; HK=['','7']
# tree: part = tuple of terms; term = ('el',sym,count) | ('gr',br,part,count)
from functools import lru_cache
@lru_cache(None)
def parts(n):  # all parts with exact cost n
    if n==0: return [()]
    out=[]
    for c in range(1,n+1):
        for t in terms(c):
            for rest in parts(n-c):
                out.append((t,)+rest)
    return out
@lru_cache(None)
def terms(c):
    out=[]
    if c==1: out+=[('el',e,'') for e in EL]
    if c==2: out+=[('el',e,k) for e in EL for k in CNT]
    if c>=2:
        for b in BR:
            for p in parts(c-1):
                if p: out.append(('gr',b,p,''))
    if c>=3:
        for b in BR:
            for p in parts(c-2):
                if p:
                    for k in CNT: out.append(('gr',b,p,k))
    return out
def s_part(p): return ''.join(s_term(t) for t in p)
def s_term(t):
    if t[0]=='el': return t[1]+t[2]
    return t[1][0]+s_part(t[2])+t[1][1]+t[3]
def comp_part(p, mult, acc):
    for t in p:
        k=Fr(t[-1]) if t[-1] else Fr(1)
        if t[0]=='el':
            z=symbols.index(t[1])+1; acc[z]=acc.get(z,0)+mult*k
        else: comp_part(t[2], mult*k, acc)
SUB={'latex':lambda x:'_{%s}'%x,'html':lambda x:'<sub>%s</sub>'%x,'unicode':lambda x:''.join('₀₁₂₃₄₅₆₇₈₉'[int(ch)] if ch!='.' else '.' for ch in x)}
SUP={'latex':lambda x:'^{%s}'%x,'html':lambda x:'<sup>%s</sup>'%x,'unicode':lambda x:''.join({'+':'⁺','-':'⁻'}.get(ch) or '⁰¹²³⁴⁵⁶⁷⁸⁹'[int(ch)] for ch in x)}
def r_part(p,fmt): return ''.join(r_term(t,fmt) for t in p)
def r_term(t,fmt):
    k=SUB[fmt](t[-1]) if t[-1] else ''
    if t[0]=='el': return t[1]+k
    o,c=t[1]
    if fmt=='latex' and o=='{': o,c='\\{','\\}'
    return o+r_part(t[2],fmt)+c+k
PREM={'latex':{'.':'^\\bullet ','alpha-':'\\alpha-'},'unicode':{'.':'⋅','alpha-':'α-'},'html':{'.':'&sdot;','alpha-':'&alpha;-'}}
INF={'latex':'\\cdot ','unicode':'·','html':'&sdot;'}
def full(N):
    # yields (string, refcomp, renders)
    for a in range(1,N+1):
        for core in parts(a):
            hopts=[(0,None)]
            for b in range(1,N-a):
                for hp in parts(b):
                    for hs in HYD:
                        hopts.append((1+b,(hs,'',hp)))
                        if 2+b+a<=N: hopts.append((2+b,(hs,'7',hp)))
            for hc,h in hopts:
                rem=N-a-hc
                if rem<0: continue
                for nd in range(0,min(4,rem)+1):
                    for which in itertools.combinations(range(4),nd):
                        opts=[[None]]*4
                        lists=[CHG,PRE,SUF,PRIME]
                        choices=[lists[i] if i in which else [None] for i in range(4)]
                        for chg,pre,suf,pr in itertools.product(*choices):
                            yield core,h,chg,pre,suf,pr
def build(core,h,chg,pre,suf,pr):
    s=(pre or '')+s_part(core)
    acc={}
    comp_part(core,Fr(1),acc)
    if h:
        s+=h[0]+h[1]+s_part(h[2]); comp_part(h[2],Fr(h[1]) if h[1] else Fr(1),acc)
    s+=(pr or '')+(chg or '')+(suf or '')
    ref={z:(int(v) if v.denominator==1 else float(v)) for z,v in acc.items()}
    if chg:
        mag=chg[1:] or '1'; ref[0]=int(mag)*(1 if chg[0]=='+' else -1)
    rend={}
    for fmt in ('latex','unicode','html'):
        r=(PREM[fmt][pre] if pre else '')+r_part(core,fmt)
        if h:
            r+=INF[fmt]+(h[1] if h[1] not in ('','1') else '')+r_part(h[2],fmt)
        r+=(pr or '')
        if chg:
            mag=chg[1:]; mag='' if mag in ('','1') else mag
            r+=SUP[fmt](mag+chg[0])
        r+=(suf or '')
        rend[fmt]=r
    return s,ref,rend
N=int(sys.argv[1]); t0=time.time(); n=0; bad=[]; seen=set()
for st in full(N):
    s,ref,rend=build(*st)
    if s in seen: continue
    seen.add(s); n+=1
    try: got=f(s)
    except Exception as e: got='EXC '+repr(e)[:60]
    if got!=ref: bad.append(('comp',s,got,ref))
    for fmt,fn in (('latex',TL),('unicode',TU),('html',TH)):
        try: g=fn(s)
        except Exception as e: g='EXC '+repr(e)[:60]
        if g!=rend[fmt]: bad.append((fmt,s,g,rend[fmt]))
print(N,n,len(bad),time.time()-t0)
import collections
print(collections.Counter(b[0] for b in bad))
for b in bad[:25]: print(b)
